import LlgoVerif.Model.HMap
import LlgoVerif.Spec.AssocList
/-!
# Lemmas for C06: chains of cells against the association-list specification

`chainAbs` reads a list of cells as an association list (the live cells, in order).  The chain-level lemmas
say what `lookupChain`, `scanAssign`, `scanDelete`/`deleteAt` (with the emptyRest back-propagation) do to it;
`WF` is the invariant of the whole table.
-/
namespace LlgoVerif.HMap
open LlgoVerif.AssocList

variable {K V : Type}

/-! ## tophash marks -/

/-- a filled cell (`tophash >= minTopHash`) -/
def Cell.live (c : Cell K V) : Bool := decide (5 ≤ c.top.toNat)

def kv (c : Cell K V) : K × V := (c.key, c.val)

/-- the association list a list of cells stands for -/
def chainAbs (c : List (Cell K V)) : AList K V := (c.filter Cell.live).map kv

@[simp] theorem chainAbs_nil : chainAbs ([] : List (Cell K V)) = [] := rfl

theorem chainAbs_append (a b : List (Cell K V)) : chainAbs (a ++ b) = chainAbs a ++ chainAbs b := by
  simp [chainAbs]

theorem chainAbs_cons_live {x : Cell K V} {c : List (Cell K V)} (h : x.live = true) :
    chainAbs (x :: c) = (x.key, x.val) :: chainAbs c := by
  simp [chainAbs, h, kv]

theorem chainAbs_cons_dead {x : Cell K V} {c : List (Cell K V)} (h : x.live = false) :
    chainAbs (x :: c) = chainAbs c := by
  simp [chainAbs, h]

theorem chainAbs_nil_of_dead {c : List (Cell K V)} (h : ∀ x ∈ c, x.live = false) : chainAbs c = [] := by
  induction c with
  | nil => rfl
  | cons x r ih =>
    rw [chainAbs_cons_dead (h x (by simp))]
    exact ih (fun y hy => h y (by simp [hy]))

theorem mem_chainAbs {c : List (Cell K V)} {p : K × V} (h : p ∈ chainAbs c) :
    ∃ x ∈ c, x.live = true ∧ p = (x.key, x.val) := by
  simp only [chainAbs, List.mem_map, List.mem_filter] at h
  obtain ⟨x, ⟨hx, hl⟩, rfl⟩ := h
  exact ⟨x, hx, hl, rfl⟩

theorem tophash_toNat_ge (h : UInt64) : 5 ≤ (tophash h).toNat := by
  unfold tophash minTopHash
  generalize (h >>> 56).toUInt8 = t
  have h5 : (5 : UInt8).toNat = 5 := rfl
  simp only
  split
  · rename_i hlt
    rw [UInt8.lt_iff_toNat_lt] at hlt
    rw [UInt8.toNat_add]
    omega
  · rename_i hlt
    rw [UInt8.lt_iff_toNat_lt] at hlt
    omega

theorem live_of_top_eq {x : Cell K V} {h : UInt64} (e : x.top = tophash h) : x.live = true := by
  simp [Cell.live, e, tophash_toNat_ge]

theorem dead_of_emptyRest {x : Cell K V} (e : x.top = emptyRest) : x.live = false := by
  simp [Cell.live, e, emptyRest]

theorem dead_of_isEmpty {x : Cell K V} (e : isEmptyTop x.top = true) : x.live = false := by
  simp only [isEmptyTop, emptyOne, decide_eq_true_eq, UInt8.le_iff_toNat_le] at e
  simp only [Cell.live, decide_eq_false_iff_not]
  have : (1 : UInt8).toNat = 1 := rfl
  omega

/-! ## invariants of one chain -/

/-- emptyRest discipline: no filled cell behind an `emptyRest` cell -/
def RestOK : List (Cell K V) → Prop
  | [] => True
  | c :: cs => (c.top = emptyRest → ∀ x ∈ cs, x.live = false) ∧ RestOK cs

/-- filled cells with a reflexive key carry the tophash of their key -/
def TopsOK (o : Ops K) (seed : UInt32) (c : List (Cell K V)) : Prop :=
  ∀ x ∈ c, x.live = true → o.eq x.key x.key = true → x.top = tophash (o.hash seed x.key)

/-- what the runtime assumes about hasher and `==` -/
structure HashOK (o : Ops K) : Prop where
  eqok : EqOK o.eq
  hash_eq : ∀ s a b, o.eq a b = true → o.hash s a = o.hash s b

theorem TopsOK.tail {o : Ops K} {s : UInt32} {x : Cell K V} {c : List (Cell K V)} (h : TopsOK o s (x :: c)) :
    TopsOK o s c := fun y hy => h y (by simp [hy])

/-- a filled cell whose tophash differs from the one of `k` does not hold a key equal to `k` -/
theorem ne_of_top_ne {o : Ops K} (ho : HashOK o) {s : UInt32} {x : Cell K V} {k : K} {top : UInt8}
    (htk : o.eq k k = true → top = tophash (o.hash s k))
    (ht : x.live = true → o.eq x.key x.key = true → x.top = tophash (o.hash s x.key))
    (hl : x.live = true) (hne : x.top ≠ top) : o.eq k x.key = false := by
  cases hk : o.eq k x.key with
  | false => rfl
  | true =>
    exfalso
    apply hne
    rw [ht hl (ho.eqok.refl_right hk), htk (ho.eqok.refl_left hk), ho.hash_eq s k x.key hk]

theorem live_of_top_ge5 {x : Cell K V} {top : UInt8} (h5 : 5 ≤ top.toNat) (e : x.top = top) : x.live = true := by
  simp [Cell.live, e, h5]

/-! ## mapaccess on a chain -/

theorem lookup_chainAbs (eq : K → K → Bool) (k : K) (c : List (Cell K V)) :
    lookup eq k (chainAbs c) = ((c.filter Cell.live).find? (fun x => eq k x.key)).map (·.val) := by
  induction c with
  | nil => rfl
  | cons x r ih =>
    cases hl : x.live with
    | false => rw [chainAbs_cons_dead hl]; simp [hl, ih]
    | true =>
      rw [chainAbs_cons_live hl]
      simp only [lookup, List.filter_cons, hl, if_true, List.find?_cons]
      cases eq k x.key <;> simp [ih]

/-- `lookupChain` finds the first filled cell whose key equals `k` -/
theorem lookupChain_eq {o : Ops K} (ho : HashOK o) {s : UInt32} {k : K} {top : UInt8} (h5 : 5 ≤ top.toNat) (htk : o.eq k k = true → top = tophash (o.hash s k)) {c : List (Cell K V)}
    (hr : RestOK c) (ht : TopsOK o s c) :
    lookupChain o.eq top k c = (c.filter Cell.live).find? (fun x => o.eq k x.key) := by
  induction c with
  | nil => rfl
  | cons x r ih =>
    have ih := ih hr.2 ht.tail
    simp only [lookupChain]
    by_cases htop : x.top = top
    · have hl : x.live = true := live_of_top_ge5 h5 htop
      simp only [htop, bne_self_eq_false, Bool.false_eq_true, if_false, List.filter_cons, hl, if_true,
        List.find?_cons]
      cases o.eq k x.key <;> simp [ih]
    · have hne : (x.top != top) = true := by simpa using htop
      simp only [hne, if_true]
      by_cases h0 : x.top = emptyRest
      · have hd := hr.1 h0
        have : (x :: r).filter Cell.live = [] := by
          simp only [List.filter_eq_nil_iff, List.mem_cons]
          rintro y (rfl | hy)
          · simp [dead_of_emptyRest h0]
          · simp [hd y hy]
        simp [h0, this]
      · have h0' : (x.top == emptyRest) = false := by simpa using h0
        simp only [h0', Bool.false_eq_true, if_false, ih]
        cases hl : x.live with
        | false => simp [hl]
        | true =>
          have := ne_of_top_ne ho htk (ht x (by simp)) hl htop
          simp [hl, this]

/-! ## mapassign on a chain -/

theorem RestOK_append_nonzero {l1 l2 : List (Cell K V)} (h1 : ∀ y ∈ l1, y.top ≠ emptyRest) :
    RestOK (l1 ++ l2) ↔ RestOK l2 := by
  induction l1 with
  | nil => simp
  | cons x r ih =>
    simp only [List.cons_append, RestOK]
    rw [ih (fun y hy => h1 y (by simp [hy]))]
    constructor
    · exact fun h => h.2
    · exact fun h => ⟨fun e => absurd e (h1 x (by simp)), h⟩

theorem top_ne_zero_of_not_empty {x : Cell K V} (h : isEmptyTop x.top = false) : x.top ≠ emptyRest := by
  intro e
  rw [e] at h
  simp [isEmptyTop, emptyRest, emptyOne] at h

/-- with a free slot already remembered, the scan never changes it -/
theorem scanAssign_some (eq : K → K → Bool) (top : UInt8) (k : K) (c : List (Cell K V)) (i0 a : Nat) :
    (∃ i, scanAssign eq top k c i0 (some a) = .found i) ∨ scanAssign eq top k c i0 (some a) = .notFound (some a) := by
  induction c generalizing i0 with
  | nil => right; rfl
  | cons x r ih =>
    simp only [scanAssign]
    split
    · simp only [Option.isNone_some, Bool.and_false, Bool.false_eq_true, if_false]
      split
      · right; rfl
      · exact ih (i0 + 1)
    · split
      · left; exact ⟨_, rfl⟩
      · exact ih (i0 + 1)

/-- `found i`: the chain splits at the first filled cell whose key equals `k` -/
theorem scanAssign_found {o : Ops K} (ho : HashOK o) {s : UInt32} {k : K} {top : UInt8} (h5 : 5 ≤ top.toNat) (htk : o.eq k k = true → top = tophash (o.hash s k)) {c : List (Cell K V)} {i0 i : Nat}
    {ins : Option Nat} (hr : RestOK c) (ht : TopsOK o s c)
    (h : scanAssign o.eq top k c i0 ins = .found i) :
    ∃ l1 x l2, c = l1 ++ x :: l2 ∧ i = i0 + l1.length ∧ x.live = true ∧ o.eq k x.key = true ∧
      Absent o.eq k (chainAbs l1) := by
  induction c generalizing i0 ins with
  | nil => simp [scanAssign] at h
  | cons x r ih =>
    simp only [scanAssign] at h
    by_cases htop : x.top = top
    · have hl : x.live = true := live_of_top_ge5 h5 htop
      simp only [htop, bne_self_eq_false, Bool.false_eq_true, if_false] at h
      cases hk : o.eq k x.key with
      | true =>
        simp only [hk, if_true] at h
        injection h with h
        exact ⟨[], x, r, rfl, by simp [h], hl, hk, by intro p hp; simp at hp⟩
      | false =>
        simp only [hk, Bool.false_eq_true, if_false] at h
        obtain ⟨l1, y, l2, rfl, hi, hyl, hyk, hab⟩ := ih hr.2 ht.tail h
        refine ⟨x :: l1, y, l2, rfl, by simp [hi]; omega, hyl, hyk, ?_⟩
        rw [chainAbs_cons_live hl]
        intro p hp
        rcases List.mem_cons.1 hp with rfl | hp
        · exact hk
        · exact hab p hp
    · have hne : (x.top != top) = true := by simpa using htop
      simp only [hne, if_true] at h
      split at h
      · simp at h
      · obtain ⟨l1, y, l2, rfl, hi, hyl, hyk, hab⟩ := ih hr.2 ht.tail h
        refine ⟨x :: l1, y, l2, rfl, by simp [hi]; omega, hyl, hyk, ?_⟩
        cases hl : x.live with
        | false => rw [chainAbs_cons_dead hl]; exact hab
        | true =>
          rw [chainAbs_cons_live hl]
          intro p hp
          rcases List.mem_cons.1 hp with rfl | hp
          · exact ne_of_top_ne ho htk (ht x (by simp)) hl htop
          · exact hab p hp

/-- `notFound`: no filled cell of the chain holds a key equal to `k` -/
theorem scanAssign_notFound_absent {o : Ops K} (ho : HashOK o) {s : UInt32} {k : K} {top : UInt8} (h5 : 5 ≤ top.toNat) (htk : o.eq k k = true → top = tophash (o.hash s k)) {c : List (Cell K V)} {i0 : Nat}
    {ins r : Option Nat} (hr : RestOK c) (ht : TopsOK o s c)
    (h : scanAssign o.eq top k c i0 ins = .notFound r) : Absent o.eq k (chainAbs c) := by
  induction c generalizing i0 ins with
  | nil => intro p hp; simp at hp
  | cons x r' ih =>
    simp only [scanAssign] at h
    by_cases htop : x.top = top
    · have hl : x.live = true := live_of_top_ge5 h5 htop
      simp only [htop, bne_self_eq_false, Bool.false_eq_true, if_false] at h
      cases hk : o.eq k x.key with
      | true => simp [hk] at h
      | false =>
        simp only [hk, Bool.false_eq_true, if_false] at h
        rw [chainAbs_cons_live hl]
        intro p hp
        rcases List.mem_cons.1 hp with rfl | hp
        · exact hk
        · exact ih hr.2 ht.tail h p hp
    · have hne : (x.top != top) = true := by simpa using htop
      simp only [hne, if_true] at h
      by_cases h0 : x.top = emptyRest
      · have hd := hr.1 h0
        have : chainAbs (x :: r') = [] := chainAbs_nil_of_dead (by
          intro y hy
          rcases List.mem_cons.1 hy with rfl | hy
          · exact dead_of_emptyRest h0
          · exact hd y hy)
        rw [this]; intro p hp; simp at hp
      · have h0' : (x.top == emptyRest) = false := by simpa using h0
        simp only [h0', Bool.false_eq_true, if_false] at h
        have := ih hr.2 ht.tail h
        cases hl : x.live with
        | false => rw [chainAbs_cons_dead hl]; exact this
        | true =>
          rw [chainAbs_cons_live hl]
          intro p hp
          rcases List.mem_cons.1 hp with rfl | hp
          · exact ne_of_top_ne ho htk (ht x (by simp)) hl htop
          · exact this p hp

theorem not_empty_of_ge5 {t : UInt8} (h : 5 ≤ t.toNat) : isEmptyTop t = false := by
  simp only [isEmptyTop, emptyOne, decide_eq_false_iff_not, UInt8.le_iff_toNat_le]
  have : (1 : UInt8).toNat = 1 := rfl
  omega

/-- what `notFound r` says about the free slot: every cell is occupied, or the chain splits at its first free cell -/
def SlotSpec (c : List (Cell K V)) (i0 : Nat) : Option Nat → Prop
  | none => ∀ x ∈ c, isEmptyTop x.top = false
  | some i => ∃ l1 x l2, c = l1 ++ x :: l2 ∧ i = i0 + l1.length ∧ isEmptyTop x.top = true ∧
      ∀ y ∈ l1, isEmptyTop y.top = false

theorem scanAssign_notFound_slot (eq : K → K → Bool) {top : UInt8} (h5 : 5 ≤ top.toNat) (k : K)
    {c : List (Cell K V)} {i0 : Nat} {r : Option Nat} (h : scanAssign eq top k c i0 none = .notFound r) :
    SlotSpec c i0 r := by
  induction c generalizing i0 with
  | nil => simp [scanAssign] at h; subst h; simp [SlotSpec]
  | cons x r' ih =>
    simp only [scanAssign] at h
    have step : ∀ (he : isEmptyTop x.top = false)
        (h : scanAssign eq top k r' (i0 + 1) none = .notFound r), SlotSpec (x :: r') i0 r := by
      intro he h
      have := ih h
      cases r with
      | none =>
        intro y hy
        rcases List.mem_cons.1 hy with rfl | hy
        · exact he
        · exact this y hy
      | some i =>
        obtain ⟨l1, y, l2, rfl, hi, hy, hall⟩ := this
        refine ⟨x :: l1, y, l2, rfl, by simp [hi]; omega, hy, ?_⟩
        intro z hz
        rcases List.mem_cons.1 hz with rfl | hz
        · exact he
        · exact hall z hz
    split at h
    · -- tophash differs
      cases he : isEmptyTop x.top with
      | true =>
        simp only [he, Option.isNone_none, Bool.and_self, if_true] at h
        have hr : r = some i0 := by
          split at h
          · injection h with h; exact h.symm
          · rcases scanAssign_some eq top k r' (i0 + 1) i0 with ⟨i, hi⟩ | hn
            · rw [hi] at h; cases h
            · rw [hn] at h; injection h with h; exact h.symm
        subst hr
        exact ⟨[], x, r', rfl, by simp, he, by simp⟩
      | false =>
        simp only [he, Bool.false_and, Bool.false_eq_true, if_false] at h
        have h0 : (x.top == emptyRest) = false := by simpa using top_ne_zero_of_not_empty he
        simp only [h0, Bool.false_eq_true, if_false] at h
        exact step he h
    · -- tophash equal
      rename_i htop
      have htop' : x.top = top := by simpa using htop
      have he : isEmptyTop x.top = false := by rw [htop']; exact not_empty_of_ge5 h5
      split at h
      · cases h
      · exact step he h

/-! ## mapdelete on a chain -/

theorem scanDelete_some {o : Ops K} (ho : HashOK o) {s : UInt32} {k : K} {top : UInt8} (h5 : 5 ≤ top.toNat) (htk : o.eq k k = true → top = tophash (o.hash s k)) {c : List (Cell K V)} {i0 i : Nat}
    (hr : RestOK c) (ht : TopsOK o s c)
    (h : scanDelete o.eq top k c i0 = some i) :
    ∃ l1 x l2, c = l1 ++ x :: l2 ∧ i = i0 + l1.length ∧ x.live = true ∧ o.eq k x.key = true ∧
      Absent o.eq k (chainAbs l1) := by
  induction c generalizing i0 with
  | nil => simp [scanDelete] at h
  | cons x r ih =>
    simp only [scanDelete] at h
    by_cases htop : x.top = top
    · have hl : x.live = true := live_of_top_ge5 h5 htop
      simp only [htop, bne_self_eq_false, Bool.false_eq_true, if_false] at h
      cases hk : o.eq k x.key with
      | true =>
        simp only [hk, if_true] at h
        injection h with h
        exact ⟨[], x, r, rfl, by simp [h], hl, hk, by intro p hp; simp at hp⟩
      | false =>
        simp only [hk, Bool.false_eq_true, if_false] at h
        obtain ⟨l1, y, l2, rfl, hi, hyl, hyk, hab⟩ := ih hr.2 ht.tail h
        refine ⟨x :: l1, y, l2, rfl, by simp [hi]; omega, hyl, hyk, ?_⟩
        rw [chainAbs_cons_live hl]
        intro p hp
        rcases List.mem_cons.1 hp with rfl | hp
        · exact hk
        · exact hab p hp
    · have hne : (x.top != top) = true := by simpa using htop
      simp only [hne, if_true] at h
      split at h
      · simp at h
      · obtain ⟨l1, y, l2, rfl, hi, hyl, hyk, hab⟩ := ih hr.2 ht.tail h
        refine ⟨x :: l1, y, l2, rfl, by simp [hi]; omega, hyl, hyk, ?_⟩
        cases hl : x.live with
        | false => rw [chainAbs_cons_dead hl]; exact hab
        | true =>
          rw [chainAbs_cons_live hl]
          intro p hp
          rcases List.mem_cons.1 hp with rfl | hp
          · exact ne_of_top_ne ho htk (ht x (by simp)) hl htop
          · exact hab p hp

theorem scanDelete_none {o : Ops K} (ho : HashOK o) {s : UInt32} {k : K} {top : UInt8} (h5 : 5 ≤ top.toNat) (htk : o.eq k k = true → top = tophash (o.hash s k)) {c : List (Cell K V)} {i0 : Nat}
    (hr : RestOK c) (ht : TopsOK o s c)
    (h : scanDelete o.eq top k c i0 = none) : Absent o.eq k (chainAbs c) := by
  induction c generalizing i0 with
  | nil => intro p hp; simp at hp
  | cons x r' ih =>
    simp only [scanDelete] at h
    by_cases htop : x.top = top
    · have hl : x.live = true := live_of_top_ge5 h5 htop
      simp only [htop, bne_self_eq_false, Bool.false_eq_true, if_false] at h
      cases hk : o.eq k x.key with
      | true => simp [hk] at h
      | false =>
        simp only [hk, Bool.false_eq_true, if_false] at h
        rw [chainAbs_cons_live hl]
        intro p hp
        rcases List.mem_cons.1 hp with rfl | hp
        · exact hk
        · exact ih hr.2 ht.tail h p hp
    · have hne : (x.top != top) = true := by simpa using htop
      simp only [hne, if_true] at h
      by_cases h0 : x.top = emptyRest
      · have hd := hr.1 h0
        have : chainAbs (x :: r') = [] := chainAbs_nil_of_dead (by
          intro y hy
          rcases List.mem_cons.1 hy with rfl | hy
          · exact dead_of_emptyRest h0
          · exact hd y hy)
        rw [this]; intro p hp; simp at hp
      · have h0' : (x.top == emptyRest) = false := by simpa using h0
        simp only [h0', Bool.false_eq_true, if_false] at h
        have := ih hr.2 ht.tail h
        cases hl : x.live with
        | false => rw [chainAbs_cons_dead hl]; exact this
        | true =>
          rw [chainAbs_cons_live hl]
          intro p hp
          rcases List.mem_cons.1 hp with rfl | hp
          · exact ne_of_top_ne ho htk (ht x (by simp)) hl htop
          · exact this p hp

/-- index form of the emptyRest discipline -/
theorem restOK_iff (c : List (Cell K V)) :
    RestOK c ↔ ∀ (i j : Nat) (x y : Cell K V), i < j → c[i]? = some x → c[j]? = some y → x.top = emptyRest → y.live = false := by
  induction c with
  | nil => simp [RestOK]
  | cons a r ih =>
    simp only [RestOK, ih]
    constructor
    · rintro ⟨h1, h2⟩ i j x y hij hx hy h0
      cases j with
      | zero => omega
      | succ j =>
        cases i with
        | zero =>
          simp at hx hy
          subst hx
          exact h1 h0 y (List.mem_of_getElem? hy)
        | succ i =>
          simp at hx hy
          exact h2 i j x y (by omega) hx hy h0
    · intro h
      constructor
      · intro h0 y hy
        obtain ⟨j, hj⟩ := List.getElem?_of_mem hy
        exact h 0 (j + 1) a y (by omega) (by simp) (by simpa using hj) h0
      · intro i j x y hij hx hy h0
        exact h (i + 1) (j + 1) x y (by omega) (by simpa using hx) (by simpa using hy) h0

theorem getElem?_setTop (c : List (Cell K V)) (i j : Nat) (t : UInt8) :
    (setTop c i t)[j]? = if i = j then (c[j]?).map (fun x => { x with top := t }) else c[j]? := by
  unfold setTop
  rw [List.getElem?_modify]
  split
  · simp
  · cases c[j]? <;> simp

theorem dead_of_lt5 {x : Cell K V} {t : UInt8} (ht : t.toNat < 5) : ({ x with top := t } : Cell K V).live = false := by
  simp [Cell.live]; omega

/-- overwriting a tophash by an "empty" mark keeps the discipline, provided `emptyRest` is only written where
    nothing filled follows -/
theorem restOK_setTop {c : List (Cell K V)} {i : Nat} {t : UInt8} (hr : RestOK c) (ht : t.toNat < 5)
    (h0 : t = emptyRest → ∀ j y, i < j → c[j]? = some y → y.live = false) : RestOK (setTop c i t) := by
  rw [restOK_iff] at hr ⊢
  intro a b x y hab hx hy hx0
  rw [getElem?_setTop] at hx hy
  by_cases hb : i = b
  · subst hb
    simp only [if_true] at hy
    cases hcb : c[i]? with
    | none => simp [hcb] at hy
    | some z => simp [hcb] at hy; subst hy; exact dead_of_lt5 ht
  · simp only [hb, if_false] at hy
    by_cases ha : i = a
    · subst ha
      simp only [if_true] at hx
      cases hca : c[i]? with
      | none => simp [hca] at hx
      | some z =>
        simp [hca] at hx
        subst hx
        exact h0 hx0 b y hab hy
    · simp only [ha, if_false] at hx
      exact hr a b x y hab hx hy hx0

theorem chainAbs_setTop {c : List (Cell K V)} {i : Nat} {t : UInt8} (ht : t.toNat < 5)
    (hd : ∀ x, c[i]? = some x → x.live = false) : chainAbs (setTop c i t) = chainAbs c := by
  induction c generalizing i with
  | nil => simp [setTop]
  | cons a r ih =>
    cases i with
    | zero =>
      have : setTop (a :: r) 0 t = { a with top := t } :: r := by simp [setTop]
      rw [this, chainAbs_cons_dead (dead_of_lt5 ht), chainAbs_cons_dead (hd a (by simp))]
    | succ i =>
      have : setTop (a :: r) (i + 1) t = a :: setTop r i t := by simp [setTop]
      rw [this]
      have ih := ih (i := i) (fun x hx => hd x (by simpa using hx))
      cases hl : a.live with
      | false => rw [chainAbs_cons_dead hl, chainAbs_cons_dead hl, ih]
      | true => rw [chainAbs_cons_live hl, chainAbs_cons_live hl, ih]

theorem mem_setTop_live {c : List (Cell K V)} {i : Nat} {t : UInt8} (ht : t.toNat < 5) {y : Cell K V}
    (hy : y ∈ setTop c i t) (hl : y.live = true) : y ∈ c := by
  obtain ⟨j, hj⟩ := List.getElem?_of_mem hy
  rw [getElem?_setTop] at hj
  split at hj
  · cases hc : c[j]? with
    | none => simp [hc] at hj
    | some z =>
      simp [hc] at hj
      subst hj
      rw [dead_of_lt5 ht] at hl
      cases hl
  · exact List.mem_of_getElem? hj

theorem setTop_split (l1 : List (Cell K V)) (x : Cell K V) (l2 : List (Cell K V)) (t : UInt8) :
    setTop (l1 ++ x :: l2) l1.length t = l1 ++ { x with top := t } :: l2 := by
  induction l1 with
  | nil => simp [setTop]
  | cons a r ih =>
    have : setTop (a :: r ++ x :: l2) (a :: r).length t = a :: setTop (r ++ x :: l2) r.length t := by
      simp [setTop]
    rw [this, ih]; rfl

/-- a chain consists of whole buckets: it is not empty and has a multiple of 8 cells -/
def Len8 (c : List (Cell K V)) : Prop := c ≠ [] ∧ c.length % 8 = 0

/-- no evacuation marks in a chain of the current table -/
def NoMarks (c : List (Cell K V)) : Prop := ∀ x ∈ c, x.top.toNat ≤ 1 ∨ 5 ≤ x.top.toNat

theorem noMarks_setTop {c : List (Cell K V)} {i : Nat} {t : UInt8} (hn : NoMarks c) (ht : t.toNat ≤ 1) :
    NoMarks (setTop c i t) := by
  intro y hy
  obtain ⟨j, hj⟩ := List.getElem?_of_mem hy
  rw [getElem?_setTop] at hj
  split at hj
  · cases hc : c[j]? with
    | none => simp [hc] at hj
    | some z => simp [hc] at hj; subst hj; left; exact ht
  · exact hn y (List.mem_of_getElem? hj)

/-- the emptyRest back-propagation loop, started at a cell from which on nothing is filled -/
theorem backProp_spec {c : List (Cell K V)} {j : Nat} (hr : RestOK c)
    (hd : ∀ n y, j ≤ n → c[n]? = some y → y.live = false) :
    RestOK (backProp c j) ∧ chainAbs (backProp c j) = chainAbs c ∧
      (∀ y ∈ backProp c j, y.live = true → y ∈ c) ∧ (NoMarks c → NoMarks (backProp c j)) := by
  have h0 : (emptyRest : UInt8).toNat = 0 := rfl
  induction j generalizing c with
  | zero =>
    simp only [backProp]
    refine ⟨restOK_setTop hr (by omega) (fun _ n y hn hy => hd n y (by omega) hy),
      chainAbs_setTop (by omega) (fun x hx => hd 0 x (by omega) hx),
      fun y hy hl => mem_setTop_live (by omega) hy hl, fun hn => noMarks_setTop hn (by omega)⟩
  | succ j ih =>
    simp only [backProp]
    have r1 : RestOK (setTop c (j + 1) emptyRest) :=
      restOK_setTop hr (by omega) (fun _ n y hn hy => hd n y (by omega) hy)
    have a1 : chainAbs (setTop c (j + 1) emptyRest) = chainAbs c :=
      chainAbs_setTop (by omega) (fun x hx => hd (j + 1) x (by omega) hx)
    have m1 : ∀ y ∈ setTop c (j + 1) emptyRest, y.live = true → y ∈ c :=
      fun y hy hl => mem_setTop_live (by omega) hy hl
    have n1 : NoMarks c → NoMarks (setTop c (j + 1) emptyRest) := fun hn => noMarks_setTop hn (by omega)
    split
    · exact ⟨r1, a1, m1, n1⟩
    · rename_i hne
      have h1 : topAt (setTop c (j + 1) emptyRest) j = some emptyOne := by simpa using hne
      have hd' : ∀ n y, j ≤ n → (setTop c (j + 1) emptyRest)[n]? = some y → y.live = false := by
        intro n y hn hy
        by_cases hnj : n = j
        · subst hnj
          simp only [topAt, hy, Option.map_some, Option.some.injEq] at h1
          simp [Cell.live, h1, emptyOne]
        · rw [getElem?_setTop] at hy
          split at hy
          · cases hc : c[n]? with
            | none => simp [hc] at hy
            | some z => simp [hc] at hy; subst hy; exact dead_of_lt5 (by omega)
          · exact hd n y (by omega) hy
      obtain ⟨r2, a2, m2, n2⟩ := ih r1 hd'
      exact ⟨r2, a2.trans a1, fun y hy hl => m1 y (m2 y hy hl) hl, fun hn => n2 (n1 hn)⟩

theorem setTop_length (c : List (Cell K V)) (i : Nat) (t : UInt8) : (setTop c i t).length = c.length := by
  simp [setTop]

theorem backProp_length (c : List (Cell K V)) (j : Nat) : (backProp c j).length = c.length := by
  induction j generalizing c with
  | zero => simp [backProp, setTop_length]
  | succ j ih =>
    simp only [backProp]
    split
    · exact setTop_length ..
    · rw [ih, setTop_length]

theorem deleteAt_length (c : List (Cell K V)) (i : Nat) : (deleteAt c i).length = c.length := by
  unfold deleteAt
  simp only
  split
  · split
    · exact setTop_length ..
    · rw [backProp_length, setTop_length]
  · rw [backProp_length, setTop_length]

/-- deleting the cell at which the chain splits: it disappears from the association list, every invariant stays -/
theorem deleteAt_spec {l1 l2 : List (Cell K V)} {x : Cell K V} (hr : RestOK (l1 ++ x :: l2)) :
    RestOK (deleteAt (l1 ++ x :: l2) l1.length) ∧
    chainAbs (deleteAt (l1 ++ x :: l2) l1.length) = chainAbs l1 ++ chainAbs l2 ∧
    (∀ y ∈ deleteAt (l1 ++ x :: l2) l1.length, y.live = true → y ∈ l1 ++ x :: l2) ∧
    (NoMarks (l1 ++ x :: l2) → NoMarks (deleteAt (l1 ++ x :: l2) l1.length)) := by
  have h1 : (emptyOne : UInt8).toNat = 1 := rfl
  have h0 : (emptyRest : UInt8).toNat = 0 := rfl
  have e1 : setTop (l1 ++ x :: l2) l1.length emptyOne = l1 ++ { x with top := emptyOne } :: l2 := setTop_split ..
  have r1 : RestOK (setTop (l1 ++ x :: l2) l1.length emptyOne) :=
    restOK_setTop hr (by omega) (fun e => by simp [emptyOne, emptyRest] at e)
  have a1 : chainAbs (setTop (l1 ++ x :: l2) l1.length emptyOne) = chainAbs l1 ++ chainAbs l2 := by
    rw [e1, chainAbs_append, chainAbs_cons_dead (dead_of_lt5 (by omega))]
  have m1 : ∀ y ∈ setTop (l1 ++ x :: l2) l1.length emptyOne, y.live = true → y ∈ l1 ++ x :: l2 :=
    fun y hy hl => mem_setTop_live (by omega) hy hl
  have n1 : NoMarks (l1 ++ x :: l2) → NoMarks (setTop (l1 ++ x :: l2) l1.length emptyOne) :=
    fun hn => noMarks_setTop hn (by omega)
  -- the case in which the loop runs
  have key : (∀ n y, l1.length ≤ n → (setTop (l1 ++ x :: l2) l1.length emptyOne)[n]? = some y → y.live = false) →
      RestOK (backProp (setTop (l1 ++ x :: l2) l1.length emptyOne) l1.length) ∧
      chainAbs (backProp (setTop (l1 ++ x :: l2) l1.length emptyOne) l1.length) = chainAbs l1 ++ chainAbs l2 ∧
      (∀ y ∈ backProp (setTop (l1 ++ x :: l2) l1.length emptyOne) l1.length, y.live = true → y ∈ l1 ++ x :: l2) ∧
      (NoMarks (l1 ++ x :: l2) → NoMarks (backProp (setTop (l1 ++ x :: l2) l1.length emptyOne) l1.length)) := by
    intro hd
    obtain ⟨r2, a2, m2, n2⟩ := backProp_spec r1 hd
    exact ⟨r2, a2.trans a1, fun y hy hl => m1 y (m2 y hy hl) hl, fun hn => n2 (n1 hn)⟩
  cases l2 with
  | nil =>
    have ht : topAt (setTop (l1 ++ [x]) l1.length emptyOne) (l1.length + 1) = none := by
      rw [e1]; simp [topAt]
    have hdel : deleteAt (l1 ++ [x]) l1.length = backProp (setTop (l1 ++ [x]) l1.length emptyOne) l1.length := by
      simp only [deleteAt, ht]
    rw [hdel]
    apply key
    intro n y hn hy
    rw [e1] at hy
    by_cases hnl : n = l1.length
    · subst hnl; simp at hy; subst hy; exact dead_of_lt5 (by omega)
    · have : (l1 ++ [{ x with top := emptyOne }]).length ≤ n := by simp; omega
      rw [List.getElem?_eq_none this] at hy; cases hy
  | cons z l2' =>
    have ht : topAt (setTop (l1 ++ x :: z :: l2') l1.length emptyOne) (l1.length + 1) = some z.top := by
      rw [e1]
      simp only [topAt]
      rw [List.getElem?_append_right (by omega)]
      simp
    by_cases hz : z.top = emptyRest
    · have hdel : deleteAt (l1 ++ x :: z :: l2') l1.length =
          backProp (setTop (l1 ++ x :: z :: l2') l1.length emptyOne) l1.length := by
        simp only [deleteAt, ht, hz]; simp
      rw [hdel]
      apply key
      intro n y hn hy
      rw [e1] at hy
      by_cases hnl : n = l1.length
      · subst hnl; simp at hy; subst hy; exact dead_of_lt5 (by omega)
      · -- behind the deleted cell: `z` is emptyRest, so nothing filled follows (discipline of the original chain)
        have hr' := (restOK_iff _).1 hr
        rw [List.getElem?_append_right (by omega)] at hy
        have hn2 : n - l1.length = (n - l1.length - 1) + 1 := by omega
        rw [hn2] at hy
        simp only [List.getElem?_cons_succ] at hy
        by_cases hfirst : n - l1.length - 1 = 0
        · rw [hfirst] at hy; simp at hy; subst hy; exact dead_of_emptyRest hz
        · refine hr' (l1.length + 1) n z y (by omega) ?_ ?_ hz
          · rw [List.getElem?_append_right (by omega)]; simp
          · rw [List.getElem?_append_right (by omega), hn2]; simpa using hy
    · have hdel : deleteAt (l1 ++ x :: z :: l2') l1.length = setTop (l1 ++ x :: z :: l2') l1.length emptyOne := by
        simp only [deleteAt, ht]; simp [hz]
      rw [hdel]
      exact ⟨r1, a1, m1, n1⟩

/-! ## the whole table -/

def cellsOf (a : Array (Chain K V)) : List (Cell K V) := a.toList.flatten

theorem getD_eq {a : Array (Chain K V)} {i : Nat} (hi : i < a.size) : a.getD i [] = a[i] := by
  simp [Array.getD, hi]

theorem cellsOf_split {a : Array (Chain K V)} {i : Nat} (hi : i < a.size) :
    cellsOf a = (a.toList.take i).flatten ++ a[i] ++ (a.toList.drop (i + 1)).flatten := by
  unfold cellsOf
  conv => lhs; rw [← List.take_append_drop i a.toList]
  rw [List.drop_eq_getElem_cons (by simpa using hi)]
  simp

theorem cellsOf_set {a : Array (Chain K V)} {i : Nat} (hi : i < a.size) (c : Chain K V) :
    cellsOf (a.setIfInBounds i c) = (a.toList.take i).flatten ++ c ++ (a.toList.drop (i + 1)).flatten := by
  unfold cellsOf
  rw [Array.toList_setIfInBounds, List.set_eq_take_append_cons_drop]
  simp [hi]

theorem mem_take_flatten {l : List (List (Cell K V))} {b : Nat} {x : Cell K V} (h : x ∈ (l.take b).flatten) :
    ∃ i, i < b ∧ ∃ (hi : i < l.length), x ∈ l[i] := by
  obtain ⟨c, hc, hx⟩ := List.mem_flatten.1 h
  obtain ⟨i, hi, rfl⟩ := List.getElem_of_mem hc
  simp only [List.length_take] at hi
  refine ⟨i, by omega, by omega, ?_⟩
  simpa using hx

theorem mem_drop_flatten {l : List (List (Cell K V))} {n : Nat} {x : Cell K V} (h : x ∈ (l.drop n).flatten) :
    ∃ i, n ≤ i ∧ ∃ (hi : i < l.length), x ∈ l[i] := by
  obtain ⟨c, hc, hx⟩ := List.mem_flatten.1 h
  obtain ⟨i, hi, rfl⟩ := List.getElem_of_mem hc
  simp only [List.length_drop] at hi
  refine ⟨n + i, by omega, by omega, ?_⟩
  simpa using hx

theorem mem_cellsOf {a : Array (Chain K V)} {x : Cell K V} (h : x ∈ cellsOf a) :
    ∃ i, ∃ (hi : i < a.size), x ∈ a[i] := by
  obtain ⟨c, hc, hx⟩ := List.mem_flatten.1 h
  obtain ⟨i, hi, rfl⟩ := List.getElem_of_mem hc
  exact ⟨i, by simpa using hi, by simpa using hx⟩

/-- every cell of the table: the current array, then the old one while the map grows -/
def allCells (h : HMap K V) : List (Cell K V) := cellsOf h.buckets ++ cellsOf (h.old.getD #[])

/-- the abstraction function: the association list a table stands for -/
def abs (h : HMap K V) : AList K V := chainAbs (allCells h)

/-- filled cells with a reflexive key sit in the chain their hash selects and carry its tophash -/
def Placed (o : Ops K) (seed : UInt32) (n i : Nat) (c : List (Cell K V)) : Prop :=
  ∀ x ∈ c, x.live = true → o.eq x.key x.key = true →
    x.top = tophash (o.hash seed x.key) ∧ (o.hash seed x.key).toNat % n = i

theorem Placed.tops {o : Ops K} {s : UInt32} {n i : Nat} {c : List (Cell K V)} (h : Placed o s n i c) :
    TopsOK o s c := fun x hx hl hr => (h x hx hl hr).1

/-- the hasher does not panic on the stored keys -/
def Hashable (o : Ops K) (c : List (Cell K V)) : Prop := ∀ x ∈ c, x.live = true → o.unhashable x.key = false

variable [Inhabited K] [Inhabited V]

/-- invariant of the old array while the map grows -/
structure OldOK (o : Ops K) (h : HMap K V) (oa : Array (Chain K V)) : Prop where
  size : oa.size = h.noldbuckets
  bpos : h.sameSizeGrow = false → 1 ≤ h.B
  nevac : h.nevacuate < oa.size
  done : ∀ j (hj : j < oa.size), j < h.nevacuate → evacuatedChain oa[j] = true
  chains : ∀ j (hj : j < oa.size),
    (evacuatedChain oa[j] = true → ∀ x ∈ oa[j], x.live = false) ∧
    (evacuatedChain oa[j] = false →
      NoMarks oa[j] ∧ RestOK oa[j] ∧ Placed o h.hash0 h.noldbuckets j oa[j] ∧ Hashable o oa[j] ∧ oa[j] ≠ [] ∧
      h.buckets[j]? = some (freshBucket K V) ∧
      (h.sameSizeGrow = false → h.buckets[j + h.noldbuckets]? = some (freshBucket K V)))

/-- the invariant of the table -/
structure WF (o : Ops K) (h : HMap K V) : Prop where
  size : h.buckets.size = 2 ^ h.B
  newOK : ∀ i (hi : i < h.buckets.size),
    NoMarks h.buckets[i] ∧ RestOK h.buckets[i] ∧ Placed o h.hash0 (2 ^ h.B) i h.buckets[i] ∧
      Hashable o h.buckets[i] ∧ Len8 h.buckets[i]
  count : h.count = (abs h).length
  nodup : NoDupKeys o.eq (abs h)
  old : match h.old with
    | none => h.sameSizeGrow = false
    | some oa => OldOK o h oa

/-- the chain `b` of the current array is where a key hashing to `b` lives: its old bucket is evacuated -/
def Home (h : HMap K V) (b : Nat) : Prop :=
  match h.old with
  | none => True
  | some oa => evacuatedChain (oa.getD (b % h.noldbuckets) []) = true

theorem nold_dvd {o : Ops K} {h : HMap K V} (hw : WF o h) {oa : Array (Chain K V)} (ho : h.old = some oa) :
    ∃ q, 2 ^ h.B = q * h.noldbuckets ∧ 0 < h.noldbuckets := by
  have hold := hw.old
  rw [ho] at hold
  unfold HMap.noldbuckets
  cases hs : h.sameSizeGrow with
  | true => exact ⟨1, by simp, by simp; exact Nat.pow_pos (by omega)⟩
  | false =>
    have := hold.bpos hs
    refine ⟨2, ?_, by simp; exact Nat.pow_pos (by omega)⟩
    simp
    have : h.B = (h.B - 1) + 1 := by omega
    conv => lhs; rw [this, Nat.pow_succ]
    omega

/-- outside its home chain no filled cell holds a key equal to `k` -/
theorem absent_outside {o : Ops K} (ho : HashOK o) {h : HMap K V} (hw : WF o h) {k : K} {b : Nat}
    (hhome : Home h b)
    (hidx : o.eq k k = true → (o.hash h.hash0 k).toNat % 2 ^ h.B = b) :
    Absent o.eq k (chainAbs ((h.buckets.toList.take b).flatten)) ∧
    Absent o.eq k (chainAbs ((h.buckets.toList.drop (b + 1)).flatten ++ cellsOf (h.old.getD #[]))) := by
  -- a filled cell equal to `k` in chain `i` of the current array forces `i = b`
  have newc : ∀ i (hi : i < h.buckets.size) x, x ∈ h.buckets[i] → x.live = true → o.eq k x.key = true → i = b := by
    intro i hi x hx hl hk
    have hp := (hw.newOK i hi).2.2.1 x hx hl (ho.eqok.refl_right hk)
    rw [← hidx (ho.eqok.refl_left hk), ho.hash_eq _ k x.key hk]
    exact hp.2.symm
  constructor
  · intro p hp
    obtain ⟨x, hx, hl, rfl⟩ := mem_chainAbs hp
    obtain ⟨i, hib, hi, hxi⟩ := mem_take_flatten hx
    cases hk : o.eq k x.key with
    | false => rfl
    | true =>
      have := newc i (by simpa using hi) x (by simpa using hxi) hl hk
      omega
  · intro p hp
    obtain ⟨x, hx, hl, rfl⟩ := mem_chainAbs hp
    cases hk : o.eq k x.key with
    | false => rfl
    | true =>
      exfalso
      rcases List.mem_append.1 hx with hx | hx
      · obtain ⟨i, hib, hi, hxi⟩ := mem_drop_flatten hx
        have := newc i (by simpa using hi) x (by simpa using hxi) hl hk
        omega
      · cases hold : h.old with
        | none => simp [hold, cellsOf] at hx
        | some oa =>
          have hO := hw.old
          rw [hold] at hO hx
          simp only [Option.getD_some] at hx
          obtain ⟨j, hj, hxj⟩ := mem_cellsOf hx
          obtain ⟨hev, hnev⟩ := hO.chains j hj
          cases he : evacuatedChain oa[j] with
          | true => have := hev he x hxj; simp [hl] at this
          | false =>
            obtain ⟨_, _, hpl, _, _, _, _⟩ := hnev he
            have hp := hpl x hxj hl (ho.eqok.refl_right hk)
            obtain ⟨q, hq, hpos⟩ := nold_dvd hw hold
            have hbj : b % h.noldbuckets = j := by
              rw [← hidx (ho.eqok.refl_left hk), ho.hash_eq _ k x.key hk, hq, Nat.mod_mul_left_mod]
              exact hp.2
            unfold Home at hhome
            rw [hold] at hhome
            simp only at hhome
            rw [hbj, getD_eq hj, he] at hhome
            cases hhome

/-! ## mapassign on the table -/

omit [Inhabited K] [Inhabited V] in
theorem modify_split (l1 : List (Cell K V)) (x : Cell K V) (l2 : List (Cell K V)) (f : Cell K V → Cell K V) :
    (l1 ++ x :: l2).modify l1.length f = l1 ++ f x :: l2 := by
  induction l1 with
  | nil => simp
  | cons a r ih => simp [ih]

omit [Inhabited K] [Inhabited V] in
theorem set_split (l1 : List (Cell K V)) (x y : Cell K V) (l2 : List (Cell K V)) :
    (l1 ++ x :: l2).set l1.length y = l1 ++ y :: l2 := by
  induction l1 with
  | nil => simp
  | cons a r ih => simp [ih]

omit [Inhabited K] [Inhabited V] in
theorem live_congr {x y : Cell K V} (h : y.top = x.top) : y.live = x.live := by simp [Cell.live, h]

omit [Inhabited K] [Inhabited V] in
theorem restOK_replace {l1 l2 : List (Cell K V)} {x x' : Cell K V} (ht : x'.top = x.top)
    (h : RestOK (l1 ++ x :: l2)) : RestOK (l1 ++ x' :: l2) := by
  induction l1 with
  | nil => exact ⟨fun e => h.1 (ht ▸ e), h.2⟩
  | cons a r ih =>
    refine ⟨fun e y hy => ?_, ih h.2⟩
    have hd := h.1 e
    rcases List.mem_append.1 hy with hy | hy
    · exact hd y (by simp [hy])
    · rcases List.mem_cons.1 hy with rfl | hy
      · rw [live_congr ht]; exact hd x (by simp)
      · exact hd y (by simp [hy])


omit [Inhabited K] [Inhabited V] in
theorem bucketIdx_lt (hash : UInt64) (B : Nat) : bucketIdx hash B < 2 ^ B :=
  Nat.mod_lt _ (Nat.pow_pos (by omega))

/-- the old-array invariant survives a change of a chain whose old bucket is already evacuated -/
theorem oldOK_set {o : Ops K} {h h' : HMap K V} {oa : Array (Chain K V)} {b : Nat} {c' : Chain K V}
    (hO : OldOK o h oa) (hev : evacuatedChain (oa.getD (b % h.noldbuckets) []) = true)
    (hB : h'.B = h.B) (hs : h'.sameSizeGrow = h.sameSizeGrow) (hn : h'.nevacuate = h.nevacuate)
    (h0 : h'.hash0 = h.hash0) (hb : h'.buckets = h.buckets.setIfInBounds b c') : OldOK o h' oa := by
  have hnold : h'.noldbuckets = h.noldbuckets := by simp [HMap.noldbuckets, hB, hs]
  refine ⟨by rw [hnold]; exact hO.size, by rw [hs, hB]; exact hO.bpos, by rw [hn]; exact hO.nevac,
    fun j hj hjn => hO.done j hj (by rw [← hn]; exact hjn), fun j hj => ⟨(hO.chains j hj).1, fun he => ?_⟩⟩
  obtain ⟨a1, a2, a3, a4, a5, a6, a7⟩ := (hO.chains j hj).2 he
  have hjn : j < h.noldbuckets := by rw [← hO.size]; exact hj
  have hne : b % h.noldbuckets ≠ j := by
    intro e
    rw [e, getD_eq hj, he] at hev
    cases hev
  refine ⟨a1, a2, by rw [h0, hnold]; exact a3, a4, a5, ?_, ?_⟩
  · rw [hb, Array.getElem?_setIfInBounds]
    have : b ≠ j := by
      intro e; apply hne; rw [e]; exact Nat.mod_eq_of_lt hjn
    simp [this, a6]
  · intro hsf
    rw [hs] at hsf
    rw [hb, hnold, Array.getElem?_setIfInBounds]
    have : b ≠ j + h.noldbuckets := by
      intro e; apply hne; rw [e]; simp [Nat.mod_eq_of_lt hjn]
    simp [this, a7 hsf]


omit [Inhabited K] [Inhabited V] in
theorem abs_split {h : HMap K V} {b : Nat} (hb : b < h.buckets.size) :
    abs h = chainAbs ((h.buckets.toList.take b).flatten) ++ chainAbs h.buckets[b] ++
      chainAbs ((h.buckets.toList.drop (b + 1)).flatten ++ cellsOf (h.old.getD #[])) := by
  unfold abs allCells
  rw [cellsOf_split hb]
  simp [chainAbs_append]

omit [Inhabited K] [Inhabited V] in
theorem abs_set {h h' : HMap K V} {b : Nat} (hb : b < h.buckets.size) {c' : Chain K V}
    (hbk : h'.buckets = h.buckets.setIfInBounds b c') (hold : h'.old = h.old) :
    abs h' = chainAbs ((h.buckets.toList.take b).flatten) ++ chainAbs c' ++
      chainAbs ((h.buckets.toList.drop (b + 1)).flatten ++ cellsOf (h.old.getD #[])) := by
  unfold abs allCells
  rw [hbk, hold, cellsOf_set hb]
  simp [chainAbs_append]

/-- a table that differs from a well-formed one in chain `b` only (whose old bucket is evacuated) -/
theorem wf_set {o : Ops K} {h h' : HMap K V} (hw : WF o h) {b : Nat} (hb : b < h.buckets.size) {c' : Chain K V}
    (hhome : Home h b)
    (hbk : h'.buckets = h.buckets.setIfInBounds b c') (hold : h'.old = h.old)
    (hB : h'.B = h.B) (hs : h'.sameSizeGrow = h.sameSizeGrow) (hn : h'.nevacuate = h.nevacuate)
    (h0 : h'.hash0 = h.hash0)
    (hc : NoMarks c' ∧ RestOK c' ∧ Placed o h.hash0 (2 ^ h.B) b c' ∧ Hashable o c' ∧ Len8 c')
    (hcount : h'.count = (abs h').length) (hnd : NoDupKeys o.eq (abs h')) : WF o h' := by
  refine ⟨by rw [hbk, hB]; simpa using hw.size, ?_, hcount, hnd, ?_⟩
  · intro i hi
    have hi' : i < h.buckets.size := by rw [hbk] at hi; simpa using hi
    by_cases hib : i = b
    · subst hib
      have : h'.buckets[i] = c' := by simp [hbk]
      rw [this, h0, hB]; exact hc
    · have e : h'.buckets[i]? = h.buckets[i]? := by
        rw [hbk, Array.getElem?_setIfInBounds]; simp [Ne.symm hib]
      have : h'.buckets[i] = h.buckets[i] := by
        rw [Array.getElem?_eq_getElem hi, Array.getElem?_eq_getElem hi'] at e
        exact Option.some.inj e
      rw [this, h0, hB]; exact hw.newOK i hi'
  · have hO := hw.old
    rw [hold]
    cases hold' : h.old with
    | none => rw [hold'] at hO; simpa [hs] using hO
    | some oa =>
      rw [hold'] at hO
      simp only
      unfold Home at hhome
      rw [hold'] at hhome
      exact oldOK_set hO hhome hB hs hn h0 hbk

/-- what one pass of mapassign establishes -/
def AssignPost (o : Ops K) (h : HMap K V) (k : K) (v : V) : PassRes K V → Prop
  | .done h' => WF o h' ∧ (abs h').Perm (insert o.eq o.needKeyUpdate k v (abs h)) ∧ h'.old = h.old
  | .again h' => h' = hashGrow h ∧ h.old = none

theorem fresh_tail : freshBucket K V = ({ top := emptyRest, key := default, val := default } : Cell K V) ::
    List.replicate 7 { top := emptyRest, key := default, val := default } := rfl

theorem assignCore_spec {o : Ops K} (ho : HashOK o) {h : HMap K V} (hw : WF o h) {hash : UInt64} {k : K} {v : V}
    (hhome : Home h (bucketIdx hash h.B)) (hhash : o.eq k k = true → hash = o.hash h.hash0 k)
    (hunh : o.unhashable k = false) : AssignPost o h k v (assignCore o h hash k v) := by
  have hb : bucketIdx hash h.B < h.buckets.size := by rw [hw.size]; exact bucketIdx_lt _ _
  obtain ⟨hN, hR, hP, hH, hne⟩ := hw.newOK _ hb
  have h5 := tophash_toNat_ge hash
  have htk : o.eq k k = true → tophash hash = tophash (o.hash h.hash0 k) := fun hr => by rw [← hhash hr]
  obtain ⟨aP, aS⟩ := absent_outside ho hw hhome (fun hr => by rw [← hhash hr]; rfl)
  have hsplit := abs_split (h := h) hb
  unfold assignCore
  simp only [getD_eq hb]
  cases hscan : scanAssign o.eq (tophash hash) k h.buckets[bucketIdx hash h.B] 0 none with
  | found i =>
    simp only
    obtain ⟨l1, x, l2, hc, hi, hxl, hxk, hab⟩ := scanAssign_found ho h5 htk hR hP.tops hscan
    simp only [Nat.zero_add] at hi
    subst hi
    rw [hc, modify_split]
    obtain ⟨x', hx'⟩ : ∃ x' : Cell K V, x' = { x with key := if o.needKeyUpdate then k else x.key, val := v } :=
      ⟨_, rfl⟩
    rw [← hx']
    have hx't : x'.top = x.top := by rw [hx']
    have hx'l : x'.live = true := by rw [live_congr hx't]; exact hxl
    have hx'kv : (x'.key, x'.val) = ((if o.needKeyUpdate then k else x.key), v) := by rw [hx']
    generalize hbdef : bucketIdx hash h.B = b at *
    have hpre : Absent o.eq k (chainAbs (List.take b h.buckets.toList).flatten ++ chainAbs l1) := by
      intro p hp
      rcases List.mem_append.1 hp with hp | hp
      · exact aP p hp
      · exact hab p hp
    have heq : abs { h with buckets := h.buckets.setIfInBounds b (l1 ++ x' :: l2) } =
        insert o.eq o.needKeyUpdate k v (abs h) := by
      rw [abs_set (h := h) (h' := { h with buckets := h.buckets.setIfInBounds b (l1 ++ x' :: l2) }) hb rfl rfl, hsplit, hc]
      simp only [chainAbs_append, chainAbs_cons_live hxl, chainAbs_cons_live hx'l, hx'kv]
      simp only [List.append_assoc, List.cons_append]
      conv => rhs; rw [← List.append_assoc, insert_split hpre hxk]
      simp only [List.append_assoc]
    refine ⟨?_, by rw [heq], rfl⟩
    have hlen8 : Len8 (l1 ++ x' :: l2) := by
      have := hne.2
      rw [hc] at this
      exact ⟨by simp, by simpa using this⟩
    refine wf_set hw hb hhome rfl rfl rfl rfl rfl rfl ⟨?_, ?_, ?_, ?_, hlen8⟩ ?_ ?_
    · intro y hy
      rw [hc] at hN
      rcases List.mem_append.1 hy with hy | hy
      · exact hN y (by simp [hy])
      · rcases List.mem_cons.1 hy with rfl | hy
        · rw [hx't]; exact hN x (by simp)
        · exact hN y (by simp [hy])
    · rw [hc] at hR; exact restOK_replace hx't hR
    · intro y hy hyl hyr
      rw [hc] at hP
      rcases List.mem_append.1 hy with hy | hy
      · exact hP y (by simp [hy]) hyl hyr
      · rcases List.mem_cons.1 hy with rfl | hy
        · have hxr := ho.eqok.refl_right hxk
          have := hP x (by simp) hxl hxr
          rw [hx't]
          have hkey : o.hash h.hash0 y.key = o.hash h.hash0 x.key := by
            rw [hx']
            simp only
            split
            · exact ho.hash_eq _ k x.key hxk
            · rfl
          rw [hkey]; exact this
        · exact hP y (by simp [hy]) hyl hyr
    · intro y hy hyl
      rw [hc] at hH
      rcases List.mem_append.1 hy with hy | hy
      · exact hH y (by simp [hy]) hyl
      · rcases List.mem_cons.1 hy with rfl | hy
        · rw [hx']
          simp only
          split
          · exact hunh
          · exact hH x (by simp) hxl
        · exact hH y (by simp [hy]) hyl
    · rw [heq]
      show h.count = _
      rw [hw.count, hsplit, hc]
      simp only [chainAbs_append, chainAbs_cons_live hxl, List.append_assoc, List.cons_append]
      rw [← List.append_assoc, insert_split hpre hxk]
      simp
    · rw [heq]; exact nodup_insert ho.eqok hw.nodup
  | notFound ins =>
    simp only
    have hac := scanAssign_notFound_absent ho h5 htk hR hP.tops hscan
    have hslot := scanAssign_notFound_slot o.eq h5 k hscan
    have habsent : Absent o.eq k (abs h) := by
      rw [hsplit]
      intro p hp
      rcases List.mem_append.1 hp with hp | hp
      · rcases List.mem_append.1 hp with hp | hp
        · exact aP p hp
        · exact hac p hp
      · exact aS p hp
    split
    · rename_i hg
      refine ⟨rfl, ?_⟩
      simp only [Bool.and_eq_true, Bool.not_eq_true', HMap.growing] at hg
      cases hO : h.old with
      | none => rfl
      | some oa => simp [hO] at hg
    · -- insert a new cell
      have newcell_live : ({ top := tophash hash, key := k, val := v } : Cell K V).live = true :=
        live_of_top_ge5 h5 rfl
      have key : ∀ (h1 : HMap K V) (c' : Chain K V), h1.buckets = h.buckets → h1.old = h.old → h1.B = h.B →
          h1.sameSizeGrow = h.sameSizeGrow → h1.nevacuate = h.nevacuate → h1.hash0 = h.hash0 → h1.count = h.count →
          (chainAbs c').Perm (chainAbs h.buckets[bucketIdx hash h.B] ++ [(k, v)]) →
          NoMarks c' → RestOK c' → Len8 c' → (∀ y ∈ c', y.live = true → y ∈ h.buckets[bucketIdx hash h.B] ∨
            y = { top := tophash hash, key := k, val := v }) →
          AssignPost o h k v
            (.done { h1 with buckets := h1.buckets.setIfInBounds (bucketIdx hash h.B) c', count := h1.count + 1 }) := by
        intro h1 c' e1 e2 e3 e4 e5 e6 e7 hperm hn hr hcne hmem
        obtain ⟨h2, hh2⟩ : ∃ h2 : HMap K V, h2 =
            { h1 with buckets := h1.buckets.setIfInBounds (bucketIdx hash h.B) c', count := h1.count + 1 } := ⟨_, rfl⟩
        rw [← hh2]
        have b2 : h2.buckets = h.buckets.setIfInBounds (bucketIdx hash h.B) c' := by rw [hh2, ← e1]
        have o2 : h2.old = h.old := by rw [hh2]; exact e2
        have habs' := abs_set (h := h) (h' := h2) hb b2 o2
        have hp : (abs h2).Perm (insert o.eq o.needKeyUpdate k v (abs h)) := by
          rw [habs', insert_absent habsent, hsplit]
          simp only [List.append_assoc]
          refine List.Perm.append_left _ ?_
          refine (List.Perm.append_right _ hperm).trans ?_
          simp only [List.append_assoc]
          refine List.Perm.append_left _ ?_
          exact List.perm_append_comm
        refine ⟨wf_set hw hb hhome b2 o2 (by rw [hh2]; exact e3) (by rw [hh2]; exact e4) (by rw [hh2]; exact e5)
          (by rw [hh2]; exact e6) ⟨hn, hr, ?_, ?_, hcne⟩ ?_ ?_, hp, o2⟩
        · intro y hy hyl hyr
          rcases hmem y hy hyl with hy | rfl
          · exact hP y hy hyl hyr
          · simp only at hyr ⊢
            rw [← hhash hyr]
            exact ⟨rfl, rfl⟩
        · intro y hy hyl
          rcases hmem y hy hyl with hy | rfl
          · exact hH y hy hyl
          · exact hunh
        · have : h2.count = h1.count + 1 := by rw [hh2]
          rw [this, hp.length_eq, insert_absent habsent, e7, hw.count]; simp
        · exact nodup_perm ho.eqok hp.symm (nodup_insert ho.eqok hw.nodup)
      cases ins with
      | some i =>
        simp only
        obtain ⟨l1, x, l2, hc, hi, hxe, hall⟩ := hslot
        simp only [Nat.zero_add] at hi
        subst hi
        rw [hc, set_split]
        have hxd : x.live = false := dead_of_isEmpty hxe
        have hlen8 : Len8 (l1 ++ ({ top := tophash hash, key := k, val := v } : Cell K V) :: l2) := by
          have := hne.2
          rw [hc] at this
          exact ⟨by simp, by simpa using this⟩
        refine key h _ rfl rfl rfl rfl rfl rfl rfl ?_ ?_ ?_ hlen8 ?_
        · rw [hc]
          simp only [chainAbs_append, chainAbs_cons_live newcell_live, chainAbs_cons_dead hxd]
          exact List.perm_middle.trans (List.perm_append_singleton _ _).symm
        · intro y hy
          rw [hc] at hN
          rcases List.mem_append.1 hy with hy | hy
          · exact hN y (by simp [hy])
          · rcases List.mem_cons.1 hy with rfl | hy
            · right; exact h5
            · exact hN y (by simp [hy])
        · rw [hc] at hR
          have hnz : ∀ y ∈ l1, y.top ≠ emptyRest := fun y hy => top_ne_zero_of_not_empty (hall y hy)
          rw [RestOK_append_nonzero hnz] at hR ⊢
          refine ⟨fun e => ?_, hR.2⟩
          simp only [emptyRest] at e
          rw [e] at h5
          simp at h5
        · intro y hy hyl
          rw [hc]
          rcases List.mem_append.1 hy with hy | hy
          · left; simp [hy]
          · rcases List.mem_cons.1 hy with rfl | hy
            · right; rfl
            · left; simp [hy]
      | none =>
        simp only
        have hall : ∀ x ∈ h.buckets[bucketIdx hash h.B], isEmptyTop x.top = false := hslot
        have hset : (h.buckets[bucketIdx hash h.B] ++ freshBucket K V).set h.buckets[bucketIdx hash h.B].length
            { top := tophash hash, key := k, val := v } =
            h.buckets[bucketIdx hash h.B] ++ { top := tophash hash, key := k, val := v } ::
              List.replicate 7 { top := emptyRest, key := default, val := default } := by
          rw [fresh_tail, set_split]
        rw [hset]
        have hdeadrep : ∀ y ∈ List.replicate 7 ({ top := emptyRest, key := default, val := default } : Cell K V),
            y.live = false := by
          intro y hy
          rw [List.eq_of_mem_replicate hy]
          exact dead_of_emptyRest rfl
        have hincr : ∀ (g : HMap K V), g.incrnoverflow.buckets = g.buckets ∧ g.incrnoverflow.old = g.old ∧
            g.incrnoverflow.B = g.B ∧ g.incrnoverflow.sameSizeGrow = g.sameSizeGrow ∧
            g.incrnoverflow.nevacuate = g.nevacuate ∧ g.incrnoverflow.hash0 = g.hash0 ∧
            g.incrnoverflow.count = g.count := by
          intro g
          unfold HMap.incrnoverflow HMap.fastrand
          split
          · simp
          · simp only
            split <;> simp
        obtain ⟨i1, i2, i3, i4, i5, i6, i7⟩ := hincr h
        have hlen8 : Len8 (h.buckets[bucketIdx hash h.B] ++ ({ top := tophash hash, key := k, val := v } : Cell K V) ::
            List.replicate 7 { top := emptyRest, key := default, val := default }) := by
          have := hne.2
          refine ⟨by simp, ?_⟩
          simp only [List.length_append, List.length_cons, List.length_replicate]
          omega
        refine key h.incrnoverflow _ i1 i2 i3 i4 i5 i6 i7 ?_ ?_ ?_ hlen8 ?_
        · simp only [chainAbs_append, chainAbs_cons_live newcell_live, chainAbs_nil_of_dead hdeadrep]
          exact List.Perm.refl _
        · intro y hy
          rcases List.mem_append.1 hy with hy | hy
          · exact hN y hy
          · rcases List.mem_cons.1 hy with rfl | hy
            · right; exact h5
            · left; rw [List.eq_of_mem_replicate hy]; simp [emptyRest]
        · have hnz : ∀ y ∈ h.buckets[bucketIdx hash h.B], y.top ≠ emptyRest :=
            fun y hy => top_ne_zero_of_not_empty (hall y hy)
          rw [RestOK_append_nonzero hnz]
          refine ⟨fun e => ?_, ?_⟩
          · simp only [emptyRest] at e
            rw [e] at h5
            simp at h5
          · clear hset
            generalize (7 : Nat) = n
            induction n with
            | zero => trivial
            | succ n ih =>
              rw [List.replicate_succ]
              exact ⟨fun _ y hy => by rw [List.eq_of_mem_replicate hy]; exact dead_of_emptyRest rfl, ih⟩
        · intro y hy hyl
          rcases List.mem_append.1 hy with hy | hy
          · left; exact hy
          · rcases List.mem_cons.1 hy with rfl | hy
            · right; rfl
            · rw [hdeadrep y hy] at hyl; cases hyl

/-! ## mapdelete on the table -/

omit [Inhabited K] [Inhabited V] in
theorem no_live_of_abs_nil {h : HMap K V} (he : abs h = []) : ∀ x ∈ allCells h, x.live = false := by
  intro x hx
  cases hl : x.live with
  | false => rfl
  | true =>
    have : (x.key, x.val) ∈ abs h := by
      unfold abs chainAbs
      simp only [List.mem_map, List.mem_filter]
      exact ⟨x, ⟨hx, hl⟩, rfl⟩
    rw [he] at this
    cases this

omit [Inhabited K] [Inhabited V] in
theorem mem_allCells_new {h : HMap K V} {i : Nat} (hi : i < h.buckets.size) {x : Cell K V} (hx : x ∈ h.buckets[i]) :
    x ∈ allCells h := by
  unfold allCells cellsOf
  apply List.mem_append_left
  exact List.mem_flatten.2 ⟨h.buckets[i], by simp, hx⟩

omit [Inhabited K] [Inhabited V] in
theorem mem_allCells_old {h : HMap K V} {oa : Array (Chain K V)} (ho : h.old = some oa) {j : Nat} (hj : j < oa.size)
    {x : Cell K V} (hx : x ∈ oa[j]) : x ∈ allCells h := by
  unfold allCells cellsOf
  apply List.mem_append_right
  rw [ho]
  exact List.mem_flatten.2 ⟨oa[j], by simp, hx⟩

/-- an empty table may change its hash seed (mapdelete / mapclear reseed when `count` reaches 0) -/
theorem wf_reseed {o : Ops K} {h h' : HMap K V} (hw : WF o h) (h0 : h.count = 0)
    (hb : h'.buckets = h.buckets) (hold : h'.old = h.old) (hB : h'.B = h.B)
    (hs : h'.sameSizeGrow = h.sameSizeGrow) (hn : h'.nevacuate = h.nevacuate) (hc : h'.count = h.count) : WF o h' := by
  have he : abs h = [] := by
    have := hw.count; rw [h0] at this
    exact List.eq_nil_of_length_eq_zero this.symm
  have hdead := no_live_of_abs_nil he
  have habs : abs h' = abs h := by unfold abs allCells; rw [hb, hold]
  have hnold : h'.noldbuckets = h.noldbuckets := by simp [HMap.noldbuckets, hB, hs]
  refine ⟨by rw [hb, hB]; exact hw.size, ?_, by rw [habs, hc]; exact hw.count, by rw [habs]; exact hw.nodup, ?_⟩
  · intro i hi
    have hi' : i < h.buckets.size := by rw [hb] at hi; exact hi
    have e : h'.buckets[i] = h.buckets[i] := by simp [hb]
    obtain ⟨a1, a2, _, a4, a5⟩ := hw.newOK i hi'
    rw [e]
    refine ⟨a1, a2, ?_, a4, a5⟩
    intro x hx hl
    rw [hdead x (mem_allCells_new hi' hx)] at hl; cases hl
  · have hO := hw.old
    rw [hold]
    cases hold' : h.old with
    | none => rw [hold'] at hO; simpa [hs] using hO
    | some oa =>
      rw [hold'] at hO
      simp only
      refine ⟨by rw [hnold]; exact hO.size, by rw [hs, hB]; exact hO.bpos, by rw [hn]; exact hO.nevac,
        fun j hj hjn => hO.done j hj (by rw [← hn]; exact hjn), fun j hj => ⟨(hO.chains j hj).1, fun he => ?_⟩⟩
      obtain ⟨a1, a2, _, a4, a5, a6, a7⟩ := (hO.chains j hj).2 he
      refine ⟨a1, a2, ?_, a4, a5, by rw [hb]; exact a6, fun hsf => by rw [hb, hnold]; exact a7 (by rw [← hs]; exact hsf)⟩
      intro x hx hl
      rw [hdead x (mem_allCells_old hold' hj hx)] at hl; cases hl

/-- mapdelete after growWork: the entry of `k` (if any) disappears -/
theorem deleteCore_spec {o : Ops K} (ho : HashOK o) {h : HMap K V} (hw : WF o h) {hash : UInt64} {k : K}
    (hhome : Home h (bucketIdx hash h.B)) (hhash : o.eq k k = true → hash = o.hash h.hash0 k) :
    WF o (deleteCore o h hash k) ∧ abs (deleteCore o h hash k) = erase o.eq k (abs h) ∧
      (deleteCore o h hash k).old = h.old := by
  have hb : bucketIdx hash h.B < h.buckets.size := by rw [hw.size]; exact bucketIdx_lt _ _
  obtain ⟨hN, hR, hP, hH, hne⟩ := hw.newOK _ hb
  have h5 := tophash_toNat_ge hash
  have htk : o.eq k k = true → tophash hash = tophash (o.hash h.hash0 k) := fun hr => by rw [← hhash hr]
  obtain ⟨aP, aS⟩ := absent_outside ho hw hhome (fun hr => by rw [← hhash hr]; rfl)
  have hsplit := abs_split (h := h) hb
  unfold deleteCore
  simp only [getD_eq hb]
  generalize hbdef : bucketIdx hash h.B = b at *
  cases hscan : scanDelete o.eq (tophash hash) k h.buckets[b] 0 with
  | none =>
    simp only
    have hac := scanDelete_none ho h5 htk hR hP.tops hscan
    have habsent : Absent o.eq k (abs h) := by
      rw [hsplit]
      intro p hp
      rcases List.mem_append.1 hp with hp | hp
      · rcases List.mem_append.1 hp with hp | hp
        · exact aP p hp
        · exact hac p hp
      · exact aS p hp
    exact ⟨hw, (erase_absent habsent).symm, trivial⟩
  | some i =>
    simp only
    obtain ⟨l1, x, l2, hc, hi, hxl, hxk, hab⟩ := scanDelete_some ho h5 htk hR hP.tops hscan
    simp only [Nat.zero_add] at hi
    subst hi
    rw [hc]
    rw [hc] at hR hN hP hH
    obtain ⟨dR, dA, dM, dN⟩ := deleteAt_spec hR
    obtain ⟨h1, hh1⟩ : ∃ h1 : HMap K V, h1 =
        { h with buckets := h.buckets.setIfInBounds b (deleteAt (l1 ++ x :: l2) l1.length), count := h.count - 1 } :=
      ⟨_, rfl⟩
    rw [← hh1]
    have b1 : h1.buckets = h.buckets.setIfInBounds b (deleteAt (l1 ++ x :: l2) l1.length) := by rw [hh1]
    have o1 : h1.old = h.old := by rw [hh1]
    have hpre : Absent o.eq k (chainAbs (List.take b h.buckets.toList).flatten ++ chainAbs l1) := by
      intro p hp
      rcases List.mem_append.1 hp with hp | hp
      · exact aP p hp
      · exact hab p hp
    have habs1 : abs h1 = erase o.eq k (abs h) := by
      rw [abs_set (h := h) (h' := h1) hb b1 o1, hsplit, hc, dA]
      simp only [chainAbs_append, chainAbs_cons_live hxl, List.append_assoc, List.cons_append]
      conv => rhs; rw [← List.append_assoc, erase_split hpre hxk]
      simp only [List.append_assoc]
    have hlen : (abs h).length = (abs h1).length + 1 := by
      rw [abs_set (h := h) (h' := h1) hb b1 o1, hsplit, hc, dA]
      simp only [chainAbs_append, chainAbs_cons_live hxl, List.length_append, List.length_cons]
      omega
    have hw1 : WF o h1 := by
      refine wf_set hw hb hhome b1 o1 (by rw [hh1]) (by rw [hh1]) (by rw [hh1]) (by rw [hh1])
        ⟨dN hN, dR, fun y hy hl hr => hP y (dM y hy hl) hl hr, fun y hy hl => hH y (dM y hy hl) hl, ?_⟩ ?_ ?_
      · have hl := hne.2
        rw [hc] at hl
        refine ⟨?_, by rw [deleteAt_length]; exact hl⟩
        intro e
        have := congrArg List.length e
        simp [deleteAt_length] at this
      · have : h1.count = h.count - 1 := by rw [hh1]
        rw [this, hw.count]; omega
      · rw [habs1]; exact nodup_erase hw.nodup
    split
    · rename_i hz
      have hz' : h1.count = 0 := by rw [hh1]; simpa using hz
      refine ⟨wf_reseed hw1 hz' rfl rfl rfl rfl rfl rfl, ?_, o1⟩
      rw [← habs1]; rfl
    · exact ⟨hw1, habs1, o1⟩

/-! ## evacuation -/

/-- two headers that differ only in the overflow counter, the random stream and the throw counter -/
structure Same (h h' : HMap K V) : Prop where
  buckets : h'.buckets = h.buckets
  old : h'.old = h.old
  B : h'.B = h.B
  ssg : h'.sameSizeGrow = h.sameSizeGrow
  nev : h'.nevacuate = h.nevacuate
  hash0 : h'.hash0 = h.hash0
  count : h'.count = h.count
  gen : h'.gen = h.gen

omit [Inhabited K] [Inhabited V] in
theorem Same.refl (h : HMap K V) : Same h h := ⟨rfl, rfl, rfl, rfl, rfl, rfl, rfl, rfl⟩

omit [Inhabited K] [Inhabited V] in
theorem Same.trans {a b c : HMap K V} (h1 : Same a b) (h2 : Same b c) : Same a c :=
  ⟨h2.buckets.trans h1.buckets, h2.old.trans h1.old, h2.B.trans h1.B, h2.ssg.trans h1.ssg, h2.nev.trans h1.nev,
   h2.hash0.trans h1.hash0, h2.count.trans h1.count, h2.gen.trans h1.gen⟩

omit [Inhabited K] [Inhabited V] in
theorem same_fastrand (h : HMap K V) : Same h h.fastrand.2 := by
  unfold HMap.fastrand; exact ⟨rfl, rfl, rfl, rfl, rfl, rfl, rfl, rfl⟩

omit [Inhabited K] [Inhabited V] in
theorem same_incr (h : HMap K V) : Same h h.incrnoverflow := by
  unfold HMap.incrnoverflow HMap.fastrand
  split
  · exact ⟨rfl, rfl, rfl, rfl, rfl, rfl, rfl, rfl⟩
  · simp only
    split <;> exact ⟨rfl, rfl, rfl, rfl, rfl, rfl, rfl, rfl⟩

omit [Inhabited K] [Inhabited V] in
theorem same_fastrands : ∀ (n : Nat) (h : HMap K V), Same h (h.fastrands n).2 := by
  intro n
  induction n with
  | zero => intro h; exact Same.refl h
  | succ n ih => intro h; exact (same_fastrand h).trans (ih _)

omit [Inhabited K] [Inhabited V] in
theorem hashKey_ok {o : Ops K} {s : UInt32} {k : K} (h : HMap K V) (hu : o.unhashable k = false) :
    ∃ hash h1, hashKey o s k h = .ok (hash, h1) ∧ Same h h1 ∧ (o.eq k k = true → hash = o.hash s k ∧ h1 = h) := by
  unfold hashKey
  simp only [hu, Bool.false_eq_true, if_false]
  cases hr : o.eq k k with
  | true => exact ⟨_, _, rfl, Same.refl h, fun _ => ⟨rfl, rfl⟩⟩
  | false =>
    simp only [Bool.false_eq_true, if_false]
    exact ⟨_, _, rfl, same_fastrands _ h, fun e => by cases e⟩


def freshCell (K V : Type) [Inhabited K] [Inhabited V] : Cell K V := { top := emptyRest, key := default, val := default }

/-- an evacuation destination holds the cells written so far, padded with zeroed cells to whole buckets -/
def DstOK (d : Dst K V) (ws : List (Cell K V)) : Prop :=
  d.i ≤ 8 ∧ ws.length = 8 * d.bi + d.i ∧ d.chain = ws ++ List.replicate (8 * (d.bi + 1) - ws.length) (freshCell K V)

theorem set_append_replicate (ws : List (Cell K V)) (n : Nat) (c f : Cell K V) :
    (ws ++ List.replicate (n + 1) f).set ws.length c = ws ++ c :: List.replicate n f := by
  rw [List.replicate_succ, set_split]

theorem put_spec {d : Dst K V} {ws : List (Cell K V)} (hd : DstOK d ws) (c : Cell K V) (h : HMap K V) :
    DstOK (d.put c h).1 (ws ++ [c]) ∧ Same h (d.put c h).2 := by
  obtain ⟨hi, hlen, hch⟩ := hd
  unfold Dst.put
  by_cases h8 : d.i = 8
  · have hb : (d.i == bucketCnt) = true := by simp [h8, bucketCnt]
    simp only [hb, if_true]
    refine ⟨⟨by simp, by simp; omega, ?_⟩, same_incr h⟩
    have hz : 8 * (d.bi + 1) - ws.length = 0 := by omega
    rw [hz] at hch
    simp only [List.replicate_zero, List.append_nil] at hch
    have htake : List.take ((d.bi + 1) * bucketCnt) d.chain = ws := by
      rw [hch]; apply List.take_of_length_le; simp [bucketCnt]; omega
    simp only [htake]
    have hidx : (d.bi + 1) * bucketCnt + 0 = ws.length := by simp [bucketCnt]; omega
    rw [hidx]
    have : freshBucket K V = List.replicate (7 + 1) (freshCell K V) := rfl
    rw [this, set_append_replicate]
    have : 8 * (d.bi + 1 + 1) - (ws ++ [c]).length = 7 := by simp; omega
    rw [this]; simp
  · have hb : (d.i == bucketCnt) = false := by simp [h8, bucketCnt]
    simp only [hb, Bool.false_eq_true, if_false]
    refine ⟨⟨by simp; omega, by simp; omega, ?_⟩, Same.refl h⟩
    have hidx : d.bi * bucketCnt + d.i = ws.length := by simp [bucketCnt]; omega
    simp only [hidx]
    obtain ⟨n, hn⟩ : ∃ n, 8 * (d.bi + 1) - ws.length = n + 1 := ⟨8 * (d.bi + 1) - ws.length - 1, by omega⟩
    rw [hch, hn, set_append_replicate]
    have : 8 * (d.bi + 1) - (ws ++ [c]).length = n := by simp; omega
    rw [this]; simp


omit [Inhabited K] [Inhabited V] in
theorem live_iff {c : Cell K V} : c.live = true ↔ 5 ≤ c.top.toNat := by simp [Cell.live]

omit [Inhabited V] [Inhabited K] in
theorem evacDecide_spec {o : Ops K} {newbit : Nat} {c : Cell K V} (h : HMap K V)
    (hl : c.live = true) (hu : o.unhashable c.key = false) :
    ∃ useY top h1, evacDecide o newbit c h = .ok (useY, top, h1) ∧ Same h h1 ∧ 5 ≤ top.toNat ∧
      (h.sameSizeGrow = true → useY = false) ∧
      (o.eq c.key c.key = true → top = c.top ∧
        (h.sameSizeGrow = false → useY = decide ((o.hash h.hash0 c.key).toNat % (2 * newbit) ≥ newbit))) := by
  have h5 := live_iff.1 hl
  unfold evacDecide
  cases hs : h.sameSizeGrow with
  | true =>
    exact ⟨false, c.top, h, by simp [pure, Except.pure], Same.refl h, h5, (fun _ => rfl), fun _ => ⟨rfl, (fun e => by cases e)⟩⟩
  | false =>
    obtain ⟨hash, h1, hk, hsame, hrefl⟩ := hashKey_ok (s := h.hash0) h hu
    simp only [Bool.not_false, if_true, hk, bind, Except.bind]
    cases hr : o.eq c.key c.key with
    | true =>
      obtain ⟨e1, e2⟩ := hrefl hr
      simp only [Bool.not_true, Bool.and_false, Bool.false_eq_true, if_false]
      exact ⟨_, _, _, rfl, hsame, h5, (fun e => by cases e), fun _ => ⟨rfl, fun _ => by rw [e1]⟩⟩
    | false =>
      split
      · exact ⟨_, _, _, rfl, hsame, tophash_toNat_ge _, (fun e => by cases e), (fun e => by cases e)⟩
      · exact ⟨_, _, _, rfl, hsame, h5, (fun e => by cases e), (fun e => by cases e)⟩


/-- where a cell written by `evacuate` comes from -/
def MovedFrom (o : Ops K) (seed : UInt32) (newbit : Nat) (ssg : Bool) (cells : List (Cell K V)) (toY : Bool)
    (m : Cell K V) : Prop :=
  5 ≤ m.top.toNat ∧ ∃ c ∈ cells, c.live = true ∧ m.key = c.key ∧ m.val = c.val ∧
    (o.eq c.key c.key = true → m.top = c.top ∧
      (ssg = false → decide ((o.hash seed c.key).toNat % (2 * newbit) ≥ newbit) = toY))

omit [Inhabited K] [Inhabited V] in
theorem MovedFrom.cons {o : Ops K} {seed : UInt32} {newbit : Nat} {ssg : Bool} {cells : List (Cell K V)} {toY : Bool}
    {m c : Cell K V} (h : MovedFrom o seed newbit ssg cells toY m) : MovedFrom o seed newbit ssg (c :: cells) toY m := by
  obtain ⟨h5, c', hc', rest⟩ := h
  exact ⟨h5, c', by simp [hc'], rest⟩

theorem evacCells_spec {o : Ops K} {newbit : Nat} (cells : List (Cell K V)) :
    ∀ (x y : Dst K V) (h : HMap K V) (wx wy : List (Cell K V)), DstOK x wx →
    (h.sameSizeGrow = false → DstOK y wy) →
    (∀ c ∈ cells, isEmptyTop c.top = false → c.live = true ∧ o.unhashable c.key = false) →
    ∃ marked x' y' h' mx my, evacCells o newbit cells x y h = .ok (marked, x', y', h') ∧ Same h h' ∧
      marked.length = cells.length ∧ (∀ m ∈ marked, 2 ≤ m.top.toNat ∧ m.top.toNat ≤ 4) ∧
      DstOK x' (wx ++ mx) ∧ (h.sameSizeGrow = false → DstOK y' (wy ++ my)) ∧
      (chainAbs mx ++ chainAbs my).Perm (chainAbs cells) ∧
      (h.sameSizeGrow = true → my = []) ∧
      (∀ m ∈ mx, MovedFrom o h.hash0 newbit h.sameSizeGrow cells false m) ∧
      (∀ m ∈ my, MovedFrom o h.hash0 newbit h.sameSizeGrow cells true m) := by
  induction cells with
  | nil =>
    intro x y h wx wy hx hy _
    exact ⟨[], x, y, h, [], [], rfl, Same.refl h, rfl, by simp, by simpa using hx, by simpa using hy, by simp,
      fun _ => rfl, by simp, by simp⟩
  | cons c cs ih =>
    intro x y h wx wy hx hy hsrc
    have hsrc' : ∀ c' ∈ cs, isEmptyTop c'.top = false → c'.live = true ∧ o.unhashable c'.key = false :=
      fun c' hc' => hsrc c' (by simp [hc'])
    rw [evacCells]
    cases hemp : isEmptyTop c.top with
    | true =>
      obtain ⟨marked, x', y', h', mx, my, hev, hs, hlen, hmk, dx, dy, hperm, hssg, hmx, hmy⟩ := ih x y h wx wy hx hy hsrc'
      simp only [if_true, hev, bind, Except.bind, pure, Except.pure]
      refine ⟨_, x', y', h', mx, my, rfl, hs, by simp [hlen], ?_, dx, dy, ?_, hssg,
        fun m hm => (hmx m hm).cons, fun m hm => (hmy m hm).cons⟩
      · intro m hm
        rcases List.mem_cons.1 hm with rfl | hm
        · simp [evacuatedEmpty]
        · exact hmk m hm
      · rw [chainAbs_cons_dead (dead_of_isEmpty hemp)]; exact hperm
    | false =>
      obtain ⟨hl, hu⟩ := hsrc c (by simp) hemp
      have h5 := live_iff.1 hl
      have hlt : ¬ c.top < minTopHash := by
        rw [UInt8.lt_iff_toNat_lt]; simp [minTopHash]; omega
      simp only [Bool.false_eq_true, if_false, hlt]
      obtain ⟨useY, top, h1, hdec, hs1, htop5, hssgY, hrefl⟩ := evacDecide_spec (newbit := newbit) h hl hu
      simp only [hdec, bind, Except.bind]
      have mlive : ({ top := top, key := c.key, val := c.val } : Cell K V).live = true := live_iff.2 htop5
      cases useY with
      | true =>
        simp only [if_true]
        have hsf : h.sameSizeGrow = false := by
          cases hq : h.sameSizeGrow with
          | false => rfl
          | true => exact absurd (hssgY hq) (by simp)
        obtain ⟨dy1, hs2⟩ := put_spec (hy hsf) { top := top, key := c.key, val := c.val } h1
        obtain ⟨marked, x', y', h', mx, my, hev, hs, hlen, hmk, dx, dy, hperm, hssg, hmx, hmy⟩ :=
          ih x _ _ wx _ hx (fun _ => dy1) hsrc'
        have hs12 := hs1.trans hs2
        rw [hev]
        refine ⟨_, x', y', h', mx, { top := top, key := c.key, val := c.val } :: my, rfl, hs12.trans hs,
          by simp [hlen], ?_, dx, (fun e => by simpa using dy (by rw [(hs1.trans hs2).ssg]; exact e)), ?_, ?_, ?_, ?_⟩
        · intro m hm
          rcases List.mem_cons.1 hm with rfl | hm
          · simp [evacuatedY]
          · exact hmk m hm
        · rw [chainAbs_cons_live hl, chainAbs_cons_live mlive]
          exact List.perm_middle.trans ((List.perm_cons _).2 hperm)
        · intro e
          have := hssgY e
          cases this
        · intro m hm
          have := (hmx m hm).cons (c := c)
          rw [hs12.hash0, hs12.ssg] at this
          exact this
        · intro m hm
          rcases List.mem_cons.1 hm with rfl | hm
          · exact ⟨htop5, c, by simp, hl, rfl, rfl, fun hr => ⟨(hrefl hr).1, fun hf => ((hrefl hr).2 hf).symm⟩⟩
          · have := (hmy m hm).cons (c := c)
            rw [hs12.hash0, hs12.ssg] at this
            exact this
      | false =>
        simp only [Bool.false_eq_true, if_false]
        obtain ⟨dx1, hs2⟩ := put_spec hx { top := top, key := c.key, val := c.val } h1
        obtain ⟨marked, x', y', h', mx, my, hev, hs, hlen, hmk, dx, dy, hperm, hssg, hmx, hmy⟩ :=
          ih _ y _ _ wy dx1 (fun e => hy (by rw [← (hs1.trans hs2).ssg]; exact e)) hsrc'
        have hs12 := hs1.trans hs2
        rw [hev]
        refine ⟨_, x', y', h', { top := top, key := c.key, val := c.val } :: mx, my, rfl, hs12.trans hs,
          by simp [hlen], ?_, by simpa using dx, (fun e => dy (by rw [(hs1.trans hs2).ssg]; exact e)), ?_, ?_, ?_, ?_⟩
        · intro m hm
          rcases List.mem_cons.1 hm with rfl | hm
          · simp [evacuatedX]
          · exact hmk m hm
        · rw [chainAbs_cons_live hl, chainAbs_cons_live mlive]
          exact (List.perm_cons _).2 hperm
        · intro e
          apply hssg
          rw [hs12.ssg]; exact e
        · intro m hm
          rcases List.mem_cons.1 hm with rfl | hm
          · exact ⟨htop5, c, by simp, hl, rfl, rfl, fun hr => ⟨(hrefl hr).1, fun hf => ((hrefl hr).2 hf).symm⟩⟩
          · have := (hmx m hm).cons (c := c)
            rw [hs12.hash0, hs12.ssg] at this
            exact this
        · intro m hm
          have := (hmy m hm).cons (c := c)
          rw [hs12.hash0, hs12.ssg] at this
          exact this

theorem mod_two_mul_lt {a n : Nat} (h : a % (2 * n) < n) : a % (2 * n) = a % n := by
  have := Nat.mod_mul_right_mod a n 2
  rw [Nat.mul_comm] at this
  rw [← this, Nat.mod_eq_of_lt h]

theorem mod_two_mul_ge {a n : Nat} (hn : 0 < n) (h : a % (2 * n) ≥ n) : a % (2 * n) = a % n + n := by
  have h1 := Nat.mod_mul_right_mod a n 2
  rw [Nat.mul_comm] at h1
  have h2 : a % (2 * n) < 2 * n := Nat.mod_lt _ (by omega)
  have h3 : a % (2 * n) % n = a % (2 * n) - n := by
    rw [Nat.mod_eq_sub_mod h, Nat.mod_eq_of_lt (by omega)]
  omega

omit [Inhabited K] [Inhabited V] in
theorem chainAbs_replicate_dead (n : Nat) (f : Cell K V) (hf : f.live = false) : chainAbs (List.replicate n f) = [] :=
  chainAbs_nil_of_dead (fun y hy => by rw [List.eq_of_mem_replicate hy]; exact hf)

omit [Inhabited K] [Inhabited V] in
theorem restOK_replicate_zero (n : Nat) (f : Cell K V) (hf : f.live = false) : RestOK (List.replicate n f) := by
  induction n with
  | zero => trivial
  | succ n ih =>
    rw [List.replicate_succ]
    exact ⟨fun _ y hy => by rw [List.eq_of_mem_replicate hy]; exact hf, ih⟩

theorem freshCell_dead : (freshCell K V).live = false := dead_of_emptyRest rfl

/-- the chain an evacuation destination ends up with is a well-formed chain holding exactly the written cells -/
theorem dst_chain_ok {d : Dst K V} {ws : List (Cell K V)} (hd : DstOK d ws) (hw : ∀ m ∈ ws, 5 ≤ m.top.toNat) :
    chainAbs d.chain = chainAbs ws ∧ NoMarks d.chain ∧ RestOK d.chain ∧ Len8 d.chain ∧
      (∀ m ∈ d.chain, m.live = true → m ∈ ws) := by
  obtain ⟨hi, hlen, hch⟩ := hd
  rw [hch]
  refine ⟨by rw [chainAbs_append, chainAbs_replicate_dead _ _ freshCell_dead]; simp, ?_, ?_, ?_, ?_⟩
  · intro m hm
    rcases List.mem_append.1 hm with hm | hm
    · right; exact hw m hm
    · left; rw [List.eq_of_mem_replicate hm]; simp [freshCell, emptyRest]
  · rw [RestOK_append_nonzero]
    · exact restOK_replicate_zero _ _ freshCell_dead
    · intro y hy e
      have := hw y hy
      rw [e] at this
      simp [emptyRest] at this
  · refine ⟨?_, ?_⟩
    · intro e
      have := congrArg List.length e
      simp only [List.length_append, List.length_replicate, List.length_nil] at this
      omega
    · simp only [List.length_append, List.length_replicate]
      have : ws.length + (8 * (d.bi + 1) - ws.length) = 8 * (d.bi + 1) := by omega
      rw [this]; omega
  · intro m hm hl
    rcases List.mem_append.1 hm with hm | hm
    · exact hm
    · rw [List.eq_of_mem_replicate hm, freshCell_dead] at hl; cases hl

omit [Inhabited K] [Inhabited V] in
/-- replacing a chain without filled cells adds the new chain's entries -/
theorem perm_set_of_dead {a : Array (Chain K V)} {i : Nat} (hi : i < a.size) (c : Chain K V)
    (hd : chainAbs a[i] = []) :
    (chainAbs (cellsOf (a.setIfInBounds i c))).Perm (chainAbs c ++ chainAbs (cellsOf a)) := by
  rw [cellsOf_set hi, cellsOf_split hi]
  simp only [chainAbs_append, hd, List.append_nil]
  exact (List.Perm.append_right _ List.perm_append_comm).trans (by simp)

omit [Inhabited K] [Inhabited V] in
/-- replacing a chain by one without filled cells removes its entries -/
theorem perm_set_to_dead {a : Array (Chain K V)} {i : Nat} (hi : i < a.size) (c : Chain K V)
    (hd : chainAbs c = []) :
    (chainAbs (cellsOf a)).Perm (chainAbs a[i] ++ chainAbs (cellsOf (a.setIfInBounds i c))) := by
  rw [cellsOf_set hi, cellsOf_split hi]
  simp only [chainAbs_append, hd, List.append_nil]
  exact (List.Perm.append_right _ List.perm_append_comm).trans (by simp)

theorem freshBucket_abs : chainAbs (freshBucket K V) = [] :=
  chainAbs_replicate_dead _ _ (dead_of_emptyRest rfl)

omit [Inhabited K] [Inhabited V] in
theorem evacuatedChain_of_marks {c : List (Cell K V)} (hne : c ≠ []) (hm : ∀ m ∈ c, 2 ≤ m.top.toNat ∧ m.top.toNat ≤ 4) :
    evacuatedChain c = true := by
  cases c with
  | nil => exact absurd rfl hne
  | cons x r =>
    have := hm x (by simp)
    simp only [evacuatedChain, emptyOne, minTopHash, Bool.and_eq_true, decide_eq_true_eq, UInt8.lt_iff_toNat_lt]
    have h1 : (1 : UInt8).toNat = 1 := rfl
    have h5 : (5 : UInt8).toNat = 5 := rfl
    omega

omit [Inhabited K] [Inhabited V] in
theorem not_evacuated_of_noMarks {c : List (Cell K V)} (hn : NoMarks c) : evacuatedChain c = false := by
  cases c with
  | nil => rfl
  | cons x r =>
    have := hn x (by simp)
    simp only [evacuatedChain, emptyOne, minTopHash]
    have h1 : (1 : UInt8).toNat = 1 := rfl
    have h5 : (5 : UInt8).toNat = 5 := rfl
    cases hd : decide (x.top > 1) && decide (x.top < 5) with
    | false => exact hd
    | true =>
      simp only [Bool.and_eq_true, decide_eq_true_eq, UInt8.lt_iff_toNat_lt, gt_iff_lt] at hd
      omega


omit [Inhabited K] [Inhabited V] in
theorem getElem_of_getElem? {a : Array (Chain K V)} {i : Nat} {c : Chain K V} (h : a[i]? = some c) :
    ∃ hi : i < a.size, a[i] = c := by
  have hi : i < a.size := by
    cases Nat.lt_or_ge i a.size with
    | inl h' => exact h'
    | inr h' => rw [Array.getElem?_eq_none h'] at h; cases h
  rw [Array.getElem?_eq_getElem hi] at h
  exact ⟨hi, Option.some.inj h⟩

omit [Inhabited K] [Inhabited V] in
theorem getD_of_getElem? {a : Array (Chain K V)} {i : Nat} {c : Chain K V} (h : a[i]? = some c) : a.getD i [] = c := by
  rw [Array.getD_eq_getD_getElem?, h]; rfl

/-- chain properties required by `WF.newOK` -/
def NewChainOK (o : Ops K) (seed : UInt32) (n i : Nat) (c : Chain K V) : Prop :=
  NoMarks c ∧ RestOK c ∧ Placed o seed n i c ∧ Hashable o c ∧ Len8 c

/-- chain properties required by `OldOK.chains` -/
def OldChainOK (o : Ops K) (h : HMap K V) (j : Nat) (c : Chain K V) : Prop :=
  (evacuatedChain c = true → ∀ x ∈ c, x.live = false) ∧
  (evacuatedChain c = false →
    NoMarks c ∧ RestOK c ∧ Placed o h.hash0 h.noldbuckets j c ∧ Hashable o c ∧ c ≠ [] ∧
    h.buckets[j]? = some (freshBucket K V) ∧
    (h.sameSizeGrow = false → h.buckets[j + h.noldbuckets]? = some (freshBucket K V)))

theorem WF.newOK' {o : Ops K} {h : HMap K V} (hw : WF o h) {i : Nat} {c : Chain K V} (hc : h.buckets[i]? = some c) :
    NewChainOK o h.hash0 (2 ^ h.B) i c := by
  obtain ⟨hi, rfl⟩ := getElem_of_getElem? hc
  exact hw.newOK i hi

theorem OldOK.chains' {o : Ops K} {h : HMap K V} {oa : Array (Chain K V)} (hO : OldOK o h oa) {j : Nat} {c : Chain K V}
    (hc : oa[j]? = some c) : OldChainOK o h j c := by
  obtain ⟨hj, rfl⟩ := getElem_of_getElem? hc
  exact hO.chains j hj

theorem wf_intro {o : Ops K} {h : HMap K V} (hsize : h.buckets.size = 2 ^ h.B)
    (hnew : ∀ i c, h.buckets[i]? = some c → NewChainOK o h.hash0 (2 ^ h.B) i c)
    (hcount : h.count = (abs h).length) (hnd : NoDupKeys o.eq (abs h))
    (hold : match h.old with
      | none => h.sameSizeGrow = false
      | some oa => OldOK o h oa) : WF o h :=
  ⟨hsize, fun i hi => hnew i _ (Array.getElem?_eq_getElem hi), hcount, hnd, hold⟩

theorem oldOK_intro {o : Ops K} {h : HMap K V} {oa : Array (Chain K V)} (hsize : oa.size = h.noldbuckets)
    (hb : h.sameSizeGrow = false → 1 ≤ h.B) (hn : h.nevacuate < oa.size)
    (hdone : ∀ j c, oa[j]? = some c → j < h.nevacuate → evacuatedChain c = true)
    (hch : ∀ j c, oa[j]? = some c → OldChainOK o h j c) : OldOK o h oa :=
  ⟨hsize, hb, hn, fun j hj hjn => hdone j _ (Array.getElem?_eq_getElem hj) hjn,
   fun j hj => hch j _ (Array.getElem?_eq_getElem hj)⟩

theorem OldOK.done' {o : Ops K} {h : HMap K V} {oa : Array (Chain K V)} (hO : OldOK o h oa) {j : Nat} {c : Chain K V}
    (hc : oa[j]? = some c) (hjn : j < h.nevacuate) : evacuatedChain c = true := by
  obtain ⟨hj, rfl⟩ := getElem_of_getElem? hc
  exact hO.done j hj hjn


omit [Inhabited K] [Inhabited V] in
theorem noldbuckets_congr {h h' : HMap K V} (hB : h'.B = h.B) (hs : h'.sameSizeGrow = h.sameSizeGrow) :
    h'.noldbuckets = h.noldbuckets := by
  simp only [HMap.noldbuckets, hB, hs]

/-- the table after the copy loop of `evacuate` for old bucket `j` -/
def evacDone (h2 : HMap K V) (oa : Array (Chain K V)) (j newbit : Nat) (x y : Dst K V) (marked : List (Cell K V)) :
    HMap K V :=
  { h2 with
    buckets := if !h2.sameSizeGrow then (h2.buckets.setIfInBounds j x.chain).setIfInBounds (j + newbit) y.chain
               else h2.buckets.setIfInBounds j x.chain,
    old := some (oa.setIfInBounds j marked) }

theorem dstOK_fresh : DstOK ({ chain := freshBucket K V } : Dst K V) [] :=
  ⟨by simp, by simp, by simp [freshBucket, bucketCnt, freshCell]⟩

/-- the cells written to a destination form a chain that satisfies the invariant of the new table at index `t` -/
theorem dest_chain_ok {o : Ops K} (ho : HashOK o) {h : HMap K V} {src : List (Cell K V)} {j t : Nat} {toY : Bool}
    {d : Dst K V} {ws : List (Cell K V)} (hd : DstOK d ws)
    (hsrcP : Placed o h.hash0 h.noldbuckets j src) (hsrcH : Hashable o src)
    (hmv : ∀ m ∈ ws, MovedFrom o h.hash0 h.noldbuckets h.sameSizeGrow src toY m)
    (hidx : ∀ a : Nat, a % h.noldbuckets = j →
      (h.sameSizeGrow = false → decide (a % (2 * h.noldbuckets) ≥ h.noldbuckets) = toY) → a % 2 ^ h.B = t) :
    NewChainOK o h.hash0 (2 ^ h.B) t d.chain ∧ chainAbs d.chain = chainAbs ws := by
  obtain ⟨hA, hN, hR, hne, hmem⟩ := dst_chain_ok hd (fun m hm => (hmv m hm).1)
  refine ⟨⟨hN, hR, ?_, ?_, hne⟩, hA⟩
  · intro m hm hl hr
    obtain ⟨_, c, hc, hcl, hk, _, hrf⟩ := hmv m (hmem m hm hl)
    rw [hk] at hr ⊢
    obtain ⟨e1, e2⟩ := hrf hr
    obtain ⟨p1, p2⟩ := hsrcP c hc hcl hr
    exact ⟨by rw [e1]; exact p1, hidx _ p2 e2⟩
  · intro m hm hl
    obtain ⟨_, c, hc, hcl, hk, _, _⟩ := hmv m (hmem m hm hl)
    rw [hk]; exact hsrcH c hc hcl

theorem evacuate_body {o : Ops K} (ho : HashOK o) {h : HMap K V} (hw : WF o h) {oa : Array (Chain K V)}
    (hold : h.old = some oa) {j : Nat} (hj : j < oa.size) (hne : evacuatedChain oa[j] = false) :
    ∃ marked x y h2,
      evacCells o h.noldbuckets oa[j] { chain := h.buckets.getD j [] }
        { chain := h.buckets.getD (j + h.noldbuckets) [] } h = .ok (marked, x, y, h2) ∧ Same h h2 ∧
      WF o (evacDone h2 oa j h.noldbuckets x y marked) ∧
      (abs (evacDone h2 oa j h.noldbuckets x y marked)).Perm (abs h) ∧ evacuatedChain marked = true ∧
      marked.length = oa[j].length := by
  have hO := hw.old
  rw [hold] at hO
  simp only at hO
  obtain ⟨sN, sR, sP, sH, sne, fx, fy⟩ := (hO.chains j hj).2 hne
  have hjn : j < h.noldbuckets := by rw [← hO.size]; exact hj
  obtain ⟨q, hq, hpos⟩ := nold_dvd hw hold
  have gx : h.buckets.getD j [] = freshBucket K V := getD_of_getElem? fx
  obtain ⟨hjb, hbj⟩ := getElem_of_getElem? fx
  have hsrc : ∀ c ∈ oa[j], isEmptyTop c.top = false → c.live = true ∧ o.unhashable c.key = false := by
    intro c hc he
    have hl : c.live = true := by
      rcases sN c hc with h1 | h1
      · exfalso
        simp only [isEmptyTop, emptyOne, decide_eq_false_iff_not, UInt8.le_iff_toNat_le] at he
        have : (1 : UInt8).toNat = 1 := rfl
        omega
      · exact live_iff.2 h1
    exact ⟨hl, sH c hc hl⟩
  have dyOK : h.sameSizeGrow = false → DstOK ({ chain := h.buckets.getD (j + h.noldbuckets) [] } : Dst K V) [] := by
    intro e
    rw [getD_of_getElem? (fy e)]
    exact dstOK_fresh
  rw [gx]
  obtain ⟨marked, x, y, h2, mx, my, hev, hs, hlen, hmk, dx, dy, hperm, hssg, hmx, hmy⟩ :=
    evacCells_spec (o := o) (newbit := h.noldbuckets) oa[j] { chain := freshBucket K V }
      { chain := h.buckets.getD (j + h.noldbuckets) [] } h [] [] dstOK_fresh dyOK hsrc
  simp only [List.nil_append] at dx dy
  have hmkne : marked ≠ [] := by
    intro e; rw [e] at hlen
    exact sne (List.eq_nil_of_length_eq_zero hlen.symm)
  have hmev : evacuatedChain marked = true := evacuatedChain_of_marks hmkne hmk
  have hmdead : chainAbs marked = [] := chainAbs_nil_of_dead (fun m hm => by
    have := hmk m hm
    simp only [Cell.live, decide_eq_false_iff_not]; omega)
  -- arithmetic of the two destination indices
  have idxX : ∀ a : Nat, a % h.noldbuckets = j →
      (h.sameSizeGrow = false → decide (a % (2 * h.noldbuckets) ≥ h.noldbuckets) = false) → a % 2 ^ h.B = j := by
    intro a ha hdec
    cases hssgc : h.sameSizeGrow with
    | true =>
      have : h.noldbuckets = 2 ^ h.B := by simp [HMap.noldbuckets, hssgc]
      rw [← this]; exact ha
    | false =>
      have hB := hO.bpos hssgc
      have h2n : 2 ^ h.B = 2 * h.noldbuckets := by
        simp only [HMap.noldbuckets, hssgc]
        have : h.B = (h.B - 1) + 1 := by omega
        conv => lhs; rw [this, Nat.pow_succ]
        simp; omega
      have := hdec hssgc
      simp only [decide_eq_false_iff_not, Nat.not_le] at this
      rw [h2n, mod_two_mul_lt this]; exact ha
  have idxY : h.sameSizeGrow = false → ∀ a : Nat, a % h.noldbuckets = j →
      (h.sameSizeGrow = false → decide (a % (2 * h.noldbuckets) ≥ h.noldbuckets) = true) →
      a % 2 ^ h.B = j + h.noldbuckets := by
    intro hssgc a ha hdec
    have hB := hO.bpos hssgc
    have h2n : 2 ^ h.B = 2 * h.noldbuckets := by
      simp only [HMap.noldbuckets, hssgc]
      have : h.B = (h.B - 1) + 1 := by omega
      conv => lhs; rw [this, Nat.pow_succ]
      simp; omega
    have := hdec hssgc
    simp only [decide_eq_true_eq] at this
    rw [h2n, mod_two_mul_ge hpos this, ha]
  obtain ⟨xOK, xA⟩ := dest_chain_ok (t := j) ho dx sP sH hmx idxX
  -- the entries: nothing is lost, nothing is duplicated
  have hOldPerm : (chainAbs (cellsOf oa)).Perm (chainAbs oa[j] ++ chainAbs (cellsOf (oa.setIfInBounds j marked))) :=
    perm_set_to_dead hj marked hmdead
  have hfreshj : chainAbs h.buckets[j] = [] := by rw [hbj]; exact freshBucket_abs
  have hperm' : (abs (evacDone h2 oa j h.noldbuckets x y marked)).Perm (abs h) := by
    unfold abs allCells
    simp only [evacDone, hold, Option.getD_some, chainAbs_append, hs.buckets, hs.ssg]
    cases hssgc : h.sameSizeGrow with
    | true =>
      simp only [Bool.not_true, Bool.false_eq_true, if_false]
      have hmy0 : my = [] := hssg hssgc
      rw [hmy0] at hperm
      simp only [chainAbs_nil, List.append_nil] at hperm
      have p1 := perm_set_of_dead hjb x.chain hfreshj
      rw [xA] at p1
      -- (mx ++ N) ++ O'  ~  N ++ (c_j ++ O')
      refine (List.Perm.append_right _ p1).trans ?_
      refine List.Perm.trans ?_ (List.Perm.append_left _ hOldPerm.symm)
      refine (List.Perm.append_right _ (List.perm_append_comm)).trans ?_
      simp only [List.append_assoc]
      exact List.Perm.append_left _ (List.Perm.append_right _ hperm)
    | false =>
      simp only [Bool.not_false, if_true]
      obtain ⟨yOK, yA⟩ := dest_chain_ok (t := j + h.noldbuckets) ho (dy hssgc) sP sH hmy (idxY hssgc)
      obtain ⟨hjb2, hbj2⟩ := getElem_of_getElem? (fy hssgc)
      have hne2 : j ≠ j + h.noldbuckets := by omega
      have hj2' : j + h.noldbuckets < (h.buckets.setIfInBounds j x.chain).size := by simpa using hjb2
      have hfresh2 : chainAbs (h.buckets.setIfInBounds j x.chain)[j + h.noldbuckets] = [] := by
        have e : (h.buckets.setIfInBounds j x.chain)[j + h.noldbuckets]? = some (freshBucket K V) := by
          rw [Array.getElem?_setIfInBounds_ne hne2]; exact fy hssgc
        obtain ⟨_, e'⟩ := getElem_of_getElem? e
        rw [e']; exact freshBucket_abs
      have p2 := perm_set_of_dead hj2' y.chain hfresh2
      have p1 := perm_set_of_dead hjb x.chain hfreshj
      rw [yA] at p2
      rw [xA] at p1
      -- (my ++ (mx ++ N)) ++ O' ~ N ++ (c_j ++ O')
      refine (List.Perm.append_right _ (p2.trans (List.Perm.append_left _ p1))).trans ?_
      refine List.Perm.trans ?_ (List.Perm.append_left _ hOldPerm.symm)
      have : (chainAbs my ++ (chainAbs mx ++ chainAbs (cellsOf h.buckets))).Perm
          (chainAbs (cellsOf h.buckets) ++ chainAbs oa[j]) := by
        rw [← List.append_assoc]
        refine List.perm_append_comm.trans (List.Perm.append_left _ ?_)
        exact List.perm_append_comm.trans hperm
      refine (List.Perm.append_right _ this).trans ?_
      simp only [List.append_assoc]
      exact List.Perm.refl _
  refine ⟨marked, x, y, h2, hev, hs, ?_, hperm', hmev, hlen⟩
  -- WF
  have gB : (evacDone h2 oa j h.noldbuckets x y marked).B = h.B := hs.B
  have g0 : (evacDone h2 oa j h.noldbuckets x y marked).hash0 = h.hash0 := hs.hash0
  have gs : (evacDone h2 oa j h.noldbuckets x y marked).sameSizeGrow = h.sameSizeGrow := hs.ssg
  have gn : (evacDone h2 oa j h.noldbuckets x y marked).nevacuate = h.nevacuate := hs.nev
  have gc : (evacDone h2 oa j h.noldbuckets x y marked).count = h.count := hs.count
  have gnold : (evacDone h2 oa j h.noldbuckets x y marked).noldbuckets = h.noldbuckets := by
    exact noldbuckets_congr gB gs
  have gold : (evacDone h2 oa j h.noldbuckets x y marked).old = some (oa.setIfInBounds j marked) := rfl
  -- the chains of the new array
  have gbk : ∀ i c, (evacDone h2 oa j h.noldbuckets x y marked).buckets[i]? = some c →
      (i = j ∧ c = x.chain) ∨ (h.sameSizeGrow = false ∧ i = j + h.noldbuckets ∧ c = y.chain) ∨
      (i ≠ j ∧ (h.sameSizeGrow = false → i ≠ j + h.noldbuckets) ∧ h.buckets[i]? = some c) := by
    intro i c hc
    simp only [evacDone, hs.buckets, hs.ssg] at hc
    cases hssgc : h.sameSizeGrow with
    | true =>
      simp only [hssgc, Bool.not_true, Bool.false_eq_true, if_false] at hc
      rw [Array.getElem?_setIfInBounds] at hc
      split at hc
      · rename_i e
        left
        simp only [hjb, if_true, Option.some.injEq] at hc
        exact ⟨e.symm, hc.symm⟩
      · rename_i e
        right; right
        exact ⟨fun e' => e e'.symm, (fun e' => by cases e'), hc⟩
    | false =>
      simp only [hssgc, Bool.not_false, if_true] at hc
      rw [Array.getElem?_setIfInBounds] at hc
      split at hc
      · rename_i e
        right; left
        split at hc
        · exact ⟨rfl, e.symm, (Option.some.inj hc).symm⟩
        · cases hc
      · rename_i e
        rw [Array.getElem?_setIfInBounds] at hc
        split at hc
        · rename_i e2
          left
          simp only [hjb, if_true, Option.some.injEq] at hc
          exact ⟨e2.symm, hc.symm⟩
        · rename_i e2
          right; right
          exact ⟨fun e' => e2 e'.symm, fun _ e' => e e'.symm, hc⟩
  have gbk_other : ∀ i, i ≠ j → (h.sameSizeGrow = false → i ≠ j + h.noldbuckets) →
      (evacDone h2 oa j h.noldbuckets x y marked).buckets[i]? = h.buckets[i]? := by
    intro i h1 h2'
    simp only [evacDone, hs.buckets, hs.ssg]
    cases hssgc : h.sameSizeGrow with
    | true =>
      simp only [Bool.not_true, Bool.false_eq_true, if_false]
      exact Array.getElem?_setIfInBounds_ne (Ne.symm h1)
    | false =>
      simp only [Bool.not_false, if_true]
      rw [Array.getElem?_setIfInBounds_ne (Ne.symm (h2' hssgc)), Array.getElem?_setIfInBounds_ne (Ne.symm h1)]
  apply wf_intro
  · rw [gB]
    simp only [evacDone, hs.buckets]
    split <;> simp [hw.size]
  · intro i c hc
    rw [g0, gB]
    rcases gbk i c hc with ⟨rfl, rfl⟩ | ⟨hssgc, rfl, rfl⟩ | ⟨_, _, hc'⟩
    · exact xOK
    · exact (dest_chain_ok (t := j + h.noldbuckets) ho (dy hssgc) sP sH hmy (idxY hssgc)).1
    · exact hw.newOK' hc'
  · rw [gc, hw.count]; exact hperm'.length_eq.symm
  · exact nodup_perm ho.eqok hperm'.symm hw.nodup
  · rw [gold]
    simp only
    apply oldOK_intro
    · rw [gnold]; simpa using hO.size
    · rw [gs, gB]; exact hO.bpos
    · rw [gn]; simpa using hO.nevac
    · intro j' c hc hjn
      rw [gn] at hjn
      rw [Array.getElem?_setIfInBounds] at hc
      split at hc
      · simp only [hj, if_true, Option.some.injEq] at hc
        rw [← hc]; exact hmev
      · exact hO.done' hc hjn
    · intro j' c hc
      rw [Array.getElem?_setIfInBounds] at hc
      split at hc
      · simp only [hj, if_true, Option.some.injEq] at hc
        rw [← hc]
        refine ⟨fun _ m hm => ?_, fun e => by rw [hmev] at e; cases e⟩
        have := hmk m hm
        simp only [Cell.live, decide_eq_false_iff_not]; omega
      · rename_i hjj
        obtain ⟨hj', _⟩ := getElem_of_getElem? hc
        have hj'n : j' < h.noldbuckets := by rw [← hO.size]; exact hj'
        obtain ⟨c1, c2⟩ := hO.chains' hc
        refine ⟨c1, fun e => ?_⟩
        obtain ⟨a1, a2, a3, a4, a5, a6, a7⟩ := c2 e
        refine ⟨a1, a2, by rw [g0, gnold]; exact a3, a4, a5, ?_, ?_⟩
        · rw [gbk_other j' (fun e' => hjj e'.symm) (fun _ => by omega)]; exact a6
        · intro hsf
          rw [gs] at hsf
          rw [gnold, gbk_other (j' + h.noldbuckets) (by omega) (fun _ => by omega)]
          exact a7 hsf

/-- old bucket `j` is evacuated (or the map is not growing) -/
def EvacAt (h : HMap K V) (j : Nat) : Prop :=
  match h.old with
  | none => True
  | some oa => evacuatedChain (oa.getD j []) = true

omit [Inhabited K] [Inhabited V] in
theorem home_iff (h : HMap K V) (b : Nat) : Home h b ↔ EvacAt h (b % h.noldbuckets) := by
  unfold Home EvacAt; cases h.old <;> simp

omit [Inhabited K] [Inhabited V] in
theorem advanceLoop_spec (oa : Array (Chain K V)) (stop : Nat) : ∀ (fuel n : Nat), n ≤ stop →
    n ≤ advanceLoop oa stop fuel n ∧ advanceLoop oa stop fuel n ≤ stop ∧
    ∀ j, n ≤ j → j < advanceLoop oa stop fuel n → bucketEvacuated oa j = true := by
  intro fuel
  induction fuel with
  | zero => intro n hn; exact ⟨Nat.le_refl _, hn, fun j h1 h2 => by simp [advanceLoop] at h2; omega⟩
  | succ fuel ih =>
    intro n hn
    simp only [advanceLoop]
    split
    · rename_i hc
      simp only [Bool.and_eq_true, bne_iff_ne, ne_eq] at hc
      obtain ⟨a, b, c⟩ := ih (n + 1) (by omega)
      refine ⟨by omega, b, fun j h1 h2 => ?_⟩
      by_cases hj : j = n
      · rw [hj]; exact hc.2
      · exact c j (by omega) h2
    · exact ⟨Nat.le_refl _, hn, fun j h1 h2 => by omega⟩

/-- all chains of the old array are evacuated: it contributes nothing -/
theorem old_dead {o : Ops K} {h : HMap K V} {oa : Array (Chain K V)} (hO : OldOK o h oa)
    (hall : ∀ j (hj : j < oa.size), evacuatedChain oa[j] = true) : chainAbs (cellsOf oa) = [] := by
  apply chainAbs_nil_of_dead
  intro x hx
  obtain ⟨j, hj, hxj⟩ := mem_cellsOf hx
  exact (hO.chains j hj).1 (hall j hj) x hxj

theorem advance_spec {o : Ops K} {h : HMap K V} (hw : WF o h) {oa : Array (Chain K V)} (hold : h.old = some oa)
    (hev : evacuatedChain (oa.getD h.nevacuate []) = true) :
    WF o (advanceEvacuationMark h h.noldbuckets) ∧ abs (advanceEvacuationMark h h.noldbuckets) = abs h ∧
    (advanceEvacuationMark h h.noldbuckets).B = h.B ∧ (advanceEvacuationMark h h.noldbuckets).hash0 = h.hash0 ∧
    (advanceEvacuationMark h h.noldbuckets).count = h.count ∧
    ((advanceEvacuationMark h h.noldbuckets).old = none ∨
      ((advanceEvacuationMark h h.noldbuckets).old = some oa ∧
       (advanceEvacuationMark h h.noldbuckets).sameSizeGrow = h.sameSizeGrow)) := by
  have hO := hw.old
  rw [hold] at hO
  simp only at hO
  have hsz := hO.size
  have hnv := hO.nevac
  unfold advanceEvacuationMark
  split
  · rename_i hn; rw [hold] at hn; cases hn
  rename_i oa' hsome
  rw [hold] at hsome
  cases hsome
  simp only
  obtain ⟨l1, l2, l3⟩ := advanceLoop_spec oa (min (h.nevacuate + 1 + 1024) h.noldbuckets) 1024 (h.nevacuate + 1)
    (by rw [← hsz]; omega)
  generalize advanceLoop oa (min (h.nevacuate + 1 + 1024) h.noldbuckets) 1024 (h.nevacuate + 1) = r at *
  have hevac : ∀ j (hj : j < oa.size), j < r → evacuatedChain oa[j] = true := by
    intro j hj hjr
    by_cases h1 : j < h.nevacuate
    · exact hO.done j hj h1
    · by_cases h2 : j = h.nevacuate
      · subst h2; rw [getD_eq hj] at hev; exact hev
      · have := l3 j (by omega) hjr
        unfold bucketEvacuated at this
        rw [getD_eq hj] at this; exact this
  split
  · rename_i hr
    have hr' : r = h.noldbuckets := by simpa using hr
    have hdead : chainAbs (cellsOf oa) = [] := old_dead hO (fun j hj => hevac j hj (by rw [hr', ← hsz]; exact hj))
    have habs : abs { h with nevacuate := r, old := none, sameSizeGrow := false, dead := (h.gen - 1, oa) :: h.dead } = abs h := by
      unfold abs allCells
      simp only [hold, Option.getD_none, Option.getD_some, chainAbs_append, hdead]
      simp [cellsOf]
    refine ⟨?_, habs, rfl, rfl, rfl, Or.inl rfl⟩
    exact ⟨hw.size, hw.newOK, by rw [habs]; exact hw.count, by rw [habs]; exact hw.nodup, rfl⟩
  · rename_i hr
    have hr' : r ≠ h.noldbuckets := by simpa using hr
    have habs : abs { h with nevacuate := r } = abs h := rfl
    refine ⟨?_, habs, rfl, rfl, rfl, Or.inr ⟨hold, rfl⟩⟩
    refine ⟨hw.size, hw.newOK, hw.count, hw.nodup, ?_⟩
    simp only [hold]
    exact ⟨hO.size, hO.bpos, by show r < oa.size; rw [hsz]; omega, fun j hj hjr => hevac j hj hjr, hO.chains⟩


/-- what one call of `evacuate(t, h, j)` establishes -/
structure EvacPost (o : Ops K) (h h' : HMap K V) (j : Nat) : Prop where
  wf : WF o h'
  perm : (abs h').Perm (abs h)
  B : h'.B = h.B
  hash0 : h'.hash0 = h.hash0
  count : h'.count = h.count
  ssg : ∀ oa', h'.old = some oa' → h'.sameSizeGrow = h.sameSizeGrow ∧ ∃ oa, h.old = some oa ∧ oa'.size = oa.size
  evac : EvacAt h' j
  mono : ∀ j', EvacAt h j' → EvacAt h' j'
  still : h.old = none → h'.old = none

omit [Inhabited K] [Inhabited V] in
theorem getD_set_self {a : Array (Chain K V)} {j : Nat} (hj : j < a.size) (c : Chain K V) :
    (a.setIfInBounds j c).getD j [] = c := by
  rw [Array.getD_eq_getD_getElem?, Array.getElem?_setIfInBounds_self]; simp [hj]

omit [Inhabited K] [Inhabited V] in
theorem getD_set_ne {a : Array (Chain K V)} {j j' : Nat} (hne : j ≠ j') (c : Chain K V) :
    (a.setIfInBounds j c).getD j' [] = a.getD j' [] := by
  rw [Array.getD_eq_getD_getElem?, Array.getD_eq_getD_getElem?, Array.getElem?_setIfInBounds_ne hne]

theorem evacCopy_spec {o : Ops K} (ho : HashOK o) {h : HMap K V} (hw : WF o h) {oa : Array (Chain K V)}
    (hold : h.old = some oa) {j : Nat} (hj : j < oa.size) :
    ∃ h1, evacCopy o h oa j = .ok h1 ∧
      WF o h1 ∧ (abs h1).Perm (abs h) ∧ h1.B = h.B ∧ h1.hash0 = h.hash0 ∧ h1.count = h.count ∧
      h1.sameSizeGrow = h.sameSizeGrow ∧ h1.nevacuate = h.nevacuate ∧
      ∃ oa1, h1.old = some oa1 ∧ oa1.size = oa.size ∧ evacuatedChain (oa1.getD j []) = true ∧
        ∀ j', evacuatedChain (oa.getD j' []) = true → evacuatedChain (oa1.getD j' []) = true := by
  unfold evacCopy
  simp only [getD_eq hj]
  cases hev : evacuatedChain oa[j] with
  | true =>
    exact ⟨h, rfl, hw, List.Perm.refl _, rfl, rfl, rfl, rfl, rfl, oa, hold, rfl, (by rw [getD_eq hj]; exact hev),
      fun _ e => e⟩
  | false =>
    obtain ⟨marked, x, y, h2, hevc, hs, hwf, hperm, hmev, hlen⟩ := evacuate_body ho hw hold hj hev
    simp only [Bool.not_false, if_true, hevc, bind, Except.bind, pure, Except.pure]
    refine ⟨_, rfl, hwf, hperm, hs.B, hs.hash0, hs.count, hs.ssg, hs.nev, _, rfl, by simp, ?_, ?_⟩
    · rw [getD_set_self hj]; exact hmev
    · intro j' e
      by_cases hjj : j = j'
      · subst hjj; rw [getD_set_self hj]; exact hmev
      · rw [getD_set_ne hjj]; exact e

theorem evacuate_spec {o : Ops K} (ho : HashOK o) {h : HMap K V} (hw : WF o h) {j : Nat}
    (hjs : ∀ oa, h.old = some oa → j < oa.size) : ∃ h', evacuate o h j = .ok h' ∧ EvacPost o h h' j := by
  unfold evacuate
  split
  · rename_i hold
    exact ⟨h, rfl, hw, List.Perm.refl _, rfl, rfl, rfl, (fun oa' e => by rw [hold] at e; cases e),
      (by unfold EvacAt; rw [hold]; trivial), fun _ e => e, fun _ => hold⟩
  · rename_i oa hold
    have hj := hjs oa hold
    obtain ⟨h1, hstep, hw1, hp1, hB1, h01, hc1, hs1, hn1, oa1, hold1, hsz1, hev1, hmono1⟩ :=
      evacCopy_spec ho hw hold hj
    have hnold1 : h1.noldbuckets = h.noldbuckets := noldbuckets_congr hB1 hs1
    simp only [hstep, bind, Except.bind, pure, Except.pure]
    have hmono : ∀ j', EvacAt h j' → EvacAt h1 j' := by
      intro j' e
      unfold EvacAt at e ⊢
      rw [hold] at e; rw [hold1]
      exact hmono1 j' e
    split
    · rename_i hjn
      have hjn' : j = h1.nevacuate := by simpa using hjn
      have hev' : evacuatedChain (oa1.getD h1.nevacuate []) = true := by rw [← hjn']; exact hev1
      obtain ⟨aw, aabs, aB, a0, ac, aold⟩ := advance_spec hw1 hold1 hev'
      rw [hnold1] at aw aabs aB a0 ac aold
      refine ⟨_, rfl, aw, by rw [aabs]; exact hp1, aB.trans hB1, a0.trans h01, ac.trans hc1, ?_, ?_, ?_, ?_⟩
      · intro oa' e
        rcases aold with e0 | ⟨e1, e2⟩
        · rw [e0] at e; cases e
        · rw [e1] at e; cases e
          exact ⟨e2.trans hs1, oa, hold, hsz1⟩
      · unfold EvacAt
        rcases aold with e0 | ⟨e1, _⟩
        · rw [e0]; trivial
        · rw [e1]; exact hev1
      · intro j' e
        have := hmono j' e
        unfold EvacAt at this ⊢
        rcases aold with e0 | ⟨e1, _⟩
        · rw [e0]; trivial
        · rw [e1]; rw [hold1] at this; exact this
      · intro e; rw [hold] at e; cases e
    · refine ⟨h1, rfl, hw1, hp1, hB1, h01, hc1, ?_, ?_, hmono, ?_⟩
      · intro oa' e
        rw [hold1] at e; cases e
        exact ⟨hs1, oa, hold, hsz1⟩
      · unfold EvacAt; rw [hold1]; exact hev1
      · intro e; rw [hold] at e; cases e




theorem nold_pos (h : HMap K V) : 0 < h.noldbuckets := by
  unfold HMap.noldbuckets; split <;> exact Nat.pow_pos (by omega)

theorem growWork_spec {o : Ops K} (ho : HashOK o) {h : HMap K V} (hw : WF o h) (b : Nat) :
    ∃ h', growWork o h b = .ok h' ∧ WF o h' ∧ (abs h').Perm (abs h) ∧ h'.B = h.B ∧ h'.hash0 = h.hash0 ∧
      h'.count = h.count ∧ Home h' b ∧ (h.old = none → h'.old = none) := by
  unfold growWork
  have hjs : ∀ oa, h.old = some oa → b % h.noldbuckets < oa.size := by
    intro oa hold
    have hO := hw.old
    rw [hold] at hO
    rw [hO.size]; exact Nat.mod_lt _ (nold_pos h)
  obtain ⟨h1, he1, p1⟩ := evacuate_spec ho hw hjs
  simp only [he1, bind, Except.bind]
  cases hg : h1.old with
  | none =>
    have : h1.growing = false := by simp [HMap.growing, hg]
    simp only [this, Bool.false_eq_true, if_false, pure, Except.pure]
    exact ⟨h1, rfl, p1.wf, p1.perm, p1.B, p1.hash0, p1.count, by unfold Home; rw [hg]; trivial, fun _ => hg⟩
  | some oa1 =>
    have : h1.growing = true := by simp [HMap.growing, hg]
    simp only [this, if_true]
    have hO1 := p1.wf.old
    rw [hg] at hO1
    simp only at hO1
    obtain ⟨h2, he2, p2⟩ := evacuate_spec ho p1.wf (j := h1.nevacuate) (fun oa e => by
      rw [hg] at e; cases e; exact hO1.nevac)
    refine ⟨h2, he2, p2.wf, p2.perm.trans p1.perm, p2.B.trans p1.B, p2.hash0.trans p1.hash0,
      p2.count.trans p1.count, ?_, ?_⟩
    · rw [home_iff]
      cases hg2 : h2.old with
      | none => unfold EvacAt; rw [hg2]; trivial
      | some oa2 =>
        obtain ⟨s2, _⟩ := p2.ssg oa2 hg2
        obtain ⟨s1, _⟩ := p1.ssg oa1 hg
        have hn : h2.noldbuckets = h.noldbuckets := noldbuckets_congr (p2.B.trans p1.B) (s2.trans s1)
        rw [hn]
        exact p2.mono _ p1.evac
    · intro e
      have := p1.still e
      rw [hg] at this; cases this

theorem freshArray_get (B i : Nat) (hi : i < 2 ^ B) : (freshArray K V B)[i]? = some (freshBucket K V) := by
  unfold freshArray
  rw [Array.getElem?_replicate]; simp [hi]

theorem freshBucket_ok (o : Ops K) (seed : UInt32) (n i : Nat) : NewChainOK o seed n i (freshBucket K V) := by
  have hdead : ∀ y ∈ freshBucket K V, y.live = false := fun y hy => by
    rw [List.eq_of_mem_replicate hy]; exact dead_of_emptyRest rfl
  refine ⟨?_, restOK_replicate_zero _ _ (dead_of_emptyRest rfl), ?_, ?_, ⟨by simp [freshBucket, bucketCnt], by simp [freshBucket, bucketCnt]⟩⟩
  · intro y hy; left; rw [List.eq_of_mem_replicate hy]; simp [emptyRest]
  · intro y hy hl; rw [hdead y hy] at hl; cases hl
  · intro y hy hl; rw [hdead y hy] at hl; cases hl

theorem cellsOf_fresh_abs (B : Nat) : chainAbs (cellsOf (freshArray K V B)) = [] := by
  apply chainAbs_nil_of_dead
  intro x hx
  obtain ⟨i, hi, hxi⟩ := mem_cellsOf hx
  have : (freshArray K V B)[i] = freshBucket K V := by simp [freshArray]
  rw [this] at hxi
  rw [List.eq_of_mem_replicate hxi]; exact dead_of_emptyRest rfl

theorem hashGrow_spec {o : Ops K} {h : HMap K V} (hw : WF o h) (hold : h.old = none) :
    WF o (hashGrow h) ∧ abs (hashGrow h) = abs h ∧ (hashGrow h).old = some h.buckets ∧
      (hashGrow h).hash0 = h.hash0 ∧ (hashGrow h).count = h.count := by
  have hssg : h.sameSizeGrow = false := by have := hw.old; rw [hold] at this; exact this
  have habs : abs (hashGrow h) = abs h := by
    unfold abs allCells hashGrow
    simp only [hold, Option.getD_some, Option.getD_none, chainAbs_append, cellsOf_fresh_abs]
    simp [cellsOf]
  -- the two shapes of growth
  have shape : ((hashGrow h).B = h.B + 1 ∧ (hashGrow h).sameSizeGrow = false) ∨
      ((hashGrow h).B = h.B ∧ (hashGrow h).sameSizeGrow = true) := by
    unfold hashGrow
    cases hb : overLoadFactor (h.count + 1) h.B
    · right; simp
    · left; simp [hssg]
  have hbk : (hashGrow h).buckets = freshArray K V (hashGrow h).B := rfl
  have hnold : (hashGrow h).noldbuckets = 2 ^ h.B := by
    unfold HMap.noldbuckets
    rcases shape with ⟨e1, e2⟩ | ⟨e1, e2⟩ <;> simp [e1, e2]
  have hBle : 2 ^ h.B ≤ 2 ^ (hashGrow h).B := by
    rcases shape with ⟨e1, _⟩ | ⟨e1, _⟩ <;> rw [e1]
    · rw [Nat.pow_succ]; omega
    · exact Nat.le_refl _
  refine ⟨?_, habs, rfl, rfl, rfl⟩
  apply wf_intro
  · rw [hbk]; simp [freshArray]
  · intro i c hc
    rw [hbk] at hc
    unfold freshArray at hc
    rw [Array.getElem?_replicate] at hc
    by_cases hlt : i < 2 ^ (hashGrow h).B
    · simp only [hlt, if_true, Option.some.injEq] at hc
      rw [← hc]; exact freshBucket_ok _ _ _ _
    · simp only [hlt, if_false] at hc; cases hc
  · rw [habs]; exact hw.count
  · rw [habs]; exact hw.nodup
  · show OldOK o (hashGrow h) h.buckets
    apply oldOK_intro
    · rw [hnold]; exact hw.size
    · intro e
      rcases shape with ⟨e1, _⟩ | ⟨_, e2⟩
      · omega
      · rw [e2] at e; cases e
    · show 0 < h.buckets.size
      rw [hw.size]; exact Nat.pow_pos (by omega)
    · intro j c _ hj
      have : (hashGrow h).nevacuate = 0 := rfl
      omega
    · intro j c hc
      obtain ⟨a1, a2, a3, a4, a5⟩ := hw.newOK' hc
      obtain ⟨hj, _⟩ := getElem_of_getElem? hc
      rw [hw.size] at hj
      have hne := not_evacuated_of_noMarks a1
      refine ⟨(fun e => by rw [hne] at e; cases e), fun _ => ⟨a1, a2, ?_, a4, a5.1, ?_, ?_⟩⟩
      · rw [hnold]; exact a3
      · rw [hbk]; exact freshArray_get _ _ (by omega)
      · intro e
        rw [hnold, hbk]
        apply freshArray_get
        rcases shape with ⟨e1, _⟩ | ⟨_, e2⟩
        · rw [e1, Nat.pow_succ]; omega
        · rw [e2] at e; cases e

/-! ## the operations of map.go against the association list -/

/-- a header whose bucket array is not allocated yet (`make(map[k]v)` with a small hint) -/
structure Lazy (h : HMap K V) : Prop where
  buckets : h.buckets = #[]
  B : h.B = 0
  count : h.count = 0
  old : h.old = none
  ssg : h.sameSizeGrow = false

/-- the invariant between operations -/
def Inv (o : Ops K) (h : HMap K V) : Prop := WF o h ∨ Lazy h

omit [Inhabited K] [Inhabited V] in
theorem abs_lazy {h : HMap K V} (hl : Lazy h) : abs h = [] := by
  unfold abs allCells cellsOf; rw [hl.buckets, hl.old]; rfl

theorem abs_nil_of_count {o : Ops K} {h : HMap K V} (hi : Inv o h) (hc : h.count = 0) : abs h = [] := by
  rcases hi with hw | hl
  · have := hw.count; rw [hc] at this; exact List.eq_nil_of_length_eq_zero this.symm
  · exact abs_lazy hl

theorem inv_count {o : Ops K} {h : HMap K V} (hi : Inv o h) : h.count = (abs h).length := by
  rcases hi with hw | hl
  · exact hw.count
  · rw [abs_lazy hl, hl.count]; rfl

theorem inv_nodup {o : Ops K} {h : HMap K V} (hi : Inv o h) : NoDupKeys o.eq (abs h) := by
  rcases hi with hw | hl
  · exact hw.nodup
  · rw [abs_lazy hl]; exact List.Pairwise.nil

omit [Inhabited K] [Inhabited V] in
theorem abs_same {h h' : HMap K V} (hs : Same h h') : abs h' = abs h := by
  unfold abs allCells; rw [hs.buckets, hs.old]

theorem wf_same {o : Ops K} {h h' : HMap K V} (hw : WF o h) (hs : Same h h') : WF o h' := by
  have hn : h'.noldbuckets = h.noldbuckets := noldbuckets_congr hs.B hs.ssg
  refine ⟨by rw [hs.buckets, hs.B]; exact hw.size, ?_, by rw [abs_same hs, hs.count]; exact hw.count,
    by rw [abs_same hs]; exact hw.nodup, ?_⟩
  · intro i hi
    have hi' : i < h.buckets.size := by rw [hs.buckets] at hi; exact hi
    have : h'.buckets[i] = h.buckets[i] := by simp [hs.buckets]
    rw [this, hs.hash0, hs.B]; exact hw.newOK i hi'
  · have hO := hw.old
    rw [hs.old]
    cases hold : h.old with
    | none => rw [hold] at hO; simpa [hs.ssg] using hO
    | some oa =>
      rw [hold] at hO
      simp only at hO ⊢
      refine ⟨by rw [hn]; exact hO.size, by rw [hs.ssg, hs.B]; exact hO.bpos, by rw [hs.nev]; exact hO.nevac,
        fun j hj hjn => hO.done j hj (by rw [← hs.nev]; exact hjn), fun j hj => ⟨(hO.chains j hj).1, fun e => ?_⟩⟩
      obtain ⟨a1, a2, a3, a4, a5, a6, a7⟩ := (hO.chains j hj).2 e
      exact ⟨a1, a2, by rw [hs.hash0, hn]; exact a3, a4, a5, by rw [hs.buckets]; exact a6,
        fun e' => by rw [hs.buckets, hn]; exact a7 (by rw [← hs.ssg]; exact e')⟩

theorem lazy_same {h h' : HMap K V} (hl : Lazy h) (hs : Same h h') : Lazy h' :=
  ⟨hs.buckets.trans hl.buckets, hs.B.trans hl.B, hs.count.trans hl.count, hs.old.trans hl.old, hs.ssg.trans hl.ssg⟩

theorem inv_same {o : Ops K} {h h' : HMap K V} (hi : Inv o h) (hs : Same h h') : Inv o h' := by
  rcases hi with hw | hl
  · exact Or.inl (wf_same hw hs)
  · exact Or.inr (lazy_same hl hs)

/-- `h.buckets = newobject(t.Bucket)` on first use -/
theorem wf_alloc {o : Ops K} {h : HMap K V} (hl : Lazy h) : WF o { h with buckets := #[freshBucket K V] } := by
  have habs : abs { h with buckets := #[freshBucket K V] } = [] := by
    unfold abs allCells cellsOf
    simp only [hl.old, Option.getD_none, chainAbs_append]
    simp [freshBucket_abs]
  apply wf_intro
  · simp [hl.B]
  · intro i c hc
    have : i = 0 ∧ c = freshBucket K V := by
      cases i with
      | zero => simp at hc; exact ⟨rfl, hc.symm⟩
      | succ i => simp at hc
    rw [this.2]; exact freshBucket_ok _ _ _ _
  · rw [habs]; exact hl.count
  · rw [habs]; exact List.Pairwise.nil
  · simp only [hl.old]; exact hl.ssg

/-- the `again:` loop: whenever it returns a table, that table is well formed and stands for `insert` -/
theorem assignLoop_spec {o : Ops K} (ho : HashOK o) {hash : UInt64} {k : K} {v : V}
    (hunh : o.unhashable k = false) : ∀ (fuel : Nat) (h : HMap K V), WF o h →
    (o.eq k k = true → hash = o.hash h.hash0 k) →
    (∀ h', assignLoop o hash k v fuel h = .ok h' →
      WF o h' ∧ (abs h').Perm (insert o.eq o.needKeyUpdate k v (abs h))) ∧
    (∀ e, assignLoop o hash k v fuel h = .error e → e = .loop) := by
  intro fuel
  induction fuel with
  | zero => intro h _ _; exact ⟨(fun h' e => by simp [assignLoop] at e), (fun e he => by simp [assignLoop] at he; exact he.symm)⟩
  | succ fuel ih =>
    intro h hw hhash
    -- growWork (if growing)
    have hgw : ∃ h3, assignPass o h hash k v = .ok (assignCore o h3 hash k v) ∧ WF o h3 ∧
        (abs h3).Perm (abs h) ∧ h3.B = h.B ∧ h3.hash0 = h.hash0 ∧ Home h3 (bucketIdx hash h.B) := by
      unfold assignPass
      cases hg : h.growing with
      | true =>
        obtain ⟨h3, e, a1, a2, a3, a4, _, a6, _⟩ := growWork_spec ho hw (bucketIdx hash h.B)
        refine ⟨h3, ?_, a1, a2, a3, a4, a6⟩
        simp only [if_true, e, bind, Except.bind, pure, Except.pure]
      | false =>
        refine ⟨h, by simp [bind, Except.bind, pure, Except.pure], hw, List.Perm.refl _, rfl, rfl, ?_⟩
        unfold Home
        cases ho' : h.old with
        | none => trivial
        | some oa => simp [HMap.growing, ho'] at hg
    obtain ⟨h3, hpass, hw3, hp3, hB3, h03, hhome3⟩ := hgw
    have hpost := assignCore_spec ho hw3 (hash := hash) (k := k) (v := v) (by rw [hB3]; exact hhome3)
      (fun hr => by rw [h03]; exact hhash hr) hunh
    simp only [assignLoop, hpass, bind, Except.bind]
    cases hres : assignCore o h3 hash k v with
    | done h4 =>
      rw [hres] at hpost
      obtain ⟨hw4, hp4, _⟩ := hpost
      simp only [pure, Except.pure]
      refine ⟨fun h' e => ?_, (fun e he => by cases he)⟩
      cases e
      exact ⟨hw4, hp4.trans (insert_perm ho.eqok hp3 hw3.nodup)⟩
    | again h4 =>
      rw [hres] at hpost
      obtain ⟨e4, hold3⟩ := hpost
      simp only
      obtain ⟨gw, gabs, _, g0, _⟩ := hashGrow_spec hw3 hold3
      rw [← e4] at gw gabs g0
      obtain ⟨i1, i2⟩ := ih h4 gw (fun hr => by rw [g0, h03]; exact hhash hr)
      refine ⟨fun h' e => ?_, i2⟩
      obtain ⟨w', p'⟩ := i1 h' e
      refine ⟨w', p'.trans ?_⟩
      rw [gabs]
      exact insert_perm ho.eqok hp3 hw3.nodup

/-- **mapassign refines `insert`** (all table states, growth included) -/
theorem mapassign_spec {o : Ops K} (ho : HashOK o) {h : HMap K V} (hi : Inv o h) (k : K) (v : V) :
    (∀ h', mapassign o h k v = .ok h' →
      WF o h' ∧ (abs h').Perm (insert o.eq o.needKeyUpdate k v (abs h))) ∧
    (∀ e, mapassign o h k v = .error e → (e = .unhashable ∧ o.unhashable k = true) ∨ e = .loop) := by
  unfold mapassign
  cases hu : o.unhashable k with
  | true =>
    have : hashKey o h.hash0 k h = .error .unhashable := by simp [hashKey, hu]
    simp only [this, bind, Except.bind]
    exact ⟨(fun h' e => by cases e), (fun e he => by cases he; exact Or.inl ⟨rfl, trivial⟩)⟩
  | false =>
    obtain ⟨hash, h1, hk, hs, hrefl⟩ := hashKey_ok (s := h.hash0) h hu
    simp only [hk, bind, Except.bind]
    have hi1 := inv_same hi hs
    have habs1 := abs_same hs
    -- allocation of the first bucket
    have hal : ∃ h2, (if h1.buckets.isEmpty = true then { h1 with buckets := #[freshBucket K V] } else h1) = h2 ∧
        WF o h2 ∧ abs h2 = abs h1 ∧ h2.hash0 = h1.hash0 := by
      rcases hi1 with hw1 | hl1
      · have : h1.buckets.isEmpty = false := by
          have := hw1.size
          have hp : 0 < 2 ^ h1.B := Nat.pow_pos (by omega)
          cases hb : h1.buckets.isEmpty with
          | false => rfl
          | true => simp [Array.isEmpty_iff] at hb; rw [hb] at this; simp at this; omega
        exact ⟨h1, by simp [this], hw1, rfl, rfl⟩
      · have : h1.buckets.isEmpty = true := by rw [hl1.buckets]; rfl
        refine ⟨{ h1 with buckets := #[freshBucket K V] }, by simp [this], wf_alloc hl1, ?_, rfl⟩
        rw [abs_lazy hl1]
        unfold abs allCells cellsOf
        simp only [hl1.old, Option.getD_none, chainAbs_append]
        simp [freshBucket_abs]
    obtain ⟨h2, e2, hw2, habs2, h02⟩ := hal
    rw [e2]
    obtain ⟨l1, l2⟩ := assignLoop_spec ho (hash := hash) (v := v) hu 8 h2 hw2 (fun hr => by
      rw [h02, hs.hash0]; exact (hrefl hr).1)
    refine ⟨fun h' e => ?_, fun e he => Or.inr (l2 e he)⟩
    obtain ⟨w, p⟩ := l1 h' e
    rw [habs2, habs1] at p
    exact ⟨w, p⟩


/-- **mapdelete refines `erase`** -/
theorem mapdelete_spec {o : Ops K} (ho : HashOK o) {h : HMap K V} (hi : Inv o h) (k : K) :
    (∀ h', mapdelete o h k = .ok h' → Inv o h' ∧ (abs h').Perm (erase o.eq k (abs h))) ∧
    (∀ e, mapdelete o h k = .error e → e = .unhashable ∧ o.unhashable k = true) := by
  unfold mapdelete
  cases hu : o.unhashable k with
  | true =>
    have hk : ∀ s, hashKey o s k h = .error .unhashable := fun s => by simp [hashKey, hu]
    by_cases hc : h.count = 0
    · have habs := abs_nil_of_count hi hc
      simp only [hc, beq_self_eq_true, if_true]
      cases o.hashMightPanic with
      | true =>
        simp only [if_true, hk, bind, Except.bind]
        exact ⟨(fun h' e => by cases e), (fun e he => by cases he; exact ⟨rfl, trivial⟩)⟩
      | false =>
        simp only [Bool.false_eq_true, if_false, pure, Except.pure]
        refine ⟨fun h' e => ?_, (fun e he => by cases he)⟩
        cases e
        rw [habs]; exact ⟨hi, List.Perm.refl _⟩
    · have hc' : (h.count == 0) = false := by simpa using hc
      simp only [hc', Bool.false_eq_true, if_false, hk, bind, Except.bind]
      exact ⟨(fun h' e => by cases e), (fun e he => by cases he; exact ⟨rfl, trivial⟩)⟩
  | false =>
    by_cases hc : h.count = 0
    · have habs := abs_nil_of_count hi hc
      simp only [hc, beq_self_eq_true, if_true]
      cases o.hashMightPanic with
      | true =>
        obtain ⟨hash, h1, hk, hs, _⟩ := hashKey_ok (s := 0) h hu
        simp only [if_true, hk, bind, Except.bind, pure, Except.pure]
        refine ⟨fun h' e => ?_, (fun e he => by cases he)⟩
        cases e
        rw [abs_same hs, habs]; exact ⟨inv_same hi hs, List.Perm.refl _⟩
      | false =>
        simp only [Bool.false_eq_true, if_false, pure, Except.pure]
        refine ⟨fun h' e => ?_, (fun e he => by cases he)⟩
        cases e
        rw [habs]; exact ⟨hi, List.Perm.refl _⟩
    · have hc' : (h.count == 0) = false := by simpa using hc
      have hw : WF o h := by
        rcases hi with hw | hl
        · exact hw
        · exact absurd hl.count hc
      obtain ⟨hash, h1, hk, hs, hrefl⟩ := hashKey_ok (s := h.hash0) h hu
      have hw1 := wf_same hw hs
      simp only [hc', Bool.false_eq_true, if_false, hk, bind, Except.bind]
      have hgw : ∃ h3, deletePass o h1 hash k = .ok (deleteCore o h3 hash k) ∧ WF o h3 ∧
          (abs h3).Perm (abs h1) ∧ h3.B = h1.B ∧ h3.hash0 = h1.hash0 ∧ Home h3 (bucketIdx hash h1.B) := by
        unfold deletePass
        cases hg : h1.growing with
        | true =>
          obtain ⟨h3, e, a1, a2, a3, a4, _, a6, _⟩ := growWork_spec ho hw1 (bucketIdx hash h1.B)
          refine ⟨h3, ?_, a1, a2, a3, a4, a6⟩
          simp only [if_true, e, bind, Except.bind, pure, Except.pure]
        | false =>
          refine ⟨h1, by simp [bind, Except.bind, pure, Except.pure], hw1, List.Perm.refl _, rfl, rfl, ?_⟩
          unfold Home
          cases ho' : h1.old with
          | none => trivial
          | some oa => simp [HMap.growing, ho'] at hg
      obtain ⟨h3, hg3, hw3, hp3, hB3, h03, hhome3⟩ := hgw
      rw [hg3]
      refine ⟨fun h' e => ?_, (fun e he => by cases he)⟩
      cases e
      obtain ⟨dw, dabs, _⟩ := deleteCore_spec ho hw3 (hash := hash) (k := k) (by rw [hB3]; exact hhome3)
        (fun hr => by rw [h03, hs.hash0]; exact (hrefl hr).1)
      refine ⟨Or.inl dw, ?_⟩
      rw [dabs]
      rw [abs_same hs] at hp3
      exact erase_perm ho.eqok hp3 hw3.nodup


omit [Inhabited K] [Inhabited V] in
theorem lookup_append_absent_left {eq : K → K → Bool} {k : K} {a b : AList K V} (ha : Absent eq k a) :
    lookup eq k (a ++ b) = lookup eq k b := by
  induction a with
  | nil => rfl
  | cons p r ih =>
    obtain ⟨k', v⟩ := p
    have : eq k k' = false := ha (k', v) (by simp)
    simp only [List.cons_append, lookup, this]
    exact ih (fun p hp => ha p (by simp [hp]))

omit [Inhabited K] [Inhabited V] in
theorem lookup_append_absent_right {eq : K → K → Bool} {k : K} {a b : AList K V} (hb : Absent eq k b) :
    lookup eq k (a ++ b) = lookup eq k a := by
  induction a with
  | nil => simp only [List.nil_append]; rw [lookup_absent hb]; rfl
  | cons p r ih =>
    obtain ⟨k', v⟩ := p
    simp only [List.cons_append, lookup]
    split
    · rfl
    · exact ih

/-- while the map grows, a key whose old bucket is not evacuated yet can only sit in that old bucket -/
theorem absent_outside_old {o : Ops K} (ho : HashOK o) {h : HMap K V} (hw : WF o h) {oa : Array (Chain K V)}
    (hold : h.old = some oa) {k : K} {j : Nat} (hj : j < oa.size) (hne : evacuatedChain oa[j] = false)
    (hidx : o.eq k k = true → (o.hash h.hash0 k).toNat % h.noldbuckets = j) :
    Absent o.eq k (chainAbs (cellsOf h.buckets ++ (oa.toList.take j).flatten)) ∧
    Absent o.eq k (chainAbs ((oa.toList.drop (j + 1)).flatten)) := by
  have hO := hw.old
  rw [hold] at hO
  simp only at hO
  obtain ⟨_, _, _, _, _, fx, fy⟩ := (hO.chains j hj).2 hne
  obtain ⟨q, hq, hpos⟩ := nold_dvd hw hold
  have hjn : j < h.noldbuckets := by rw [← hO.size]; exact hj
  -- cells of other old chains
  have oldc : ∀ j' (hj' : j' < oa.size) x, x ∈ oa[j'] → x.live = true → o.eq k x.key = true → j' = j := by
    intro j' hj' x hx hl hk
    obtain ⟨hev, hnev⟩ := hO.chains j' hj'
    cases he : evacuatedChain oa[j'] with
    | true => have := hev he x hx; rw [hl] at this; cases this
    | false =>
      obtain ⟨_, _, hpl, _⟩ := hnev he
      have hp := hpl x hx hl (ho.eqok.refl_right hk)
      rw [← hidx (ho.eqok.refl_left hk), ho.hash_eq _ k x.key hk]
      exact hp.2.symm
  -- cells of the new array
  have newc : ∀ i (hi : i < h.buckets.size) x, x ∈ h.buckets[i] → x.live = true → o.eq k x.key = true → False := by
    intro i hi x hx hl hk
    have hp := (hw.newOK i hi).2.2.1 x hx hl (ho.eqok.refl_right hk)
    have hik : (o.hash h.hash0 k).toNat % 2 ^ h.B = i := by rw [ho.hash_eq _ k x.key hk]; exact hp.2
    have himod : i % h.noldbuckets = j := by
      rw [← hik, hq, Nat.mod_mul_left_mod]; exact hidx (ho.eqok.refl_left hk)
    have hi2 : i < 2 ^ h.B := by rw [← hw.size]; exact hi
    have hfresh : h.buckets[i]? = some (freshBucket K V) := by
      cases hs : h.sameSizeGrow with
      | true =>
        have : h.noldbuckets = 2 ^ h.B := by simp [HMap.noldbuckets, hs]
        rw [this, Nat.mod_eq_of_lt hi2] at himod
        rw [himod]; exact fx
      | false =>
        have hB := hO.bpos hs
        have h2n : 2 ^ h.B = 2 * h.noldbuckets := by
          simp only [HMap.noldbuckets, hs]
          have : h.B = (h.B - 1) + 1 := by omega
          conv => lhs; rw [this, Nat.pow_succ]
          simp; omega
        by_cases hlt : i < h.noldbuckets
        · rw [Nat.mod_eq_of_lt hlt] at himod
          rw [himod]; exact fx
        · have : i % h.noldbuckets = i - h.noldbuckets := by
            rw [Nat.mod_eq_sub_mod (by omega), Nat.mod_eq_of_lt (by omega)]
          have hij : i = j + h.noldbuckets := by omega
          rw [hij]; exact fy hs
    obtain ⟨_, e⟩ := getElem_of_getElem? hfresh
    rw [e] at hx
    rw [List.eq_of_mem_replicate hx] at hl
    simp [Cell.live, emptyRest] at hl
  constructor
  · intro p hp
    obtain ⟨x, hx, hl, rfl⟩ := mem_chainAbs hp
    cases hk : o.eq k x.key with
    | false => rfl
    | true =>
      exfalso
      rcases List.mem_append.1 hx with hx | hx
      · obtain ⟨i, hi, hxi⟩ := mem_cellsOf hx
        exact newc i hi x hxi hl hk
      · obtain ⟨i, hib, hi, hxi⟩ := mem_take_flatten hx
        have := oldc i (by simpa using hi) x (by simpa using hxi) hl hk
        omega
  · intro p hp
    obtain ⟨x, hx, hl, rfl⟩ := mem_chainAbs hp
    cases hk : o.eq k x.key with
    | false => rfl
    | true =>
      exfalso
      obtain ⟨i, hib, hi, hxi⟩ := mem_drop_flatten hx
      have := oldc i (by simpa using hi) x (by simpa using hxi) hl hk
      omega

/-- the chain mapaccess searches holds the key's entry, if there is one -/
theorem access_spec {o : Ops K} (ho : HashOK o) {h : HMap K V} (hw : WF o h) {hash : UInt64} {k : K}
    (hhash : o.eq k k = true → hash = o.hash h.hash0 k) :
    (lookupChain o.eq (tophash hash) k (accessChain h hash)).map (·.val) = lookup o.eq k (abs h) := by
  have h5 := tophash_toNat_ge hash
  have htk : o.eq k k = true → tophash hash = tophash (o.hash h.hash0 k) := fun hr => by rw [← hhash hr]
  have hb : bucketIdx hash h.B < h.buckets.size := by rw [hw.size]; exact bucketIdx_lt _ _
  -- searching the home chain of the current array
  have newcase : Home h (bucketIdx hash h.B) →
      (lookupChain o.eq (tophash hash) k (h.buckets.getD (bucketIdx hash h.B) [])).map (·.val) =
        lookup o.eq k (abs h) := by
    intro hhome
    obtain ⟨hN, hR, hP, hH, _⟩ := hw.newOK _ hb
    obtain ⟨aP, aS⟩ := absent_outside ho hw hhome (fun hr => by rw [← hhash hr]; rfl)
    rw [abs_split hb, lookup_append_absent_right aS, lookup_append_absent_left aP, getD_eq hb,
      lookupChain_eq ho h5 htk hR hP.tops, lookup_chainAbs]
  unfold accessChain
  cases hold : h.old with
  | none =>
    simp only
    apply newcase
    unfold Home; rw [hold]; trivial
  | some oa =>
    simp only
    have hO := hw.old
    rw [hold] at hO
    simp only at hO
    have hj : hash.toNat % h.noldbuckets < oa.size := by rw [hO.size]; exact Nat.mod_lt _ (nold_pos h)
    rw [getD_eq hj]
    cases hev : evacuatedChain oa[hash.toNat % h.noldbuckets] with
    | true =>
      simp only [Bool.not_true, Bool.false_eq_true, if_false]
      apply newcase
      unfold Home
      rw [hold]
      simp only
      obtain ⟨q, hq, _⟩ := nold_dvd hw hold
      have : bucketIdx hash h.B % h.noldbuckets = hash.toNat % h.noldbuckets := by
        unfold bucketIdx; rw [hq, Nat.mod_mul_left_mod]
      rw [this, getD_eq hj]; exact hev
    | false =>
      simp only [Bool.not_false, if_true]
      obtain ⟨sN, sR, sP, _⟩ := (hO.chains _ hj).2 hev
      obtain ⟨aP, aS⟩ := absent_outside_old ho hw hold hj hev (fun hr => by rw [← hhash hr])
      have hsplit : abs h = chainAbs (cellsOf h.buckets ++ (oa.toList.take (hash.toNat % h.noldbuckets)).flatten) ++
          chainAbs oa[hash.toNat % h.noldbuckets] ++
          chainAbs ((oa.toList.drop (hash.toNat % h.noldbuckets + 1)).flatten) := by
        unfold abs allCells
        rw [hold]
        simp only [Option.getD_some]
        rw [cellsOf_split hj]
        simp [chainAbs_append]
      rw [hsplit, lookup_append_absent_right aS, lookup_append_absent_left aP,
        lookupChain_eq ho h5 htk sR sP.tops, lookup_chainAbs]

/-- **mapaccess1/2 refine `lookup`** -/
theorem mapaccess_spec {o : Ops K} (ho : HashOK o) {h : HMap K V} (hi : Inv o h) (k : K) :
    (∀ r h', mapaccess o h k = .ok (r, h') →
      r.map (·.val) = lookup o.eq k (abs h) ∧ Inv o h' ∧ abs h' = abs h) ∧
    (∀ e, mapaccess o h k = .error e → e = .unhashable ∧ o.unhashable k = true) := by
  unfold mapaccess
  cases hu : o.unhashable k with
  | true =>
    have hk : ∀ s, hashKey o s k h = .error .unhashable := fun s => by simp [hashKey, hu]
    by_cases hc : h.count = 0
    · have habs := abs_nil_of_count hi hc
      simp only [hc, beq_self_eq_true, if_true]
      cases o.hashMightPanic with
      | true =>
        simp only [if_true, hk, bind, Except.bind]
        exact ⟨(fun r h' e => by cases e), (fun e he => by cases he; exact ⟨rfl, trivial⟩)⟩
      | false =>
        simp only [Bool.false_eq_true, if_false, pure, Except.pure]
        refine ⟨fun r h' e => ?_, (fun e he => by cases he)⟩
        cases e
        rw [habs]; exact ⟨rfl, hi, rfl⟩
    · have hc' : (h.count == 0) = false := by simpa using hc
      simp only [hc', Bool.false_eq_true, if_false, hk, bind, Except.bind]
      exact ⟨(fun r h' e => by cases e), (fun e he => by cases he; exact ⟨rfl, trivial⟩)⟩
  | false =>
    by_cases hc : h.count = 0
    · have habs := abs_nil_of_count hi hc
      simp only [hc, beq_self_eq_true, if_true]
      cases o.hashMightPanic with
      | true =>
        obtain ⟨hash, h1, hk, hs, _⟩ := hashKey_ok (s := 0) h hu
        simp only [if_true, hk, bind, Except.bind, pure, Except.pure]
        refine ⟨fun r h' e => ?_, (fun e he => by cases he)⟩
        cases e
        rw [habs]; exact ⟨rfl, inv_same hi hs, (abs_same hs).trans habs⟩
      | false =>
        simp only [Bool.false_eq_true, if_false, pure, Except.pure]
        refine ⟨fun r h' e => ?_, (fun e he => by cases he)⟩
        cases e
        rw [habs]; exact ⟨rfl, hi, rfl⟩
    · have hc' : (h.count == 0) = false := by simpa using hc
      have hw : WF o h := by
        rcases hi with hw | hl
        · exact hw
        · exact absurd hl.count hc
      obtain ⟨hash, h1, hk, hs, hrefl⟩ := hashKey_ok (s := h.hash0) h hu
      have hw1 := wf_same hw hs
      simp only [hc', Bool.false_eq_true, if_false, hk, bind, Except.bind, pure, Except.pure]
      refine ⟨fun r h' e => ?_, (fun e he => by cases he)⟩
      cases e
      refine ⟨?_, Or.inl hw1, abs_same hs⟩
      rw [← abs_same hs]
      exact access_spec ho hw1 (fun hr => by rw [hs.hash0]; exact (hrefl hr).1)

theorem freshArray_wf (o : Ops K) {h : HMap K V} (hb : h.buckets = freshArray K V h.B) (hold : h.old = none)
    (hs : h.sameSizeGrow = false) (hc : h.count = 0) : WF o h := by
  have habs : abs h = [] := by
    unfold abs allCells
    rw [hb, hold]
    simp only [Option.getD_none, chainAbs_append, cellsOf_fresh_abs]
    simp [cellsOf]
  apply wf_intro
  · rw [hb]; simp [freshArray]
  · intro i c hc'
    rw [hb] at hc'
    unfold freshArray at hc'
    rw [Array.getElem?_replicate] at hc'
    by_cases hlt : i < 2 ^ h.B
    · simp only [hlt, if_true, Option.some.injEq] at hc'
      rw [← hc']; exact freshBucket_ok _ _ _ _
    · simp only [hlt, if_false] at hc'; cases hc'
  · rw [habs, hc]; rfl
  · rw [habs]; exact List.Pairwise.nil
  · rw [hold]; exact hs

/-- **makemap** yields the empty map -/
theorem makemap_spec (o : Ops K) (hint : Nat) (r : Rand) :
    Inv o (makemap hint r : HMap K V) ∧ abs (makemap hint r : HMap K V) = [] := by
  have key : Inv o (makemap hint r : HMap K V) := by
    unfold makemap
    simp only
    by_cases hB : pickB hint 64 0 = 0
    · right
      simp only [hB]
      exact ⟨rfl, rfl, rfl, rfl, rfl⟩
    · left
      apply freshArray_wf
      · simp [hB]
      · rfl
      · rfl
      · rfl
  refine ⟨key, abs_nil_of_count key ?_⟩
  unfold makemap; rfl

/-- **mapclear** yields the empty map -/
theorem mapclear_spec {o : Ops K} {h : HMap K V} (hi : Inv o h) :
    Inv o (mapclear h) ∧ abs (mapclear h) = [] := by
  unfold mapclear
  by_cases hc : h.count = 0
  · simp only [hc, beq_self_eq_true, if_true]
    exact ⟨hi, abs_nil_of_count hi hc⟩
  · have hc' : (h.count == 0) = false := by simpa using hc
    have hw : WF o h := by
      rcases hi with hw | hl
      · exact hw
      · exact absurd hl.count hc
    simp only [hc', Bool.false_eq_true, if_false]
    have hwf : WF o { h.fastrand.2 with
        sameSizeGrow := false, old := none, nevacuate := 0, noverflow := 0, count := 0, hash0 := h.fastrand.1,
        buckets := Array.replicate h.fastrand.2.buckets.size (freshBucket K V),
        dead := (match h.old with | some oa => (h.gen - 1, markEmpty oa) :: h.dead | none => h.dead) } := by
      apply freshArray_wf
      · show Array.replicate _ _ = freshArray K V h.B
        unfold freshArray
        have : h.fastrand.2.buckets.size = 2 ^ h.B := hw.size
        rw [this]
      · rfl
      · rfl
      · rfl
    exact ⟨Or.inl hwf, abs_nil_of_count (Or.inl hwf) rfl⟩

/-! ## histories -/

inductive Op (K V : Type) where
  | assign (k : K) (v : V)
  | access (k : K)
  | delete (k : K)
  | clear
  | len

inductive Obs (V : Type) where
  | done
  | val (v : Option V)      -- `none`: zero value, ok = false
  | len (n : Nat)
  | panic                   -- "hash of unhashable type"

/-- one operation on the table; a panic leaves the table as it was -/
def stepModel (o : Ops K) (h : HMap K V) : Op K V → Except Err (Obs V × HMap K V)
  | .assign k v =>
    match mapassign o h k v with
    | .ok h' => .ok (.done, h')
    | .error .unhashable => .ok (.panic, h)
    | .error e => .error e
  | .access k =>
    match mapaccess o h k with
    | .ok (r, h') => .ok (.val (r.map (·.val)), h')
    | .error .unhashable => .ok (.panic, h)
    | .error e => .error e
  | .delete k =>
    match mapdelete o h k with
    | .ok h' => .ok (.done, h')
    | .error .unhashable => .ok (.panic, h)
    | .error e => .error e
  | .clear => .ok (.done, mapclear h)
  | .len => .ok (.len h.count, h)

def runModel (o : Ops K) : HMap K V → List (Op K V) → Except Err (List (Obs V) × HMap K V)
  | h, [] => .ok ([], h)
  | h, op :: ops =>
    match stepModel o h op with
    | .error e => .error e
    | .ok (ob, h') =>
      match runModel o h' ops with
      | .error e => .error e
      | .ok (obs, h'') => .ok (ob :: obs, h'')

/-- the same operation on the specification -/
def stepSpec (o : Ops K) (m : AList K V) : Op K V → Obs V × AList K V
  | .assign k v => if o.unhashable k then (.panic, m) else (.done, insert o.eq o.needKeyUpdate k v m)
  | .access k => if o.unhashable k then (.panic, m) else (.val (lookup o.eq k m), m)
  | .delete k => if o.unhashable k then (.panic, m) else (.done, erase o.eq k m)
  | .clear => (.done, [])
  | .len => (.len (len m), m)

def runSpec (o : Ops K) : AList K V → List (Op K V) → List (Obs V) × AList K V
  | m, [] => ([], m)
  | m, op :: ops =>
    let (ob, m') := stepSpec o m op
    let (obs, m'') := runSpec o m' ops
    (ob :: obs, m'')

/-- a key type whose hasher cannot panic has no unhashable keys (only interface-holding key types do) -/
def PanicOK (o : Ops K) : Prop := o.hashMightPanic = false → ∀ k, o.unhashable k = false


/-! ## range loops -/

/-- a step of a running `for k, v := range m` loop: the body mutates the map, or the loop asks for the next entry -/
inductive LoopStep (K V : Type) where
  | mutate (op : Op K V)
  | next

/-- what a loop run records: every yield with the table at that moment, every table a mutation produced -/
inductive LoopEv (K V : Type) where
  | yield (kv : K × V) (h : HMap K V)
  | table (h : HMap K V)

def LoopEv.tbl : LoopEv K V → HMap K V
  | .yield _ h => h
  | .table h => h

/-- run the steps of a range loop; `true` = the loop has ended (`MapIterNext` returned `ok = false`) -/
def runLoopFrom (o : Ops K) : HMap K V → Iter K V → List (LoopStep K V) → Except Err (List (LoopEv K V) × Bool)
  | _, _, [] => .ok ([], false)
  | h, it, .mutate op :: rest =>
    match stepModel o h op with
    | .error e => .error e
    | .ok (_, h') =>
      match runLoopFrom o h' it rest with
      | .error e => .error e
      | .ok (tr, ended) => .ok (.table h' :: tr, ended)
  | h, it, .next :: rest =>
    match mapIterNext o (.ref h) it with
    | .error e => .error e
    | .ok (none, _) => .ok ([], true)
    | .ok (some kv, it') =>
      match runLoopFrom o h it' rest with
      | .error e => .error e
      | .ok (tr, ended) => .ok (.yield kv h :: tr, ended)

/-- `for k, v := range m { … }`: `NewMapIter`, the first `MapIterNext`, then the steps -/
def runLoop (o : Ops K) (h : HMap K V) (steps : List (LoopStep K V)) : Except Err (List (LoopEv K V) × Bool) :=
  match newMapIter o (.ref h) with
  | .error e => .error e
  | .ok (it, .ref h') =>
    match runLoopFrom o h' it (.next :: steps) with
    | .error e => .error e
    | .ok (tr, ended) => .ok (.table h' :: tr, ended)
  | .ok (_, .nil _) => .ok ([], true)

/-- "no deleted entry": whatever a range loop yields is an entry of the map at that moment -/
def YieldsLive (o : Ops K) (V : Type) [Inhabited V] : Prop :=
  ∀ (h : HMap K V) (steps : List (LoopStep K V)) (tr : List (LoopEv K V)) (ended : Bool), Inv o h →
    runLoop o h steps = .ok (tr, ended) → ∀ kv hy, LoopEv.yield kv hy ∈ tr → kv ∈ abs hy

/-- "no entry twice": two yields of equal keys are separated by a moment at which the key was not in the map -/
def NoTwice (o : Ops K) (V : Type) [Inhabited V] : Prop :=
  ∀ (h : HMap K V) (steps : List (LoopStep K V)) (tr : List (LoopEv K V)) (ended : Bool), Inv o h →
    runLoop o h steps = .ok (tr, ended) →
    ∀ (i j : Nat) (k1 k2 : K) (v1 v2 : V) (h1 h2 : HMap K V), i < j →
      tr[i]? = some (.yield (k1, v1) h1) → tr[j]? = some (.yield (k2, v2) h2) → o.eq k1 k2 = true →
      ∃ l hl, i < l ∧ l < j ∧ tr[l]? = some (.table hl) ∧ lookup o.eq k1 (abs hl) = none

/-- "every entry present for the whole loop exactly once": when the loop has ended, a key that was in the map at
    every recorded moment has been yielded -/
def YieldsAll (o : Ops K) (V : Type) [Inhabited V] : Prop :=
  ∀ (h : HMap K V) (steps : List (LoopStep K V)) (tr : List (LoopEv K V)), Inv o h →
    runLoop o h steps = .ok (tr, true) →
    ∀ k : K, (∀ ev ∈ tr, lookup o.eq k (abs ev.tbl) ≠ none) →
      ∃ k' v' hy, LoopEv.yield (k', v') hy ∈ tr ∧ o.eq k k' = true

/-! ## iteration over a table that does not grow -/

/-- the scan of one bucket of the current array (no `checkBucket`) yields a filled cell of that bucket -/
theorem iterScan_yield {o : Ops K} {h : HMap K V} {it : Iter K V} {cells : List (Cell K V)} (hN : NoMarks cells) :
    ∀ (n i : Nat) (k : K) (v : V) (i' : Nat), iterScan o h it cells none n i = .ok (.yield k v i') →
      ∃ c ∈ cells, c.live = true ∧ k = c.key ∧ v = c.val := by
  intro n
  induction n with
  | zero => intro i k v i' e; simp [iterScan, pure, Except.pure] at e
  | succ n ih =>
    intro i k v i' e
    rw [iterScan] at e
    by_cases hi : i ≥ bucketCnt
    · simp [hi, pure, Except.pure] at e
    · simp only [hi, if_false] at e
      cases hc : cells[(i + it.offset) % bucketCnt]? with
      | none => simp [hc, pure, Except.pure] at e
      | some c =>
        simp only [hc] at e
        have hmem : c ∈ cells := List.mem_of_getElem? hc
        by_cases hemp : (isEmptyTop c.top || c.top == evacuatedEmpty) = true
        · simp only [hemp, if_true] at e
          exact ih _ _ _ _ e
        · simp only [hemp, Bool.false_eq_true, if_false] at e
          have hlive : c.live = true := by
            simp only [Bool.or_eq_true, beq_iff_eq, not_or] at hemp
            rcases hN c hmem with h1 | h1
            · exfalso
              apply hemp.1
              simp only [isEmptyTop, emptyOne, decide_eq_true_eq, UInt8.le_iff_toNat_le]
              have : (1 : UInt8).toNat = 1 := rfl
              omega
            · exact live_iff.2 h1
          have h5 := live_iff.1 hlive
          have hx : (c.top != evacuatedX) = true := by
            simp only [bne_iff_ne, ne_eq]; intro e'; rw [e'] at h5; simp [evacuatedX] at h5
          have hy : (c.top != evacuatedY) = true := by
            simp only [bne_iff_ne, ne_eq]; intro e'; rw [e'] at h5; simp [evacuatedY] at h5
          simp only [hx, hy, Bool.and_self, Bool.true_or, if_true, Bool.false_eq_true, if_false, pure, Except.pure] at e
          injection e with e
          injection e with e1 e2 e3
          exact ⟨c, hmem, hlive, e1.symm, e2.symm⟩


/-- an iterator positioned in the current bucket array of a table that is not growing -/
structure IterCur (h : HMap K V) (it : Iter K V) : Prop where
  gen : it.gen = h.gen
  cb : it.checkBucket = none
  bptr : ∀ br, it.bptr = some br → br.gen = h.gen

omit [Inhabited K] [Inhabited V] in
theorem mem_abs_of_cell {h : HMap K V} {c : Cell K V} (hc : c ∈ allCells h) (hl : c.live = true) :
    (c.key, c.val) ∈ abs h := by
  unfold abs chainAbs
  simp only [List.mem_map, List.mem_filter]
  exact ⟨c, ⟨hc, hl⟩, rfl⟩

theorem bucketAt_cur {o : Ops K} {h : HMap K V} (hw : WF o h) {br : BRef} (hg : br.gen = h.gen)
    {cells : List (Cell K V)} {ovf : Bool} (hb : h.bucketAt br = some (cells, ovf)) :
    NoMarks cells ∧ ∀ c ∈ cells, c ∈ allCells h := by
  unfold HMap.bucketAt HMap.arrayOf at hb
  simp only [hg, beq_self_eq_true, if_true] at hb
  split at hb
  · rename_i hlen
    injection hb with hb
    injection hb with hb1 hb2
    subst hb1
    by_cases hi : br.idx < h.buckets.size
    · rw [getD_eq hi]
      have hsub : ∀ c ∈ List.take bucketCnt (List.drop (br.pos * bucketCnt) h.buckets[br.idx]), c ∈ h.buckets[br.idx] :=
        fun c hc => List.mem_of_mem_drop (List.mem_of_mem_take hc)
      exact ⟨fun c hc => (hw.newOK _ hi).1 c (hsub c hc), fun c hc => mem_allCells_new hi (hsub c hc)⟩
    · have : h.buckets.getD br.idx [] = [] := by simp [Array.getD, hi]
      rw [this]
      exact ⟨fun c hc => by simp at hc, fun c hc => by simp at hc⟩
  · cases hb

theorem iterLoop_yields_live {o : Ops K} {h : HMap K V} (hw : WF o h) (hold : h.old = none) :
    ∀ (fuel : Nat) (it : Iter K V) (bucket : Nat) (b : Option BRef) (i : Nat) (it' : Iter K V),
      IterCur h it → (∀ br, b = some br → br.gen = h.gen) →
      iterLoop o h fuel it bucket b i none = .ok it' →
      IterCur h it' ∧ ∀ k v, it'.key = some k → it'.elem = some v → (k, v) ∈ abs h := by
  intro fuel
  induction fuel with
  | zero => intro it bucket b i it' _ _ e; simp [iterLoop] at e
  | succ fuel ih =>
    intro it bucket b i it' hic hb e
    have hg := hic.gen
    unfold iterLoop at e
    cases b with
    | none =>
      simp only at e
      split at e
      · -- end of iteration
        simp only [pure, Except.pure] at e
        injection e with e
        subst e
        exact ⟨⟨hg, hic.cb, hic.bptr⟩, fun k v hk _ => by simp at hk⟩
      · have hgrow : h.growing = false := by simp [HMap.growing, hold]
        simp only [hgrow, Bool.false_and, Bool.false_eq_true, if_false] at e
        split at e
        · simp only at e
          exact ih { it with wrapped := true } 0 (some { gen := it.gen, idx := bucket, pos := 0 }) 0 it'
            ⟨hg, hic.cb, hic.bptr⟩ (fun br hbr => by injection hbr with hbr; rw [← hbr]; exact hg) e
        · simp only at e
          exact ih it (bucket + 1) (some { gen := it.gen, idx := bucket, pos := 0 }) 0 it' hic
            (fun br hbr => by injection hbr with hbr; rw [← hbr]; exact hg) e
    | some br =>
      have hbg := hb br rfl
      simp only at e
      cases hba : h.bucketAt br with
      | none =>
        simp only [hba] at e
        exact ih _ _ _ _ _ hic (fun br' hbr' => by cases hbr') e
      | some p =>
        obtain ⟨cells, ovf⟩ := p
        simp only [hba] at e
        obtain ⟨hN, hsub⟩ := bucketAt_cur hw hbg hba
        cases hsc : iterScan o h it cells none bucketCnt i with
        | error er => simp [hsc, bind, Except.bind] at e
        | ok so =>
          simp only [hsc, bind, Except.bind] at e
          cases so with
          | yield k v i' =>
            simp only [pure, Except.pure] at e
            injection e with e
            subst e
            obtain ⟨c, hc, hl, hk, hv⟩ := iterScan_yield hN _ _ _ _ _ hsc
            refine ⟨⟨hg, rfl, fun br' hbr' => by injection hbr' with hbr'; rw [← hbr']; exact hbg⟩, fun k' v' hk' hv' => ?_⟩
            simp only [Option.some.injEq] at hk' hv'
            rw [← hk', ← hv', hk, hv]
            exact mem_abs_of_cell (hsub c hc) hl
          | done =>
            simp only at e
            refine ih _ _ _ _ _ hic (fun br' hbr' => ?_) e
            split at hbr'
            · injection hbr' with hbr'; rw [← hbr']; exact hbg
            · cases hbr'


/-- `mapiternext` for an iterator in the current array of a table that is not growing: what it yields is an
    entry of the table as it is now -/
theorem mapiternext_yields_live {o : Ops K} {h : HMap K V} (hw : WF o h) (hold : h.old = none) {it it' : Iter K V}
    (hic : IterCur h it) (e : mapiternext o h it = .ok it') :
    IterCur h it' ∧ ∀ k v, it'.key = some k → it'.elem = some v → (k, v) ∈ abs h := by
  unfold mapiternext at e
  rw [hic.cb] at e
  exact iterLoop_yields_live hw hold _ it _ _ _ it' hic hic.bptr e

/-! ## a complete walk over a table that does not change -/

/-- what the scan of one bucket yields from scan position `8 - d` on (offset `r`) -/
def byf (r : Nat) (cells : List (Cell K V)) : Nat → AList K V
  | 0 => []
  | d + 1 => (match cells[((8 - (d + 1)) + r) % 8]? with
      | some c => chainAbs [c]
      | none => []) ++ byf r cells d

/-- bucket number `p` of a chain -/
def blockOf (c : List (Cell K V)) (p : Nat) : List (Cell K V) := (c.drop (p * 8)).take 8

/-- what the chain walk yields from bucket `p` on, `m` buckets -/
def cy (r : Nat) (c : List (Cell K V)) : Nat → Nat → AList K V
  | 0, _ => []
  | m + 1, p => byf r (blockOf c p) 8 ++ cy r c m (p + 1)

def chainYield (r : Nat) (c : List (Cell K V)) : AList K V := cy r c (c.length / 8) 0

omit [Inhabited K] [Inhabited V] in
theorem chainAbs_cons' (x : Cell K V) (l : List (Cell K V)) : chainAbs (x :: l) = chainAbs [x] ++ chainAbs l := by
  rw [← chainAbs_append]; rfl

omit [Inhabited K] [Inhabited V] in
/-- one bucket: the rotated scan yields the bucket's entries -/
theorem byf_perm {r : Nat} (hr : r < 8) {cells : List (Cell K V)} (hl : cells.length = 8) :
    (byf r cells 8).Perm (chainAbs cells) := by
  match cells, hl with
  | [c0, c1, c2, c3, c4, c5, c6, c7], _ =>
    have e : chainAbs [c0, c1, c2, c3, c4, c5, c6, c7] =
        chainAbs [c0] ++ (chainAbs [c1] ++ (chainAbs [c2] ++ (chainAbs [c3] ++ (chainAbs [c4] ++
          (chainAbs [c5] ++ (chainAbs [c6] ++ chainAbs [c7])))))) := by
      rw [chainAbs_cons' c0 [c1, c2, c3, c4, c5, c6, c7], chainAbs_cons' c1 [c2, c3, c4, c5, c6, c7],
        chainAbs_cons' c2 [c3, c4, c5, c6, c7], chainAbs_cons' c3 [c4, c5, c6, c7], chainAbs_cons' c4 [c5, c6, c7],
        chainAbs_cons' c5 [c6, c7], chainAbs_cons' c6 [c7]]
    rw [e]
    match r, hr with
    | 0, _ =>
      have hb : byf 0 [c0, c1, c2, c3, c4, c5, c6, c7] 8 = (chainAbs [c0] ++ (chainAbs [c1] ++ (chainAbs [c2] ++ (chainAbs [c3] ++ (chainAbs [c4] ++ (chainAbs [c5] ++ (chainAbs [c6] ++ (chainAbs [c7] ++ ([]))))))))) := rfl
      rw [hb]
      simp only [List.append_nil]
      exact List.Perm.refl _
    | 1, _ =>
      have hb : byf 1 [c0, c1, c2, c3, c4, c5, c6, c7] 8 = (chainAbs [c1] ++ (chainAbs [c2] ++ (chainAbs [c3] ++ (chainAbs [c4] ++ (chainAbs [c5] ++ (chainAbs [c6] ++ (chainAbs [c7] ++ (chainAbs [c0] ++ ([]))))))))) := rfl
      rw [hb]
      have := List.perm_append_comm (l₁ := chainAbs [c1] ++ (chainAbs [c2] ++ (chainAbs [c3] ++ (chainAbs [c4] ++ (chainAbs [c5] ++ (chainAbs [c6] ++ (chainAbs [c7]))))))) (l₂ := chainAbs [c0])
      simpa only [List.append_assoc, List.append_nil] using this
    | 2, _ =>
      have hb : byf 2 [c0, c1, c2, c3, c4, c5, c6, c7] 8 = (chainAbs [c2] ++ (chainAbs [c3] ++ (chainAbs [c4] ++ (chainAbs [c5] ++ (chainAbs [c6] ++ (chainAbs [c7] ++ (chainAbs [c0] ++ (chainAbs [c1] ++ ([]))))))))) := rfl
      rw [hb]
      have := List.perm_append_comm (l₁ := chainAbs [c2] ++ (chainAbs [c3] ++ (chainAbs [c4] ++ (chainAbs [c5] ++ (chainAbs [c6] ++ (chainAbs [c7])))))) (l₂ := chainAbs [c0] ++ (chainAbs [c1]))
      simpa only [List.append_assoc, List.append_nil] using this
    | 3, _ =>
      have hb : byf 3 [c0, c1, c2, c3, c4, c5, c6, c7] 8 = (chainAbs [c3] ++ (chainAbs [c4] ++ (chainAbs [c5] ++ (chainAbs [c6] ++ (chainAbs [c7] ++ (chainAbs [c0] ++ (chainAbs [c1] ++ (chainAbs [c2] ++ ([]))))))))) := rfl
      rw [hb]
      have := List.perm_append_comm (l₁ := chainAbs [c3] ++ (chainAbs [c4] ++ (chainAbs [c5] ++ (chainAbs [c6] ++ (chainAbs [c7]))))) (l₂ := chainAbs [c0] ++ (chainAbs [c1] ++ (chainAbs [c2])))
      simpa only [List.append_assoc, List.append_nil] using this
    | 4, _ =>
      have hb : byf 4 [c0, c1, c2, c3, c4, c5, c6, c7] 8 = (chainAbs [c4] ++ (chainAbs [c5] ++ (chainAbs [c6] ++ (chainAbs [c7] ++ (chainAbs [c0] ++ (chainAbs [c1] ++ (chainAbs [c2] ++ (chainAbs [c3] ++ ([]))))))))) := rfl
      rw [hb]
      have := List.perm_append_comm (l₁ := chainAbs [c4] ++ (chainAbs [c5] ++ (chainAbs [c6] ++ (chainAbs [c7])))) (l₂ := chainAbs [c0] ++ (chainAbs [c1] ++ (chainAbs [c2] ++ (chainAbs [c3]))))
      simpa only [List.append_assoc, List.append_nil] using this
    | 5, _ =>
      have hb : byf 5 [c0, c1, c2, c3, c4, c5, c6, c7] 8 = (chainAbs [c5] ++ (chainAbs [c6] ++ (chainAbs [c7] ++ (chainAbs [c0] ++ (chainAbs [c1] ++ (chainAbs [c2] ++ (chainAbs [c3] ++ (chainAbs [c4] ++ ([]))))))))) := rfl
      rw [hb]
      have := List.perm_append_comm (l₁ := chainAbs [c5] ++ (chainAbs [c6] ++ (chainAbs [c7]))) (l₂ := chainAbs [c0] ++ (chainAbs [c1] ++ (chainAbs [c2] ++ (chainAbs [c3] ++ (chainAbs [c4])))))
      simpa only [List.append_assoc, List.append_nil] using this
    | 6, _ =>
      have hb : byf 6 [c0, c1, c2, c3, c4, c5, c6, c7] 8 = (chainAbs [c6] ++ (chainAbs [c7] ++ (chainAbs [c0] ++ (chainAbs [c1] ++ (chainAbs [c2] ++ (chainAbs [c3] ++ (chainAbs [c4] ++ (chainAbs [c5] ++ ([]))))))))) := rfl
      rw [hb]
      have := List.perm_append_comm (l₁ := chainAbs [c6] ++ (chainAbs [c7])) (l₂ := chainAbs [c0] ++ (chainAbs [c1] ++ (chainAbs [c2] ++ (chainAbs [c3] ++ (chainAbs [c4] ++ (chainAbs [c5]))))))
      simpa only [List.append_assoc, List.append_nil] using this
    | 7, _ =>
      have hb : byf 7 [c0, c1, c2, c3, c4, c5, c6, c7] 8 = (chainAbs [c7] ++ (chainAbs [c0] ++ (chainAbs [c1] ++ (chainAbs [c2] ++ (chainAbs [c3] ++ (chainAbs [c4] ++ (chainAbs [c5] ++ (chainAbs [c6] ++ ([]))))))))) := rfl
      rw [hb]
      have := List.perm_append_comm (l₁ := chainAbs [c7]) (l₂ := chainAbs [c0] ++ (chainAbs [c1] ++ (chainAbs [c2] ++ (chainAbs [c3] ++ (chainAbs [c4] ++ (chainAbs [c5] ++ (chainAbs [c6])))))))
      simpa only [List.append_assoc, List.append_nil] using this


omit [Inhabited K] [Inhabited V] in
theorem blockOf_length {c : List (Cell K V)} {p : Nat} (h : (p + 1) * 8 ≤ c.length) : (blockOf c p).length = 8 := by
  simp [blockOf]; omega

omit [Inhabited K] [Inhabited V] in
/-- the chain walk from bucket `p` yields the entries of the chain from that bucket on -/
theorem cy_perm {r : Nat} (hr : r < 8) (c : List (Cell K V)) : ∀ (m p : Nat), (p + m) * 8 = c.length →
    (cy r c m p).Perm (chainAbs (c.drop (p * 8))) := by
  intro m
  induction m with
  | zero =>
    intro p h
    have : c.drop (p * 8) = [] := List.drop_eq_nil_of_le (by omega)
    rw [this]; exact List.Perm.refl _
  | succ m ih =>
    intro p h
    have hb : (blockOf c p).length = 8 := blockOf_length (by omega)
    have hsplit : c.drop (p * 8) = blockOf c p ++ c.drop ((p + 1) * 8) := by
      unfold blockOf
      have : c.drop ((p + 1) * 8) = (c.drop (p * 8)).drop 8 := by
        rw [List.drop_drop]; congr 1; omega
      rw [this]
      exact (List.take_append_drop 8 (c.drop (p * 8))).symm
    rw [cy, hsplit, chainAbs_append]
    exact List.Perm.append (byf_perm hr hb) (ih (p + 1) (by omega))

omit [Inhabited K] [Inhabited V] in
theorem chainYield_perm {r : Nat} (hr : r < 8) {c : List (Cell K V)} (hl : c.length % 8 = 0) :
    (chainYield r c).Perm (chainAbs c) := by
  have := cy_perm hr c (c.length / 8) 0 (by omega)
  simpa [chainYield] using this



/-- the scan loop of `mapiternext` over a bucket of the current array, in terms of `byf` -/
theorem iterScan_byf {o : Ops K} {h : HMap K V} {it : Iter K V} {cells : List (Cell K V)} (hN : NoMarks cells)
    (hl : cells.length = 8) : ∀ (n d : Nat), d ≤ 8 → d ≤ n →
    (∃ k v d', d' < d ∧ iterScan o h it cells none n (8 - d) = .ok (.yield k v (8 - d')) ∧
      byf it.offset cells d = (k, v) :: byf it.offset cells d') ∨
    (iterScan o h it cells none n (8 - d) = .ok .done ∧ byf it.offset cells d = []) := by
  intro n
  induction n with
  | zero =>
    intro d _ hd
    have : d = 0 := by omega
    subst this
    right; exact ⟨rfl, rfl⟩
  | succ n ih =>
    intro d hd8 hdn
    cases d with
    | zero =>
      right
      refine ⟨?_, rfl⟩
      rw [iterScan]
      simp [bucketCnt, pure, Except.pure]
    | succ d0 =>
      rw [iterScan]
      have hi : ¬ (8 - (d0 + 1) ≥ bucketCnt) := by simp [bucketCnt]; omega
      simp only [hi, if_false]
      have hidx : (8 - (d0 + 1) + it.offset) % bucketCnt < cells.length := by
        rw [hl]; exact Nat.mod_lt _ (by simp [bucketCnt])
      have hget : cells[(8 - (d0 + 1) + it.offset) % bucketCnt]? =
          some cells[(8 - (d0 + 1) + it.offset) % bucketCnt] := List.getElem?_eq_getElem hidx
      generalize hcdef : cells[(8 - (d0 + 1) + it.offset) % bucketCnt] = c at hget
      have hmem : c ∈ cells := List.mem_of_getElem? hget
      have hnext : 8 - (d0 + 1) + 1 = 8 - d0 := by omega
      have hbyf : byf it.offset cells (d0 + 1) = chainAbs [c] ++ byf it.offset cells d0 := by
        have : (8 - (d0 + 1) + it.offset) % 8 = (8 - (d0 + 1) + it.offset) % bucketCnt := rfl
        simp only [byf, this, hget]
      simp only [hget]
      by_cases hemp : (isEmptyTop c.top || c.top == evacuatedEmpty) = true
      · simp only [hemp, if_true, hnext]
        have hdead : c.live = false := by
          simp only [Bool.or_eq_true, beq_iff_eq] at hemp
          rcases hemp with e | e
          · exact dead_of_isEmpty e
          · simp [Cell.live, e, evacuatedEmpty]
        have hb2 : byf it.offset cells (d0 + 1) = byf it.offset cells d0 := by
          rw [hbyf, chainAbs_cons_dead hdead]; rfl
        rcases ih d0 (by omega) (by omega) with ⟨k, v, d', hd', e1, e2⟩ | ⟨e1, e2⟩
        · left; exact ⟨k, v, d', by omega, e1, by rw [hb2]; exact e2⟩
        · right; exact ⟨e1, by rw [hb2]; exact e2⟩
      · simp only [hemp, Bool.false_eq_true, if_false]
        have hlive : c.live = true := by
          simp only [Bool.or_eq_true, beq_iff_eq, not_or] at hemp
          rcases hN c hmem with h1 | h1
          · exfalso
            apply hemp.1
            simp only [isEmptyTop, emptyOne, decide_eq_true_eq, UInt8.le_iff_toNat_le]
            have : (1 : UInt8).toNat = 1 := rfl
            omega
          · exact live_iff.2 h1
        have h5 := live_iff.1 hlive
        have hx : (c.top != evacuatedX) = true := by
          simp only [bne_iff_ne, ne_eq]; intro e'; rw [e'] at h5; simp [evacuatedX] at h5
        have hy : (c.top != evacuatedY) = true := by
          simp only [bne_iff_ne, ne_eq]; intro e'; rw [e'] at h5; simp [evacuatedY] at h5
        left
        refine ⟨c.key, c.val, d0, by omega, ?_, ?_⟩
        · simp only [hx, hy, Bool.and_self, Bool.true_or, if_true, Bool.false_eq_true, if_false, pure, Except.pure, hnext]
        · rw [hbyf, chainAbs_cons_live hlive]; rfl


/-- the chains still to be walked: `bucket` is the next chain, `wrapped` says whether the walk passed the end -/
def restChains (L : List (Chain K V)) (start bucket : Nat) (wrapped : Bool) : List (Chain K V) :=
  if wrapped then (L.take start).drop bucket else L.drop bucket ++ L.take start

def costs (l : List (Chain K V)) : Nat := (l.map (fun c => c.length / 8 + 1)).sum

/-- everything the rest of the loop yields, from the local state of `mapiternext` -/
def remOf (h : HMap K V) (r start : Nat) (wrapped : Bool) (bucket : Nat) (b : Option BRef) (i : Nat) : AList K V :=
  (match b with
    | none => []
    | some br =>
      byf r (blockOf (h.buckets.getD br.idx []) br.pos) (8 - i) ++
        cy r (h.buckets.getD br.idx []) ((h.buckets.getD br.idx []).length / 8 - br.pos - 1) (br.pos + 1)) ++
  (restChains h.buckets.toList start bucket wrapped).flatMap (chainYield r)

/-- a bound on the number of `next:` rounds still needed -/
def stepsOf (h : HMap K V) (start : Nat) (wrapped : Bool) (bucket : Nat) (b : Option BRef) : Nat :=
  (match b with
    | none => 0
    | some br => (h.buckets.getD br.idx []).length / 8 - br.pos) + 1 +
  costs (restChains h.buckets.toList start bucket wrapped)

/-- the local state of `mapiternext` is consistent with a table that is not growing -/
structure PosOK (h : HMap K V) (it : Iter K V) (bucket : Nat) (b : Option BRef) (i : Nat) : Prop where
  B : it.B = h.B
  gen : it.gen = h.gen
  start : it.startBucket < h.buckets.size
  off : it.offset < 8
  bkt : bucket < h.buckets.size
  wr : it.wrapped = true → bucket ≤ it.startBucket
  bref : ∀ br, b = some br → br.gen = h.gen ∧ br.idx < h.buckets.size ∧ br.pos < (h.buckets.getD br.idx []).length / 8
  i : i ≤ 8

omit [Inhabited K] [Inhabited V] in
theorem restChains_end (L : List (Chain K V)) (start : Nat) (hs : start ≤ L.length) :
    restChains L start start true = [] := by
  simp only [restChains, if_true]
  apply List.drop_eq_nil_of_le
  simp [List.length_take]; omega

omit [Inhabited K] [Inhabited V] in
/-- entering chain `bucket` -/
theorem restChains_step (L : List (Chain K V)) {start bucket : Nat} {wrapped : Bool} (hs : start < L.length)
    (hb : bucket < L.length) (hw : wrapped = true → bucket ≤ start) (hne : ¬ (bucket = start ∧ wrapped = true)) :
    restChains L start bucket wrapped =
      L[bucket] :: restChains L start (if bucket + 1 = L.length then 0 else bucket + 1)
        (if bucket + 1 = L.length then true else wrapped) := by
  cases wrapped with
  | true =>
    have hlt : bucket < start := by
      have := hw rfl
      rcases Nat.lt_or_eq_of_le this with h | h
      · exact h
      · exact absurd ⟨h, rfl⟩ hne
    have hn : ¬ (bucket + 1 = L.length) := by omega
    simp only [restChains, if_true, hn, if_false]
    have hbt : bucket < (L.take start).length := by simp [List.length_take]; omega
    rw [List.drop_eq_getElem_cons hbt]
    simp
  | false =>
    by_cases hn : bucket + 1 = L.length
    · simp only [restChains, hn, if_true, Bool.false_eq_true, if_false]
      rw [List.drop_eq_getElem_cons hb, hn]
      have : L.drop L.length = [] := List.drop_eq_nil_of_le (Nat.le_refl _)
      rw [this]
      simp
    · simp only [restChains, hn, if_false, Bool.false_eq_true]
      rw [List.drop_eq_getElem_cons hb]
      rfl


theorem bucketAt_pos {o : Ops K} {h : HMap K V} (hw : WF o h) {br : BRef} (hg : br.gen = h.gen)
    (hi : br.idx < h.buckets.size) (hp : br.pos < (h.buckets.getD br.idx []).length / 8) :
    h.bucketAt br = some (blockOf (h.buckets.getD br.idx []) br.pos,
        decide ((h.buckets.getD br.idx []).length > (br.pos + 1) * bucketCnt)) ∧
      NoMarks (blockOf (h.buckets.getD br.idx []) br.pos) ∧
      (blockOf (h.buckets.getD br.idx []) br.pos).length = 8 := by
  have hlen : (blockOf (h.buckets.getD br.idx []) br.pos).length = 8 := blockOf_length (by omega)
  refine ⟨?_, ?_, hlen⟩
  · unfold HMap.bucketAt HMap.arrayOf
    simp only [hg, beq_self_eq_true, if_true]
    have : ((List.take bucketCnt (List.drop (br.pos * bucketCnt) (h.buckets.getD br.idx []))).length == bucketCnt) = true := by
      have := hlen
      unfold blockOf at this
      simp only [bucketCnt, this, beq_self_eq_true]
    simp only [this, if_true]
    rfl
  · intro c hc
    rw [getD_eq hi] at hc
    exact (hw.newOK _ hi).1 c (List.mem_of_mem_drop (List.mem_of_mem_take hc))

theorem cy_succ (r : Nat) (c : List (Cell K V)) (m p : Nat) :
    cy r c (m + 1) p = byf r (blockOf c p) 8 ++ cy r c m (p + 1) := rfl

/-- **one call of `mapiternext`** on a table that is not growing: it either ends the loop (nothing was left) or
    yields the first of the remaining entries and leaves the rest -/
theorem iterLoop_walk {o : Ops K} {h : HMap K V} (hw : WF o h) (hold : h.old = none) :
    ∀ (fuel : Nat) (it : Iter K V) (bucket : Nat) (b : Option BRef) (i : Nat),
      PosOK h it bucket b i → stepsOf h it.startBucket it.wrapped bucket b ≤ fuel →
      ∃ it', iterLoop o h fuel it bucket b i none = .ok it' ∧
        ((it'.key = none ∧ remOf h it.offset it.startBucket it.wrapped bucket b i = []) ∨
         (∃ k v, it'.key = some k ∧ it'.elem = some v ∧ it'.checkBucket = none ∧
            it'.startBucket = it.startBucket ∧ it'.offset = it.offset ∧
            PosOK h it' it'.bucket it'.bptr it'.i ∧
            remOf h it.offset it.startBucket it.wrapped bucket b i =
              (k, v) :: remOf h it.offset it.startBucket it'.wrapped it'.bucket it'.bptr it'.i ∧
            stepsOf h it.startBucket it'.wrapped it'.bucket it'.bptr ≤
              stepsOf h it.startBucket it.wrapped bucket b)) := by
  have hsize : h.buckets.toList.length = h.buckets.size := by simp
  have hgrow : h.growing = false := by simp [HMap.growing, hold]
  intro fuel
  induction fuel with
  | zero =>
    intro it bucket b i _ hs
    unfold stepsOf at hs
    omega
  | succ fuel ih =>
    intro it bucket b i hp hs
    unfold iterLoop
    cases b with
    | none =>
      simp only
      by_cases hend : (bucket == it.startBucket && it.wrapped) = true
      · -- end of iteration
        simp only [hend, if_true, pure, Except.pure]
        refine ⟨_, rfl, Or.inl ⟨rfl, ?_⟩⟩
        simp only [Bool.and_eq_true, beq_iff_eq] at hend
        unfold remOf
        rw [hend.1, hend.2, restChains_end _ _ (by rw [hsize]; exact Nat.le_of_lt hp.start)]
        rfl
      · simp only [hend, Bool.false_eq_true, if_false, hgrow, Bool.false_and]
        have hne : ¬ (bucket = it.startBucket ∧ it.wrapped = true) := by
          simpa [Bool.and_eq_true] using hend
        have hstep := restChains_step h.buckets.toList (start := it.startBucket) (bucket := bucket)
          (wrapped := it.wrapped) (by rw [hsize]; exact hp.start) (by rw [hsize]; exact hp.bkt) hp.wr hne
        have hLb : h.buckets.toList[bucket]'(by rw [hsize]; exact hp.bkt) = h.buckets.getD bucket [] := by
          rw [getD_eq hp.bkt]; simp
        have hl8 := (hw.newOK bucket hp.bkt).2.2.2.2
        rw [← getD_eq hp.bkt] at hl8
        have hlen8 : 1 ≤ (h.buckets.getD bucket []).length / 8 := by
          have h1 := hl8.1
          have h2 := hl8.2
          have : (h.buckets.getD bucket []).length ≠ 0 := fun e => h1 (List.eq_nil_of_length_eq_zero e)
          omega
        have h2B : 2 ^ it.B = h.buckets.size := by rw [hp.B, hw.size]
        simp only [hsize] at hstep
        -- the state after entering the chain
        obtain ⟨it1, hit1, hw1, hst1, hoff1, hB1, hg1⟩ : ∃ it1 : Iter K V,
            it1 = (if (bucket + 1 == 2 ^ it.B) = true then { it with wrapped := true } else it) ∧
            it1.wrapped = (if bucket + 1 = h.buckets.size then true else it.wrapped) ∧
            it1.startBucket = it.startBucket ∧ it1.offset = it.offset ∧ it1.B = it.B ∧ it1.gen = it.gen := by
          refine ⟨_, rfl, ?_, ?_, ?_, ?_, ?_⟩
          · rw [h2B]
            by_cases hc : bucket + 1 = h.buckets.size
            · simp only [hc, beq_self_eq_true, if_true]
            · have : (bucket + 1 == h.buckets.size) = false := by simpa using hc
              simp only [this, hc, Bool.false_eq_true, if_false]
          · split <;> rfl
          · split <;> rfl
          · split <;> rfl
          · split <;> rfl
        have hbk1 : (if (bucket + 1 == 2 ^ it.B) = true then 0 else bucket + 1) =
            (if bucket + 1 = h.buckets.size then 0 else bucket + 1) := by
          rw [h2B]
          by_cases hc : bucket + 1 = h.buckets.size
          · simp only [hc, beq_self_eq_true, if_true]
          · have : (bucket + 1 == h.buckets.size) = false := by simpa using hc
            simp only [this, hc, Bool.false_eq_true, if_false]
        have e1 : (if (bucket + 1 == 2 ^ it.B) = true then ((0 : Nat), { it with wrapped := true }) else (bucket + 1, it)).snd
            = it1 := by rw [hit1]; split <;> rfl
        have e2 : (if (bucket + 1 == 2 ^ it.B) = true then ((0 : Nat), { it with wrapped := true }) else (bucket + 1, it)).fst
            = (if bucket + 1 = h.buckets.size then 0 else bucket + 1) := by rw [← hbk1]; split <;> rfl
        rw [e1, e2]
        -- invariants of the new local state
        have hbk1lt : (if bucket + 1 = h.buckets.size then 0 else bucket + 1) < h.buckets.size := by
          have := hp.bkt
          split <;> omega
        have hp1 : PosOK h it1 (if bucket + 1 = h.buckets.size then 0 else bucket + 1)
            (some { gen := it.gen, idx := bucket, pos := 0 }) 0 := by
          refine ⟨hB1.trans hp.B, hg1.trans hp.gen, by rw [hst1]; exact hp.start, by rw [hoff1]; exact hp.off, hbk1lt,
            ?_, ?_, by omega⟩
          · intro hwr
            rw [hw1] at hwr
            rw [hst1]
            by_cases hc : bucket + 1 = h.buckets.size
            · simp only [hc, if_true]; omega
            · simp only [hc, if_false] at hwr ⊢
              have := hp.wr hwr
              rcases Nat.lt_or_eq_of_le this with hlt | heq
              · omega
              · exact absurd ⟨heq, hwr⟩ hne
          · intro br hbr
            injection hbr with hbr
            subst hbr
            exact ⟨hp.gen, hp.bkt, by show 0 < (h.buckets.getD bucket []).length / 8; omega⟩
        have hcosts : costs (restChains h.buckets.toList it.startBucket bucket it.wrapped) =
            ((h.buckets.getD bucket []).length / 8 + 1) +
              costs (restChains h.buckets.toList it.startBucket (if bucket + 1 = h.buckets.size then 0 else bucket + 1)
                it1.wrapped) := by
          rw [hstep, hw1, hLb]
          simp [costs]
        have hs1 : stepsOf h it1.startBucket it1.wrapped (if bucket + 1 = h.buckets.size then 0 else bucket + 1)
            (some { gen := it.gen, idx := bucket, pos := 0 }) ≤ fuel := by
          unfold stepsOf at hs ⊢
          rw [hst1]
          simp only at hs ⊢
          rw [hcosts] at hs
          omega
        have hrem : remOf h it.offset it.startBucket it.wrapped bucket none i =
            remOf h it1.offset it1.startBucket it1.wrapped (if bucket + 1 = h.buckets.size then 0 else bucket + 1)
              (some { gen := it.gen, idx := bucket, pos := 0 }) 0 := by
          unfold remOf
          simp only [List.nil_append, hoff1, hst1]
          rw [hstep, hw1, hLb, List.flatMap_cons]
          congr 1
          unfold chainYield
          obtain ⟨m, hm⟩ : ∃ m, (h.buckets.getD bucket []).length / 8 = m + 1 := ⟨_, (Nat.succ_pred_eq_of_pos hlen8).symm⟩
          rw [hm, cy_succ]
          simp
        obtain ⟨it', hrun, hres⟩ := ih it1 _ _ 0 hp1 hs1
        refine ⟨it', hrun, ?_⟩
        have hsteps_le : stepsOf h it1.startBucket it1.wrapped (if bucket + 1 = h.buckets.size then 0 else bucket + 1)
            (some { gen := it.gen, idx := bucket, pos := 0 }) ≤ stepsOf h it.startBucket it.wrapped bucket none := by
          unfold stepsOf
          rw [hst1]
          simp only
          rw [hcosts]
          omega
        rcases hres with ⟨hk, hr⟩ | ⟨k, v, hk, hv, hcb, hsb, hof, hpos, hr, hst⟩
        · left; exact ⟨hk, by rw [hrem]; exact hr⟩
        · right
          refine ⟨k, v, hk, hv, hcb, hsb.trans hst1, hof.trans hoff1, hpos, ?_, ?_⟩
          · rw [hrem, hr, hoff1, hst1]
          · rw [hst1] at hst hsteps_le
            exact Nat.le_trans hst hsteps_le
    | some br =>
      obtain ⟨hbg, hbi, hbp⟩ := hp.bref br rfl
      obtain ⟨hba, hN, hl⟩ := bucketAt_pos hw hbg hbi hbp
      simp only [hba]
      have hi8 := hp.i
      have hidx : 8 - (8 - i) = i := by omega
      have hl8 := (hw.newOK br.idx hbi).2.2.2.2
      rw [← getD_eq hbi] at hl8
      rcases iterScan_byf (o := o) (h := h) (it := it) hN hl bucketCnt (8 - i) (by omega)
          (by simp [bucketCnt]) with ⟨k, v, d', hd', hsc, hby⟩ | ⟨hsc, hby⟩
      · -- a filled cell: yield it
        rw [hidx] at hsc
        simp only [hsc, bind, Except.bind, pure, Except.pure]
        refine ⟨_, rfl, Or.inr ⟨k, v, rfl, rfl, rfl, rfl, rfl, ?_, ?_, Nat.le_refl _⟩⟩
        · exact ⟨hp.B, hp.gen, hp.start, hp.off, hp.bkt, hp.wr, hp.bref, by show 8 - d' ≤ 8; omega⟩
        · unfold remOf
          simp only
          have : 8 - (8 - d') = d' := by omega
          rw [hby, this]
          simp
      · -- the bucket is exhausted: follow the overflow link or leave the chain
        rw [hidx] at hsc
        simp only [hsc, bind, Except.bind]
        by_cases hov : (h.buckets.getD br.idx []).length > (br.pos + 1) * bucketCnt
        · simp only [hov, decide_true, if_true]
          have hp1 : PosOK h it bucket (some { br with pos := br.pos + 1 }) 0 := by
            refine ⟨hp.B, hp.gen, hp.start, hp.off, hp.bkt, hp.wr, ?_, by omega⟩
            intro br' hbr'
            injection hbr' with hbr'
            subst hbr'
            refine ⟨hbg, hbi, ?_⟩
            show br.pos + 1 < (h.buckets.getD br.idx []).length / 8
            have := hl8.2
            simp only [bucketCnt] at hov
            omega
          obtain ⟨m, hm⟩ : ∃ m, (h.buckets.getD br.idx []).length / 8 - br.pos - 1 = m + 1 := by
            have := hl8.2
            simp only [bucketCnt] at hov
            exact ⟨(h.buckets.getD br.idx []).length / 8 - br.pos - 2, by omega⟩
          have hs1 : stepsOf h it.startBucket it.wrapped bucket (some { br with pos := br.pos + 1 }) ≤ fuel := by
            unfold stepsOf at hs ⊢
            simp only at hs ⊢
            omega
          have hrem : remOf h it.offset it.startBucket it.wrapped bucket (some br) i =
              remOf h it.offset it.startBucket it.wrapped bucket (some { br with pos := br.pos + 1 }) 0 := by
            unfold remOf
            simp only
            rw [hby, hm, cy_succ]
            have : (h.buckets.getD br.idx []).length / 8 - (br.pos + 1) - 1 = m := by omega
            rw [this]
            simp
          obtain ⟨it', hrun, hres⟩ := ih it bucket _ 0 hp1 hs1
          refine ⟨it', hrun, ?_⟩
          have hle : stepsOf h it.startBucket it.wrapped bucket (some { br with pos := br.pos + 1 }) ≤
              stepsOf h it.startBucket it.wrapped bucket (some br) := by
            unfold stepsOf
            simp only
            omega
          rcases hres with ⟨hk, hr⟩ | ⟨k, v, hk, hv, hcb, hsb, hof, hpos, hr, hst⟩
          · left; exact ⟨hk, by rw [hrem]; exact hr⟩
          · right; exact ⟨k, v, hk, hv, hcb, hsb, hof, hpos, by rw [hrem, hr], Nat.le_trans hst hle⟩
        · simp only [hov, decide_false, Bool.false_eq_true, if_false]
          have hp1 : PosOK h it bucket none 0 :=
            ⟨hp.B, hp.gen, hp.start, hp.off, hp.bkt, hp.wr, (fun _ e => by cases e), by omega⟩
          have hlast : (h.buckets.getD br.idx []).length / 8 - br.pos - 1 = 0 := by
            have := hl8.2
            simp only [bucketCnt] at hov
            omega
          have hs1 : stepsOf h it.startBucket it.wrapped bucket none ≤ fuel := by
            unfold stepsOf at hs ⊢
            simp only at hs ⊢
            omega
          have hrem : remOf h it.offset it.startBucket it.wrapped bucket (some br) i =
              remOf h it.offset it.startBucket it.wrapped bucket none 0 := by
            unfold remOf
            simp only
            rw [hby, hlast]
            simp [cy]
          obtain ⟨it', hrun, hres⟩ := ih it bucket none 0 hp1 hs1
          refine ⟨it', hrun, ?_⟩
          have hle : stepsOf h it.startBucket it.wrapped bucket none ≤
              stepsOf h it.startBucket it.wrapped bucket (some br) := by
            unfold stepsOf
            simp only
            omega
          rcases hres with ⟨hk, hr⟩ | ⟨k, v, hk, hv, hcb, hsb, hof, hpos, hr, hst⟩
          · left; exact ⟨hk, by rw [hrem]; exact hr⟩
          · right; exact ⟨k, v, hk, hv, hcb, hsb, hof, hpos, by rw [hrem, hr], Nat.le_trans hst hle⟩


omit [Inhabited K] [Inhabited V] in
theorem costs_append (a b : List (Chain K V)) : costs (a ++ b) = costs a + costs b := by
  simp [costs]

omit [Inhabited K] [Inhabited V] in
theorem costs_take_le (L : List (Chain K V)) (n : Nat) : costs (L.take n) ≤ costs L := by
  have := costs_append (L.take n) (L.drop n)
  rw [List.take_append_drop] at this
  omega

omit [Inhabited K] [Inhabited V] in
theorem costs_drop_le (L : List (Chain K V)) (n : Nat) : costs (L.drop n) ≤ costs L := by
  have := costs_append (L.take n) (L.drop n)
  rw [List.take_append_drop] at this
  omega

omit [Inhabited K] [Inhabited V] in
theorem cost_mem_le {L : List (Chain K V)} {c : Chain K V} (hc : c ∈ L) : c.length / 8 + 1 ≤ costs L := by
  obtain ⟨s, t, rfl⟩ := List.append_of_mem hc
  simp [costs]
  omega

omit [Inhabited K] [Inhabited V] in
theorem restChains_costs_le (L : List (Chain K V)) (start bucket : Nat) (wrapped : Bool) :
    costs (restChains L start bucket wrapped) ≤ 2 * costs L := by
  unfold restChains
  split
  · have := costs_drop_le (L.take start) bucket
    have := costs_take_le L start
    omega
  · rw [costs_append]
    have := costs_drop_le L bucket
    have := costs_take_le L start
    omega

omit [Inhabited K] [Inhabited V] in
/-- the fuel of `mapiternext` covers the walk -/
theorem iterFuel_ge {h : HMap K V} {it : Iter K V} {bucket : Nat} {b : Option BRef} {i : Nat}
    (hp : PosOK h it bucket b i) : stepsOf h it.startBucket it.wrapped bucket b ≤ h.iterFuel it := by
  have htc : totalCells h.buckets = costs h.buckets.toList := rfl
  have harr : h.arrayOf it.gen = some h.buckets := by simp [HMap.arrayOf, hp.gen]
  have hr := restChains_costs_le h.buckets.toList it.startBucket bucket it.wrapped
  unfold HMap.iterFuel stepsOf
  rw [harr, htc]
  simp only [Option.map_some, Option.getD_some, htc]
  cases b with
  | none => simp only; omega
  | some br =>
    obtain ⟨_, hbi, _⟩ := hp.bref br rfl
    have hmem : h.buckets.getD br.idx [] ∈ h.buckets.toList := by
      rw [getD_eq hbi]; simp
    have := cost_mem_le hmem
    simp only
    omega

/-- `mapiternext` on a table that is not growing, from a consistent position -/
theorem mapiternext_walk {o : Ops K} {h : HMap K V} (hw : WF o h) (hold : h.old = none) {it : Iter K V}
    (hp : PosOK h it it.bucket it.bptr it.i) (hcb : it.checkBucket = none) :
    ∃ it', mapiternext o h it = .ok it' ∧
      ((it'.key = none ∧ remOf h it.offset it.startBucket it.wrapped it.bucket it.bptr it.i = []) ∨
       (∃ k v, it'.key = some k ∧ it'.elem = some v ∧ it'.checkBucket = none ∧
          it'.startBucket = it.startBucket ∧ it'.offset = it.offset ∧
          PosOK h it' it'.bucket it'.bptr it'.i ∧
          remOf h it.offset it.startBucket it.wrapped it.bucket it.bptr it.i =
            (k, v) :: remOf h it.offset it.startBucket it'.wrapped it'.bucket it'.bptr it'.i)) := by
  unfold mapiternext
  rw [hcb]
  obtain ⟨it', hrun, hres⟩ := iterLoop_walk hw hold (h.iterFuel it) it it.bucket it.bptr it.i hp (iterFuel_ge hp)
  refine ⟨it', hrun, ?_⟩
  rcases hres with hl | ⟨k, v, a1, a2, a3, a4, a5, a6, a7, _⟩
  · exact Or.inl hl
  · exact Or.inr ⟨k, v, a1, a2, a3, a4, a5, a6, a7⟩

/-- repeated `mapiternext` until the loop ends, collecting what is yielded (the table is not touched) -/
def drainIter (o : Ops K) (h : HMap K V) : Nat → Iter K V → Except Err (AList K V)
  | 0, _ => .error .loop
  | n + 1, it =>
    match mapiternext o h it with
    | .error e => .error e
    | .ok it' =>
      match it'.key, it'.elem with
      | some k, some v =>
        match drainIter o h n it' with
        | .error e => .error e
        | .ok ys => .ok ((k, v) :: ys)
      | _, _ => .ok []

theorem drainIter_spec {o : Ops K} {h : HMap K V} (hw : WF o h) (hold : h.old = none) :
    ∀ (n : Nat) (it : Iter K V), PosOK h it it.bucket it.bptr it.i → it.checkBucket = none →
      (remOf h it.offset it.startBucket it.wrapped it.bucket it.bptr it.i).length < n →
      drainIter o h n it = .ok (remOf h it.offset it.startBucket it.wrapped it.bucket it.bptr it.i) := by
  intro n
  induction n with
  | zero => intro it _ _ hl; omega
  | succ n ih =>
    intro it hp hcb hl
    obtain ⟨it', hrun, hres⟩ := mapiternext_walk hw hold hp hcb
    simp only [drainIter, hrun]
    rcases hres with ⟨hk, hr⟩ | ⟨k, v, hk, hv, hcb', hsb, hof, hp', hr⟩
    · simp only [hk]
      rw [hr]
    · simp only [hk, hv]
      rw [hr] at hl ⊢
      have := ih it' hp' hcb' (by rw [hof, hsb]; simpa using hl)
      rw [hof, hsb] at this
      rw [this]


/-- `for k, v := range m` over a table nobody touches: `mapiterinit`, then `mapiternext` until the loop ends
    (at most `n` further steps); the entries in the order they are produced -/
def iterAll (o : Ops K) (h : HMap K V) (n : Nat) : Except Err (AList K V) :=
  match mapiterinit o h with
  | .error e => .error e
  | .ok (it, h') =>
    match it.key, it.elem with
    | some k, some v =>
      match drainIter o h' n it with
      | .error e => .error e
      | .ok ys => .ok ((k, v) :: ys)
    | _, _ => .ok []

omit [Inhabited K] [Inhabited V] in
theorem flatMap_perm {α β : Type} {l : List α} {f g : α → List β} (hfg : ∀ a ∈ l, (f a).Perm (g a)) :
    (l.flatMap f).Perm (l.flatMap g) := by
  induction l with
  | nil => exact List.Perm.refl _
  | cons a r ih =>
    simp only [List.flatMap_cons]
    exact List.Perm.append (hfg a (by simp)) (ih (fun b hb => hfg b (by simp [hb])))

omit [Inhabited K] [Inhabited V] in
theorem flatMap_chainAbs (l : List (Chain K V)) : l.flatMap chainAbs = chainAbs l.flatten := by
  induction l with
  | nil => rfl
  | cons a r ih => simp only [List.flatMap_cons, List.flatten_cons, chainAbs_append, ih]

/-- everything a fresh walk yields is a permutation of the table's entries -/
theorem remOf_start_perm {o : Ops K} {h : HMap K V} (hw : WF o h) (hold : h.old = none) {r start : Nat}
    (hr : r < 8) : (remOf h r start false start none 0).Perm (abs h) := by
  unfold remOf restChains
  simp only [List.nil_append, Bool.false_eq_true, if_false]
  have h1 : ((h.buckets.toList.drop start ++ h.buckets.toList.take start).flatMap (chainYield r)).Perm
      ((h.buckets.toList.drop start ++ h.buckets.toList.take start).flatMap chainAbs) := by
    apply flatMap_perm
    intro c hc
    have hmem : c ∈ h.buckets.toList := by
      rcases List.mem_append.1 hc with hc | hc
      · exact List.mem_of_mem_drop hc
      · exact List.mem_of_mem_take hc
    obtain ⟨i, hi, rfl⟩ := List.getElem_of_mem hmem
    have hi' : i < h.buckets.size := by simpa using hi
    have := (hw.newOK i hi').2.2.2.2.2
    exact chainYield_perm hr (by simpa using this)
  refine h1.trans ?_
  rw [List.flatMap_append]
  refine List.perm_append_comm.trans ?_
  rw [← List.flatMap_append, List.take_append_drop, flatMap_chainAbs]
  unfold abs allCells cellsOf
  rw [hold]
  simp [chainAbs_append]

omit [Inhabited K] [Inhabited V] in
theorem same_fastrand64 (h : HMap K V) : Same h (fastrand64 h).2 := by
  unfold fastrand64
  exact same_fastrand h

/-- **Stage 5, no growth, no mutation**: a complete range loop (`mapiterinit`, then `mapiternext` until it returns
    no key) over a table that satisfies the invariant and is not growing — whatever `fastrand` returns for the start
    bucket and the start offset — terminates and yields every entry of the table exactly once: the list of yielded
    pairs is a permutation of `abs h`. -/
theorem iterAll_spec {o : Ops K} {h : HMap K V} (hw : WF o h) (hold : h.old = none) {n : Nat} (hn : h.count < n) :
    ∃ ys, iterAll o h n = .ok ys ∧ ys.Perm (abs h) := by
  unfold iterAll mapiterinit
  by_cases hc : h.count = 0
  · simp only [hc, beq_self_eq_true, if_true, pure, Except.pure]
    refine ⟨[], rfl, ?_⟩
    rw [abs_nil_of_count (Or.inl hw) hc]
  · have hc' : (h.count == 0) = false := by simpa using hc
    simp only [hc', Bool.false_eq_true, if_false]
    -- the random start
    obtain ⟨r, h1, hrh, hs1⟩ : ∃ (r : Nat) (h1 : HMap K V),
        (if h.B > 31 - 3 then fastrand64 h else (h.fastrand.1.toNat, h.fastrand.2)) = (r, h1) ∧ Same h h1 := by
      split
      · exact ⟨_, _, rfl, same_fastrand64 h⟩
      · exact ⟨_, _, rfl, same_fastrand h⟩
    simp only [hrh]
    obtain ⟨h2, hh2⟩ : ∃ h2 : HMap K V, h2 = { h1 with iterFlag := true, oldIterFlag := true } := ⟨_, rfl⟩
    have hs2 : Same h h2 := by
      rw [hh2]
      exact ⟨hs1.buckets, hs1.old, hs1.B, hs1.ssg, hs1.nev, hs1.hash0, hs1.count, hs1.gen⟩
    have hw2 := wf_same hw hs2
    have hold2 : h2.old = none := hs2.old.trans hold
    have habs2 : abs h2 = abs h := abs_same hs2
    have hsz : h2.buckets.size = 2 ^ h1.B := by rw [hs2.buckets, hw.size, hs1.B]
    obtain ⟨it0, hit0⟩ : ∃ it0 : Iter K V, it0 =
        { active := true, B := h1.B, gen := h1.gen, startBucket := r % 2 ^ h1.B,
          offset := (r / 2 ^ h1.B) % bucketCnt, bucket := r % 2 ^ h1.B } := ⟨_, rfl⟩
    have hgen : h2.gen = h1.gen := by rw [hh2]
    have hB2 : h2.B = h1.B := by rw [hh2]
    have hp0 : PosOK h2 it0 it0.bucket it0.bptr it0.i := by
      rw [hit0]
      refine ⟨hB2.symm, hgen.symm, ?_, ?_, ?_, (fun e => by cases e), (fun _ e => by cases e), by simp⟩
      · show r % 2 ^ h1.B < h2.buckets.size
        rw [hsz]; exact Nat.mod_lt _ (Nat.pow_pos (by omega))
      · show (r / 2 ^ h1.B) % bucketCnt < 8
        exact Nat.mod_lt _ (by simp [bucketCnt])
      · show r % 2 ^ h1.B < h2.buckets.size
        rw [hsz]; exact Nat.mod_lt _ (Nat.pow_pos (by omega))
    obtain ⟨it', hrun, hres⟩ := mapiternext_walk (o := o) hw2 hold2 hp0 (by rw [hit0])
    have hperm := remOf_start_perm hw2 hold2 (r := it0.offset) (start := it0.startBucket) hp0.off
    have hstate : remOf h2 it0.offset it0.startBucket it0.wrapped it0.bucket it0.bptr it0.i =
        remOf h2 it0.offset it0.startBucket false it0.startBucket none 0 := by rw [hit0]
    rw [← hh2, ← hit0]
    simp only [hrun, bind, Except.bind, pure, Except.pure]
    rcases hres with ⟨hk, hr⟩ | ⟨k, v, hk, hv, hcb', hsb, hof, hp', hr⟩
    · simp only [hk]
      refine ⟨[], rfl, ?_⟩
      rw [hstate] at hr
      rw [hr] at hperm
      rw [← habs2]; exact hperm
    · simp only [hk, hv]
      rw [hstate] at hr
      have hlen : (remOf h2 it0.offset it0.startBucket it'.wrapped it'.bucket it'.bptr it'.i).length < n := by
        have := hperm.length_eq
        rw [hr, habs2, ← hw.count] at this
        simp only [List.length_cons] at this
        omega
      have hd := drainIter_spec (o := o) hw2 hold2 n it' hp' hcb' (by rw [hof, hsb]; exact hlen)
      rw [hof, hsb] at hd
      rw [hd]
      refine ⟨_, rfl, ?_⟩
      rw [← hr, ← habs2]; exact hperm

/-! ## range loops with deletions between the steps (no growth) -/

omit [Inhabited K] [Inhabited V] in
theorem deleteCore_gen (o : Ops K) (h : HMap K V) (hash : UInt64) (k : K) : (deleteCore o h hash k).gen = h.gen := by
  unfold deleteCore
  simp only
  split
  · rfl
  · split <;> rfl

/-- `mapdelete` on a table that is not growing keeps it that way and keeps the bucket array (same generation) -/
theorem mapdelete_stable {o : Ops K} (ho : HashOK o) {h h' : HMap K V} (hw : WF o h) (hold : h.old = none) {k : K}
    (e : mapdelete o h k = .ok h') : WF o h' ∧ h'.old = none ∧ h'.gen = h.gen := by
  unfold mapdelete at e
  have same_ok : ∀ h1 : HMap K V, Same h h1 → h1.gen = h.gen → WF o h1 ∧ h1.old = none ∧ h1.gen = h.gen :=
    fun h1 hs hg => ⟨wf_same hw hs, hs.old.trans hold, hg⟩
  by_cases hc : h.count = 0
  · simp only [hc, beq_self_eq_true, if_true] at e
    split at e
    · -- hashMightPanic: the hasher is called for its panic only
      cases hu : o.unhashable k with
      | true => simp [hashKey, hu, bind, Except.bind] at e
      | false =>
        obtain ⟨hash, h1, hk, hs, _⟩ := hashKey_ok (s := 0) h hu
        simp only [hk, bind, Except.bind, pure, Except.pure] at e
        injection e with e
        subst e
        exact same_ok h1 hs hs.gen
    · simp only [pure, Except.pure] at e
      injection e with e
      subst e
      exact ⟨hw, hold, rfl⟩
  · have hc' : (h.count == 0) = false := by simpa using hc
    simp only [hc', Bool.false_eq_true, if_false] at e
    cases hu : o.unhashable k with
    | true => simp [hashKey, hu, bind, Except.bind] at e
    | false =>
      obtain ⟨hash, h1, hk, hs, hrefl⟩ := hashKey_ok (s := h.hash0) h hu
      simp only [hk, bind, Except.bind] at e
      have hw1 := wf_same hw hs
      have hold1 : h1.old = none := hs.old.trans hold
      have hg1 : h1.gen = h.gen := hs.gen
      have hgrow : h1.growing = false := by simp [HMap.growing, hold1]
      unfold deletePass at e
      simp only [hgrow, Bool.false_eq_true, if_false, bind, Except.bind, pure, Except.pure] at e
      injection e with e
      subst e
      obtain ⟨dw, _, dold⟩ := deleteCore_spec ho hw1 (hash := hash) (k := k)
        (by unfold Home; rw [hold1]; trivial) (fun hr => by rw [hs.hash0]; exact (hrefl hr).1)
      exact ⟨dw, dold.trans hold1, (deleteCore_gen o h1 hash k).trans hg1⟩

omit [Inhabited K] [Inhabited V] in
theorem iterCur_of_gen {h h' : HMap K V} {it : Iter K V} (hic : IterCur h it) (hg : h'.gen = h.gen) : IterCur h' it :=
  ⟨hic.gen.trans hg.symm, hic.cb, fun br e => (hic.bptr br e).trans hg.symm⟩

/-- a range loop with deletions between the iteration steps (`none` = `mapiternext`, `some k` = `delete(m, k)`);
    every yield is recorded with the table at that moment -/
def runDelLoop (o : Ops K) : HMap K V → Iter K V → List (Option K) → Except Err (List ((K × V) × HMap K V))
  | _, _, [] => .ok []
  | h, it, some k :: rest =>
    match mapdelete o h k with
    | .error e => .error e
    | .ok h' => runDelLoop o h' it rest
  | h, it, none :: rest =>
    match mapiternext o h it with
    | .error e => .error e
    | .ok it' =>
      match it'.key, it'.elem with
      | some k, some v =>
        match runDelLoop o h it' rest with
        | .error e => .error e
        | .ok ys => .ok (((k, v), h) :: ys)
      | _, _ => .ok []

/-- **Stage 5 with interleaved deletions, no growth — "no deleted entry"**: whatever keys the loop body deletes
    between the steps, every pair the loop yields is an entry of the table at the moment it is yielded. -/
theorem runDelLoop_yields_live {o : Ops K} (ho : HashOK o) : ∀ (steps : List (Option K)) (h : HMap K V) (it : Iter K V)
    (ys : List ((K × V) × HMap K V)), WF o h → h.old = none → IterCur h it →
    runDelLoop o h it steps = .ok ys → ∀ y ∈ ys, y.1 ∈ abs y.2 := by
  intro steps
  induction steps with
  | nil => intro h it ys _ _ _ e; simp [runDelLoop] at e; subst e; intro y hy; cases hy
  | cons st rest ih =>
    intro h it ys hw hold hic e
    cases st with
    | some k =>
      simp only [runDelLoop] at e
      cases hd : mapdelete o h k with
      | error er => rw [hd] at e; cases e
      | ok h' =>
        rw [hd] at e
        obtain ⟨hw', hold', hg'⟩ := mapdelete_stable ho hw hold hd
        exact ih h' it ys hw' hold' (iterCur_of_gen hic hg') e
    | none =>
      simp only [runDelLoop] at e
      cases hn : mapiternext o h it with
      | error er => rw [hn] at e; cases e
      | ok it' =>
        rw [hn] at e
        obtain ⟨hic', hlive⟩ := mapiternext_yields_live hw hold hic hn
        cases hk : it'.key with
        | none => simp [hk] at e; subst e; intro y hy; cases hy
        | some k =>
          cases hv : it'.elem with
          | none => simp [hk, hv] at e; subst e; intro y hy; cases hy
          | some v =>
            simp only [hk, hv] at e
            cases hr : runDelLoop o h it' rest with
            | error er => rw [hr] at e; cases e
            | ok ys' =>
              rw [hr] at e
              injection e with e
              subst e
              intro y hy
              rcases List.mem_cons.1 hy with rfl | hy
              · exact hlive k v hk hv
              · exact ih h it' ys' hw hold hic' hr y hy


/-- `mapiterinit` on a non-empty table that is not growing: the iterator it returns walks the current array, and its
    first entry (fetched by the `mapiternext` inside `mapiterinit`) is an entry of the table -/
theorem mapiterinit_stable {o : Ops K} {h h' : HMap K V} {it : Iter K V} (hw : WF o h) (hold : h.old = none)
    (hc : h.count ≠ 0) (e : mapiterinit o h = .ok (it, h')) :
    WF o h' ∧ h'.old = none ∧ abs h' = abs h ∧ IterCur h' it ∧
      ∀ k v, it.key = some k → it.elem = some v → (k, v) ∈ abs h' := by
  unfold mapiterinit at e
  have hc' : (h.count == 0) = false := by simpa using hc
  simp only [hc', Bool.false_eq_true, if_false] at e
  obtain ⟨r, h1, hrh, hs1⟩ : ∃ (r : Nat) (h1 : HMap K V),
      (if h.B > 31 - 3 then fastrand64 h else (h.fastrand.1.toNat, h.fastrand.2)) = (r, h1) ∧ Same h h1 := by
    split
    · exact ⟨_, _, rfl, same_fastrand64 h⟩
    · exact ⟨_, _, rfl, same_fastrand h⟩
  simp only [hrh] at e
  obtain ⟨h2, hh2⟩ : ∃ h2 : HMap K V, h2 = { h1 with iterFlag := true, oldIterFlag := true } := ⟨_, rfl⟩
  have hs2 : Same h h2 := by
    rw [hh2]
    exact ⟨hs1.buckets, hs1.old, hs1.B, hs1.ssg, hs1.nev, hs1.hash0, hs1.count, hs1.gen⟩
  have hw2 := wf_same hw hs2
  have hold2 : h2.old = none := hs2.old.trans hold
  rw [← hh2] at e
  have hgen : h2.gen = h1.gen := by rw [hh2]
  obtain ⟨it0, hit0⟩ : ∃ it0 : Iter K V, it0 = { active := true, B := h1.B, gen := h1.gen, startBucket := r % 2 ^ h1.B, offset := (r / 2 ^ h1.B) % bucketCnt, bucket := r % 2 ^ h1.B } := ⟨_, rfl⟩
  rw [← hit0] at e
  have hic0 : IterCur h2 it0 := by
    rw [hit0]; exact ⟨hgen.symm, rfl, fun _ e => by cases e⟩
  cases hn : mapiternext o h2 it0 with
  | error er => simp [hn, bind, Except.bind] at e
  | ok it' =>
    simp only [hn, bind, Except.bind, pure, Except.pure] at e
    injection e with e
    injection e with e1 e2
    subst e1 e2
    obtain ⟨hic, hlive⟩ := mapiternext_yields_live hw2 hold2 hic0 hn
    exact ⟨hw2, hold2, abs_same hs2, hic, hlive⟩

end LlgoVerif.HMap
