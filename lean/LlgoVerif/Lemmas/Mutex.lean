import LlgoVerif.Model.Mutex
/-!
# Invariants of the Mutex model (`Model/Mutex.lean`)

`Inv`: (own) the number of threads between a successful `Lock` and `Unlock`'s `Add` equals the locked bit;
(tok) "wake-up tokens" — semaphore permits, threads that carry one (returned from the semaphore and not yet through
their CAS/Add, releasers between their CAS/Add and `Semrelease`, spinners that set the woken bit) — equal
`woken + (starving ∧ ¬locked)`; (sw) starving excludes woken; (loc) thread-local facts: a thread about to do the
hand-off `Add` sees `starving ∧ ¬locked ∧ waiters ≠ 0` in the CURRENT word, `starving` local implies `awoke`,
`TryLock`'s CAS expects an unlocked, non-starving word.
-/
namespace LlgoVerif.Mutex

def total (m : Th → Nat) : List Th → Nat
  | [] => 0
  | t :: l => m t + total m l

theorem total_set (m : Th → Nat) : ∀ (l : List Th) (i : Nat) (x t : Th), l[i]? = some t →
    total m (l.set i x) + m t = total m l + m x := by
  intro l
  induction l with
  | nil => intro i x t h; simp at h
  | cons a l ih =>
    intro i x t h
    cases i with
    | zero => simp at h; subst h; simp [total]; omega
    | succ j =>
      simp at h
      have := ih j x t h
      simp [total]; omega

theorem total_ge (m : Th → Nat) : ∀ (l : List Th) (i : Nat) (t : Th), l[i]? = some t → m t ≤ total m l := by
  intro l
  induction l with
  | nil => intro i t h; simp at h
  | cons a l ih =>
    intro i t h
    cases i with
    | zero => simp at h; subst h; simp [total]
    | succ j => simp at h; have := ih j t h; simp [total]; omega

theorem total_ge2 (m : Th → Nat) : ∀ (l : List Th) (i j : Nat) (t u : Th), i ≠ j → l[i]? = some t → l[j]? = some u →
    m t + m u ≤ total m l := by
  intro l
  induction l with
  | nil => intro i j t u _ h; simp at h
  | cons a l ih =>
    intro i j t u hij h1 h2
    cases i with
    | zero =>
      cases j with
      | zero => exact absurd rfl hij
      | succ j' => simp at h1 h2; subst h1; have := total_ge m l j' u h2; simp [total]; omega
    | succ i' =>
      cases j with
      | zero => simp at h1 h2; subst h2; have := total_ge m l i' t h1; simp [total]; omega
      | succ j' =>
        simp at h1 h2
        have := ih i' j' t u (by omega) h1 h2
        simp [total]; omega

theorem total_replicate_zero (m : Th → Nat) (x : Th) (h : m x = 0) : ∀ n, total m (List.replicate n x) = 0 := by
  intro n; induction n with
  | zero => rfl
  | succ k ih => simp [List.replicate, total, h, ih]

def own (t : Th) : Nat := if t.pc = .owner then 1 else 0

def tok (t : Th) : Nat :=
  match t.pc with
  | .postSem | .handoffAdd _ | .rel | .relH => 1
  | .loadOld | .top => t.awoke.toNat
  | _ => 0

def rhs (w : Word) : Nat := w.woken.toNat + (w.starving && !w.locked).toNat

/-- thread-local facts, relative to the current state word -/
def LocOk (w : Word) (t : Th) : Prop :=
  (∀ c, t.pc = .handoffAdd c → w.starving = true ∧ w.locked = false ∧ w.woken = false ∧ w.waiters ≠ 0) ∧
  ((t.pc = .top ∨ t.pc = .loadOld) → t.starvL = true → t.awoke = true) ∧
  (t.pc = .tryCas → t.old.locked = false ∧ t.old.starving = false)

structure Inv (s : St) : Prop where
  own : total own s.ths = s.w.locked.toNat
  tok : s.sema + total tok s.ths = rhs s.w
  sw : s.w.starving = true → s.w.woken = false
  loc : ∀ (i : Nat) (t : Th), s.ths[i]? = some t → LocOk s.w t

set_option maxRecDepth 4000 in
/-- what one thread's step does to the counted quantities -/
theorem stepTh_delta {w : Word} {sema : Nat} {e : Env} {t : Th} {w' : Word} {sm' : Nat} {t' : Th} {l : Lbl}
    (h : stepTh w sema e t = .ok w' sm' t' l) (hsw : w.starving = true → w.woken = false) (hloc : LocOk w t)
    (hown : own t ≤ w.locked.toNat) (htok : sema + tok t ≤ rhs w) :
    own t' + w.locked.toNat = own t + w'.locked.toNat ∧
    sm' + tok t' + rhs w = sema + tok t + rhs w' ∧
    (w'.starving = true → w'.woken = false) ∧ LocOk w' t' := by
  obtain ⟨wl, ww, ws, wn⟩ := w
  obtain ⟨pc, ⟨ol, ow, os, on⟩, aw, sl, wst⟩ := t
  by_cases htop : pc = .top
  · subst htop
    cases ol <;> cases os <;> cases ow <;> cases aw <;> cases sl <;> cases hsp : e.spin <;>
      simp [stepTh, newWord, hsp] at h <;>
      (repeat' split at h) <;> (first | (obtain ⟨rfl, rfl, rfl, rfl⟩ := h) | cases h) <;>
      simp_all [own, tok, rhs, LocOk] <;> (try omega)
  · unfold stepTh at h
    cases pc <;> simp only [] at h <;> (try exact absurd rfl htop) <;>
      (repeat' split at h) <;> cases h <;>
      simp_all [own, tok, rhs, LocOk, Word.zero] <;>
      (try omega)

/-- the part of `stepTh_delta` that mutual exclusion needs, from the thread-local `TryLock` fact alone -/
theorem stepTh_own {w : Word} {sema : Nat} {e : Env} {t : Th} {w' : Word} {sm' : Nat} {t' : Th} {l : Lbl}
    (h : stepTh w sema e t = .ok w' sm' t' l) (htry : t.pc = .tryCas → t.old.locked = false ∧ t.old.starving = false) :
    own t' + w.locked.toNat = own t + w'.locked.toNat ∧
    (t'.pc = .tryCas → t'.old.locked = false ∧ t'.old.starving = false) := by
  obtain ⟨wl, ww, ws, wn⟩ := w
  obtain ⟨pc, ⟨ol, ow, os, on⟩, aw, sl, wst⟩ := t
  by_cases htop : pc = .top
  · subst htop
    cases ol <;> cases os <;> cases ow <;> cases aw <;> cases sl <;> cases hsp : e.spin <;>
      simp [stepTh, newWord, hsp] at h <;>
      (repeat' split at h) <;> (first | (obtain ⟨rfl, rfl, rfl, rfl⟩ := h) | cases h) <;>
      simp_all [own] <;> (try omega)
  · unfold stepTh at h
    cases pc <;> simp only [] at h <;> (try exact absurd rfl htop) <;>
      (repeat' split at h) <;> cases h <;>
      simp_all [own, Word.zero] <;>
      (try omega)

/-- the invariant behind mutual exclusion: owners = locked bit -/
structure Inv0 (s : St) : Prop where
  own : total own s.ths = s.w.locked.toNat
  tryc : ∀ (i : Nat) (t : Th), s.ths[i]? = some t → t.pc = .tryCas → t.old.locked = false ∧ t.old.starving = false

theorem inv0_init (n : Nat) : Inv0 (init n) := by
  refine ⟨?_, ?_⟩
  · simp [init, total_replicate_zero own Th.start (by simp [own, Th.start]), Word.zero]
  · intro i t h hp
    simp [init, List.getElem?_replicate] at h
    obtain ⟨_, rfl⟩ := h
    simp [Th.start] at hp

theorem inv0_step {s s' : St} {i : Nat} {e : Env} (hi : Inv0 s) (h : step s i e = some s') : Inv0 s' := by
  unfold step stepL at h
  split at h
  · simp at h
  · split at h
    · simp at h
    · rename_i t ht
      split at h
      · simp at h
      · simp at h; subst h; exact ⟨hi.own, hi.tryc⟩
      · rename_i w sm t' l hst
        simp at h; subst h
        have hd := stepTh_own hst (hi.tryc i t ht)
        refine ⟨?_, ?_⟩
        · have := total_set own s.ths i t' t ht
          have := hi.own
          simp only at *
          omega
        · intro j u hu hp
          by_cases hij : i = j
          · subst hij
            have hlt : i < s.ths.length := by
              rcases Nat.lt_or_ge i s.ths.length with h1 | h1
              · exact h1
              · simp [List.getElem?_eq_none h1] at ht
            simp [List.getElem?_set_self hlt] at hu
            subst hu
            exact hd.2 hp
          · simp [List.getElem?_set_ne hij] at hu
            exact hi.tryc j u hu hp

theorem inv0_reachable {n : Nat} {s : St} (h : Reachable (init n) s) : Inv0 s := by
  induction h with
  | refl => exact inv0_init n
  | step i e _ hs ih => exact inv0_step ih hs

end LlgoVerif.Mutex
