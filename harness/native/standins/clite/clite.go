// Package clite is the /verif stand-in for github.com/goplus/llgo/runtime/internal/clite when llgo's
// runtime sources are compiled natively with the ordinary Go toolchain (DESIGN.md §2.2 B-N).
package clite

import (
	"reflect"
	"unsafe"
)

type (
	Char    = int8
	Int     = int32
	Uint    = uint32
	Long    = int64
	Ulong   = uint64
	Pointer = unsafe.Pointer
)

// MemcpyOverlaps counts Memcpy calls whose ranges overlap (undefined behaviour in C).
var MemcpyOverlaps int

type integer interface {
	~int | ~int8 | ~int16 | ~int32 | ~int64 | ~uint | ~uint8 | ~uint16 | ~uint32 | ~uint64 | ~uintptr
}

// Advance mirrors llgo.advance: byte steps for unsafe.Pointer, element steps for *T.
func Advance[PtrT any, I integer](ptr PtrT, offset I) PtrT {
	if v, ok := any(ptr).(unsafe.Pointer); ok {
		return any(unsafe.Pointer(uintptr(v) + uintptr(offset))).(PtrT)
	}
	rv := reflect.ValueOf(ptr)
	et := rv.Type().Elem()
	np := unsafe.Pointer(rv.Pointer() + uintptr(offset)*et.Size())
	return reflect.NewAt(et, np).Interface().(PtrT)
}

func bytesOf(p unsafe.Pointer, n uintptr) []byte {
	if n == 0 || p == nil {
		return nil
	}
	return unsafe.Slice((*byte)(p), n)
}

func Memmove(dst, src unsafe.Pointer, n uintptr) unsafe.Pointer {
	copy(bytesOf(dst, n), bytesOf(src, n))
	return dst
}

// Memcpy copies like memmove (what glibc happens to do) but records overlapping calls.
func Memcpy(dst, src unsafe.Pointer, n uintptr) unsafe.Pointer {
	if n > 0 && dst != src {
		d, s := uintptr(dst), uintptr(src)
		if (d < s && d+n > s) || (s < d && s+n > d) {
			MemcpyOverlaps++
		}
	}
	copy(bytesOf(dst, n), bytesOf(src, n))
	return dst
}

func Memset(p unsafe.Pointer, c Int, n uintptr) unsafe.Pointer {
	b := bytesOf(p, n)
	for i := range b {
		b[i] = byte(c)
	}
	return p
}

func Strlen(s *Char) uintptr {
	n := uintptr(0)
	for *(*byte)(unsafe.Pointer(uintptr(unsafe.Pointer(s)) + n)) != 0 {
		n++
	}
	return n
}

var keep [][]byte

func Malloc(n uintptr) unsafe.Pointer {
	b := make([]byte, n+1)
	keep = append(keep, b)
	return unsafe.Pointer(&b[0])
}

func Free(unsafe.Pointer) {}

// AllocaNew: heap stand-in for the stack allocation intrinsic.
func AllocaNew[T any](n Int) *T {
	s := make([]T, n)
	return &s[0]
}
