import LlgoVerif.Util
import LlgoVerif.Model.TypeStr
import LlgoVerif.Model.TypeDesc
/-! Line-protocol driver for C15 (stateful: the environment is sent first).

Terms as in `Driver/C07.lean`.  Requests:
* `pkg pathH nameH`            → `ok`      (package name of a path)
* `under decl | T`             → `ok`      (underlying type of a declaration)
* `desc T | MSET`              → `<hex Str_> <hex String()> <kind> <named><extrastar><variadic><closure> <xcount> <hex emitted names, comma separated | ->`
                                 (`unsupported` for the `types.TypeString` fall-back of type arguments)
* `hdr K`                      → `<emitHeader name> <readHeader name> <emit words> <read words>`   (K = abi.Kind number)
* `dird K b`                   → `<directIfaceData 0/1> <needsBoxedReceiver 0/1> <directKind K 0/1>`
* `shape T`                    → `<directIfaceType 0/1> <RuntimeName header> <hex StructType.PkgPath_ | ~ when the underlying type is no struct>`
-/
open LlgoVerif LlgoVerif.Util LlgoVerif.Types

def strOfHex (h : String) : Option Str := do
  let bs ← unhex h
  let s ← String.fromUTF8? bs.toByteArray
  pure s.toList

def optStrOfHex (h : String) : Option (Option Str) :=
  if h = "~" then some none else (strOfHex h).map some

def hexOfStr (s : Str) : String := hex (String.ofList s).toUTF8.data.toList

def basicOfName : String → Option BasicKind
  | "bool" => some .bool | "int" => some .int | "int8" => some .int8 | "int16" => some .int16
  | "int32" => some .int32 | "int64" => some .int64 | "uint" => some .uint | "uint8" => some .uint8
  | "uint16" => some .uint16 | "uint32" => some .uint32 | "uint64" => some .uint64 | "uintptr" => some .uintptr
  | "float32" => some .float32 | "float64" => some .float64 | "complex64" => some .complex64
  | "complex128" => some .complex128 | "string" => some .string | "unsafe.Pointer" => some .unsafePointer
  | "byte" => some .byte | "rune" => some .rune
  | _ => none

def scopeOf (s : String) : Option Scope :=
  if s = "g" then some .pkg
  else if s.startsWith "s:" then
    let body := (s.drop 2).toString
    if body = "" then some (.path [])
    else ((body.splitOn ".").mapM String.toNat?).map Scope.path
  else if s.startsWith "p:" then (s.drop 2).toString.toNat?.map Scope.pos
  else none

mutual
partial def parseT : List String → Option (GoType × List String)
  | "B" :: k :: r => (basicOfName k).map fun b => (.basic b, r)
  | "P" :: r => do let (t, r) ← parseT r; pure (.pointer t, r)
  | "S" :: r => do let (t, r) ← parseT r; pure (.slice t, r)
  | "A" :: n :: r => do let n ← n.toNat?; let (t, r) ← parseT r; pure (.array n t, r)
  | "M" :: r => do let (k, r) ← parseT r; let (v, r) ← parseT r; pure (.map k v, r)
  | "C" :: d :: r => do
    let d ← (match d with | "0" => some ChanDir.both | "1" => some .send | "2" => some .recv | _ => none)
    let (t, r) ← parseT r; pure (.chan d t, r)
  | "F" :: v :: np :: nr :: r => do
    let np ← np.toNat?; let nr ← nr.toNat?
    let (ps, r) ← parseTL np r; let (rs, r) ← parseTL nr r
    pure (.func ps rs (v == "1"), r)
  | "T" :: n :: r => do let n ← n.toNat?; let (fs, r) ← parseFL n r; pure (.struct fs, r)
  | "I" :: n :: r => do let n ← n.toNat?; let (ms, r) ← parseML n r; pure (.iface ms, r)
  | "N" :: d :: pkg :: name :: sc :: nt :: r => do
    let d ← d.toNat?; let pkg ← optStrOfHex pkg; let name ← strOfHex name; let sc ← scopeOf sc
    let nt ← nt.toNat?; let (ts, r) ← parseTL nt r
    pure (.named d pkg name sc ts, r)
  | "L" :: name :: r => do let name ← strOfHex name; let (t, r) ← parseT r; pure (.alias name t, r)
  | _ => none
partial def parseTL : Nat → List String → Option (TList × List String)
  | 0, r => some (.nil, r)
  | n+1, r => do let (t, r) ← parseT r; let (ts, r) ← parseTL n r; pure (.cons t ts, r)
partial def parseFL : Nat → List String → Option (FList × List String)
  | 0, r => some (.nil, r)
  | n+1, name :: pkg :: emb :: tag :: r => do
    let name ← strOfHex name; let pkg ← optStrOfHex pkg; let tag ← strOfHex tag
    let (t, r) ← parseT r; let (fs, r) ← parseFL n r
    pure (.cons name pkg (emb == "1") tag t fs, r)
  | _, _ => none
partial def parseML : Nat → List String → Option (MList × List String)
  | 0, r => some (.nil, r)
  | n+1, name :: pkg :: r => do
    let name ← strOfHex name; let pkg ← optStrOfHex pkg
    let (t, r) ← parseT r; let (ms, r) ← parseML n r
    pure (.cons name pkg t ms, r)
  | _, _ => none
end

def parseWhole (toks : List String) : Option GoType :=
  match parseT toks with
  | some (t, []) => some t
  | _ => none

def splitBar (toks : List String) : List String × List String :=
  (toks.takeWhile (· ≠ "|"), (toks.dropWhile (· ≠ "|")).drop 1)

structure St where
  pkgs : List (Str × Str) := []
  unders : List (Nat × GoType) := []

/-- the environment: facts about a declaration's underlying type are computed with the model itself,
    following `Named → Underlying()` at most `fuel` times (declarations nest finitely) -/
def mkEnv (st : St) : Nat → Env
  | 0 => { pkgName := fun p => (st.pkgs.lookup p).getD [], underStar := fun _ => false, underKind := fun _ => .invalid,
           underVariadic := fun _ => false, underClosure := fun _ => false }
  | fuel+1 =>
    let inner := mkEnv st fuel
    { pkgName := fun p => (st.pkgs.lookup p).getD []
      underStar := fun d => match st.unders.lookup d with | some u => extraStar inner u | none => false
      underKind := fun d => match st.unders.lookup d with | some u => kindOf inner u | none => .invalid
      underVariadic := fun d => match st.unders.lookup d with | some u => flagVariadic inner u | none => false
      underClosure := fun d => match st.unders.lookup d with | some u => flagClosure inner u | none => false }

def kindOfNat : Nat → Option Kind
  | 0 => some .invalid | 1 => some .bool | 2 => some .int | 3 => some .int8 | 4 => some .int16 | 5 => some .int32
  | 6 => some .int64 | 7 => some .uint | 8 => some .uint8 | 9 => some .uint16 | 10 => some .uint32 | 11 => some .uint64
  | 12 => some .uintptr | 13 => some .float32 | 14 => some .float64 | 15 => some .complex64 | 16 => some .complex128
  | 17 => some .array | 18 => some .chan | 19 => some .func | 20 => some .interface | 21 => some .map | 22 => some .pointer
  | 23 => some .slice | 24 => some .string | 25 => some .struct | 26 => some .unsafePointer
  | _ => none

/-- per-declaration facts of `Model/TypeDesc.lean`, computed with the model from the underlying types (fuel as `mkEnv`) -/
def mkUd (st : St) : Nat → Nat → Bool
  | 0 => fun _ => false
  | fuel+1 => fun d => match st.unders.lookup d with | some u => directIfaceTypeC (mkUd st fuel) u | none => false

def mkUh (st : St) : Nat → Nat → Header
  | 0 => fun _ => .type
  | fuel+1 => fun d => match st.unders.lookup d with | some u => runtimeNameC (mkUh st fuel) u | none => .type

/-- `Underlying()` through aliases and declarations -/
def underOf (st : St) : Nat → GoType → GoType
  | 0, t => t
  | fuel+1, .alias _ a => underOf st fuel a
  | fuel+1, .named d p n s ts => match st.unders.lookup d with | some u => underOf st fuel u | none => .named d p n s ts
  | _, t => t

def bstr (b : Bool) : String := if b then "1" else "0"

def msetOf : GoType → List MethodIn
  | .iface ms =>
    let rec go : MList → List MethodIn
      | .nil => []
      | .cons n p s r => { name := n, pkg := p, sigName := [] } :: go r
    go ms
  | _ => []

def handle (st : St) (line : String) : St × String :=
  match fields line with
  | ["pkg", p, n] =>
    match strOfHex p, strOfHex n with
    | some p, some n => ({ st with pkgs := (p, n) :: st.pkgs }, "ok")
    | _, _ => (st, "bad-op")
  | "under" :: d :: "|" :: toks =>
    match d.toNat?, parseWhole toks with
    | some d, some t => ({ st with unders := (d, t) :: st.unders }, "ok")
    | _, _ => (st, "bad-op")
  | "desc" :: toks =>
    let (a, b) := splitBar toks
    match parseWhole a, parseWhole b with
    | some t, some ms =>
      if !supported t then (st, "unsupported") else
      let env := mkEnv st 8
      let m := msetOf ms
      let names := m.map fun x => hexOfStr (emittedName x)
      (st, hexOfStr (strC env t) ++ " " ++ hexOfStr (reflectString env t) ++ " " ++ toString (kindOf env t).toNat ++ " " ++
        bstr (flagNamed t) ++ bstr (extraStar env t) ++ bstr (flagVariadic env t) ++ bstr (flagClosure env t) ++ " " ++
        toString (xcount m) ++ " " ++ (if names.isEmpty then "-" else ",".intercalate names))
    | _, _ => (st, "bad-op")
  | ["hdr", k] =>
    match k.toNat?.bind kindOfNat with
    | some k => (st, (emitHeader k).name ++ " " ++ (readHeader k).name ++ " " ++ toString (emitHeader k).words ++ " " ++ toString (readHeader k).words)
    | none => (st, "bad-op")
  | ["dird", k, b] =>
    match k.toNat?.bind kindOfNat with
    | some k => (st, bstr (directIfaceData k (b == "1")) ++ " " ++ bstr (needsBoxedReceiver k (b == "1")) ++ " " ++ bstr (directKind k))
    | none => (st, "bad-op")
  | "shape" :: toks =>
    match parseWhole toks with
    | some t =>
      let sp := match underOf st 8 t with
        | .struct fs => (match structPkgPath fs with | [] => "-" | p => hexOfStr p)
        | _ => "~"
      (st, bstr (directIfaceTypeC (mkUd st 8) t) ++ " " ++ (runtimeNameC (mkUh st 8) t).name ++ " " ++ sp)
    | none => (st, "bad-op")
  | _ => (st, "bad-op")

def main : IO Unit := lineLoopSt ({} : St) handle
