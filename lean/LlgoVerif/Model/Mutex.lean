/-!
# Model of llgo's own `Mutex` (`runtime/_patch/internal/sync/mutex.go`, patched into `internal/sync` for go1.26)

Transition system over ANY number of threads, each calling `Lock`/`TryLock`/`Unlock` any number of times, at the
granularity of the accesses to the state word: one step = one `atomic.CompareAndSwapInt32` / `atomic.AddInt32` on
`m.state`, one plain read `old = m.state` (kept as a step of its own: a superset of the interleavings of the code),
or one semaphore call.  The state word is kept decoded (`Word`: locked / woken / starving bits, waiter count;
`Word.enc` is the `int32` the code holds, compared with the real word at every access by `checks/c11.py`).

Program counters ↔ source lines of `mutex.go`:
* `idle`      outside; `Lock` fast path `CAS(0, mutexLocked)` (l.33) or `TryLock`'s read (l.44-47)
* `tryCas`    `TryLock`: `CAS(old, old|mutexLocked)` (l.48)
* `loadOld`   `old := m.state` / `old = m.state` (l.62, 72, 114)
* `top`       loop head of `lockSlow`: spin branch (l.64-74, `runtime_canSpin` is the environment's `spin`) or the
              computation of `new` and the CAS (l.75-90); `throw` when `awoke` and `new` has no woken bit
* `semReq`    CAS succeeded, lock not obtained: `waitStartTime` (l.94-97), about to call `runtime_SemacquireMutex`
* `sleeping`  inside the semaphore (enabled only when a permit is there)
* `postSem`   returned: `starving = starving || nanotime()-waitStartTime > 1e6`, `old = m.state`, hand-off test (l.99-110)
* `handoffAdd c`  `atomic.AddInt32(&m.state, mutexLocked - 1<<mutexWaiterShift [- mutexStarving if c])` (l.107)
* `owner`     holds the mutex; its step is `Unlock`'s `atomic.AddInt32(&m.state, -mutexLocked)` (l.129)
* `uTop`/`uLoad`  `unlockSlow`, normal mode loop (l.140-150)
* `rel`/`relH`    `runtime_Semrelease(&m.sema, false/true, 2)` (l.146 / l.152)

The semaphore is abstract here (a counter; `sleeping` needs a positive count): that llgo's `sema_llgo.go` implements it
is the subject of `Model/Sema.lean`; `sema ≤ 1` (proved in `Props/C11.lean`) is the hypothesis of its
`no_lost_wakeup_partial`.  Errors are not totalised: `throw`/`fatal` end the run (`crash`), and the one place where the
decoded arithmetic would differ from the 32-bit `Add` (a carry/borrow across fields) is a crash of its own, proved
unreachable (`mutex_no_crash_in_handoff_add`).
-/
namespace LlgoVerif.Mutex

structure Word where
  locked : Bool
  woken : Bool
  starving : Bool
  waiters : Nat
deriving DecidableEq, Repr

def Word.zero : Word := ⟨false, false, false, 0⟩

/-- the `int32` state word: `mutexLocked = 1`, `mutexWoken = 2`, `mutexStarving = 4`, `mutexWaiterShift = 3` -/
def Word.enc (w : Word) : Nat := w.locked.toNat + 2 * w.woken.toNat + 4 * w.starving.toNat + 8 * w.waiters

inductive Pc where
  | idle | tryCas | loadOld | top | semReq | sleeping | postSem
  | handoffAdd (clear : Bool) | owner | uTop | uLoad | rel | relH
deriving DecidableEq, Repr

structure Th where
  pc : Pc
  old : Word
  awoke : Bool
  starvL : Bool
  wst : Int
deriving DecidableEq, Repr

def Th.start : Th := ⟨.idle, Word.zero, false, false, 0⟩

/-- what the environment decides in a step: `runtime_canSpin`, the clock, and whether an idle thread calls `TryLock` -/
structure Env where
  spin : Bool
  now : Int
  try_ : Bool

inductive Lbl where
  | tau
  | cas (old new : Nat) (ok : Bool)
  | add (old new : Nat)
  | semacq | semret
  | semrel (handoff : Bool)
deriving DecidableEq, Repr

inductive Out where
  | ok (w : Word) (sema : Nat) (t : Th) (l : Lbl)
  | crash (msg : String)
  | blocked

/-- `new` of `lockSlow` (l.75-90) before the woken bit is cleared -/
def newWord (o : Word) (starvL : Bool) : Word :=
  let n1 : Word := if o.starving then o else { o with locked := true }
  let n2 : Word := if o.locked || o.starving then { n1 with waiters := n1.waiters + 1 } else n1
  if starvL && o.locked then { n2 with starving := true } else n2

def stepTh (w : Word) (sema : Nat) (e : Env) (t : Th) : Out :=
  match t.pc with
  | .idle =>
    if e.try_ then
      if w.locked || w.starving then .ok w sema t .tau
      else .ok w sema { t with pc := .tryCas, old := w } .tau
    else if w = Word.zero then .ok { w with locked := true } sema { t with pc := .owner } (.cas 0 1 true)
    else .ok w sema { t with pc := .loadOld, awoke := false, starvL := false, wst := 0 } (.cas 0 1 false)
  | .tryCas =>
    let n : Word := { t.old with locked := true }
    if w = t.old then .ok n sema { t with pc := .owner } (.cas t.old.enc n.enc true)
    else .ok w sema { t with pc := .idle } (.cas t.old.enc n.enc false)
  | .loadOld => .ok w sema { t with pc := .top, old := w } .tau
  | .top =>
    let o := t.old
    if o.locked && !o.starving && e.spin then
      if !t.awoke && !o.woken && o.waiters != 0 then
        let n : Word := { o with woken := true }
        if w = o then .ok n sema { t with pc := .loadOld, awoke := true } (.cas o.enc n.enc true)
        else .ok w sema { t with pc := .loadOld } (.cas o.enc n.enc false)
      else .ok w sema { t with pc := .loadOld } .tau
    else
      let n3 := newWord o t.starvL
      if t.awoke && !n3.woken then .crash "throw: sync: inconsistent mutex state"
      else
        let n4 : Word := if t.awoke then { n3 with woken := false } else n3
        if w = o then
          if !o.locked && !o.starving then .ok n4 sema { t with pc := .owner } (.cas o.enc n4.enc true)
          else .ok n4 sema { t with pc := .semReq } (.cas o.enc n4.enc true)
        else .ok w sema { t with pc := .loadOld } (.cas o.enc n4.enc false)
  | .semReq => .ok w sema { t with pc := .sleeping, wst := if t.wst = 0 then e.now else t.wst } .semacq
  | .sleeping => if sema = 0 then .blocked else .ok w (sema - 1) { t with pc := .postSem } .semret
  | .postSem =>
    let st := t.starvL || decide (e.now - t.wst > 1000000)
    if w.starving then
      if w.locked || w.woken || w.waiters == 0 then .crash "throw: sync: inconsistent mutex state"
      else .ok w sema { t with pc := .handoffAdd (!st || w.waiters == 1), old := w, starvL := st } .tau
    else .ok w sema { t with pc := .top, old := w, starvL := st, awoke := true } .tau
  | .handoffAdd c =>
    if w.locked || w.waiters == 0 || (c && !w.starving) then .crash "corrupt: AddInt32 carries across the fields of the state word"
    else
      let n : Word := { w with locked := true, waiters := w.waiters - 1, starving := if c then false else w.starving }
      .ok n sema { t with pc := .owner } (.add w.enc n.enc)
  | .owner =>
    if !w.locked then .crash "fatal: sync: unlock of unlocked mutex"
    else
      let n : Word := { w with locked := false }
      if n = Word.zero then .ok n sema { t with pc := .idle } (.add w.enc n.enc)
      else if !n.starving then .ok n sema { t with pc := .uTop, old := n } (.add w.enc n.enc)
      else .ok n sema { t with pc := .relH } (.add w.enc n.enc)
  | .uTop =>
    let o := t.old
    if o.waiters == 0 || o.locked || o.woken || o.starving then .ok w sema { t with pc := .idle } .tau
    else
      let n : Word := { o with waiters := o.waiters - 1, woken := true }
      if w = o then .ok n sema { t with pc := .rel } (.cas o.enc n.enc true)
      else .ok w sema { t with pc := .uLoad } (.cas o.enc n.enc false)
  | .uLoad => .ok w sema { t with pc := .uTop, old := w } .tau
  | .rel => .ok w (sema + 1) { t with pc := .idle } (.semrel false)
  | .relH => .ok w (sema + 1) { t with pc := .idle } (.semrel true)

structure St where
  w : Word
  sema : Nat
  ths : List Th
  crash : Option String

def init (n : Nat) : St := ⟨Word.zero, 0, List.replicate n Th.start, none⟩

/-- thread `i` takes one step under the environment's choices `e`; `none` = not enabled (crashed run, no such thread,
    asleep without a permit) -/
def stepL (s : St) (i : Nat) (e : Env) : Option (St × Lbl) :=
  if s.crash.isSome then none else
  match s.ths[i]? with
  | none => none
  | some t =>
    match stepTh s.w s.sema e t with
    | .blocked => none
    | .crash m => some ({ s with crash := some m }, .tau)
    | .ok w sm t' l => some ({ s with w := w, sema := sm, ths := s.ths.set i t' }, l)

def step (s : St) (i : Nat) (e : Env) : Option St := (stepL s i e).map (·.1)

inductive Reachable (s0 : St) : St → Prop where
  | refl : Reachable s0 s0
  | step {s s' : St} (i : Nat) (e : Env) : Reachable s0 s → step s i e = some s' → Reachable s0 s'

def run (s : St) : List (Nat × Env) → Option St
  | [] => some s
  | (i, e) :: r => match step s i e with
    | none => none
    | some s' => run s' r

def owners (s : St) : Nat := (s.ths.filter (fun t => t.pc = .owner)).length

end LlgoVerif.Mutex
