// C07 harness: runs the REAL ssa/abi naming functions on go/types values obtained by type-checking
// generated multi-package source, next to go/types' own Identical / Implements (the spec oracle).
//
// usage: harness.bin job.json     (job = {"packages":[{"path":..,"src":..}, …]} in dependency order)
//
// For every pair of variables V<i>a / V<i>b (declared anywhere, also inside function bodies):
//
//	pair <i> <identical> <hex TypeName a> <hex TypeName b> <why> <term a> | <term b>
//
// For every W<i>t (operand) / W<i>i (interface) pair:
//
//	impl <i> <types.Implements> t: (hexname functypename)… | v: (hexname functypename)… | <mset as I-term> | <iface term>
//
// <why> classifies a disagreement between Identical and name equality by the differing attributes (or "-").
package main

import (
	"encoding/hex"
	"encoding/json"
	"fmt"
	"go/ast"
	"go/parser"
	"go/token"
	"go/types"
	"os"
	"regexp"
	"sort"
	"strconv"
	"strings"

	"github.com/goplus/llgo/ssa/abi"
)

type jobPkg struct {
	Path string `json:"path"`
	Src  string `json:"src"`
}
type job struct {
	Packages []jobPkg `json:"packages"`
}

type imp struct{ pkgs map[string]*types.Package }

func (i imp) Import(p string) (*types.Package, error) {
	if q, ok := i.pkgs[p]; ok {
		return q, nil
	}
	if p == "unsafe" {
		return types.Unsafe, nil
	}
	return nil, fmt.Errorf("unknown package %q", p)
}

func hx(s string) string {
	if s == "" {
		return "-"
	}
	return hex.EncodeToString([]byte(s))
}

type ser struct {
	decls map[*types.TypeName]int
}

func (s *ser) declID(o *types.TypeName) int {
	if id, ok := s.decls[o]; ok {
		return id
	}
	id := len(s.decls) + 1
	s.decls[o] = id
	return id
}

// scope of a type declaration as the model wants it: g | s:i.j.k (innermost first) | p:pos
func scopeTerm(obj types.Object) string {
	pkg := obj.Pkg()
	if pkg == nil || obj.Parent() == pkg.Scope() || obj.Parent() == nil && false {
		return "g"
	}
	var idx []string
	sc := obj.Parent()
	root := pkg.Scope()
	for sc != nil {
		parent := sc.Parent()
		if parent == nil {
			break
		}
		for i := 0; i < parent.NumChildren(); i++ {
			if parent.Child(i) == sc {
				idx = append(idx, strconv.Itoa(i))
				break
			}
		}
		if parent == root {
			return "s:" + strings.Join(idx, ".")
		}
		sc = parent
	}
	return "p:" + strconv.Itoa(int(obj.Pos()))
}

func (s *ser) term(t types.Type) string {
	switch t := t.(type) {
	case *types.Basic:
		return "B " + t.String()
	case *types.Pointer:
		return "P " + s.term(t.Elem())
	case *types.Slice:
		return "S " + s.term(t.Elem())
	case *types.Array:
		return "A " + strconv.FormatInt(t.Len(), 10) + " " + s.term(t.Elem())
	case *types.Map:
		return "M " + s.term(t.Key()) + " " + s.term(t.Elem())
	case *types.Chan:
		d := map[types.ChanDir]string{types.SendRecv: "0", types.SendOnly: "1", types.RecvOnly: "2"}[t.Dir()]
		return "C " + d + " " + s.term(t.Elem())
	case *types.Signature:
		v := "0"
		if t.Variadic() {
			v = "1"
		}
		parts := []string{"F", v, strconv.Itoa(t.Params().Len()), strconv.Itoa(t.Results().Len())}
		for i := 0; i < t.Params().Len(); i++ {
			parts = append(parts, s.term(t.Params().At(i).Type()))
		}
		for i := 0; i < t.Results().Len(); i++ {
			parts = append(parts, s.term(t.Results().At(i).Type()))
		}
		return strings.Join(parts, " ")
	case *types.Struct:
		parts := []string{"T", strconv.Itoa(t.NumFields())}
		for i := 0; i < t.NumFields(); i++ {
			f := t.Field(i)
			pkg := "~"
			if !f.Exported() && f.Pkg() != nil {
				pkg = hx(f.Pkg().Path())
			}
			e := "0"
			if f.Embedded() {
				e = "1"
			}
			parts = append(parts, hx(f.Name()), pkg, e, hx(t.Tag(i)), s.term(f.Type()))
		}
		return strings.Join(parts, " ")
	case *types.Interface:
		return s.methodsTerm(ifaceMethods(t))
	case *types.Named:
		o := t.Obj()
		pkg := "~"
		if o.Pkg() != nil {
			pkg = hx(o.Pkg().Path())
		}
		parts := []string{"N", strconv.Itoa(s.declID(t.Origin().Obj())), pkg, hx(o.Name()), scopeTerm(o)}
		n := 0
		if ta := t.TypeArgs(); ta != nil {
			n = ta.Len()
		}
		parts = append(parts, strconv.Itoa(n))
		for i := 0; i < n; i++ {
			parts = append(parts, s.term(t.TypeArgs().At(i)))
		}
		return strings.Join(parts, " ")
	case *types.Alias:
		return "L " + hx(t.Obj().Name()) + " " + s.term(t.Rhs())
	}
	panic(fmt.Sprintf("term: unsupported %T %v", t, t))
}

type meth struct {
	name string
	pkg  *types.Package
	exp  bool
	sig  *types.Signature
}

func ifaceMethods(t *types.Interface) []meth {
	var ms []meth
	for i := 0; i < t.NumMethods(); i++ {
		m := t.Method(i)
		ms = append(ms, meth{m.Name(), m.Pkg(), m.Exported(), m.Type().(*types.Signature)})
	}
	return ms
}

func msetMethods(t types.Type) []meth {
	var ms []meth
	set := types.NewMethodSet(t)
	for i := 0; i < set.Len(); i++ {
		o := set.At(i).Obj().(*types.Func)
		ms = append(ms, meth{o.Name(), o.Pkg(), o.Exported(), set.At(i).Type().(*types.Signature)})
	}
	return ms
}

func (s *ser) methodsTerm(ms []meth) string {
	parts := []string{"I", strconv.Itoa(len(ms))}
	for _, m := range ms {
		pkg := "~"
		if !m.exp && m.pkg != nil {
			pkg = hx(m.pkg.Path())
		}
		parts = append(parts, hx(m.name), pkg, s.term(m.sig))
	}
	return strings.Join(parts, " ")
}

// the emitted method table (ssa/abitype.go abiUncommonMethods / abiInterfaceImethods): name = bare name
// for exported methods, FullName(pkg, name) otherwise; type = descriptor of the func type, i.e. its TypeName.
func table(b *abi.Builder, ms []meth) string {
	var parts []string
	for _, m := range ms {
		name := m.name
		if !token.IsExported(name) {
			name = abi.FullName(m.pkg, name)
		}
		parts = append(parts, hx(name), b.FuncName(m.sig))
	}
	return strings.Join(parts, " ")
}

// ---------------------------------------------------------------- classification of disagreements

// attrs collects the attributes in which two types differ (a structural walk that mirrors the clauses
// of the Go spec's type identity); "other" = anything the walk cannot attribute.
// below a func/struct/interface type argument EVERYTHING is rendered by types.TypeString, nested instances included
func targPrefix(cur string) string {
	if cur == "targ-fallback:" {
		return cur
	}
	return "targ:"
}

type prefixed struct {
	m   map[string]bool
	pre string
}

func (p prefixed) set(k string) { p.m[p.pre+k] = true }

func diffAttrs(x, y types.Type, out0 map[string]bool, depth int, pre string) {
	out := prefixed{out0, pre}
	sub := pre // prefix for the children: below a func/struct/interface inside a type argument typeArgString falls back to types.TypeString
	if pre == "targ:" {
		switch types.Unalias(x).(type) {
		case *types.Signature, *types.Struct, *types.Interface:
			sub = "targ-fallback:"
			out = prefixed{out0, sub}
		}
	}
	if depth > 40 {
		out.set("other:depth")
		return
	}
	if ax, ok := x.(*types.Alias); ok {
		diffAttrs(types.Unalias(ax), y, out0, depth+1, sub)
		return
	}
	if ay, ok := y.(*types.Alias); ok {
		diffAttrs(x, types.Unalias(ay), out0, depth+1, sub)
		return
	}
	if types.Identical(x, y) {
		return
	}
	switch x := x.(type) {
	case *types.Pointer:
		if y, ok := y.(*types.Pointer); ok {
			diffAttrs(x.Elem(), y.Elem(), out0, depth+1, sub)
			return
		}
	case *types.Slice:
		if y, ok := y.(*types.Slice); ok {
			diffAttrs(x.Elem(), y.Elem(), out0, depth+1, sub)
			return
		}
	case *types.Array:
		if y, ok := y.(*types.Array); ok {
			if x.Len() != y.Len() {
				out.set("array-len")
			}
			diffAttrs(x.Elem(), y.Elem(), out0, depth+1, sub)
			return
		}
	case *types.Map:
		if y, ok := y.(*types.Map); ok {
			diffAttrs(x.Key(), y.Key(), out0, depth+1, sub)
			diffAttrs(x.Elem(), y.Elem(), out0, depth+1, sub)
			return
		}
	case *types.Chan:
		if y, ok := y.(*types.Chan); ok {
			if x.Dir() != y.Dir() {
				out.set("chan-dir")
			}
			diffAttrs(x.Elem(), y.Elem(), out0, depth+1, sub)
			return
		}
	case *types.Signature:
		if y, ok := y.(*types.Signature); ok {
			if x.Variadic() != y.Variadic() {
				out.set("variadic")
			}
			if x.Params().Len() != y.Params().Len() || x.Results().Len() != y.Results().Len() {
				out.set("arity")
				return
			}
			for i := 0; i < x.Params().Len(); i++ {
				diffAttrs(x.Params().At(i).Type(), y.Params().At(i).Type(), out0, depth+1, sub)
			}
			for i := 0; i < x.Results().Len(); i++ {
				diffAttrs(x.Results().At(i).Type(), y.Results().At(i).Type(), out0, depth+1, sub)
			}
			return
		}
	case *types.Struct:
		if y, ok := y.(*types.Struct); ok {
			if x.NumFields() != y.NumFields() {
				out.set("field-count")
				return
			}
			for i := 0; i < x.NumFields(); i++ {
				f, g := x.Field(i), y.Field(i)
				if f.Embedded() != g.Embedded() {
					out.set("embedded-flag")
				}
				if f.Name() != g.Name() {
					if f.Embedded() && g.Embedded() {
						out.set("embedded-name")
					} else {
						out.set("field-name")
					}
				} else if !f.Exported() && f.Pkg() != g.Pkg() {
					out.set("field-pkg")
				}
				if x.Tag(i) != y.Tag(i) {
					out.set("tag")
				}
				diffAttrs(f.Type(), g.Type(), out0, depth+1, sub)
			}
			return
		}
	case *types.Interface:
		if y, ok := y.(*types.Interface); ok {
			if x.NumMethods() != y.NumMethods() {
				out.set("method-count")
				return
			}
			for i := 0; i < x.NumMethods(); i++ {
				f, g := x.Method(i), y.Method(i)
				if f.Name() != g.Name() {
					out.set("method-name")
				} else if !f.Exported() && f.Pkg() != g.Pkg() {
					out.set("method-pkg")
				}
				diffAttrs(f.Type(), g.Type(), out0, depth+1, sub)
			}
			return
		}
	case *types.Named:
		if y, ok := y.(*types.Named); ok {
			if sx, ok := x.Underlying().(*types.Signature); ok && x.Origin() != y.Origin() {
				if sy, ok := y.Underlying().(*types.Signature); ok && types.Identical(sx, sy) {
					out.set("named-func-vs-underlying")
					return
				}
			}
			if x.Origin() != y.Origin() {
				if x.Obj().Pkg() == y.Obj().Pkg() && x.Obj().Name() == y.Obj().Name() {
					out.set("named-decl:same-pkg-and-name")
				} else {
					out.set("named-decl")
				}
				return
			}
			for i := 0; i < x.TypeArgs().Len(); i++ {
				diffAttrs(x.TypeArgs().At(i), y.TypeArgs().At(i), out0, depth+1, targPrefix(sub))
			}
			return
		}
	case *types.Basic:
		if _, ok := y.(*types.Basic); ok {
			out.set("basic-kind")
			return
		}
	}
	// a defined func type against its own underlying func type, or two defined func types over one func type
	// (llgo's MatchesClosure identifies them at run time although their names differ)
	sigOf := func(t types.Type) *types.Signature {
		if n, ok := t.(*types.Named); ok {
			s, _ := n.Underlying().(*types.Signature)
			return s
		}
		s, _ := t.(*types.Signature)
		return s
	}
	_, xn := x.(*types.Named)
	_, yn := y.(*types.Named)
	if sx, sy := sigOf(x), sigOf(y); sx != nil && sy != nil && (xn || yn) && types.Identical(sx, sy) {
		out.set("named-func-vs-underlying")
		return
	}
	out.set("kind")
}

// whyNamesDiffer: for IDENTICAL types with different names, where the spellings diverge.
// inTarg: inside a type argument; inFallback: additionally below a func/struct/interface there (types.TypeString region).
func whyNamesDiffer(b *abi.Builder, x, y types.Type, out map[string]bool, inTarg, inFallback bool, depth int) {
	if depth > 40 {
		out["other:depth"] = true
		return
	}
	if inTarg {
		switch types.Unalias(x).(type) {
		case *types.Signature, *types.Struct, *types.Interface:
			inFallback = true
		}
	}
	if inFallback {
		ax, okx := x.(*types.Alias)
		ay, oky := y.(*types.Alias)
		if okx != oky || (okx && ax.Obj() != ay.Obj()) {
			out["targ-fallback-spelling"] = true
		}
	}
	x, y = types.Unalias(x), types.Unalias(y)
	switch x := x.(type) {
	case *types.Basic:
		if y, ok := y.(*types.Basic); ok {
			if x.Name() != y.Name() {
				switch {
				case inFallback:
					out["targ-fallback-spelling"] = true
				case inTarg:
					out["targ-basic-spelling"] = true
				default:
					out["basic-spelling"] = true
				}
			}
			return
		}
	case *types.Pointer:
		if y, ok := y.(*types.Pointer); ok {
			whyNamesDiffer(b, x.Elem(), y.Elem(), out, inTarg, inFallback, depth+1)
			return
		}
	case *types.Slice:
		if y, ok := y.(*types.Slice); ok {
			whyNamesDiffer(b, x.Elem(), y.Elem(), out, inTarg, inFallback, depth+1)
			return
		}
	case *types.Array:
		if y, ok := y.(*types.Array); ok {
			whyNamesDiffer(b, x.Elem(), y.Elem(), out, inTarg, inFallback, depth+1)
			return
		}
	case *types.Map:
		if y, ok := y.(*types.Map); ok {
			whyNamesDiffer(b, x.Key(), y.Key(), out, inTarg, inFallback, depth+1)
			whyNamesDiffer(b, x.Elem(), y.Elem(), out, inTarg, inFallback, depth+1)
			return
		}
	case *types.Chan:
		if y, ok := y.(*types.Chan); ok {
			whyNamesDiffer(b, x.Elem(), y.Elem(), out, inTarg, inFallback, depth+1)
			return
		}
	case *types.Signature:
		if y, ok := y.(*types.Signature); ok && x.Params().Len() == y.Params().Len() && x.Results().Len() == y.Results().Len() {
			for i := 0; i < x.Params().Len(); i++ {
				whyNamesDiffer(b, x.Params().At(i).Type(), y.Params().At(i).Type(), out, inTarg, inFallback, depth+1)
			}
			for i := 0; i < x.Results().Len(); i++ {
				whyNamesDiffer(b, x.Results().At(i).Type(), y.Results().At(i).Type(), out, inTarg, inFallback, depth+1)
			}
			return
		}
	case *types.Struct:
		if y, ok := y.(*types.Struct); ok && x.NumFields() == y.NumFields() {
			for i := 0; i < x.NumFields(); i++ {
				whyNamesDiffer(b, x.Field(i).Type(), y.Field(i).Type(), out, inTarg, inFallback, depth+1)
			}
			return
		}
	case *types.Interface:
		if y, ok := y.(*types.Interface); ok && x.NumMethods() == y.NumMethods() {
			if inFallback && x.NumMethods() == 0 && x != y {
				// `any` prints as "any", a literal interface{} as "interface{}"
				out["targ-fallback-spelling"] = true
			}
			for i := 0; i < x.NumMethods(); i++ {
				whyNamesDiffer(b, x.Method(i).Type(), y.Method(i).Type(), out, inTarg, inFallback, depth+1)
			}
			return
		}
	case *types.Named:
		if y, ok := y.(*types.Named); ok && x.TypeArgs().Len() == y.TypeArgs().Len() {
			for i := 0; i < x.TypeArgs().Len(); i++ {
				whyNamesDiffer(b, x.TypeArgs().At(i), y.TypeArgs().At(i), out, true, inFallback, depth+1)
			}
			return
		}
	}
	out["other"] = true
}

func keys(m map[string]bool) string {
	if len(m) == 0 {
		return "-"
	}
	var ks []string
	for k := range m {
		ks = append(ks, k)
	}
	sort.Strings(ks)
	return strings.Join(ks, "+")
}

var varRe = regexp.MustCompile(`^([VW])(\d+)([abti])$`)
var dynRe = regexp.MustCompile(`^D(\d+)$`)

func main() {
	data, err := os.ReadFile(os.Args[1])
	if err != nil {
		panic(err)
	}
	var jb job
	if err := json.Unmarshal(data, &jb); err != nil {
		panic(err)
	}
	fset := token.NewFileSet()
	im := imp{map[string]*types.Package{}}
	vars := map[string]types.Type{}
	dyns := map[string]types.Type{}
	for _, p := range jb.Packages {
		f, err := parser.ParseFile(fset, p.Path+"/x.go", p.Src, 0)
		if err != nil {
			fmt.Println("error parse", p.Path, err)
			os.Exit(2)
		}
		info := &types.Info{Defs: map[*ast.Ident]types.Object{}}
		conf := types.Config{Importer: im}
		pkg, err := conf.Check(p.Path, fset, []*ast.File{f}, info)
		if err != nil {
			fmt.Println("error check", p.Path, err)
			os.Exit(2)
		}
		im.pkgs[p.Path] = pkg
		for id, obj := range info.Defs {
			if v, ok := obj.(*types.Var); ok && varRe.MatchString(id.Name) {
				vars[id.Name] = v.Type()
			}
			if v, ok := obj.(*types.Var); ok && dynRe.MatchString(id.Name) {
				dyns[id.Name] = v.Type()
			}
		}
	}
	b := abi.New(8, types.SizesFor("gc", "amd64"))
	s := &ser{map[*types.TypeName]int{}}
	var vi, wi []int
	for name := range vars {
		m := varRe.FindStringSubmatch(name)
		n, _ := strconv.Atoi(m[2])
		if m[3] == "a" {
			vi = append(vi, n)
		} else if m[3] == "t" {
			wi = append(wi, n)
		}
	}
	sort.Ints(vi)
	sort.Ints(wi)
	w := os.Stdout
	if len(dyns) > 0 {
		// dynamic equality / hashing part (dyn.go): descriptors of the D<i> variables, in index order
		ds := newDynSer(b)
		for i := 0; i < len(dyns); i++ {
			t, ok := dyns[fmt.Sprintf("D%d", i)]
			if !ok {
				fmt.Println("error dyn: D", i, "missing")
				os.Exit(2)
			}
			fmt.Fprintf(w, "dyn %d %s %s | %s\n", i, b01(types.Comparable(t)), ds.desc(t), ds.term(t))
		}
	}
	for _, i := range vi {
		ta, tb := vars[fmt.Sprintf("V%da", i)], vars[fmt.Sprintf("V%db", i)]
		if tb == nil {
			continue
		}
		na, _ := b.TypeName(ta)
		nb, _ := b.TypeName(tb)
		id := types.Identical(ta, tb)
		why := map[string]bool{}
		if id != (na == nb) {
			if id {
				whyNamesDiffer(b, ta, tb, why, false, false, 0)
			} else {
				diffAttrs(ta, tb, why, 0, "")
			}
		}
		// the attributes two NON-identical types differ in, always (the end-to-end part classifies by them)
		attrs := map[string]bool{}
		if !id {
			diffAttrs(ta, tb, attrs, 0, "")
		}
		fmt.Fprintf(w, "pair %d %s %s %s %s%s %s %s | %s\n", i, b01(id), hx(na), hx(nb), keys(why), cmpFlags(ta, tb), keys(attrs), s.term(ta), s.term(tb))
	}
	for _, i := range wi {
		tt, ti := vars[fmt.Sprintf("W%dt", i)], vars[fmt.Sprintf("W%di", i)]
		if ti == nil {
			continue
		}
		it, ok := ti.Underlying().(*types.Interface)
		if !ok {
			continue
		}
		var vm []meth
		if vit, ok := tt.Underlying().(*types.Interface); ok {
			vm = ifaceMethods(vit)
		} else {
			vm = msetMethods(tt)
		}
		im := ifaceMethods(it)
		fmt.Fprintf(w, "impl %d %s %s,%s t: %s | v: %s | %s | %s\n", i, b01(types.Implements(tt, it)), b01(types.IsInterface(tt)), kindName(tt),
			table(b, im), table(b, vm), s.methodsTerm(vm), s.term(ti.Underlying()))
	}
}

// ",cc" suffix of the why field: are the two types comparable (usable with == and as map keys)?
func cmpFlags(a, b types.Type) string {
	return "," + b01(types.Comparable(a)) + b01(types.Comparable(b))
}

// the descriptor kind of a type (which rt struct ssa/abitype.go puts in front of the uncommon part)
func kindName(t types.Type) string {
	switch types.Unalias(t).Underlying().(type) {
	case *types.Struct:
		return "struct"
	case *types.Pointer:
		return "pointer"
	case *types.Chan:
		return "chan"
	case *types.Slice:
		return "slice"
	case *types.Map:
		return "map"
	case *types.Signature:
		return "func"
	case *types.Array:
		return "array"
	case *types.Interface:
		return "interface"
	}
	return "basic"
}

func b01(b bool) string {
	if b {
		return "1"
	}
	return "0"
}
