import LlgoVerif.Spec.Container
/-! Lemmas for the gzip layer of C20: the reader `Gzip.gunzip` inverts the writers of `Spec/Container.lean`. -/
namespace LlgoVerif.Gzip
open LlgoVerif.Container

theorem length_natLE (k n : Nat) : (natLE k n).length = k := by
  induction k generalizing n with
  | zero => rfl
  | succ k ih => simp [natLE, ih]

theorem le_natLE (k n : Nat) : le (natLE k n) = n % 256 ^ k := by
  induction k generalizing n with
  | zero => simp [natLE, le, Nat.mod_one]
  | succ k ih =>
    simp only [natLE, le, ih]
    rw [Nat.pow_succ', Nat.mod_mul]
    simp

theorem le_natLE_of_lt (k n : Nat) (h : n < 256 ^ k) : le (natLE k n) = n := by
  rw [le_natLE, Nat.mod_eq_of_lt h]

/-! ### stored blocks -/

theorem bits2_zero (rest : Bytes) (x : UInt8) (hx : x = 0 ∨ x = 1) :
    BitR.bits 2 ⟨tailBits x, rest⟩ = some (0, ⟨[false, false, false, false, false], rest⟩) := by
  rcases hx with rfl | rfl <;> rfl

theorem model_storedBlock (b rest : Bytes) (out : Array UInt8) (hb : b.length < 65536) :
    Gzip.storedBlock (natLE 2 b.length ++ natLE 2 (65535 - b.length) ++ b ++ rest) out =
      (out ++ b.toArray, .ok ⟨[], rest⟩) := by
  simp only [natLE, List.cons_append, List.nil_append, Gzip.storedBlock]
  have h1 : (UInt8.ofNat (b.length % 256)).toNat + 256 * (UInt8.ofNat (b.length / 256 % 256)).toNat = b.length := by
    simp; omega
  have h2 : (UInt8.ofNat ((65535 - b.length) % 256)).toNat + 256 * (UInt8.ofNat ((65535 - b.length) / 256 % 256)).toNat
      = 65535 - b.length := by
    simp; omega
  rw [h1, h2]
  simp [List.take_left', List.drop_left']

theorem inflateBlocks_stored (fuel : Nat) (fin : Bool) (b rest : Bytes) (out : Array UInt8) (hb : b.length < 65536) :
    inflateBlocks (fuel + 1) ⟨[], Container.storedBlock fin b ++ rest⟩ out =
      if fin then (out ++ b.toArray, .ok rest) else inflateBlocks fuel ⟨[], rest⟩ (out ++ b.toArray) := by
  have hs := model_storedBlock b rest out hb
  cases fin
  · simp only [Container.storedBlock, Bool.false_eq_true, if_false, List.cons_append]
    rw [inflateBlocks]
    simp only [BitR.bit]
    rw [bits2_zero _ 0 (Or.inl rfl)]
    simp only [List.append_assoc] at hs ⊢
    simp [hs]
  · simp only [Container.storedBlock, if_true, List.cons_append]
    rw [inflateBlocks]
    simp only [BitR.bit]
    rw [bits2_zero _ 1 (Or.inr rfl)]
    simp only [List.append_assoc] at hs ⊢
    simp [hs]

theorem length_storedBlock (fin : Bool) (b : Bytes) : (Container.storedBlock fin b).length = 5 + b.length := by
  simp [Container.storedBlock, length_natLE]; omega

theorem length_flatMap_stored (bs : List Bytes) : bs.length ≤ (bs.flatMap (Container.storedBlock false)).length := by
  induction bs with
  | nil => simp
  | cons b bs ih =>
    simp only [List.flatMap_cons, List.length_append, length_storedBlock, List.length_cons]
    omega

/-- the block loop on a sequence of stored blocks delivers their concatenation and stops behind the final one -/
theorem inflateBlocks_deflate (blocks : List Bytes) (last rest : Bytes) :
    ∀ (fuel : Nat) (out : Array UInt8), blocks.length < fuel → (∀ b ∈ blocks, b.length < 65536) → last.length < 65536 →
    inflateBlocks fuel ⟨[], blocks.flatMap (Container.storedBlock false) ++ Container.storedBlock true last ++ rest⟩ out =
      (out ++ (blocks.flatten ++ last).toArray, .ok rest) := by
  induction blocks with
  | nil =>
    intro fuel out hf _ hl
    obtain ⟨f, rfl⟩ : ∃ f, fuel = f + 1 := ⟨fuel - 1, by omega⟩
    simp only [List.flatMap_nil, List.nil_append, List.flatten_nil]
    rw [inflateBlocks_stored f true last rest out hl]
    simp
  | cons b bs ih =>
    intro fuel out hf hb hl
    obtain ⟨f, rfl⟩ : ∃ f, fuel = f + 1 := ⟨fuel - 1, by omega⟩
    simp only [List.flatMap_cons, List.append_assoc]
    rw [inflateBlocks_stored f false b _ out (hb b (by simp))]
    simp only [Bool.false_eq_true, if_false]
    have := ih f (out ++ b.toArray) (by simp at hf; omega) (fun x hx => hb x (by simp [hx])) hl
    simp only [List.append_assoc] at this
    rw [this]
    simp

theorem inflate_deflate (m : GzMember) (wf : m.WF) (rest : Bytes) :
    inflate (m.deflate ++ rest) = (m.payload, .ok rest) := by
  unfold inflate GzMember.deflate
  rw [inflateBlocks_deflate m.blocks m.last rest _ #[] _ wf.blocks wf.last]
  · simp [GzMember.payload]
  · have := length_flatMap_stored m.blocks
    simp only [List.length_append]
    omega

/-! ### the trailer -/

theorem memberBody_encode (m : GzMember) (wf : m.WF) (rest : Bytes) :
    memberBody (m.deflate ++ natLE 4 (crc32 m.payload).toNat ++ natLE 4 m.payload.length ++ rest) = (m.payload, .ok rest) := by
  unfold memberBody
  have := inflate_deflate m wf (natLE 4 (crc32 m.payload).toNat ++ natLE 4 m.payload.length ++ rest)
  simp only [List.append_assoc] at this ⊢
  rw [this]
  have h1 : (natLE 4 (crc32 m.payload).toNat ++ (natLE 4 m.payload.length ++ rest)).take 4 = natLE 4 (crc32 m.payload).toNat :=
    List.take_left' (length_natLE _ _)
  have h2 : ((natLE 4 (crc32 m.payload).toNat ++ (natLE 4 m.payload.length ++ rest)).drop 4).take 4 = natLE 4 m.payload.length := by
    rw [List.drop_left' (length_natLE _ _)]; exact List.take_left' (length_natLE _ _)
  have h3 : (natLE 4 (crc32 m.payload).toNat ++ (natLE 4 m.payload.length ++ rest)).drop 8 = rest := by
    rw [← List.append_assoc]; exact List.drop_left' (by simp [length_natLE])
  simp only [h1, h2, h3, le_natLE]
  have hc : (crc32 m.payload).toNat % 256 ^ 4 = (crc32 m.payload).toNat :=
    Nat.mod_eq_of_lt (by have := UInt32.toNat_lt (crc32 m.payload); omega)
  simp [hc, length_natLE]
  omega

/-! ### the header -/

theorem skipCStr_cstr (b rest : Bytes) : ∀ k, b.length < k → (0 : UInt8) ∉ b → skipCStr k (b ++ 0 :: rest) = .ok rest := by
  induction b with
  | nil =>
    intro k hk _
    obtain ⟨k', rfl⟩ : ∃ k', k = k' + 1 := ⟨k - 1, by simp at hk; omega⟩
    simp [skipCStr]
  | cons x xs ih =>
    intro k hk h0
    obtain ⟨k', rfl⟩ : ∃ k', k = k' + 1 := ⟨k - 1, by simp at hk; omega⟩
    have hx : x ≠ 0 := fun e => h0 (by simp [e])
    simp only [List.cons_append, skipCStr, hx, if_false]
    exact ih k' (by simp at hk; omega) (fun h => h0 (by simp [h]))

theorem skipStr_cstr (s : Option Bytes) (hs : cstrOK s) (rest : Bytes) :
    skipStr s.isSome (cstr s ++ rest) = .ok rest := by
  cases s with
  | none => simp [skipStr, cstr]
  | some b =>
    obtain ⟨h1, h2⟩ := hs b rfl
    simp only [skipStr, Option.isSome_some, if_true, cstr, List.append_assoc, List.cons_append, List.nil_append]
    exact skipCStr_cstr b rest 512 h1 h2

theorem flagByte_bits (m : GzMember) :
    (flagByte m).toNat.testBit 1 = m.hcrc ∧ (flagByte m).toNat.testBit 2 = m.extra.isSome ∧
    (flagByte m).toNat.testBit 3 = m.name.isSome ∧ (flagByte m).toNat.testBit 4 = m.comment.isSome := by
  unfold flagByte
  cases m.text <;> cases m.hcrc <;> cases m.extra.isSome <;> cases m.name.isSome <;> cases m.comment.isSome <;> decide

theorem readHeader_header (m : GzMember) (wf : m.WF) (rest : Bytes) :
    readHeader (m.header ++ rest) = .ok rest := by
  obtain ⟨hb1, hb2, hb3, hb4⟩ := flagByte_bits m
  -- the input, with the ten fixed bytes spelt out
  let opt : Bytes := (match m.extra with | none => [] | some x => natLE 2 x.length ++ x) ++ cstr m.name ++ cstr m.comment
  let crc : Bytes := if m.hcrc then natLE 2 ((crc32 m.headerBody).toNat % 65536) else []
  have hbody : m.headerBody = 0x1f :: 0x8b :: 8 :: flagByte m :: (natLE 4 m.mtime ++ [m.xfl, m.os] ++ opt) := by
    simp only [GzMember.headerBody, opt, List.append_assoc]; rfl
  have hin : m.header ++ rest = 0x1f :: 0x8b :: 8 :: flagByte m :: (natLE 4 m.mtime ++ [m.xfl, m.os] ++ (opt ++ crc ++ rest)) := by
    simp [GzMember.header, hbody, crc]
  have hdrop : (m.header ++ rest).drop 10 = opt ++ crc ++ rest := by
    rw [hin]; simp [natLE]
  unfold readHeader
  have hlen : ¬ (m.header ++ rest).length < 10 := by rw [hin]; simp [length_natLE]; omega
  have htake : (m.header ++ rest).take 3 = [0x1f, 0x8b, 8] := by rw [hin]; rfl
  have hflag : (m.header ++ rest).getD 3 0 = flagByte m := by rw [hin]; rfl
  simp only [hlen, if_false, htake, ne_eq, not_true, hflag, hb1, hb2, hb3, hb4, hdrop]
  -- FEXTRA
  have hextra : skipExtra m.extra.isSome (opt ++ crc ++ rest) = .ok (cstr m.name ++ cstr m.comment ++ crc ++ rest) := by
    cases hx : m.extra with
    | none => simp [skipExtra, opt, hx]
    | some x =>
      have hxl := wf.extra x hx
      have ht : (natLE 2 x.length ++ x ++ cstr m.name ++ cstr m.comment ++ crc ++ rest).take 2 = natLE 2 x.length := by
        simp only [List.append_assoc]; exact List.take_left' (length_natLE _ _)
      simp only [skipExtra, opt, hx, Option.isSome_some, if_true]
      rw [ht, le_natLE_of_lt 2 x.length (by omega)]
      simp only [List.append_assoc, List.length_append, length_natLE]
      have hd : (natLE 2 x.length ++ (x ++ (cstr m.name ++ (cstr m.comment ++ (crc ++ rest))))).drop (2 + x.length)
          = cstr m.name ++ (cstr m.comment ++ (crc ++ rest)) := by
        rw [← List.append_assoc]; exact List.drop_left' (by simp [length_natLE])
      rw [hd, List.drop_left' (length_natLE 2 x.length)]
      simp only [List.length_append]
      rw [if_neg (by omega), if_neg (by omega)]
  rw [hextra]
  simp only [List.append_assoc]
  rw [skipStr_cstr m.name wf.name]
  simp only []
  rw [skipStr_cstr m.comment wf.comment]
  simp only []
  -- FHCRC
  cases hh : m.hcrc with
  | false => simp [checkHcrc, crc, hh]
  | true =>
    have hcrc : crc = natLE 2 ((crc32 m.headerBody).toNat % 65536) := by simp [crc, hh]
    have htk : (m.header ++ rest).take ((m.header ++ rest).length - (crc ++ rest).length) = m.headerBody := by
      have : m.header ++ rest = m.headerBody ++ (crc ++ rest) := by simp [GzMember.header, crc]
      rw [this]
      exact List.take_left' (by simp)
    simp only [checkHcrc, if_true, htk]
    rw [hcrc]
    have ht : (natLE 2 ((crc32 m.headerBody).toNat % 65536) ++ rest).take 2 = natLE 2 ((crc32 m.headerBody).toNat % 65536) :=
      List.take_left' (length_natLE _ _)
    rw [ht, le_natLE_of_lt _ _ (by omega)]
    simp [length_natLE, List.drop_left' (length_natLE 2 _)]

/-! ### whole files -/

/-- what follows a member's header -/
def bodyOf (m : GzMember) : Bytes := m.deflate ++ natLE 4 (crc32 m.payload).toNat ++ natLE 4 m.payload.length

theorem encode_eq (m : GzMember) : m.encode = m.header ++ bodyOf m := by
  simp [GzMember.encode, bodyOf]

theorem header_length (m : GzMember) : 10 ≤ m.header.length := by
  simp [GzMember.header, GzMember.headerBody, length_natLE]; omega

theorem encode_ne_nil (m : GzMember) (rest : Bytes) : m.encode ++ rest ≠ [] := by
  intro h
  have := congrArg List.length h
  have h10 := header_length m
  simp only [encode_eq, List.length_append, List.length_nil] at this
  omega

theorem length_gzFile (ms : List GzMember) : ms.length ≤ (gzFile ms).length := by
  induction ms with
  | nil => simp [gzFile]
  | cons m ms ih =>
    have h10 := header_length m
    simp only [gzFile, List.flatMap_cons, List.length_append, List.length_cons, encode_eq] at ih ⊢
    omega

theorem members_gzFile (ms : List GzMember) : ∀ (m : GzMember) (fuel : Nat) (acc : Bytes),
    m.WF → (∀ x ∈ ms, x.WF) → ms.length < fuel →
    members true fuel (bodyOf m ++ gzFile ms) acc = ⟨acc ++ m.payload ++ ms.flatMap GzMember.payload, none⟩ := by
  induction ms with
  | nil =>
    intro m fuel acc hm _ hf
    obtain ⟨f, rfl⟩ : ∃ f, fuel = f + 1 := ⟨fuel - 1, by omega⟩
    have := memberBody_encode m hm []
    simp only [List.append_nil] at this
    simp only [gzFile, List.flatMap_nil, List.append_nil, bodyOf]
    rw [members, this]
    simp
  | cons m' ms ih =>
    intro m fuel acc hm hms hf
    obtain ⟨f, rfl⟩ : ∃ f, fuel = f + 1 := ⟨fuel - 1, by omega⟩
    have hb := memberBody_encode m hm (gzFile (m' :: ms))
    have hne : gzFile (m' :: ms) ≠ [] := by
      simp only [gzFile, List.flatMap_cons]; exact encode_ne_nil m' _
    have hh : readHeader (gzFile (m' :: ms)) = .ok (bodyOf m' ++ gzFile ms) := by
      simp only [gzFile, List.flatMap_cons, encode_eq, List.append_assoc]
      exact readHeader_header m' (hms m' (by simp)) _
    rw [members]
    simp only [bodyOf] at hb ⊢
    rw [hb]
    simp only [Bool.not_true, Bool.false_eq_true, if_false, hne, hh]
    rw [ih m' f (acc ++ m.payload) (hms m' (by simp)) (fun x hx => hms x (by simp [hx])) (by simp at hf; omega)]
    simp

theorem gunzip_gzFile_aux (m : GzMember) (ms : List GzMember) (hm : m.WF) (hms : ∀ x ∈ ms, x.WF) :
    gunzip true (gzFile (m :: ms)) = .ok ⟨(m :: ms).flatMap GzMember.payload, none⟩ := by
  have hne : gzFile (m :: ms) ≠ [] := by
    simp only [gzFile, List.flatMap_cons]; exact encode_ne_nil m _
  have hh : readHeader (gzFile (m :: ms)) = .ok (bodyOf m ++ gzFile ms) := by
    simp only [gzFile, List.flatMap_cons, encode_eq, List.append_assoc]
    exact readHeader_header m hm _
  unfold gunzip
  simp only [hne, if_false, hh]
  rw [members_gzFile ms m _ [] hm hms]
  · simp
  · have := length_gzFile (m :: ms)
    simp at this
    omega

/-- with `Multistream(false)` the reader stops behind the first member -/
theorem gunzip_single_gzFile (m : GzMember) (ms : List GzMember) (hm : m.WF) :
    gunzip false (gzFile (m :: ms)) = .ok ⟨m.payload, none⟩ := by
  have hne : gzFile (m :: ms) ≠ [] := by
    simp only [gzFile, List.flatMap_cons]; exact encode_ne_nil m _
  have hh : readHeader (gzFile (m :: ms)) = .ok (bodyOf m ++ gzFile ms) := by
    simp only [gzFile, List.flatMap_cons, encode_eq, List.append_assoc]
    exact readHeader_header m hm _
  have hb := memberBody_encode m hm (gzFile ms)
  unfold gunzip
  simp only [hne, if_false, hh]
  simp only [bodyOf] at hb ⊢
  rw [members, hb]
  simp

end LlgoVerif.Gzip
