import LlgoVerif.Lemmas.CAbi
import LlgoVerif.Spec.AAPCS64
/-!
# C09 — lemmas for the repaired classifier: real layouts of nested types

* `GoodView` : what the classifier's soundness needs to know about a real layout (aligned, disjoint, in order,
  no padding run covers a multiple of 8 / of 4, an 8-aligned object contains an 8-byte scalar);
* `getTypeInfo_sound_good` : `TypeInfoAmd64.GetTypeInfo` (as it is now) is sound on every `GoodView`;
* `tyOK` / `goodView_of_wf` : every type of the universe (any nesting, arrays of structs, any padding) has a
  `GoodView` — mutual induction over the type with the layout cursor as invariant.
-/
set_option linter.unusedSimpArgs false

namespace LlgoVerif.CAbi
open LlgoVerif.SysV

def Pow8 (a : Nat) : Prop := a = 1 ∨ a = 2 ∨ a = 4 ∨ a = 8

def Sorted (l : List Elem) : Prop := l.Pairwise fun a b => a.1 + a.2.size ≤ b.1

structure GoodView (v : View) : Prop where
  types_eq : v.types = v.elems.map (·.2)
  al : Pow8 v.align
  leaf : ∀ e ∈ v.elems, e.1 % e.2.size = 0 ∧ e.1 + e.2.size ≤ v.size
  sorted : Sorted v.elems
  dense : ∀ M, (M = 4 ∨ M = 8) → v.align ≤ M → ∀ B, B % M = 0 → B < v.size → ∃ e ∈ v.elems, e.1 = B
  big : v.align = 8 → ∃ e ∈ v.elems, e.2.size = 8

/-! ## list facts -/

theorem no_straddle_mod (o : Nat) (s : Scalar) (h : o % s.size = 0) (h8 : o < 8) : o + s.size ≤ 8 := by
  rcases size_cases s with h1 | h1 | h1 | h1 <;> rw [h1] at h ⊢ <;> omega

theorem dropWhile_head {α : Type} (p : α → Bool) (l : List α) (x : α) (r : List α)
    (h : l.dropWhile p = x :: r) : p x = false := by
  induction l with
  | nil => simp at h
  | cons a t ih =>
    simp only [List.dropWhile] at h
    cases hp : p a with
    | true => rw [hp] at h; exact ih h
    | false =>
      rw [hp] at h
      simp only [List.cons.injEq] at h
      rw [← h.1]; exact hp

theorem mem_takeWhile_p {α : Type} (p : α → Bool) (l : List α) (x : α) (h : x ∈ l.takeWhile p) : p x = true := by
  induction l with
  | nil => simp at h
  | cons a t ih =>
    simp only [List.takeWhile] at h
    cases hp : p a with
    | true =>
      rw [hp] at h
      simp only [List.mem_cons] at h
      rcases h with h | h
      · rw [h]; exact hp
      · exact ih h
    | false => rw [hp] at h; simp at h

theorem exists_three {α : Type} (l : List α) (h : 3 ≤ l.length) : ∃ a b c r, l = a :: b :: c :: r := by
  match l, h with
  | a :: b :: c :: r, _ => exact ⟨a, b, c, r, rfl⟩

theorem exists_two {α : Type} (l : List α) (h : l.length = 2) : ∃ a b, l = [a, b] := by
  match l, h with
  | [a, b], _ => exact ⟨a, b, rfl⟩

theorem sorted_head_le (x : Elem) (r : List Elem) (hs : Sorted (x :: r)) (e : Elem) (he : e ∈ x :: r) :
    e = x ∨ x.1 + x.2.size ≤ e.1 := by
  simp only [List.mem_cons] at he
  rcases he with h | h
  · left; exact h
  · right; exact (List.pairwise_cons.mp hs).1 e h

/-- ≥ 2 scalars, in order and disjoint, inside one eightbyte window, all SSE: exactly `[float, float]` -/
theorem sse_window (l : List Elem) (w : Nat) (hs : Sorted l)
    (hin : ∀ e ∈ l, w ≤ e.1 ∧ e.1 + e.2.size ≤ w + 8) (hlen : 2 ≤ l.length)
    (hcls : clsList (l.map (·.2)) = .sse) : l.map (·.2) = [.f32, .f32] := by
  match l, hlen with
  | a :: b :: rest, _ =>
    simp only [List.map_cons, clsList] at hcls
    obtain ⟨ha, hx⟩ := merge_eq_sse a.2 _ hcls
    have hb : merge (clsOf b.2) (clsList (rest.map (·.2))) = .sse := by
      rcases hx with h | h
      · exact h
      · exact absurd h (clsList_cons_ne_noClass b.2 _)
    obtain ⟨hb', hy⟩ := merge_eq_sse b.2 _ hb
    have h1 := isSSE_size a.2 ha
    have h2 := isSSE_size b.2 hb'
    have hab := (List.pairwise_cons.mp hs).1 b (by simp)
    have ina := hin a (by simp)
    have inb := hin b (by simp)
    have hrest : rest = [] := by
      cases rest with
      | nil => rfl
      | cons c r =>
        exfalso
        have hc : merge (clsOf c.2) (clsList (r.map (·.2))) = .sse := by
          rcases hy with h | h
          · simpa [clsList] using h
          · exact absurd (by simpa [clsList] using h) (clsList_cons_ne_noClass c.2 _)
        obtain ⟨hc', _⟩ := merge_eq_sse c.2 _ hc
        have h3 := isSSE_size c.2 hc'
        have hbc := (List.pairwise_cons.mp (List.pairwise_cons.mp hs).2).1 c (by simp)
        have inc := hin c (by simp)
        omega
    subst hrest
    have sa : a.2.size = 4 := by omega
    have sb : b.2.size = 4 := by omega
    have fa : a.2 = .f32 := by
      revert ha sa; cases a.2 <;> simp [Scalar.isSSE, Scalar.size]
    have fb : b.2 = .f32 := by
      revert hb' sb; cases b.2 <;> simp [Scalar.isSSE, Scalar.size]
    simp [fa, fb]

theorem clsList_of_ne (l : List Scalar) (hne : l ≠ []) (h : clsList l ≠ .sse) : clsList l = .integer := by
  cases l with
  | nil => exact absurd rfl hne
  | cons s r =>
    have := clsList_cons_ne_noClass s r
    cases hc : clsList (s :: r) <;> simp_all

theorem regCls_int (n : Nat) : regCls (.int n) = .integer := by simp [regCls, RegTy.isSSE]

theorem abiAlign_pow8 (r : RegTy) : Pow8 r.abiAlign := by
  unfold Pow8
  cases r with
  | int n =>
    simp only [RegTy.abiAlign]
    split
    · simp
    · split
      · simp
      · split <;> simp
  | ptr => simp [RegTy.abiAlign]
  | f32 => simp [RegTy.abiAlign]
  | f64 => simp [RegTy.abiAlign]
  | v2f32 => simp [RegTy.abiAlign]

/-! ## the two halves chosen by `subType` (current code) -/

theorem subType_single' (size : Nat) (s : Scalar) (left : Bool) : subType size [s] left = s.regTy := rfl
theorem subType_ff' (size : Nat) (left : Bool) : subType size [.f32, .f32] left = .v2f32 := by simp [subType]

/-- one half: a non-empty run of scalars, in order and disjoint, inside the eightbyte window `[w, w+8)`, whose
    first scalar starts at `w`.  `bytes` is what an integer coerce type of that half carries. -/
theorem subType_half (size w : Nat) (left : Bool) (H : List Elem) (hne : H ≠ []) (hs : Sorted H)
    (hin : ∀ e ∈ H, w ≤ e.1 ∧ e.1 + e.2.size ≤ w + 8)
    (hhead : ∀ x r, H = x :: r → x.1 = w)
    (hint : left = false → size - 8 ≤ 8 ∧ ∀ e ∈ H, e.1 + e.2.size ≤ w + (size - 8)) :
    regCls (subType size (H.map (·.2)) left) = clsList (H.map (·.2)) ∧
    (subType size (H.map (·.2)) left).bytes ≤ 8 ∧
    (∀ e ∈ H, e.1 + e.2.size ≤ w + (subType size (H.map (·.2)) left).bytes) ∧
    (left = true → (subType size (H.map (·.2)) left).allocSize = 8 ∨ ∃ x, H = [x]) := by
  match H, hne with
  | [x], _ =>
    have hx := hhead x [] rfl
    simp only [List.map_cons, List.map_nil, subType_single']
    refine ⟨?_, ?_, ?_, fun _ => Or.inr ⟨x, rfl⟩⟩
    · cases x.2 <;> rfl
    · cases x.2 <;> decide
    · intro e he
      simp only [List.mem_cons, List.mem_nil_iff, or_false] at he
      subst he
      rw [regTy_bytes]; omega
  | a :: b :: r, _ =>
    by_cases hff : (a :: b :: r).map (·.2) = [.f32, .f32]
    · rw [hff, subType_ff']
      refine ⟨by decide, by decide, ?_, fun _ => Or.inl (by decide)⟩
      intro e he
      have := hin e he
      simp only [RegTy.bytes]; omega
    · have hns : clsList ((a :: b :: r).map (·.2)) ≠ .sse :=
        fun h => hff (sse_window _ w hs hin (by simp) h)
      have hci := clsList_of_ne _ (by simp) hns
      cases left with
      | true =>
        have hst : subType size ((a :: b :: r).map (·.2)) true = .int 8 := by
          simp only [List.map_cons] at hff ⊢
          simp only [subType, hff, if_false, if_true]
        rw [hst, regCls_int, hci]
        refine ⟨rfl, by decide, ?_, fun _ => Or.inl (by decide)⟩
        intro e he
        have := hin e he
        simp only [RegTy.bytes]; omega
      | false =>
        have hst : subType size ((a :: b :: r).map (·.2)) false = .int (size - 8) := by
          simp only [List.map_cons] at hff ⊢
          simp only [subType, hff, if_false, Bool.false_eq_true]
        obtain ⟨h8, hcov⟩ := hint rfl
        rw [hst, regCls_int, hci]
        refine ⟨rfl, by simpa [RegTy.bytes] using h8, ?_, fun h => absurd h (by decide)⟩
        intro e he
        have := hcov e he
        simp only [RegTy.bytes]; omega

/-! ## soundness of the current classifier on every good layout -/

theorem good_head0 (v : View) (g : GoodView v) (h0 : v.size ≠ 0) : ∃ x r, v.elems = x :: r ∧ x.1 = 0 := by
  have hM : v.align ≤ 8 := by rcases g.al with h | h | h | h <;> omega
  obtain ⟨e0, he0, h00⟩ := g.dense 8 (Or.inr rfl) hM 0 (by decide) (by omega)
  cases hel : v.elems with
  | nil => rw [hel] at he0; simp at he0
  | cons x r =>
    refine ⟨x, r, rfl, ?_⟩
    rw [hel] at he0
    have hs := g.sorted
    rw [hel] at hs
    rcases sorted_head_le x r hs e0 he0 with h | h
    · rw [← h]; exact h00
    · have := size_pos x.2; omega

theorem two_special (a b : Scalar) (h : a.size = 8 ∨ b.size = 8) :
    off2 a.regTy b.regTy = 8 ∧ a.regTy.bytes ≤ 8 ∧ b.regTy.bytes ≤ 8 := by
  cases a <;> cases b <;> simp_all [Scalar.size] <;> decide

theorem ebClass_two (a b : Scalar) : ebClass [(0, a), (8, b)] 0 = regCls a.regTy ∧ ebClass [(0, a), (8, b)] 1 = regCls b.regTy := by
  cases a <;> cases b <;> decide

/-- the general two-eightbyte branch on a good layout -/
theorem splitClassify_sound_good (v : View) (g : GoodView v) (h8 : 8 < v.size) (h16 : v.size ≤ 16)
    (hgen : ∀ a b, v.types = [a, b] → ¬ (a.size = 8 ∨ b.size = 8)) :
    Sound (splitClassify v) v := by
  obtain ⟨x0, r0, hel0, hx0⟩ := good_head0 v g (by omega)
  obtain ⟨size, al, types, elems⟩ := v
  simp only at h8 h16 hgen hel0
  have gt := g.types_eq; simp only at gt
  have gleaf := g.leaf; simp only at gleaf
  have gs := g.sorted; simp only at gs
  have gal := g.al; simp only at gal
  have hM8 : al ≤ 8 := by rcases gal with h | h | h | h <;> omega
  -- the two runs
  have hsplit : elems = elems.takeWhile (fun e => decide (e.1 < 8)) ++ elems.dropWhile (fun e => decide (e.1 < 8)) :=
    (List.takeWhile_append_dropWhile).symm
  generalize hLd : elems.takeWhile (fun e => decide (e.1 < 8)) = L at hsplit
  generalize hRd : elems.dropWhile (fun e => decide (e.1 < 8)) = R at hsplit
  have hLlt : ∀ e ∈ L, e.1 < 8 := by
    intro e he
    rw [← hLd] at he
    have := mem_takeWhile_p _ _ _ he
    simpa using this
  have hLin : ∀ e ∈ L, 0 ≤ e.1 ∧ e.1 + e.2.size ≤ 0 + 8 := by
    intro e he
    have h1 := hLlt e he
    have h2 := (gleaf e (by rw [hsplit]; simp [he])).1
    have := no_straddle_mod e.1 e.2 h2 h1
    omega
  have hsL : Sorted L := by
    have : Sorted (L ++ R) := hsplit ▸ gs
    exact (List.pairwise_append.mp this).1
  have hsR : Sorted R := by
    have : Sorted (L ++ R) := hsplit ▸ gs
    exact (List.pairwise_append.mp this).2.1
  -- a scalar starts exactly at byte 8, and it is the head of R
  obtain ⟨e8, he8, h88⟩ := g.dense 8 (Or.inr rfl) hM8 8 (by decide) h8
  simp only at he8
  have he8R : e8 ∈ R := by
    rw [hsplit, List.mem_append] at he8
    rcases he8 with h | h
    · have := hLlt e8 h; omega
    · exact h
  obtain ⟨x, r, hRx⟩ : ∃ x r, R = x :: r := by
    cases R with
    | nil => simp at he8R
    | cons x r => exact ⟨x, r, rfl⟩
  have hxge : 8 ≤ x.1 := by
    have := dropWhile_head _ _ x r (hRd.trans hRx)
    simpa using this
  have hx8 : x.1 = 8 := by
    rw [hRx] at he8R hsR
    rcases sorted_head_le x r hsR e8 he8R with h | h
    · rw [← h]; exact h88
    · have := size_pos x.2; omega
  have hRge : ∀ e ∈ R, 8 ≤ e.1 := by
    intro e he
    rw [hRx] at he hsR
    rcases sorted_head_le x r hsR e he with h | h
    · rw [h]; omega
    · omega
  have hRin : ∀ e ∈ R, 8 ≤ e.1 ∧ e.1 + e.2.size ≤ 8 + 8 := by
    intro e he
    have := (gleaf e (by rw [hsplit]; simp [he])).2
    have := hRge e he
    omega
  -- L starts with the scalar at offset 0
  have hLhead : ∀ y s, L = y :: s → y.1 = 0 := by
    intro y s hy
    rw [hel0] at hLd
    simp only [List.takeWhile] at hLd
    have : decide (x0.1 < 8) = true := by simp; omega
    rw [this] at hLd
    rw [hy] at hLd
    simp only [List.cons.injEq] at hLd
    rw [← hLd.1]; exact hx0
  have hLne : L ≠ [] := by
    intro h
    rw [hel0] at hLd
    simp only [List.takeWhile] at hLd
    have : decide (x0.1 < 8) = true := by simp; omega
    rw [this, h] at hLd
    simp at hLd
  have hRne : R ≠ [] := by rw [hRx]; simp
  -- types split accordingly
  have hidx : splitIndex elems = L.length := by unfold splitIndex; rw [hLd]
  have htk : types.take L.length = L.map (·.2) := by
    rw [gt, hsplit, List.map_append]
    exact take_append_len _ _ _ (by simp)
  have hdr : types.drop L.length = R.map (·.2) := by
    rw [gt, hsplit, List.map_append]
    exact drop_append_len _ _ _ (by simp)
  obtain ⟨l1, l2, l3, l4⟩ := subType_half size 0 true L hLne hsL hLin hLhead (by simp)
  obtain ⟨r1, r2, r3, _⟩ := subType_half size 8 false R hRne hsR hRin
    (fun y s hy => by rw [hRx] at hy; simp only [List.cons.injEq] at hy; rw [← hy.1]; exact hx8)
    (fun _ => ⟨by omega, fun e he => by
      have := (gleaf e (by rw [hsplit]; simp [he])).2
      omega⟩)
  -- the second half is loaded from byte 8
  have hoff : off2 (subType size (L.map (·.2)) true) (subType size (R.map (·.2)) false) = 8 := by
    rcases l4 rfl with h | ⟨y, hy⟩
    · unfold off2; rw [h]; exact alignUp8 _ (abiAlign_pow8 _)
    · -- L is the single scalar at offset 0
      have hy0 : y.1 = 0 := hLhead y [] hy
      by_cases hs8 : y.2.size = 8
      · rw [hy]
        simp only [List.map_cons, List.map_nil, subType_single']
        have : y.2.regTy.allocSize = 8 := by
          revert hs8; cases y.2 <;> simp [Scalar.size] <;> decide
        unfold off2; rw [this]; exact alignUp8 _ (abiAlign_pow8 _)
      · exfalso
        -- no scalar starts at byte 4, so the object is 8-aligned and contains an 8-byte scalar: it is R
        have hal8 : al = 8 := by
          by_cases h4 : al ≤ 4
          · obtain ⟨e4, he4, h44⟩ := g.dense 4 (Or.inl rfl) h4 4 (by decide) (by simp only; omega)
            simp only at he4
            rw [hsplit, List.mem_append] at he4
            rcases he4 with h | h
            · rw [hy] at h
              simp only [List.mem_cons, List.mem_nil_iff, or_false] at h
              rw [h] at h44; omega
            · have := hRge e4 h; omega
          · rcases gal with h | h | h | h <;> omega
        obtain ⟨c, hc, hcs⟩ := g.big hal8
        simp only at hc
        rw [hsplit, List.mem_append] at hc
        rcases hc with h | h
        · rw [hy] at h
          simp only [List.mem_cons, List.mem_nil_iff, or_false] at h
          rw [h] at hcs; exact hs8 hcs
        · have hc8 := hRin c h
          have hcx : c = x := by
            rw [hRx] at h hsR
            rcases sorted_head_le x r hsR c h with h' | h'
            · exact h'
            · have := size_pos x.2; omega
          have hr : r = [] := by
            cases r with
            | nil => rfl
            | cons z r' =>
              exfalso
              rw [hRx] at hsR
              have hz := (List.pairwise_cons.mp hsR).1 z (by simp)
              have := hRin z (by rw [hRx]; simp)
              have := size_pos z.2
              rw [← hcx] at hz
              omega
          have : types = [y.2, c.2] := by
            rw [gt, hsplit, hy, hRx, hr, hcx]; rfl
          exact hgen y.2 c.2 this (Or.inr hcs)
  -- classes of the two eightbytes
  have hL0 : ∀ e ∈ L, e.1 / 8 = 0 := by
    intro e he; have := hLlt e he; omega
  have hR1 : ∀ e ∈ R, e.1 / 8 = 1 := by
    intro e he; have := hRin e he; have := size_pos e.2; omega
  have hc0 : ebClass elems 0 = clsList (L.map (·.2)) := by
    rw [hsplit, ebClass_append, ebClass_in _ 0 hL0,
      ebClass_out _ 0 (fun e he' => by have := hR1 e he'; omega), merge_noClass_right]
  have hc1 : ebClass elems 1 = clsList (R.map (·.2)) := by
    rw [hsplit, ebClass_append, ebClass_in _ 1 hR1,
      ebClass_out _ 1 (fun e he' => by have := hL0 e he'; omega)]
    simp [merge]
  unfold splitClassify
  simp only [hidx, htk, hdr]
  refine ⟨?_, ?_, ?_⟩
  · rw [regImage_two _ _ _ _ h8 h16, hc0, hc1]
    simp only [kindImage, kindRegs, List.map_cons, List.map_nil, hoff, l1, r1]
  · intro r' hr'
    simp only [kindRegs, List.mem_cons, List.mem_nil_iff, or_false] at hr'
    rcases hr' with rfl | rfl
    · exact l2
    · exact r2
  · intro _ e he'
    simp only at he'
    rw [hsplit, List.mem_append] at he'
    simp only [covered, kindRegs, List.any_cons, List.any_nil, Bool.or_false, Bool.or_eq_true, Bool.and_eq_true,
      decide_eq_true_eq, hoff]
    rcases he' with h | h
    · left
      have := l3 e h
      omega
    · right
      have := r3 e h
      have := hRge e h
      omega

/-- **`TypeInfoAmd64.GetTypeInfo` (current code) is sound on every good layout** -/
theorem getTypeInfo_sound_good (v : View) (g : GoodView v) (h0 : v.size ≠ 0) : Sound (getTypeInfo v) v := by
  obtain ⟨x0, r0, hel0, hx0⟩ := good_head0 v g h0
  have hM8 : v.align ≤ 8 := by rcases g.al with h | h | h | h <;> omega
  have hlenEq : v.types.length = v.elems.length := by rw [g.types_eq]; simp
  unfold getTypeInfo
  by_cases hn : v.types.length ≥ 2
  · rw [if_pos hn]
    by_cases h16 : v.size > 16
    · rw [if_pos h16]
      refine ⟨?_, by simp [kindRegs], fun h => absurd rfl h⟩
      simp only [kindImage, regImage, classifyAgg]
      rw [if_neg h0, if_pos h16]
    · rw [if_neg h16]
      by_cases h8 : v.size ≤ 8
      · -- one eightbyte
        rw [if_pos h8]
        obtain ⟨size, al, types, elems⟩ := v
        simp only at h0 h8 hn hel0 hlenEq
        have gt := g.types_eq; simp only at gt
        have gleaf := g.leaf; simp only at gleaf
        have gs := g.sorted; simp only at gs
        have hin : ∀ e ∈ elems, 0 ≤ e.1 ∧ e.1 + e.2.size ≤ 0 + 8 := by
          intro e he; have := (gleaf e he).2; omega
        have hall : ∀ e ∈ elems, e.1 / 8 = 0 := by
          intro e he; have := hin e he; have := size_pos e.2; omega
        have hcls : ebClass elems 0 = clsList types := by rw [ebClass_in _ 0 hall, gt]
        have hlen2 : 2 ≤ elems.length := by omega
        unfold smallClassify
        split
        · -- `{float, float}`
          rename_i tail heq
          simp only at heq
          have hsse : clsList types = .sse := by
            -- a third scalar cannot fit
            have : tail = [] := by
              cases tail with
              | nil => rfl
              | cons c r =>
                exfalso
                rw [heq] at gt
                have hl3 : 3 ≤ elems.length := by
                  have := congrArg List.length gt
                  simp at this; omega
                obtain ⟨e0, e1, e2, rest, hel⟩ := exists_three elems hl3
                subst hel
                simp only [List.map_cons, List.cons.injEq] at gt
                have h01 := (List.pairwise_cons.mp gs).1 e1 (by simp)
                have h12 := (List.pairwise_cons.mp (List.pairwise_cons.mp gs).2).1 e2 (by simp)
                have i2 := hin e2 (by simp)
                have s0 : e0.2.size = 4 := by rw [← gt.1]; rfl
                have s1 : e1.2.size = 4 := by rw [← gt.2.1]; rfl
                have := size_pos e2.2
                omega
            rw [heq, this]; decide
          refine ⟨?_, ?_, ?_⟩
          · rw [regImage_one _ _ _ _ h0 h8, hcls, hsse]
            simp [kindImage, kindRegs, regCls, RegTy.isSSE]
          · intro r hr
            simp only [kindRegs, List.mem_cons, List.mem_nil_iff, or_false] at hr
            subst hr; decide
          · intro _ e he
            have := hin e he
            simp [covered, kindRegs, RegTy.bytes]
            omega
        · rename_i hnot
          have hns : clsList types ≠ .sse := by
            intro h
            have := sse_window elems 0 gs hin hlen2 (gt ▸ h)
            rw [← gt] at this
            exact hnot [] this
          have hci := clsList_of_ne types (by intro h; rw [h] at hn; simp at hn) hns
          refine ⟨?_, ?_, ?_⟩
          · rw [regImage_one _ _ _ _ h0 h8, hcls, hci]
            simp [kindImage, kindRegs, regCls, RegTy.isSSE]
          · intro r hr
            simp only [kindRegs, List.mem_cons, List.mem_nil_iff, or_false] at hr
            subst hr
            simpa [RegTy.bytes] using h8
          · intro _ e he
            have := (gleaf e he).2
            simp [covered, kindRegs, RegTy.bytes]
            omega
      · rw [if_neg h8]
        have h8' : 8 < v.size := by omega
        have h16' : v.size ≤ 16 := by omega
        split
        · -- exactly two scalars
          rename_i a b hty
          split
          · rename_i hcond
            obtain ⟨e8, he8, h88⟩ := g.dense 8 (Or.inr rfl) hM8 8 (by decide) h8'
            obtain ⟨size, al, types, elems⟩ := v
            simp only at h0 h8' h16' hty hel0 hlenEq he8
            have gt := g.types_eq; simp only at gt
            have hel : elems = [(0, a), (8, b)] := by
              rw [hty] at gt
              have hl2 : elems.length = 2 := by
                have := congrArg List.length gt
                simp at this; omega
              obtain ⟨e0, e1, hel⟩ := exists_two elems hl2
              subst hel
              simp only [List.map_cons, List.map_nil, List.cons.injEq, and_true] at gt
              have h0' : e0.1 = 0 := by
                simp only [List.cons.injEq] at hel0
                rw [hel0.1]; exact hx0
              have h1' : e1.1 = 8 := by
                simp only [List.mem_cons, List.mem_nil_iff, or_false] at he8
                rcases he8 with h | h
                · rw [h] at h88; omega
                · rw [← h]; exact h88
              obtain ⟨o0, s0⟩ := e0
              obtain ⟨o1, s1⟩ := e1
              simp only at gt h0' h1'
              rw [h0', h1', ← gt.1, ← gt.2]
            obtain ⟨ho, hb1, hb2⟩ := two_special a b hcond
            obtain ⟨hc0, hc1⟩ := ebClass_two a b
            refine ⟨?_, ?_, ?_⟩
            · rw [regImage_two _ _ _ _ h8' h16', hel, hc0, hc1]
              simp only [kindImage, kindRegs, List.map_cons, List.map_nil, ho]
            · intro r hr
              simp only [kindRegs, List.mem_cons, List.mem_nil_iff, or_false] at hr
              rcases hr with rfl | rfl
              · exact hb1
              · exact hb2
            · intro _ e he
              simp only at he
              rw [hel] at he
              simp only [List.mem_cons, List.mem_nil_iff, or_false] at he
              simp only [covered, kindRegs, List.any_cons, List.any_nil, Bool.or_false, Bool.or_eq_true,
                Bool.and_eq_true, decide_eq_true_eq, ho, regTy_bytes]
              rcases he with rfl | rfl
              · left; simp
              · right; simp
          · rename_i hcond
            exact splitClassify_sound_good v g h8' h16'
              (fun a' b' h' => by
                rw [hty] at h'
                simp only [List.cons.injEq, and_true] at h'
                rw [← h'.1, ← h'.2]; exact hcond)
        · rename_i hnot
          exact splitClassify_sound_good v g h8' h16' (fun a b h' => absurd h' (hnot a b))
  · -- fewer than two scalars: passed unchanged
    rw [if_neg hn]
    have hlen1 : v.elems.length < 2 := by omega
    have hr0 : r0 = [] := by
      rw [hel0] at hlen1
      cases r0 with
      | nil => rfl
      | cons y r => simp at hlen1; omega
    have hsz8 : v.size ≤ 8 := by
      by_cases h : v.size ≤ 8
      · exact h
      · exfalso
        obtain ⟨e8, he8, h88⟩ := g.dense 8 (Or.inr rfl) hM8 8 (by decide) (by omega)
        rw [hel0, hr0] at he8
        simp only [List.mem_cons, List.mem_nil_iff, or_false] at he8
        rw [he8] at h88; omega
    obtain ⟨size, al, types, elems⟩ := v
    simp only at h0 hel0 hsz8
    obtain ⟨o0, s0⟩ := x0
    simp only at hx0
    subst hx0
    subst hr0
    subst hel0
    have gleaf := g.leaf; simp only at gleaf
    refine ⟨?_, ?_, ?_⟩
    · rw [regImage_one _ _ _ _ h0 hsz8]
      simp only [kindImage, kindRegs, List.map_cons, List.map_nil]
      cases s0 <;> rfl
    · intro r hr
      simp only [kindRegs, List.map_cons, List.map_nil, List.mem_cons, List.mem_nil_iff, or_false] at hr
      subst hr
      cases s0 <;> decide
    · intro _ e he
      simp only [List.mem_cons, List.mem_nil_iff, or_false] at he
      subst he
      simp [covered, kindRegs, regTy_bytes]

theorem classifyV_sound_good (v : View) (g : GoodView v) (isRet : Bool) : Sound (classifyV v isRet) v := by
  unfold classifyV
  by_cases h0 : v.size = 0
  · simp only [h0, if_true]
    have hel : v.elems = [] := by
      cases hel : v.elems with
      | nil => rfl
      | cons x r =>
        have := (g.leaf x (by rw [hel]; simp)).2
        have := size_pos x.2
        omega
    obtain ⟨size, al, types, elems⟩ := v
    simp only at h0 hel
    subst h0; subst hel
    cases isRet <;> simp [Sound, kindImage, kindRegs, regImage, classifyAgg]
  · simp only [h0, if_false]
    exact getTypeInfo_sound_good v g h0

/-- what the placement proofs need (`ClsOK`) holds for the current classifier on every good layout -/
theorem clsOK_good (v : View) (g : GoodView v) : ClsOK classifyV v := by
  have hM8 : v.align ≤ 8 := by rcases g.al with h | h | h | h <;> omega
  refine ⟨fun r => classifyV_sound_good v g r, hM8, ?_, ?_⟩
  · intro r hk
    by_cases h0 : v.size = 0
    · left
      have hel : v.elems = [] := by
        cases hel : v.elems with
        | nil => rfl
        | cons x r =>
          have := (g.leaf x (by rw [hel]; simp)).2
          have := size_pos x.2
          omega
      exact ⟨hel, by rw [g.types_eq, hel]; rfl⟩
    · right
      obtain ⟨x0, r0, hel0, hx0⟩ := good_head0 v g h0
      have hlen : v.types.length < 2 := by
        unfold classifyV at hk
        rw [if_neg h0] at hk
        unfold getTypeInfo at hk
        split at hk
        · exfalso
          split at hk
          · simp at hk
          · split at hk
            · exact (smallClassify_ne _ _).1 hk
            · split at hk
              · split at hk
                · simp at hk
                · simp [splitClassify] at hk
              · simp [splitClassify] at hk
        · omega
      have hlenEq : v.types.length = v.elems.length := by rw [g.types_eq]; simp
      have hr0 : r0 = [] := by
        rw [hel0] at hlenEq
        cases r0 with
        | nil => rfl
        | cons y r => simp at hlenEq; omega
      refine ⟨x0.2, ?_, ?_⟩
      · rw [hel0, hr0]
        obtain ⟨o, s⟩ := x0
        simp only at hx0; subst hx0; rfl
      · rw [g.types_eq, hel0, hr0]; rfl
  · intro hlt
    by_cases h : v.size ≤ 8
    · omega
    · exfalso
      obtain ⟨x0, r0, hel0, hx0⟩ := good_head0 v g (by omega)
      obtain ⟨e8, he8, h88⟩ := g.dense 8 (Or.inr rfl) hM8 8 (by decide) (by omega)
      have hlenEq : v.types.length = v.elems.length := by rw [g.types_eq]; simp
      rw [hel0] at hlenEq he8
      cases r0 with
      | nil =>
        simp only [List.mem_cons, List.mem_nil_iff, or_false] at he8
        rw [he8] at h88; omega
      | cons y r => simp at hlenEq; omega

/-! ## every type of the universe has a good layout -/

theorem pow8_pos {a : Nat} (h : Pow8 a) : 0 < a := by rcases h with h | h | h | h <;> omega

theorem pow8_max {a b : Nat} (ha : Pow8 a) (hb : Pow8 b) : Pow8 (max a b) := by
  unfold Pow8
  rcases ha with h | h | h | h <;> rcases hb with h' | h' | h' | h' <;> subst h <;> subst h' <;> simp

theorem pow8_size (s : Scalar) : Pow8 s.size := size_cases s

theorem alignUp_mod {a : Nat} (ha : Pow8 a) (x : Nat) : alignUp x a % a = 0 := by
  rcases ha with h | h | h | h <;> subst h <;> unfold alignUp <;> omega

theorem mod_of_pow8_le {a b : Nat} (ha : Pow8 a) (hb : Pow8 b) (hle : a ≤ b) (x : Nat) (h : x % b = 0) : x % a = 0 := by
  rcases ha with h1 | h1 | h1 | h1 <;> rcases hb with h2 | h2 | h2 | h2 <;> subst h1 <;> subst h2 <;> omega

theorem mem_shift (d : Nat) (l : List Elem) (e : Elem) : e ∈ shift d l ↔ ∃ e' ∈ l, e = (e'.1 + d, e'.2) := by
  unfold shift
  simp only [List.mem_map]
  constructor
  · rintro ⟨e', h1, h2⟩; exact ⟨e', h1, h2.symm⟩
  · rintro ⟨e', h1, h2⟩; exact ⟨e', h1, h2.symm⟩

theorem shift_map_snd (d : Nat) (l : List Elem) : (shift d l).map (·.2) = l.map (·.2) := by
  unfold shift; simp [List.map_map, Function.comp_def]

theorem sorted_shift (d : Nat) (l : List Elem) (h : Sorted l) : Sorted (shift d l) := by
  unfold Sorted shift at *
  rw [List.pairwise_map]
  exact h.imp (fun {a b} hab => by simp only; omega)

theorem sorted_append (a b : List Elem) (ha : Sorted a) (hb : Sorted b)
    (hab : ∀ x ∈ a, ∀ y ∈ b, x.1 + x.2.size ≤ y.1) : Sorted (a ++ b) :=
  List.pairwise_append.mpr ⟨ha, hb, hab⟩

structure TyOK (t : CType) : Prop where
  al : Pow8 t.align
  sz : t.size % t.align = 0
  flat : t.flatten = t.elems.map (·.2)
  leaf : ∀ e ∈ t.elems, e.1 % e.2.size = 0 ∧ e.2.size ≤ t.align ∧ e.1 + e.2.size ≤ t.size
  sorted : Sorted t.elems
  big : t.align = 1 ∨ ∃ e ∈ t.elems, e.2.size = t.align
  dense : ∀ M, Pow8 M → t.align ≤ M → ∀ b B, b % t.align = 0 → B % M = 0 → b ≤ B → B < b + t.size →
    ∃ e ∈ t.elems, b + e.1 = B

/-- the fields of a struct, laid out from the cursor `cur` (the layout invariant) -/
structure LsOK (fs : List CType) : Prop where
  al : Pow8 (alignL fs)
  flat : ∀ cur, flattenL fs = (elemsL fs cur).map (·.2)
  endge : ∀ cur, cur ≤ endL fs cur
  leaf : ∀ cur, ∀ e ∈ elemsL fs cur,
    e.1 % e.2.size = 0 ∧ e.2.size ≤ alignL fs ∧ cur ≤ e.1 ∧ e.1 + e.2.size ≤ endL fs cur
  sorted : ∀ cur, Sorted (elemsL fs cur)
  big : alignL fs = 1 ∨ ∀ cur, ∃ e ∈ elemsL fs cur, e.2.size = alignL fs
  dense : ∀ M, Pow8 M → alignL fs ≤ M → ∀ cur b B, b % alignL fs = 0 → B % M = 0 → b + cur ≤ B →
    B < b + endL fs cur → ∃ e ∈ elemsL fs cur, b + e.1 = B

theorem tyOK_sc (s : Scalar) : TyOK (.sc s) := by
  refine ⟨?_, ?_, ?_, ?_, ?_, ?_, ?_⟩
  · simpa [CType.align] using pow8_size s
  · simp [CType.align, CType.size]
  · simp [CType.flatten, CType.elems]
  · intro e he
    simp only [CType.elems, List.mem_cons, List.mem_nil_iff, or_false] at he
    subst he
    simp [CType.align, CType.size]
  · simp [Sorted, CType.elems]
  · right; exact ⟨(0, s), by simp [CType.elems], by simp [CType.align]⟩
  · intro M hM hle b B hb hB h1 h2
    refine ⟨(0, s), by simp [CType.elems], ?_⟩
    simp only [CType.align, CType.size] at hle hb h2 ⊢
    have hc := size_cases s
    generalize s.size = n at hc hle hb h2
    rcases hc with h | h | h | h <;> rcases hM with h' | h' | h' | h' <;> subst h <;> subst h' <;> omega

theorem tyOK_struct (fs : List CType) (h : LsOK fs) : TyOK (.struct fs) := by
  have hA := h.al
  have hpos := pow8_pos hA
  refine ⟨?_, ?_, ?_, ?_, ?_, ?_, ?_⟩
  · simpa [CType.align] using hA
  · simp only [CType.size, CType.align]; exact alignUp_mod hA _
  · simp only [CType.flatten, CType.elems]; exact h.flat 0
  · intro e he
    simp only [CType.elems] at he
    obtain ⟨h1, h2, _, h4⟩ := h.leaf 0 e he
    simp only [CType.align, CType.size]
    have := le_alignUp (endL fs 0) (alignL fs) hpos
    exact ⟨h1, h2, by omega⟩
  · simpa [CType.elems] using h.sorted 0
  · simp only [CType.align, CType.elems]
    rcases h.big with h1 | h1
    · left; exact h1
    · right; exact h1 0
  · intro M hM hle b B hb hB h1 h2
    simp only [CType.align, CType.size, CType.elems] at *
    by_cases hlt : B < b + endL fs 0
    · exact h.dense M hM hle 0 b B hb hB (by omega) hlt
    · exfalso
      have hBA := mod_of_pow8_le hA hM hle B hB
      rcases hA with hh | hh | hh | hh <;> rw [hh] at h2 hb hBA <;> unfold alignUp at h2 <;> omega

theorem mod_max {a b : Nat} (ha : Pow8 a) (hb : Pow8 b) (x : Nat) (h : x % max a b = 0) : x % a = 0 ∧ x % b = 0 := by
  rcases ha with h1 | h1 | h1 | h1 <;> rcases hb with h2 | h2 | h2 | h2 <;> subst h1 <;> subst h2 <;>
    simp at h <;> omega

theorem lsOK_nil : LsOK [] := by
  refine ⟨?_, ?_, ?_, ?_, ?_, ?_, ?_⟩
  · simp [alignL, Pow8]
  · intro cur; simp [flattenL, elemsL]
  · intro cur; simp [endL]
  · intro cur e he; simp [elemsL] at he
  · intro cur; simp [Sorted, elemsL]
  · left; simp [alignL]
  · intro M _ _ cur b B _ _ h1 h2
    simp only [endL] at h2; omega

theorem lsOK_cons (f : CType) (fs : List CType) (hf : TyOK f) (hs : LsOK fs) : LsOK (f :: fs) := by
  have ha := hf.al
  have hA := hs.al
  have hpa := pow8_pos ha
  refine ⟨?_, ?_, ?_, ?_, ?_, ?_, ?_⟩
  · simpa [alignL] using pow8_max ha hA
  · intro cur
    simp only [flattenL, elemsL, List.map_append, shift_map_snd]
    rw [hf.flat, ← hs.flat]
  · intro cur
    simp only [endL]
    have := hs.endge (alignUp cur f.align + f.size)
    have := le_alignUp cur f.align hpa
    omega
  · intro cur e he
    simp only [elemsL, List.mem_append] at he
    simp only [alignL, endL]
    have hge := le_alignUp cur f.align hpa
    have hend := hs.endge (alignUp cur f.align + f.size)
    rcases he with he | he
    · obtain ⟨e', he', rfl⟩ := (mem_shift _ _ _).mp he
      obtain ⟨h1, h2, h3⟩ := hf.leaf e' he'
      have hom := alignUp_mod ha cur
      have hos := mod_of_pow8_le (pow8_size e'.2) ha h2 _ hom
      simp only
      refine ⟨?_, by omega, by omega, by omega⟩
      rcases size_cases e'.2 with h | h | h | h <;> rw [h] at h1 hos ⊢ <;> omega
    · obtain ⟨h1, h2, h3, h4⟩ := hs.leaf _ e he
      exact ⟨h1, by omega, by omega, h4⟩
  · intro cur
    simp only [elemsL]
    apply sorted_append
    · exact sorted_shift _ _ hf.sorted
    · exact hs.sorted _
    · intro x hx y hy
      obtain ⟨x', hx', rfl⟩ := (mem_shift _ _ _).mp hx
      have := (hf.leaf x' hx').2.2
      have := (hs.leaf _ y hy).2.2.1
      simp only; omega
  · simp only [alignL]
    by_cases hmx : max f.align (alignL fs) = 1
    · left; exact hmx
    · right
      intro cur
      simp only [elemsL]
      by_cases hge : alignL fs ≤ f.align
      · have hm : max f.align (alignL fs) = f.align := by omega
        rw [hm]
        rcases hf.big with h1 | ⟨e, he, hes⟩
        · omega
        · exact ⟨(e.1 + alignUp cur f.align, e.2), by
            rw [List.mem_append]; left; exact (mem_shift _ _ _).mpr ⟨e, he, rfl⟩, hes⟩
      · have hm : max f.align (alignL fs) = alignL fs := by omega
        rw [hm]
        rcases hs.big with h1 | h1
        · omega
        · obtain ⟨e, he, hes⟩ := h1 (alignUp cur f.align + f.size)
          exact ⟨e, by rw [List.mem_append]; right; exact he, hes⟩
  · intro M hM hle cur b B hb hB h1 h2
    simp only [alignL] at hle hb
    simp only [endL] at h2
    simp only [elemsL]
    obtain ⟨hba, hbA⟩ := mod_max ha hA b hb
    have hBa := mod_of_pow8_le ha hM (by omega) B hB
    by_cases hc1 : B < b + alignUp cur f.align
    · exfalso
      rcases ha with hh | hh | hh | hh <;> rw [hh] at hc1 hba hBa <;> unfold alignUp at hc1 <;> omega
    · by_cases hc2 : B < b + (alignUp cur f.align + f.size)
      · have hbo : (b + alignUp cur f.align) % f.align = 0 := by
          have := alignUp_mod ha cur
          rcases ha with hh | hh | hh | hh <;> rw [hh] at this hba ⊢ <;> omega
        obtain ⟨e, he, hee⟩ := hf.dense M hM (by omega) (b + alignUp cur f.align) B hbo hB (by omega) (by omega)
        exact ⟨(e.1 + alignUp cur f.align, e.2), by
          rw [List.mem_append]; left; exact (mem_shift _ _ _).mpr ⟨e, he, rfl⟩, by simp only; omega⟩
      · obtain ⟨e, he, hee⟩ := hs.dense M hM (by omega) (alignUp cur f.align + f.size) b B hbA hB (by omega) h2
        exact ⟨e, by rw [List.mem_append]; right; exact he, hee⟩

/-! ### arrays -/

def arrEnd (n sz base : Nat) : Nat :=
  match n with
  | 0 => base
  | n + 1 => arrEnd n sz (base + sz)

theorem arrEnd_eq (n sz base : Nat) : arrEnd n sz base = base + n * sz := by
  induction n generalizing base with
  | zero => simp [arrEnd]
  | succ n ih =>
    simp only [arrEnd, ih, Nat.succ_mul]
    generalize n * sz = k
    omega

theorem arrEnd_ge (n sz base : Nat) : base ≤ arrEnd n sz base := by rw [arrEnd_eq]; omega

structure ArrOK (t : CType) (n base : Nat) : Prop where
  flat : repeatL n t.flatten = (arrElems n t.size t.elems base).map (·.2)
  leaf : ∀ e ∈ arrElems n t.size t.elems base,
    e.1 % e.2.size = 0 ∧ e.2.size ≤ t.align ∧ base ≤ e.1 ∧ e.1 + e.2.size ≤ arrEnd n t.size base
  sorted : Sorted (arrElems n t.size t.elems base)
  big : 0 < n → t.align = 1 ∨ ∃ e ∈ arrElems n t.size t.elems base, e.2.size = t.align
  dense : ∀ M, Pow8 M → t.align ≤ M → ∀ b B, b % t.align = 0 → B % M = 0 → b + base ≤ B →
    B < b + arrEnd n t.size base → ∃ e ∈ arrElems n t.size t.elems base, b + e.1 = B

theorem arrOK (t : CType) (ht : TyOK t) (n : Nat) : ∀ base, base % t.align = 0 → ArrOK t n base := by
  have ha := ht.al
  induction n with
  | zero =>
    intro base _
    refine ⟨by simp [repeatL, arrElems], by intro e he; simp [arrElems] at he, by simp [Sorted, arrElems],
      by intro h; omega, ?_⟩
    intro M _ _ b B _ _ h1 h2
    simp only [arrEnd] at h2; omega
  | succ n ih =>
    intro base hbase
    have hnext : (base + t.size) % t.align = 0 := by
      have := ht.sz
      rcases ha with hh | hh | hh | hh <;> rw [hh] at this hbase ⊢ <;> omega
    have r := ih (base + t.size) hnext
    refine ⟨?_, ?_, ?_, ?_, ?_⟩
    · simp only [repeatL, arrElems, List.map_append, shift_map_snd]
      rw [← r.flat, ← ht.flat]
    · intro e he
      simp only [arrElems, List.mem_append] at he
      simp only [arrEnd]
      have hend := arrEnd_ge n t.size (base + t.size)
      rcases he with he | he
      · obtain ⟨e', he', rfl⟩ := (mem_shift _ _ _).mp he
        obtain ⟨h1, h2, h3⟩ := ht.leaf e' he'
        have hos := mod_of_pow8_le (pow8_size e'.2) ha h2 _ hbase
        simp only
        refine ⟨?_, h2, by omega, by omega⟩
        rcases size_cases e'.2 with h | h | h | h <;> rw [h] at h1 hos ⊢ <;> omega
      · obtain ⟨h1, h2, h3, h4⟩ := r.leaf e he
        exact ⟨h1, h2, by omega, h4⟩
    · simp only [arrElems]
      apply sorted_append
      · exact sorted_shift _ _ ht.sorted
      · exact r.sorted
      · intro x hx y hy
        obtain ⟨x', hx', rfl⟩ := (mem_shift _ _ _).mp hx
        have := (ht.leaf x' hx').2.2
        have := (r.leaf y hy).2.2.1
        simp only; omega
    · intro _
      rcases ht.big with h1 | ⟨e, he, hes⟩
      · left; exact h1
      · right
        exact ⟨(e.1 + base, e.2), by
          simp only [arrElems, List.mem_append]; left; exact (mem_shift _ _ _).mpr ⟨e, he, rfl⟩, hes⟩
    · intro M hM hle b B hb hB h1 h2
      simp only [arrEnd] at h2
      simp only [arrElems]
      by_cases hc : B < b + (base + t.size)
      · have hbo : (b + base) % t.align = 0 := by
          rcases ha with hh | hh | hh | hh <;> rw [hh] at hb hbase ⊢ <;> omega
        obtain ⟨e, he, hee⟩ := ht.dense M hM hle (b + base) B hbo hB (by omega) (by omega)
        exact ⟨(e.1 + base, e.2), by
          rw [List.mem_append]; left; exact (mem_shift _ _ _).mpr ⟨e, he, rfl⟩, by simp only; omega⟩
      · obtain ⟨e, he, hee⟩ := r.dense M hM hle b B hb hB (by omega) h2
        exact ⟨e, by rw [List.mem_append]; right; exact he, hee⟩

theorem tyOK_array (n : Nat) (t : CType) (hn : 0 < n) (ht : TyOK t) : TyOK (.array n t) := by
  have r := arrOK t ht n 0 (by simp)
  have hend : arrEnd n t.size 0 = n * t.size := by rw [arrEnd_eq]; omega
  refine ⟨?_, ?_, ?_, ?_, ?_, ?_, ?_⟩
  · simpa [CType.align] using ht.al
  · simp only [CType.size, CType.align]
    have := ht.sz
    have hd : t.align ∣ t.size := Nat.dvd_of_mod_eq_zero this
    exact Nat.mod_eq_zero_of_dvd (Nat.dvd_trans hd (Nat.dvd_mul_left _ _))
  · simp only [CType.flatten, CType.elems]; exact r.flat
  · intro e he
    simp only [CType.elems] at he
    obtain ⟨h1, h2, _, h4⟩ := r.leaf e he
    simp only [CType.align, CType.size]
    rw [hend] at h4
    exact ⟨h1, h2, h4⟩
  · simpa [CType.elems] using r.sorted
  · simp only [CType.align, CType.elems]; exact r.big hn
  · intro M hM hle b B hb hB h1 h2
    simp only [CType.align, CType.size, CType.elems] at *
    exact r.dense M hM hle b B hb hB (by omega) (by rw [hend]; exact h2)

/-! ### the mutual induction -/

mutual
theorem tyOK : ∀ t : CType, t.wf = true → TyOK t
  | .sc s, _ => tyOK_sc s
  | .struct fs, h => tyOK_struct fs (lsOK fs (by simpa [CType.wf] using h))
  | .array n t, h => by
    simp only [CType.wf, Bool.and_eq_true, decide_eq_true_eq] at h
    exact tyOK_array n t h.1 (tyOK t h.2)
theorem lsOK : ∀ fs : List CType, wfL fs = true → LsOK fs
  | [], _ => lsOK_nil
  | f :: fs, h => by
    simp only [wfL, Bool.and_eq_true] at h
    exact lsOK_cons f fs (tyOK f h.1) (lsOK fs h.2)
end

/-- **every type of the universe — any nesting, arrays of structs, any padding — has a good layout** -/
theorem goodView_of_wf (t : CType) (h : t.wf = true) : GoodView t.view := by
  have k := tyOK t h
  refine ⟨k.flat, k.al, fun e he => ⟨(k.leaf e he).1, (k.leaf e he).2.2⟩, k.sorted, ?_, ?_⟩
  · intro M hM hle B hB hlt
    have hM' : Pow8 M := by rcases hM with h | h <;> simp [Pow8, h]
    obtain ⟨e, he, hee⟩ := k.dense M hM' hle 0 B (by simp) hB (by omega) (by have : t.view.size = t.size := rfl; omega)
    exact ⟨e, he, by omega⟩
  · intro h8
    rcases k.big with h1 | h1
    · have : t.view.align = t.align := rfl
      omega
    · obtain ⟨e, he, hes⟩ := h1
      exact ⟨e, he, by rw [hes]; exact h8⟩

theorem wf_flat (fs : List Scalar) : (CType.struct (fs.map .sc)).wf = true := by
  simp only [CType.wf]
  induction fs with
  | nil => simp [wfL]
  | cons s r ih => simp [wfL, CType.wf, ih]

/-! ## arm64 -/

theorem allEq_ptrOrI64 (a : Scalar) (r : List Scalar) (h : isPtrOrI64 a = true) :
    allEq (a :: r) .f32 = false ∧ allEq (a :: r) .f64 = false := by
  cases a <;> simp_all [isPtrOrI64, allEq]

theorem isHFA_single_sse (s : Scalar) (h : AAPCS64.isHFA [s] = none) : s.isSSE = false := by
  cases s <;> simp_all [AAPCS64.isHFA, allEq, Scalar.isSSE]

/-- `TypeInfoArm64.GetTypeInfo` is sound on every good layout of an aggregate -/
theorem arm64_sound_good (v : View) (g : GoodView v) (isRet : Bool) :
    AAPCS64.Sound (classifyArm64V v true isRet) v := by
  unfold AAPCS64.Sound classifyArm64V
  by_cases h0 : v.size = 0
  · have hel : v.elems = [] := by
      cases hel : v.elems with
      | nil => rfl
      | cons x r =>
        have := (g.leaf x (by rw [hel]; simp)).2
        have := size_pos x.2
        omega
    cases isRet <;> simp [h0, hel, AAPCS64.kindImage, AAPCS64.classify, AAPCS64.directImage]
  · rw [if_neg h0]
    obtain ⟨x0, r0, hel0, hx0⟩ := good_head0 v g h0
    have hM8 : v.align ≤ 8 := by rcases g.al with h | h | h | h <;> omega
    have hlenEq : v.types.length = v.elems.length := by rw [g.types_eq]; simp
    have hty := g.types_eq
    unfold getTypeInfoArm64
    simp only [Bool.not_true, Bool.false_eq_true, if_false]
    -- result with a single leaf
    by_cases hb1 : (isRet && v.types.length == 1) = true
    · rw [if_pos hb1]
      simp only [Bool.and_eq_true, beq_iff_eq] at hb1
      have hr0 : r0 = [] := by
        rw [hel0] at hlenEq
        cases r0 with
        | nil => rfl
        | cons y r => simp at hlenEq; omega
      have hsz8 : v.size ≤ 8 := by
        by_cases h : v.size ≤ 8
        · exact h
        · exfalso
          obtain ⟨e8, he8, h88⟩ := g.dense 8 (Or.inr rfl) hM8 8 (by decide) (by omega)
          rw [hel0, hr0] at he8
          simp only [List.mem_cons, List.mem_nil_iff, or_false] at he8
          rw [he8] at h88; omega
      obtain ⟨o, s⟩ := x0
      simp only at hx0; subst hx0; subst hr0
      simp only [AAPCS64.kindImage, AAPCS64.directImage, AAPCS64.classify, hel0, List.map_cons, List.map_nil,
        if_neg h0]
      cases hh : AAPCS64.isHFA [s] with
      | some p => simp
      | none =>
        have := isHFA_single_sse s hh
        have h1 : (v.size + 7) / 8 = 1 := by omega
        simp [this, h1]; omega
    · rw [if_neg hb1]
      by_cases hb2 : twoPtrOrI64 v.types = true
      · rw [if_pos hb2]
        -- exactly two 8-byte integer leaves: at offsets 0 and 8, 16 bytes
        obtain ⟨a, b, htab, ha, hb⟩ : ∃ a b, v.types = [a, b] ∧ isPtrOrI64 a = true ∧ isPtrOrI64 b = true := by
          unfold twoPtrOrI64 at hb2
          split at hb2
          · rename_i a b heq
            simp only [Bool.and_eq_true] at hb2
            exact ⟨a, b, heq, hb2.1, hb2.2⟩
          · simp at hb2
        have hl2 : v.elems.length = 2 := by rw [← hlenEq, htab]; rfl
        obtain ⟨e0, e1, hel⟩ := exists_two v.elems hl2
        have he0 : e0.1 = 0 := by
          rw [hel] at hel0
          simp only [List.cons.injEq] at hel0
          rw [hel0.1]; exact hx0
        have hta : e0.2 = a ∧ e1.2 = b := by
          rw [htab, hel] at hty
          simp only [List.map_cons, List.map_nil, List.cons.injEq, and_true] at hty
          exact ⟨hty.1.symm, hty.2.symm⟩
        have sa : e0.2.size = 8 := by rw [hta.1]; revert ha; cases a <;> simp [isPtrOrI64, Scalar.size]
        have sb : e1.2.size = 8 := by rw [hta.2]; revert hb; cases b <;> simp [isPtrOrI64, Scalar.size]
        have hs := g.sorted
        rw [hel] at hs
        have h01 := (List.pairwise_cons.mp hs).1 e1 (by simp)
        have hin1 := (g.leaf e1 (by rw [hel]; simp)).2
        have he1 : e1.1 = 8 := by
          obtain ⟨e8, he8, h88⟩ := g.dense 8 (Or.inr rfl) hM8 8 (by decide) (by omega)
          rw [hel] at he8
          simp only [List.mem_cons, List.mem_nil_iff, or_false] at he8
          rcases he8 with h | h
          · rw [h] at h88; omega
          · rw [← h]; exact h88
        have hs16 : v.size = 16 := by
          by_cases h : v.size ≤ 16
          · omega
          · exfalso
            obtain ⟨e, he, hee⟩ := g.dense 8 (Or.inr rfl) hM8 16 (by decide) (by omega)
            rw [hel] at he
            simp only [List.mem_cons, List.mem_nil_iff, or_false] at he
            rcases he with h' | h' <;> rw [h'] at hee <;> omega
        obtain ⟨o0, s0⟩ := e0
        obtain ⟨o1, s1⟩ := e1
        simp only at he0 he1 hta
        subst he0; subst he1
        obtain ⟨rfl, rfl⟩ := hta
        obtain ⟨f1, f2⟩ := allEq_ptrOrI64 s0 [s1] ha
        simp [AAPCS64.kindImage, AAPCS64.directImage, AAPCS64.classify, hel, AAPCS64.isHFA, f1, f2, ha, hb, hs16]
      · rw [if_neg hb2]
        have hne : v.elems.map (·.2) ≠ [] := by rw [hel0]; simp
        by_cases hb3 : (decide (v.types.length ≤ 4) && (allEq v.types .f32 || allEq v.types .f64)) = true
        · rw [if_pos hb3]
          simp only [Bool.and_eq_true, decide_eq_true_eq, Bool.or_eq_true] at hb3
          have hh : ∃ p, AAPCS64.isHFA (v.elems.map (·.2)) = some p := by
            rw [← hty]
            unfold AAPCS64.isHFA
            have hl : ¬ (v.types.length = 0 ∨ 4 < v.types.length) := by
              rw [hlenEq, hel0]; simp; rw [hlenEq, hel0] at hb3; simpa using hb3.1
            rw [if_neg hl]
            rcases hb3.2 with h | h
            · rw [if_pos h]; exact ⟨_, rfl⟩
            · by_cases h' : allEq v.types .f32 = true
              · rw [if_pos h']; exact ⟨_, rfl⟩
              · rw [if_neg h', if_pos h]; exact ⟨_, rfl⟩
          obtain ⟨p, hp⟩ := hh
          have hene : v.elems ≠ [] := by rw [hel0]; simp
          simp [AAPCS64.kindImage, AAPCS64.directImage, AAPCS64.classify, hene, hp, h0]
        · rw [if_neg hb3]
          have hnone : AAPCS64.isHFA (v.elems.map (·.2)) = none := by
            rw [← hty]
            unfold AAPCS64.isHFA
            by_cases hl : v.types.length = 0 ∨ 4 < v.types.length
            · rw [if_pos hl]
            · rw [if_neg hl]
              have hl4 : v.types.length ≤ 4 := by omega
              simp only [Bool.and_eq_true, decide_eq_true_eq, Bool.or_eq_true, not_and, not_or] at hb3
              have := hb3 hl4
              rw [if_neg this.1, if_neg this.2]
          by_cases h16 : v.size > 16
          · rw [if_pos h16]
            simp [AAPCS64.kindImage, AAPCS64.classify, h0, hnone, h16]
          · rw [if_neg h16]
            by_cases h8 : v.size ≤ 8
            · rw [if_pos h8]
              have h1 : (v.size + 7) / 8 = 1 := by omega
              cases isRet <;> simp [AAPCS64.kindImage, AAPCS64.classify, h0, hnone, h16, h8, h1]
            · rw [if_neg h8]
              have h2 : (v.size + 7) / 8 = 2 := by omega
              have : v.size ≤ 16 := by omega
              simp [AAPCS64.kindImage, AAPCS64.classify, h0, hnone, h16, this, h2]

theorem arm64_sound_scalar (s : Scalar) (isRet : Bool) :
    AAPCS64.Sound (classifyArm64 (.sc s) isRet) (CType.sc s).view := by
  cases s <;> cases isRet <;> decide

end LlgoVerif.CAbi
