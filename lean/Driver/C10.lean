/-! placeholder driver (property C10 not built yet) -/
def main : IO Unit := IO.println "bad-op"
