/-!
# Link names (C14) — executable model of llgo's symbol naming

Mirrors, branch by branch (strings are `List Char`):

* `ssa/abi/abi.go`  `PathOf` (strips the patched-package prefix), `FullName`, `TypeArgs`, `typeArgString`,
  `namedLikeTypeArgString`, `NamedName`, `scopeIndices` (the child-index path, innermost scope first);
* `ssa/type.go`     `FuncName(pkg, name, recv, org)` and `recvNamed` (`T` / `(*T)` rendering of receivers);
* `cl/import.go`    `funcName` (walk to the enclosing method for the receiver, go/ssa's `f$1$2` closure names,
  `Origin().Name() ++ TypeArgs` for instances — appended to every instance that is not itself a method, so a closure
  inside a method of `Box[int]` is `(*Box[int]).Get$1[int]`), `(*context).funcName` (WHICH package prefixes the
  name: the declaring one, except for go/ssa's package-less synthetic functions — `$bound`, `$thunk` and method
  wrappers — which are named after the package *being compiled*), `typesFuncName`/`astFuncName` (the key under which
  `//go:linkname` and `//export` directives are recorded), `varName`;
* `ssa/package.go`  `closureStub` prefix `__llgo_stub.`; `ssa/goroutine.go` `routineName`.

Defects are modelled as they are: package paths are not escaped (dots in the last path element), and the
receiver of a `$bound` / `$thunk` wrapper is rendered without the package that declares it.
-/
namespace LlgoVerif.LinkName

abbrev Str := List Char

/-- `env.LLGoRuntimePkg + "/internal/lib/"` (`abi.PatchPathPrefix`) -/
def patchPrefix : Str := "github.com/goplus/llgo/runtime/internal/lib/".toList

/-- `strings.TrimPrefix` -/
def trimPrefix (pre s : Str) : Str := if pre.isPrefixOf s then s.drop pre.length else s

/-- `abi.PathOf` for a non-nil package -/
def pathOf (pkg : Str) : Str := trimPrefix patchPrefix pkg

/-- `strconv.Itoa` on a non-negative number -/
def natStr (n : Nat) : Str := Nat.toDigits 10 n

/-- `strings.Join(xs, ",")` -/
def joinComma : List Str → Str
  | [] => []
  | [x] => x
  | x :: y :: r => x ++ ',' :: joinComma (y :: r)

inductive ChanDir | both | send | recv
  deriving DecidableEq, Repr

mutual
/-- type-argument terms as `typeArgString` sees them after `types.Unalias` -/
inductive Ty
  /-- `*types.Basic` (its `String()`), and the universe's package-less named types (`error`, `comparable`) -/
  | basic (name : Str)
  /-- `*types.Named`: declaring package path, object name, type arguments, child-index path of the declaring scope
      (innermost first; `[]` = package scope) -/
  | named (pkg name : Str) (targs : Tys) (scope : List Nat)
  | ptr (e : Ty)
  | slice (e : Ty)
  | array (n : Nat) (e : Ty)
  | map (k v : Ty)
  | chan (d : ChanDir) (e : Ty)
  /-- everything else (signature, struct, interface, type parameter …): `types.TypeString(t, PathOf)`, opaque text -/
  | other (text : Str)
inductive Tys
  | nil
  | cons (t : Ty) (ts : Tys)
end

def Tys.isEmpty : Tys → Bool
  | .nil => true
  | .cons _ _ => false

def Tys.ofList : List Ty → Tys
  | [] => .nil
  | t :: ts => .cons t (Tys.ofList ts)

/-- `scopeIndices`: `"." ++ i` for every scope level, innermost first -/
def scopeStr : List Nat → Str
  | [] => []
  | i :: r => '.' :: natStr i ++ scopeStr r

def chanDirStr : ChanDir → Str
  | .both => "chan".toList
  | .send => "chan<-".toList
  | .recv => "<-chan".toList

mutual
/-- `abi.typeArgString` -/
def tyStr : Ty → Str
  | .basic n => n
  | .named pkg name targs scope =>
      -- namedLikeTypeArgString: name [targs] scopeIndices, prefixed by PathOf(pkg) "."
      pathOf pkg ++ '.' :: (name ++ (if targs.isEmpty then [] else '[' :: tysStr targs ++ [']']) ++ scopeStr scope)
  | .ptr e => '*' :: tyStr e
  | .slice e => '[' :: ']' :: tyStr e
  | .array n e => '[' :: natStr n ++ ']' :: tyStr e
  | .map k v => 'm' :: 'a' :: 'p' :: '[' :: tyStr k ++ ']' :: tyStr v
  | .chan d e =>
      let es := tyStr e
      let es := match d, e with
        | .both, .chan .recv _ => '(' :: es ++ [')']
        | _, _ => es
      chanDirStr d ++ ' ' :: es
  | .other s => s
/-- the elements joined by "," -/
def tysStr : Tys → Str
  | .nil => []
  | .cons t .nil => tyStr t
  | .cons t (.cons u r) => tyStr t ++ ',' :: tysStr (.cons u r)
end

/-- `abi.TypeArgs` -/
def typeArgs (ts : Tys) : Str := '[' :: tysStr ts ++ [']']

/-- `abi.NamedName`: `Obj().Name()` plus the bracketed type arguments of an instantiated type -/
def namedName (name : Str) (targs : Tys) : Str :=
  if targs.isEmpty then name else name ++ '[' :: tysStr targs ++ [']']

/-- a method receiver: the named type (declaring package, name, type arguments) and whether it is `*T` -/
structure Recv where
  pkg : Str
  name : Str
  targs : Tys
  ptr : Bool

/-- `ssa.FuncName(pkg, name, recv, org)` for a named receiver / no receiver; `pkg` is the raw package path -/
def funcNameStr (pkg : Str) (name : Str) (recv : Option Recv) (org : Bool) : Str :=
  match recv with
  | some r =>
    let t := if org then r.name else namedName r.name r.targs
    let t := if r.ptr then '(' :: '*' :: t ++ [')'] else t
    pathOf pkg ++ '.' :: (t ++ '.' :: name)
  | none => pathOf pkg ++ '.' :: name      -- FullName

/-- program entities that receive a link name -/
inductive Entity
  /-- package-level function -/
  | func (pkg name : Str)
  /-- declared method; `rtargs` non-empty = method of an instantiated generic type -/
  | method (pkg recv : Str) (rtargs : Tys) (ptr : Bool) (name : Str)
  /-- the `idx`-th (1-based) function literal of `parent` -/
  | closure (parent : Entity) (idx : Nat)
  /-- instantiation of the generic function `base` -/
  | instance (base : Entity) (targs : Tys)
  /-- package-level variable -/
  | global (pkg name : Str)
  /-- go/ssa bound-method closure `M$bound` of method `m` -/
  | bound (m : Entity)
  /-- go/ssa method-expression thunk `M$thunk` -/
  | thunk (m : Entity)
  /-- go/ssa synthetic method wrapper (pointer-receiver wrapper, promoted method) -/
  | wrapper (m : Entity)
  /-- closure stub of a declared function used as a value -/
  | stub (e : Entity)
  /-- the `n`-th goroutine entry routine of a package -/
  | routine (pkg : Str) (n : Nat)

namespace Entity

/-- the package whose path prefixes the name when `(*context).funcName` takes `fn.Pkg` / `Origin().Pkg` -/
def pkg : Entity → Str
  | func p _ => p
  | method p _ _ _ _ => p
  | closure q _ => q.pkg
  | «instance» b _ => b.pkg
  | global p _ => p
  | bound m => m.pkg
  | thunk m => m.pkg
  | wrapper m => m.pkg
  | stub e => e.pkg
  | routine p _ => p

/-- go/ssa `Origin().Name()` (or `Name()`): the declared name followed by `$i` per nesting level -/
def baseName : Entity → Str
  | func _ n => n
  | method _ _ _ _ n => n
  | closure q i => q.baseName ++ '$' :: natStr i
  | «instance» b _ => b.baseName
  | global _ n => n
  | bound m => m.baseName
  | thunk m => m.baseName
  | wrapper m => m.baseName
  | stub e => e.baseName
  | routine _ _ => []

/-- the receiver found by walking `Parent()` upwards (`cl.funcName`) -/
def recv : Entity → Option Recv
  | func _ _ => none
  | method p r ta ptr _ => some ⟨p, r, ta, ptr⟩
  | closure q _ => q.recv
  | «instance» b _ => b.recv
  | global _ _ => none
  | bound m => m.recv
  | thunk m => m.recv
  | wrapper m => m.recv
  | stub e => e.recv
  | routine _ _ => none

/-- go/ssa `fn.TypeArgs()` of an instance (inherited by function literals); `none` = not an instance -/
def instArgs : Entity → Option Tys
  | func _ _ => none
  | method _ _ ta _ _ => if ta.isEmpty then none else some ta
  | closure q _ => q.instArgs
  | «instance» _ ta => some ta
  | _ => none

/-- `fn.Signature.Recv() != nil`: the function is itself a method -/
def isMethod : Entity → Bool
  | method _ _ _ _ _ => true
  | wrapper _ => true
  | _ => false

end Entity

/-- `cl.funcName(pkg, fn, org=false)` for declared functions, methods, literals and instances -/
def declName (pkgPath : Str) (e : Entity) : Str :=
  let fnName := match e.instArgs with
    | some ta => if e.isMethod then e.baseName else e.baseName ++ typeArgs ta
    | none => e.baseName
  funcNameStr pkgPath fnName e.recv false

/-- `(*context).funcName`, package of a go/ssa method wrapper (`fn.Pkg == nil`): a wrapper for a method of an INSTANTIATED
    generic type (`recv.Origin() != recv`: pointer wrapper of a value-receiver method, method promoted through an embedded
    generic type) takes the package that declares the receiver type — the method table (`abitype.go abiMethodFunc`)
    refers to it under that name from every package; any other wrapper takes the package being compiled. -/
def wrapperPkg (cur : Str) (m : Entity) : Str := if m.instArgs.isSome then m.pkg else cur

/-- The link name `(*context).funcName` / `varName` / the `ssa` package produce for entity `e` while package `cur`
    is being compiled (no `//go:linkname` in effect). -/
def linkNameIn (cur : Str) : Entity → Str
  | .global p n => pathOf p ++ '.' :: n
  | .bound m => funcNameStr cur (m.baseName ++ "$bound".toList) m.recv false
  | .thunk m => funcNameStr cur (m.baseName ++ "$thunk".toList) m.recv false
  | .wrapper m => funcNameStr (wrapperPkg cur m) m.baseName m.recv false
  | .stub e => "__llgo_stub.".toList ++ linkNameIn cur e
  | .routine p n => p ++ "._llgo_routine$".toList ++ natStr n
  | e => declName e.pkg e

/-! ### the two variants of naming go/ssa's package-less synthetic functions -/

/-- Which `ssa.FuncName` is live. `qualifyRecv = false`: the tree as pinned (receiver rendered by `abi.NamedName` alone).
    `qualifyRecv = true`: with `fixes/C14-1.diff` — the receiver keeps the scope indices of a function-local type, and the
    declaring package of a type that does not belong to the package the name is prefixed with (`(path.T)`, `(*path.T)`). -/
structure Cfg where
  qualifyRecv : Bool
  deriving DecidableEq, Repr

def Cfg.legacy : Cfg := ⟨false⟩
def Cfg.fixed : Cfg := ⟨true⟩

/-- receiver of a synthetic function: a `Recv` plus the scope path of a function-local receiver type
    (local types have no declared methods, only promoted ones, i.e. wrappers) -/
structure WRecv where
  pkg : Str
  name : Str
  targs : Tys
  scope : List Nat
  ptr : Bool

def Recv.toW (r : Recv) : WRecv := ⟨r.pkg, r.name, r.targs, [], r.ptr⟩

/-- `ssa.FuncName(cur, name, recv, false)` for a named receiver, in both variants -/
def wrapperName (cfg : Cfg) (cur : Str) (name : Str) (r : WRecv) : Str :=
  let t := namedName r.name r.targs
  let t := if cfg.qualifyRecv then t ++ scopeStr r.scope else t
  let foreign := cfg.qualifyRecv && pathOf r.pkg != pathOf cur
  let t := if foreign then pathOf r.pkg ++ '.' :: t else t
  let t := if r.ptr then '(' :: '*' :: t ++ [')'] else if foreign then '(' :: t ++ [')'] else t
  pathOf cur ++ '.' :: (t ++ '.' :: name)

/-- name of a synthetic function (receiver `rc`, go/ssa name `name`) while `cur` is compiled -/
def synthName (cfg : Cfg) (cur : Str) (name : Str) (rc : Option Recv) : Str :=
  match rc with
  | some r => wrapperName cfg cur name r.toW
  | none => pathOf cur ++ '.' :: name

/-- `linkNameIn` under a naming variant: only `bound` / `thunk` / `wrapper` (and stubs of them) differ -/
def linkNameInC (cfg : Cfg) (cur : Str) : Entity → Str
  | .bound m => synthName cfg cur (m.baseName ++ "$bound".toList) m.recv
  | .thunk m => synthName cfg cur (m.baseName ++ "$thunk".toList) m.recv
  | .wrapper m => synthName cfg (wrapperPkg cur m) m.baseName m.recv
  | .stub e => "__llgo_stub.".toList ++ linkNameInC cfg cur e
  | e => linkNameIn cur e

/-- the name seen from the declaring package (what the proved theorems talk about) -/
def linkName (e : Entity) : Str := linkNameIn e.pkg e

/-- `cl.funcName(pkg, origin, org=true)` = `typesFuncName` = `astFuncName`: the key of the linkname table -/
def origName : Entity → Str
  | .global p n => pathOf p ++ '.' :: n
  | e => funcNameStr e.pkg e.baseName e.recv true

/-- `typesFuncName`'s in-package name: `name`, `T.name`, `(*T).name` -/
def inPkgName (e : Entity) : Str :=
  match e.recv with
  | some r => (if r.ptr then '(' :: '*' :: r.name ++ [')'] else r.name) ++ '.' :: e.baseName
  | none => e.baseName

/-- `//go:linkname local target` / `//export name` table as `PreCollectLinknames`/`initLinkname` fill it:
    key `origName`, value the target text. Later directives overwrite earlier ones (map store). -/
abbrev LinkTable := List (Str × Str)

def LinkTable.lookup (t : LinkTable) (k : Str) : Option Str :=
  match t with
  | [] => none
  | (k', v) :: r => match LinkTable.lookup r k with
    | some v' => some v'
    | none => if k' = k then some v else none

/-- `symbolIn` under a naming variant -/
def symbolInC (cfg : Cfg) (t : LinkTable) (cur : Str) (e : Entity) : Str :=
  match t.lookup (origName e) with
  | some v =>
    if "C.".toList.isPrefixOf v then v.drop 2
    else if "py.".toList.isPrefixOf v then v.drop 3
    else if "llgo.".toList.isPrefixOf v then v.drop 5
    else v
  | none => linkNameInC cfg cur e

/-- symbol a function reference resolves to: `(*context).funcName` with the linkname table consulted first -/
def symbolIn (t : LinkTable) (cur : Str) (e : Entity) : Str :=
  match t.lookup (origName e) with
  | some v =>
    if "C.".toList.isPrefixOf v then v.drop 2
    else if "py.".toList.isPrefixOf v then v.drop 3
    else if "llgo.".toList.isPrefixOf v then v.drop 5
    else v
  | none => linkNameIn cur e

/-! ## decidable side conditions of the theorems -/

/-- characters that never occur in an identifier or an import path and that delimit the pieces of a name -/
def brk (c : Char) : Bool :=
  c == '[' || c == ']' || c == '(' || c == ')' || c == ',' || c == ' ' || c == '*'

/-- identifier characters: letters, digits, `_` (any non-ASCII character is accepted as a letter), and `#`
    (go/ssa numbers several `init` functions `init#1`, …) -/
def identChar (c : Char) : Bool :=
  c.isAlphanum || c == '_' || c == '#' || c.toNat ≥ 128

def identOK (s : Str) : Bool := !s.isEmpty && s.all identChar

/-- the part of a path after its last `/` -/
def lastElem (p : Str) : Str := (p.reverse.takeWhile (· != '/')).reverse

/-- **the hypothesis of the partial theorem**: the last path element contains no dot -/
def noDotInLastPathElem (p : Str) : Bool := !(lastElem p).contains '.'

/-- import-path characters (Go's `module.CheckImportPath` alphabet); in particular never a `brk` character or `$` -/
def pathChar (c : Char) : Bool :=
  c.isAlphanum || c == '_' || c == '.' || c == '/' || c == '-' || c == '~' || c == '+' || c.toNat ≥ 128

/-- a valid package path: non-empty, import-path alphabet, not under the patched-package prefix
    (those are *meant* to share names with the package they patch) -/
def pathValid (p : Str) : Bool :=
  !p.isEmpty && p.all pathChar && !patchPrefix.isPrefixOf p

/-- a package path the partial theorem covers: valid, and the last element has no dot -/
def pathOK (p : Str) : Bool := pathValid p && noDotInLastPathElem p

mutual
/-- type arguments the theorems cover (`pp` = the condition on package paths) -/
def Ty.ok (pp : Str → Bool) : Ty → Bool
  | .basic n => identOK n
  | .named p n ta _ => pp p && identOK n && ta.ok pp
  | .ptr e => e.ok pp
  | .slice e => e.ok pp
  | .array _ e => e.ok pp
  | .map k v => k.ok pp && v.ok pp
  | .chan _ _ => false
  | .other _ => false
def Tys.ok (pp : Str → Bool) : Tys → Bool
  | .nil => true
  | .cons t ts => t.ok pp && ts.ok pp
end

namespace Entity

/-- entities covered by the injectivity theorems: functions, methods, function literals (any nesting),
    instances of generic functions, globals — with valid identifiers, package paths satisfying `pp` and
    covered type arguments -/
def ok (pp : Str → Bool) : Entity → Bool
  | func p n => pp p && identOK n
  | method p r ta _ n => pp p && identOK r && ta.ok pp && identOK n
  | closure q _ => (match q with
      | func .. | method .. | closure .. | «instance» .. => true
      | _ => false) && q.ok pp
  | «instance» b ta => (match b with | func .. => true | _ => false) && b.ok pp && !ta.isEmpty && ta.ok pp
  | global p n => pp p && identOK n
  | _ => false

/-- Go's own scoping rule excludes this pair: a function and a variable of one package with the same name -/
def declClash : Entity → Entity → Bool
  | func p n, global p' n' => p == p' && n == n'
  | global p n, func p' n' => p == p' && n == n'
  | _, _ => false

/-- go/ssa's package-less synthetic functions: named after the package being compiled -/
def isSynthetic : Entity → Bool
  | bound _ | thunk _ | wrapper _ => true
  | stub e => e.isSynthetic
  | _ => false

end Entity

end LlgoVerif.LinkName
