import LlgoVerif.Model.Slice
/-!
Heap-aware model of the string side of `runtime/internal/runtime/z_string.go`: strings are `{data, len}` headers over
the byte heap `Mem` of `Model/Slice.lean` (addresses = block start + offset; a fresh block starts at `Mem.next`), so
that *which bytes are shared and which are copied* is part of the model:

`StringCat` (fresh `AllocU` block, two `Memcpy`), `StringSlice` (no allocation: `Advance` into the base),
`StringFrom` / `StringFromBytes` (fresh copy), `StringToBytes` (fresh `make([]byte, n)` + `Memcpy`),
`CStrCopy`, `CStrDup`, `StringFromCStr` (with `c.Strlen`).

`Model/Slice.lean` keeps the byte-list versions (`StringCat`, `StringSlice`, …) that the UTF-8 / ordering theorems
are about; `Lemmas/StrHeap.lean` proves that the heap versions compute those byte lists.

`c.Strlen` reads bytes until the first NUL.  Reading past allocated memory is undefined behaviour in C: the model
examines the allocated bytes `[p, Mem.next)` only and answers `Err.ub` when there is no NUL among them.
-/
namespace LlgoVerif.Slice

/-- `type String struct { data unsafe.Pointer; len int }` -/
structure Str where
  data : Nat
  len : Int
  deriving DecidableEq, Repr

/-- the bytes of a string -/
def strBytes (m : Mem) (s : Str) : List Nat := m.read s.data s.len.toNat

/-- `StringCat(a, b)` -/
def StringCatH (m : Mem) (a b : Str) : Except Err (Mem × Str) :=
  let n := a.len + b.len
  let r := allocU m (uintptr n)
  let dest := r.1
  match memcpy r.2 dest a.data (uintptr a.len) with
  | .error e => .error e
  | .ok m1 =>
    match memcpy m1 (advance dest a.len) b.data (uintptr b.len) with
    | .error e => .error e
    | .ok m2 => .ok (m2, ⟨dest, n⟩)

/-- `CStrCopy(dest, s)`: the bytes of `s`, then a NUL; returns `dest` -/
def CStrCopy (m : Mem) (dest : Nat) (s : Str) : Except Err (Mem × Nat) :=
  let n := s.len
  match memcpy m dest s.data (uintptr n) with
  | .error e => .error e
  | .ok m1 => .ok (m1.blit (advance dest n) [0], dest)

/-- `CStrDup(s)` -/
def CStrDup (m : Mem) (s : Str) : Except Err (Mem × Nat) :=
  let r := allocU m (uintptr (s.len + 1))
  CStrCopy r.2 r.1 s

/-- `StringSlice(base, i, j)`: no allocation, the result points into the base (for an empty suffix `i = len` the base
    pointer is kept so that the pointer never leaves the allocation) -/
def StringSliceH (base : Str) (i j : Int) : Except Err Str :=
  if i < 0 ∨ j < i ∨ j > base.len then .error .panic
  else if i < base.len then .ok ⟨advance base.data i, j - i⟩
  else .ok ⟨base.data, 0⟩

/-- `StringFrom(data, n)`: a fresh copy of `n` bytes (`n == 0`: the zero `String`) -/
def StringFrom (m : Mem) (data : Nat) (n : Int) : Except Err (Mem × Str) :=
  if n = 0 then .ok (m, ⟨0, 0⟩)
  else
    let r := allocU m (uintptr n)
    match memcpy r.2 r.1 data (uintptr n) with
    | .error e => .error e
    | .ok m1 => .ok (m1, ⟨r.1, n⟩)

/-- `StringFromBytes(b)` -/
def StringFromBytesH (m : Mem) (b : Slice) : Except Err (Mem × Str) := StringFrom m b.data b.len

/-- the loop of `strlen`: `fuel` allocated bytes are left to look at, `k` bytes were non-NUL so far -/
def strlenFrom (m : Mem) (p : Nat) : Nat → Nat → Option Nat
  | 0, _ => none
  | fuel + 1, k => if m.bytes (p + k) = 0 then some k else strlenFrom m p fuel (k + 1)

/-- `c.Strlen(p)` over the allocated bytes `[p, m.next)` -/
def strlen (m : Mem) (p : Nat) : Option Nat := strlenFrom m p (m.next - p) 0

/-- `StringFromCStr(cstr)` -/
def StringFromCStr (m : Mem) (cstr : Nat) : Except Err (Mem × Str) :=
  if cstr = 0 then .ok (m, ⟨0, 0⟩)
  else
    match strlen m cstr with
    | none => .error .ub
    | some n => StringFrom m cstr n

/-- `StringToBytes(s)`: `nil` for the empty string, else `make([]byte, s.len)` (compiled to `MakeSlice(len, len, 1)`)
    filled by `Memcpy` -/
def StringToBytesH (m : Mem) (s : Str) : Except Err (Mem × Slice) :=
  if s.len = 0 then .ok (m, ⟨0, 0, 0⟩)
  else
    match MakeSlice m s.len s.len 1 with
    | .error e => .error e
    | .ok (m1, d) =>
      match memcpy m1 d.data s.data (uintptr s.len) with
      | .error e => .error e
      | .ok m2 => .ok (m2, d)

end LlgoVerif.Slice
