#!/bin/bash
# confirm_seed.sh <Cxx> <seed-src-dir> <tag> [check-prop ...]
# Confirms a seeded change in a scratch worktree: patch applies, touched packages build, their tests have the same
# pass/fail set as at HEAD, the demonstration passes without and fails with the change; then runs the property's quick
# check against the mutated worktree.  Log: /var/tmp/confirm/<tag>.log ; worktree removed at the end.
P=$1; SRC=$(readlink -f $2); TAG=$3; shift 3; CHECKS=${@:-$P}
WT=/var/tmp/cs-$TAG; LOG=/var/tmp/confirm/$TAG.log; mkdir -p /var/tmp/confirm
export GOFLAGS=-mod=mod GOPROXY=off GOSUMDB=off GOTOOLCHAIN=local GOWORK=off
export GOROOT=/root/go/pkg/mod/golang.org/toolchain@v0.0.1-go1.24.0.linux-amd64
export PATH=$GOROOT/bin:$PATH
exec > $LOG 2>&1
export OUT=/var/tmp/cs-out-$TAG; rm -rf $OUT; mkdir -p $OUT   # run.sh scripts that honour $OUT get a private build directory
git -C /repo worktree remove --force $WT 2>/dev/null; rm -rf $WT
git -C /repo worktree add --detach $WT HEAD >/dev/null 2>&1 || exit 9
pkgs() { # go packages touched by the patch, as "<module-dir> <pkg>" lines
  grep '^+++ b/' $SRC/patch.diff | sed 's,^+++ b/,,' | while read f; do d=$(dirname $f)
    case $d in runtime/*) echo "runtime ./${d#runtime/}";; runtime) echo "runtime .";; *) echo ". ./$d";; esac; done | sort -u; }
tests() { pkgs | while read m p; do (cd $WT/$m && go test -vet=off -count=1 -json $p 2>&1 | python3 -c "
import sys,json
for l in sys.stdin:
    try: e=json.loads(l)
    except Exception: continue
    if e.get('Action') in ('pass','fail') and e.get('Test'): print(e['Action'], e.get('Package'), e['Test'])
" | sort); done; }
echo "== demo on clean tree"; (cd $SRC && timeout 1500 bash ./run.sh $WT) > /var/tmp/confirm/$TAG.demo-clean 2>&1; echo "rc=$?"; tail -5 /var/tmp/confirm/$TAG.demo-clean
tests > /var/tmp/confirm/$TAG.tests-clean
git -C $WT checkout -q -- . ; git -C $WT clean -fdq
echo "== apply"; git -C $WT apply $SRC/patch.diff && echo APPLIED || { echo APPLY-FAILED; }
echo "== build"; pkgs | while read m p; do (cd $WT/$m && go build $p 2>&1 | grep -v 'llvm\|pkg-config' | head; echo "build $m $p rc=${PIPESTATUS[0]}"); done
tests > /var/tmp/confirm/$TAG.tests-mut
echo "== tests pass/fail set diff (empty = identical)"; diff /var/tmp/confirm/$TAG.tests-clean /var/tmp/confirm/$TAG.tests-mut && echo "IDENTICAL ($(wc -l < /var/tmp/confirm/$TAG.tests-mut) results)"
echo "== demo on mutated tree"; (cd $SRC && timeout 1500 bash ./run.sh $WT) > /var/tmp/confirm/$TAG.demo-mut 2>&1; echo "rc=$?"; tail -5 /var/tmp/confirm/$TAG.demo-mut
git -C $WT status --short | head
echo "== demo output differs?"; cmp -s /var/tmp/confirm/$TAG.demo-clean /var/tmp/confirm/$TAG.demo-mut && echo SAME || echo DIFFERENT
for c in $CHECKS; do
  [ -n "$SKIP_CHECK" ] && break
  echo "== check $c against mutated worktree"
  (cd /verif && VERIF_REPO=$WT timeout 3000 ./check $c --tier quick) > /var/tmp/confirm/$TAG.check-$c 2>&1; echo "check rc=$?"
  grep -a "VIOLATION\|KNOWN-FINDING" /var/tmp/confirm/$TAG.check-$c | cut -c1-400 | head -12
done
git -C /repo worktree remove --force $WT; rm -rf $WT $OUT
echo "== done"
