import LlgoVerif.Model.StrHeap
import LlgoVerif.Lemmas.Slice64
/-!
Lemmas for the heap-aware string layer (`Model/StrHeap.lean`): conversions copy into a fresh block, slicing shares the
base's bytes, `CStrCopy/CStrDup/StringFromCStr` round trip.
-/
namespace LlgoVerif.Slice

/-- the string's bytes lie in allocated memory and its length is a non-negative `int` -/
structure SWF (m : Mem) (s : Str) : Prop where
  len_nonneg : 0 ≤ s.len
  len_lt : s.len < 2 ^ 63
  inb : s.data + s.len.toNat ≤ m.next

theorem strBytes_length (m : Mem) (s : Str) : (strBytes m s).length = s.len.toNat := by
  simp [strBytes, read_length]

/-- a string only depends on the bytes of its own window -/
theorem strBytes_agree (m m' : Mem) (s : Str)
    (h : ∀ i, i < s.len.toNat → m'.bytes (s.data + i) = m.bytes (s.data + i)) : strBytes m' s = strBytes m s :=
  read_congr h

theorem blit_bytes_out (m : Mem) (a : Nat) (bs : List Nat) (x : Nat) (h : ¬ (a ≤ x ∧ x < a + bs.length)) :
    (m.blit a bs).bytes x = m.bytes x := by
  simp only [Mem.blit]; rw [if_neg h]

theorem blit_next (m : Mem) (a : Nat) (bs : List Nat) : (m.blit a bs).next = m.next := rfl

theorem read_getD (m : Mem) (a n i : Nat) (h : i < n) : (m.read a n).getD i 0 = m.bytes (a + i) := by
  simp [Mem.read, List.getD, h]

theorem read_take (m : Mem) (a n k : Nat) (h : k ≤ n) : (m.read a n).take k = m.read a k := by
  have : n = k + (n - k) := by omega
  rw [this, read_add, List.take_left' (read_length m a k)]

/-! ## `StringFrom`, `StringFromBytes`: a fresh copy -/

theorem stringFrom_spec (m : Mem) (data : Nat) (n : Int) (hn : 0 < n ∧ n < 2 ^ 63)
    (hsrc : data + n.toNat ≤ m.next) :
    ∃ m', StringFrom m data n = .ok (m', ⟨m.next, n⟩) ∧
      strBytes m' ⟨m.next, n⟩ = m.read data n.toNat ∧
      (∀ a, a < m.next → m'.bytes a = m.bytes a) ∧ m'.next = m.next + n.toNat + 1 := by
  unfold StringFrom
  rw [if_neg (by omega), uintptr_nonneg n (by omega)]
  simp only [allocU]
  rw [memcpy_ok _ _ _ _ (by unfold overlaps; omega)]
  refine ⟨_, rfl, ?_, ?_, rfl⟩
  · unfold strBytes
    simp only
    apply read_congr
    intro i hi
    rw [memmove_bytes, if_pos (by omega)]
    have e : data + (m.next + i - m.next) = data + i := by omega
    rw [e]
  · intro a ha
    rw [memmove_bytes, if_neg (by omega)]

/-! ## `StringToBytes`: a fresh slice -/

theorem stringToBytes_spec (m : Mem) (s : Str) (hs : SWF m s) (hlen : 0 < s.len) (hmax : s.len ≤ 2 ^ 48) :
    ∃ m', StringToBytesH m s = .ok (m', ⟨m.next, s.len, s.len⟩) ∧
      view m' ⟨m.next, s.len, s.len⟩ 1 = strBytes m s ∧
      (∀ a, a < m.next → m'.bytes a = m.bytes a) ∧ m'.next = m.next + s.len.toNat + 1 := by
  obtain ⟨h0, h1, h2⟩ := hs
  unfold StringToBytesH
  rw [if_neg (by omega)]
  have hmk := (makeSlice_exact' m s.len s.len 1 ⟨by omega, by omega⟩ ⟨by omega, by omega⟩).1 ⟨h0, Int.le_refl _, by omega⟩
  rw [hmk]
  simp only [Int.mul_one]
  rw [uintptr_nonneg s.len (by omega)]
  rw [memcpy_ok _ _ _ _ (by unfold overlaps; omega)]
  refine ⟨_, rfl, ?_, ?_, ?_⟩
  · unfold view strBytes
    simp only [Int.mul_one]
    apply read_congr
    intro i hi
    rw [memmove_bytes, if_pos (by omega)]
    simp only [allocZ, allocU, memset_bytes]
    rw [if_neg (by omega)]
    congr 1; omega
  · intro a ha
    rw [memmove_bytes, if_neg (by omega)]
    simp only [allocZ, allocU, memset_bytes]
    rw [if_neg (by omega)]
  · simp [memmove, allocZ, allocU, memset]

/-! ## `StringSlice`: shares -/

theorem stringSliceH_ok (base : Str) (i j : Int) (h : 0 ≤ i ∧ i ≤ j ∧ j ≤ base.len) :
    ∃ r, StringSliceH base i j = .ok r ∧ r.len = j - i ∧
      (i < base.len → r.data = base.data + i.toNat) ∧ (¬ i < base.len → r.data = base.data) := by
  unfold StringSliceH
  rw [if_neg (by omega)]
  by_cases hi : i < base.len
  · rw [if_pos hi]
    exact ⟨_, rfl, rfl, fun _ => advance_nonneg _ _ h.1, fun hc => absurd hi hc⟩
  · rw [if_neg hi]
    exact ⟨_, rfl, by simp only; omega, fun hc => absurd hc hi, fun _ => rfl⟩

theorem stringSliceH_panic (base : Str) (i j : Int) (h : ¬ (0 ≤ i ∧ i ≤ j ∧ j ≤ base.len)) :
    StringSliceH base i j = .error .panic := by
  unfold StringSliceH
  rw [if_pos (by omega)]

/-- the window of `s[i:j]` is the part `i … j-1` of the window of `s`, in EVERY memory (same addresses) -/
theorem stringSliceH_bytes (base : Str) (i j : Int) (h : 0 ≤ i ∧ i ≤ j ∧ j ≤ base.len) (r : Str)
    (hr : StringSliceH base i j = .ok r) (m : Mem) :
    strBytes m r = ((strBytes m base).drop i.toNat).take (j - i).toNat := by
  obtain ⟨r', hr', hl, hd1, hd2⟩ := stringSliceH_ok base i j h
  rw [hr] at hr'
  injection hr' with hr'
  subst hr'
  unfold strBytes
  rw [hl]
  by_cases hi : i < base.len
  · rw [hd1 hi, read_drop_take _ _ _ _ _ (by omega)]
  · have : (j - i).toNat = 0 := by omega
    rw [this]; simp [Mem.read]

/-! ## `StringCat`: a fresh block holding both parts -/

theorem stringCatH_spec (m : Mem) (a b : Str) (ha : SWF m a) (hb : SWF m b) (hsum : a.len + b.len < 2 ^ 63) :
    ∃ m', StringCatH m a b = .ok (m', ⟨m.next, a.len + b.len⟩) ∧
      strBytes m' ⟨m.next, a.len + b.len⟩ = strBytes m a ++ strBytes m b ∧
      (∀ x, x < m.next → m'.bytes x = m.bytes x) ∧ m'.next = m.next + (a.len + b.len).toNat + 1 := by
  obtain ⟨a0, a1, a2⟩ := ha
  obtain ⟨b0, b1, b2⟩ := hb
  unfold StringCatH
  simp only [allocU]
  rw [uintptr_nonneg (a.len + b.len) (by omega), uintptr_nonneg a.len (by omega), uintptr_nonneg b.len (by omega)]
  rw [memcpy_ok _ _ _ _ (by unfold overlaps; omega)]
  simp only
  rw [advance_nonneg _ _ a0]
  rw [memcpy_ok _ _ _ _ (by unfold overlaps; omega)]
  refine ⟨_, rfl, ?_, ?_, rfl⟩
  · unfold strBytes
    simp only
    have : (a.len + b.len).toNat = a.len.toNat + b.len.toNat := by omega
    rw [this, read_add]
    congr 1
    · apply read_congr
      intro i hi
      rw [memmove_bytes, if_neg (by omega), memmove_bytes, if_pos (by omega)]
      have e : a.data + (m.next + i - m.next) = a.data + i := by omega
      rw [e]
    · apply read_congr
      intro i hi
      rw [memmove_bytes, if_pos (by omega), memmove_bytes, if_neg (by omega)]
      have e : b.data + (m.next + a.len.toNat + i - (m.next + a.len.toNat)) = b.data + i := by omega
      rw [e]
  · intro x hx
    rw [memmove_bytes, if_neg (by omega), memmove_bytes, if_neg (by omega)]

/-! ## C strings -/

theorem cstrCopy_spec (m : Mem) (dest : Nat) (s : Str) (hs : SWF m s)
    (hno : ¬ overlaps dest s.data s.len.toNat) :
    ∃ m', CStrCopy m dest s = .ok (m', dest) ∧
      m'.read dest (s.len.toNat + 1) = strBytes m s ++ [0] ∧
      (∀ x, ¬ (dest ≤ x ∧ x < dest + s.len.toNat + 1) → m'.bytes x = m.bytes x) ∧ m'.next = m.next := by
  obtain ⟨h0, h1, h2⟩ := hs
  unfold CStrCopy
  simp only
  rw [uintptr_nonneg s.len (by omega), memcpy_ok _ _ _ _ hno, advance_nonneg _ _ h0]
  refine ⟨_, rfl, ?_, ?_, rfl⟩
  · rw [read_add]
    congr 1
    · unfold strBytes
      apply read_congr
      intro i hi
      rw [blit_bytes_out _ _ _ _ (by simp; omega), memmove_bytes, if_pos (by omega)]
      congr 1; omega
    · simp [Mem.read, Mem.blit]
  · intro x hx
    rw [blit_bytes_out _ _ _ _ (by simp; omega), memmove_bytes, if_neg (by omega)]

theorem cstrDup_spec (m : Mem) (s : Str) (hs : SWF m s) :
    ∃ m', CStrDup m s = .ok (m', m.next) ∧
      m'.read m.next (s.len.toNat + 1) = strBytes m s ++ [0] ∧
      (∀ x, x < m.next → m'.bytes x = m.bytes x) ∧ m'.next = m.next + s.len.toNat + 2 := by
  have hs' := hs
  obtain ⟨h0, h1, h2⟩ := hs
  unfold CStrDup
  simp only
  rw [uintptr_nonneg (s.len + 1) (by omega)]
  have hwf2 : SWF (allocU m (s.len + 1).toNat).2 s := ⟨h0, h1, by simp only [allocU]; omega⟩
  obtain ⟨m', heq, hrd, hfr, hnx⟩ := cstrCopy_spec (allocU m (s.len + 1).toNat).2 (allocU m (s.len + 1).toNat).1 s hwf2
    (by simp only [allocU]; unfold overlaps; omega)
  refine ⟨m', heq, ?_, ?_, ?_⟩
  · rw [show (allocU m (s.len + 1).toNat).1 = m.next from rfl] at hrd
    rw [hrd]; rfl
  · intro x hx
    rw [hfr x (by simp only [allocU]; omega)]; rfl
  · rw [hnx]; simp only [allocU]; omega

/-- the loop of `strlen` returns the offset of the first NUL byte -/
theorem strlenFrom_spec (m : Mem) (p : Nat) :
    ∀ (d fuel k : Nat), (∀ i, k ≤ i → i < k + d → m.bytes (p + i) ≠ 0) → m.bytes (p + (k + d)) = 0 → d < fuel →
      strlenFrom m p fuel k = some (k + d) := by
  intro d
  induction d with
  | zero =>
    intro fuel k _ hz hf
    cases fuel with
    | zero => omega
    | succ f => simp only [strlenFrom]; rw [if_pos (by simpa using hz)]; rfl
  | succ d ih =>
    intro fuel k hnz hz hf
    cases fuel with
    | zero => omega
    | succ f =>
      simp only [strlenFrom]
      rw [if_neg (hnz k (Nat.le_refl _) (by omega))]
      have := ih f (k + 1) (fun i h1 h2 => hnz i (by omega) (by omega)) (by rw [← hz]; congr 2; omega) (by omega)
      rw [this]; congr 1; omega

theorem strlen_spec (m : Mem) (p t : Nat) (hnz : ∀ i, i < t → m.bytes (p + i) ≠ 0) (hz : m.bytes (p + t) = 0)
    (hin : p + t < m.next) : strlen m p = some t := by
  unfold strlen
  have := strlenFrom_spec m p t (m.next - p) 0 (fun i _ h => hnz i (by omega)) (by simpa using hz) (by omega)
  simpa using this

/-- facts about the prefix before the first NUL -/
theorem takeWhile_facts : ∀ (B : List Nat),
    (B.takeWhile (· != 0)).length ≤ B.length ∧
    (∀ i, i < (B.takeWhile (· != 0)).length → B.getD i 0 ≠ 0) ∧
    ((B.takeWhile (· != 0)).length < B.length → B.getD (B.takeWhile (· != 0)).length 0 = 0) ∧
    B.takeWhile (· != 0) = B.take (B.takeWhile (· != 0)).length
  | [] => by simp
  | b :: B => by
    obtain ⟨h1, h2, h3, h4⟩ := takeWhile_facts B
    by_cases hb : b = 0
    · subst hb; simp
    · have hb' : (b != 0) = true := by simpa using hb
      simp only [List.takeWhile_cons, hb', if_true, List.length_cons, List.take_succ_cons]
      refine ⟨by omega, ?_, ?_, by rw [← h4]⟩
      · intro i hi
        cases i with
        | zero => simpa using hb
        | succ i => simpa using h2 i (by omega)
      · intro hlt
        simpa using h3 (by omega)

theorem takeWhile_nonul (B : List Nat) (h : ∀ x ∈ B, x ≠ 0) : B.takeWhile (· != 0) = B := by
  induction B with
  | nil => rfl
  | cons b B ih =>
    have hb : (b != 0) = true := by simpa using h b (by simp)
    simp only [List.takeWhile_cons, hb, if_true]
    rw [ih (fun x hx => h x (by simp [hx]))]

theorem mem_takeWhile_ne (B : List Nat) (x : Nat) (hx : x ∈ B.takeWhile (· != 0)) : x ≠ 0 := by
  induction B with
  | nil => simp at hx
  | cons b B ih =>
    by_cases hb : b = 0
    · subst hb; simp at hx
    · have hb' : (b != 0) = true := by simpa using hb
      simp only [List.takeWhile_cons, hb', if_true, List.mem_cons] at hx
      rcases hx with rfl | hx
      · exact hb
      · exact ih hx

/-- **C-string round trip**: `StringFromCStr(CStrDup(s))` is a fresh string holding the bytes of `s` before its first
    NUL byte (all of `s` when it has none) -/
theorem cstr_roundtrip' (m : Mem) (s : Str) (hm : 0 < m.next) (hs : SWF m s) :
    ∃ m1 p, CStrDup m s = .ok (m1, p) ∧ p = m.next ∧
      m1.read p (s.len.toNat + 1) = strBytes m s ++ [0] ∧
      ∃ m2 t, StringFromCStr m1 p = .ok (m2, t) ∧
        strBytes m2 t = (strBytes m s).takeWhile (· != 0) ∧
        (t.len ≠ 0 → t.data = m1.next) ∧
        (∀ x, x < m1.next → m2.bytes x = m1.bytes x) ∧ (∀ x, x < m.next → m2.bytes x = m.bytes x) := by
  obtain ⟨m1, hdup, hrd, hfr, hnx⟩ := cstrDup_spec m s hs
  obtain ⟨h0, h1, h2⟩ := hs
  refine ⟨m1, m.next, hdup, rfl, hrd, ?_⟩
  generalize hB : strBytes m s = B at hrd ⊢
  have hBl : B.length = s.len.toNat := by rw [← hB, strBytes_length]
  obtain ⟨f1, f2, f3, f4⟩ := takeWhile_facts B
  generalize hT : (B.takeWhile (· != 0)).length = T at f1 f2 f3 f4
  have hbyte : ∀ i, i < s.len.toNat + 1 → m1.bytes (m.next + i) = (B ++ [0]).getD i 0 := by
    intro i hi
    rw [← hrd, read_getD _ _ _ _ hi]
  have hnz : ∀ i, i < T → m1.bytes (m.next + i) ≠ 0 := by
    intro i hi
    rw [hbyte i (by omega)]
    have := f2 i hi
    simp only [List.getD_eq_getElem?_getD] at this ⊢
    rw [List.getElem?_append_left (by omega)]
    exact this
  have hz : m1.bytes (m.next + T) = 0 := by
    rw [hbyte T (by omega)]
    by_cases hlt : T < B.length
    · have := f3 hlt
      simp only [List.getD_eq_getElem?_getD] at this ⊢
      rw [List.getElem?_append_left hlt]
      exact this
    · have : T = B.length := by omega
      subst this
      simp [List.getD_eq_getElem?_getD]
  have hlen := strlen_spec m1 m.next T hnz hz (by omega)
  have hmnz : m.next ≠ 0 := by omega
  unfold StringFromCStr
  rw [if_neg (by omega), hlen]
  simp only
  by_cases hT0 : T = 0
  · subst hT0
    refine ⟨m1, ⟨0, 0⟩, by simp [StringFrom], ?_, by simp, fun _ _ => rfl, hfr⟩
    rw [f4]; simp [strBytes, Mem.read]
  · obtain ⟨m2, heq, hbytes, hfr2, _⟩ := stringFrom_spec m1 m.next (T : Int) ⟨by omega, by omega⟩ (by simp; omega)
    refine ⟨m2, _, heq, ?_, fun _ => rfl, hfr2, fun x hx => by rw [hfr2 x (by omega), hfr x hx]⟩
    rw [hbytes, f4]
    simp only [Int.toNat_natCast]
    rw [← read_take m1 m.next (s.len.toNat + 1) T (by omega), hrd, List.take_append_of_le_length (by omega)]

end LlgoVerif.Slice
