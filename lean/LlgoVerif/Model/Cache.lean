/-!
# Model of llgo's package-archive cache (`internal/build`: collect.go, fingerprint.go, cache.go, build.go)
# and of the sorted emission loops (`cl/compile.go processPkg`, `ssa/abitype.go getAbiTypesFor`)

Mirrors the Go code that exists, *including what it leaves out of the fingerprint*:

* `File`              — a file on disk `(path, content, mtime)`; `size` is `len(content)` (what `os.Stat` reports);
                        `overlay = some c` when `packages.Config.Overlay` holds replacement content for the path.
* `Global`            — everything that is the same for all packages of one `llgo build`: `build.Config`
                        (`Goos Goarch Target AbiMode OptLevel Tags CompilerHash`), the `crosscompile.Export` record
                        (`CC CCFLAGS CFLAGS LDFLAGS Linker ExtraFiles LLVMTarget TargetABI`; `CCFLAGS` starts with
                        `level.Flag()` — crosscompile.go `use`/`UseTarget`), tool versions, and the process environment.
* `PkgData`, `PkgT`   — one package (`packages.Package` + `aPackage`) with the files that influence its archive:
                        Go files (with an optional build-tag constraint; `go list` selects them), alt-package files,
                        `OtherFiles`+`.s` files, **side files named by `LLGoFiles`**, **files named by `//go:embed`**,
                        `-X` rewrite variables, module version; `PkgT` = the package together with the packages it
                        imports (the dependency DAG unfolded into a tree; Go forbids import cycles).
* `digestFile(s)`     — fingerprint.go `digestFilesWithOverlay`: `(path, size, mtime)` — **not the content** — or
                        `(path, len, 0, sha256(content))` for overlay files; sorted by path.
* `envSection`        — collect.go `collectEnvInputs` (the eight `LLGO_*` variables, non-empty values only).
* `commonSection`     — collect.go `collectCommonInputs`.  The `CCFLAGS/CFLAGS/LDFLAGS` **environment** variables that
                        `internal/clang` `mergeCompilerFlags/mergeLinkerFlags` prepend at exec time are *not* here.
* `packageSection`    — collect.go `collectPackageInputs`: go_files, alt_go_files, other_files, rewrite_vars.
                        `LLGoFiles` side files and embed files are never collected.
* `key`               — collect.go `collectFingerprint` + `collectDependencyInputs`/`dependencyFingerprint`
                        (`(id, version)` for versioned modules, else `(id, fingerprint of the dependency)`), fingerprint.go
                        `manifestBuilder.Build`.  The manifest is kept structured; `fp` stands for
                        `sha256 ∘ yaml.Marshal`, `hb` for `sha256` on bytes: both are parameters, theorems assume
                        injectivity explicitly, nothing is assumed about them otherwise.
* `relevant`          — the declared dependency set of a package archive: everything that can alter the behaviour of
                        the compiled package.  `compileRel : Rel → Obj` is abstract: *that the archive is a function of
                        `relevant`* is the modelling assumption (trusted base), everything else is proved.
* `lookup/buildPkg/buildProg` — collect.go `tryLoadFromCache` / `saveToCache`, build.go `buildAllPkgs`: the cache is a
                        finite map fingerprint → archive; `main` packages are never stored; `-a` skips the lookup;
                        `LLGO_BUILD_CACHE=off` skips both.
* `Step`, `run`       — histories `edit | build | clean`; `served` = output of the last build.
* `processPkg`, `abiTypesFor`, `marshalMap` — the emission loops: collect from a Go map (arbitrary order), sort by
                        name, emit.

Two variants of the fingerprint are mirrored, selected by `Cfg` (the check probes which one the working tree has):
`contentHash` — fingerprint.go `digestFilesWithOverlay` also stores `sha256` of every disk file (commit "the build
fingerprint hashes file contents"); `ccflagsEnv` — collect.go `collectEnvInputs` also lists `CCFLAGS CFLAGS LDFLAGS`
(commit "CCFLAGS, CFLAGS and LDFLAGS are part of the build fingerprint").  `Cfg.legacy` is the tree before both,
`Cfg.fixed` the tree after both.

Not modelled (unreachable after a successful package load, or outside the property): `stat` failures and the
"fingerprint cycle" error of `collectFingerprint`; the second, lexicographic `sortDeps` (a no-op when dependency IDs
are distinct); the cache directory layout `<root>/<triple>/<pkg>/<fp>.{a,manifest}` (triple and package path are
part of the manifest, so the fingerprint alone identifies the entry); crashes between the two cache writes.

Core Lean only.
-/
namespace LlgoVerif.Cache

abbrev Bytes := List Nat

/-! ## sorting (Go: `sort.Slice` / `sort.Strings` on keys that are distinct) -/

def insertBy {α : Type} (le : α → α → Bool) (a : α) : List α → List α
  | [] => [a]
  | b :: l => if le a b then a :: b :: l else b :: insertBy le a l

/-- insertion sort: structurally recursive, so that it evaluates inside `decide`; equal to `List.mergeSort`
    on lists with distinct keys (`Lemmas/Cache.lean` `isort_eq_mergeSort`). -/
def isort {α : Type} (le : α → α → Bool) : List α → List α
  | [] => []
  | a :: l => insertBy le a (isort le l)

def strLe (a b : String) : Bool := decide (a ≤ b)

/-! ## files -/

structure File where
  path : String
  content : Bytes
  mtime : Int
  /-- `packages.Config.Overlay[path]` -/
  overlay : Option Bytes := none
  deriving DecidableEq, Repr, Inhabited

/-- what `os.Stat(path).Size()` reports -/
def File.size (f : File) : Nat := f.content.length
/-- the bytes the compiler reads -/
def File.effective (f : File) : Bytes := f.overlay.getD f.content
/-- target `ExtraFiles` are digested by `digestFiles(paths)` (no overlay map) and compiled from disk -/
def File.noOverlay (f : File) : File := { f with overlay := none }

/-- a Go source file with an optional `//go:build tag` (`true`) / `//go:build !tag` (`false`) constraint -/
structure SrcFile where
  file : File
  tag : Option (String × Bool) := none
  deriving DecidableEq, Repr, Inhabited

inductive OptLevel where
  | O0 | O1 | O2 | O3 | Os | Oz
  deriving DecidableEq, Repr, Inhabited

/-- optlevel.go `Level.Flag` -/
def OptLevel.flag : OptLevel → String
  | .O0 => "-O0" | .O1 => "-O1" | .O2 => "-O2" | .O3 => "-O3" | .Os => "-Os" | .Oz => "-Oz"

/-! ## build-wide inputs -/

structure Global where
  goos : String := "linux"
  goarch : String := "amd64"
  target : String := ""
  targetABI : String := ""
  llvmTriple : String := ""
  abiMode : Nat := 2
  opt : OptLevel := .O2
  /-- the raw `-tags` value -/
  tags : String := ""
  goVersion : String := ""
  llgoVersion : String := ""
  /-- `conf.CompilerHash` (compilerhash.Value()) -/
  compilerHash : String := ""
  llvmVersion : String := ""
  cc : String := ""
  /-- `crossCompile.CCFLAGS` after its first element `level.Flag()` -/
  ccflagsRest : List String := []
  cflags : List String := []
  ldflags : List String := []
  linker : String := ""
  extraFiles : List File := []
  /-- process environment -/
  env : List (String × String) := []
  deriving DecidableEq, Repr, Inhabited

def getenv (g : Global) (n : String) : String :=
  match g.env.find? (fun kv => kv.1 == n) with
  | some kv => kv.2
  | none => ""

/-- crosscompile.go: `export.CCFLAGS = []string{level.Flag(), …}` (all four construction sites) -/
def exportCCFlags (g : Global) : List String := g.opt.flag :: g.ccflagsRest

/-- build.go `Do`: `tags := "llgo,math_big_pure_go,purego"`, `+ ",llgo_abi_2"` for ABI mode 2, `+ "," + conf.Tags` -/
def effectiveTags (g : Global) : List String :=
  ["llgo", "math_big_pure_go", "purego"] ++ (if g.abiMode = 2 then ["llgo_abi_2"] else [])
    ++ (if g.tags = "" then [] else g.tags.splitOn ",")

/-- `go list -tags=…` keeps a file iff its constraint is satisfied -/
def selected (g : Global) (fs : List SrcFile) : List File :=
  (fs.filter fun s => match s.tag with
    | none => true
    | some (t, pos) => (effectiveTags g).contains t == pos).map (·.file)

/-- collect.go `collectEnvInputs`: the variables that enter the manifest (listed here in the order
    `orderedStringMap.MarshalYAML` writes them, i.e. sorted) -/
def listedEnvVars : List String :=
  ["LLGO_DEBUG", "LLGO_DEBUG_SYMBOLS", "LLGO_FULL_RPATH", "LLGO_OPTIMIZE", "LLGO_STDIO_NOBUF", "LLGO_TRACE",
   "LLGO_WASI_THREADS", "LLGO_WASM_RUNTIME"]

/-- build.go `isEnvOn` -/
def isEnvOn (v : String) (dflt : Bool) : Bool :=
  let l := v.toLower
  if l = "" then dflt else l = "1" || l = "true" || l = "on"

/-- how the compiler reads a listed variable (build.go `IsDbgEnabled … WasmRuntime`): the boolean switches through
    `isEnvOn` with their defaults, `LLGO_WASM_RUNTIME` as a string -/
def envMeaning (n v : String) : String :=
  if n = "LLGO_WASM_RUNTIME" then (if v = "" then "wasmtime" else v)
  else
    let dflt := n = "LLGO_OPTIMIZE" || n = "LLGO_WASI_THREADS" || n = "LLGO_FULL_RPATH"
    if isEnvOn v dflt then "on" else "off"

/-- environment variables read by `internal/clang` at exec time (`mergeCompilerFlags`, `mergeLinkerFlags`) -/
def compilerEnvVars : List String := ["CCFLAGS", "CFLAGS", "LDFLAGS"]

/-- which variant of the fingerprint code the working tree has -/
structure Cfg where
  /-- `digestFilesWithOverlay` stores `sha256` of the content of disk files -/
  contentHash : Bool
  /-- `collectEnvInputs` lists `CCFLAGS`, `CFLAGS`, `LDFLAGS` -/
  ccflagsEnv : Bool
  deriving DecidableEq, Repr, Inhabited

/-- before the two repairs -/
def Cfg.legacy : Cfg := { contentHash := false, ccflagsEnv := false }
/-- after the two repairs -/
def Cfg.fixed : Cfg := { contentHash := true, ccflagsEnv := true }

/-- the environment variables of `collectEnvInputs`, in the (sorted) order `MarshalYAML` writes them -/
def envNames (cfg : Cfg) : List String :=
  if cfg.ccflagsEnv then compilerEnvVars ++ listedEnvVars else listedEnvVars

/-! ## packages -/

/-- cl/import.go `PkgKindOf` (`const LLGoPackage = …`).  build.go `buildAllPkgs`: a decl-only package is never compiled
    and has no archive; every other kind is compiled and cached.  The kind plays NO role in the fingerprint:
    `collectDependencyInputs` lists every import, whatever its kind — the constants and types of a decl-only package are
    compiled into its importers. -/
inductive PkgKind where
  | normal | declOnly | linkIR | linkExtern | pyModule | noInit
  deriving DecidableEq, Repr, Inhabited

structure PkgData where
  id : String
  path : String
  name : String := ""
  kind : PkgKind := .normal
  /-- `moduleVersion(dep.Module)`: non-empty for packages of a versioned (non-replaced) module -/
  modVersion : String := ""
  goFiles : List SrcFile := []
  /-- `AltPkg.GoFiles` (runtime patches of std packages) -/
  altFiles : List File := []
  /-- `p.OtherFiles` + `pkgSFiles` -/
  otherFiles : List File := []
  /-- C files named by `const LLGoFiles` (build.go `llgoPkgLinkFiles`/`clFiles`) -/
  sideFiles : List File := []
  /-- files resolved from `//go:embed` (goembed.LoadDirectives) -/
  embedFiles : List File := []
  /-- `aPackage.rewriteVars` (`-X`) -/
  rewriteVars : List (String × String) := []
  deriving DecidableEq, Repr, Inhabited

/-- a package with its imports (dependency DAG unfolded) -/
inductive PkgT where
  | mk (d : PkgData) (deps : List PkgT)
  deriving Repr, Inhabited

def PkgT.data : PkgT → PkgData
  | .mk d _ => d
def PkgT.deps : PkgT → List PkgT
  | .mk _ ds => ds

mutual
/-- every package record of the tree -/
def PkgT.all : PkgT → List PkgData
  | .mk d ds => d :: PkgT.allL ds
def PkgT.allL : List PkgT → List PkgData
  | [] => []
  | t :: ts => PkgT.all t ++ PkgT.allL ts
end

/-- the unit of caching: one package under one build configuration -/
abbrev Inputs := Global × PkgT

/-! ## the manifest (fingerprint.go) -/

structure FileDigest (φ : Type) where
  path : String
  size : Nat
  mtime : Int
  /-- `sha256` of the file on disk (variant `contentHash` only) -/
  sha256 : Option φ
  overlayHash : Option φ
  deriving DecidableEq, Repr

structure EnvSection where
  goos : String
  goarch : String
  goVersion : String
  llgoVersion : String
  compilerHash : String
  llvmTriple : String
  llvmVersion : String
  vars : List (String × String)
  deriving DecidableEq, Repr

structure CommonSection (φ : Type) where
  abiMode : Nat
  buildTags : List String
  target : String
  targetABI : String
  cc : String
  ccflags : List String
  cflags : List String
  ldflags : List String
  linker : String
  extraFiles : List (FileDigest φ)
  deriving DecidableEq, Repr

structure PackageSection (φ : Type) where
  pkgPath : String
  pkgID : String
  goFiles : List (FileDigest φ)
  altGoFiles : List (FileDigest φ)
  otherFiles : List (FileDigest φ)
  rewriteVars : List (String × String)
  deriving DecidableEq, Repr

structure DepEntry (φ : Type) where
  id : String
  version : String
  fingerprint : Option φ
  deriving DecidableEq, Repr

structure Manifest (φ : Type) where
  env : EnvSection
  common : CommonSection φ
  pkg : PackageSection φ
  deps : List (DepEntry φ)
  deriving DecidableEq, Repr

section Key
variable {φ : Type} (cfg : Cfg) (hb : Bytes → φ) (fp : Manifest φ → φ)

/-- fingerprint.go `digestFilesWithOverlay`, loop body -/
def digestFile (f : File) : FileDigest φ :=
  match f.overlay with
  | some c => { path := f.path, size := c.length, mtime := 0, sha256 := none, overlayHash := some (hb c) }
  | none => { path := f.path, size := f.size, mtime := f.mtime,
              sha256 := if cfg.contentHash then some (hb f.content) else none, overlayHash := none }

/-- fingerprint.go `digestFilesWithOverlay`: digest each path, then `sort.Slice` by `Path` -/
def digestFiles (fs : List File) : List (FileDigest φ) :=
  isort (fun a b => strLe a.path b.path) (fs.map (digestFile cfg hb))

/-- collect.go `collectEnvInputs` -/
def envSection (g : Global) : EnvSection :=
  { goos := g.goos, goarch := g.goarch, goVersion := g.goVersion, llgoVersion := g.llgoVersion,
    compilerHash := g.compilerHash, llvmTriple := g.llvmTriple, llvmVersion := g.llvmVersion,
    vars := (envNames cfg).filterMap fun n => if getenv g n ≠ "" then some (n, getenv g n) else none }

/-- collect.go `collectCommonInputs` + fingerprint.go `Build` (`sort.Strings(common.BuildTags)`) -/
def commonSection (g : Global) : CommonSection φ :=
  { abiMode := g.abiMode
    buildTags := if g.tags = "" then [] else isort strLe (g.tags.splitOn ",")
    target := g.target, targetABI := g.targetABI, cc := g.cc
    ccflags := exportCCFlags g, cflags := g.cflags, ldflags := g.ldflags, linker := g.linker
    extraFiles := digestFiles cfg hb (g.extraFiles.map File.noOverlay) }

/-- collect.go `collectPackageInputs`; `rewrite_vars` is an `orderedStringMap` (keys sorted when marshalled) -/
def packageSection (g : Global) (d : PkgData) : PackageSection φ :=
  { pkgPath := d.path, pkgID := d.id
    goFiles := digestFiles cfg hb (selected g d.goFiles)
    altGoFiles := digestFiles cfg hb d.altFiles
    otherFiles := digestFiles cfg hb d.otherFiles
    rewriteVars := isort (fun a b => strLe a.1 b.1) d.rewriteVars }

def depLe (a b : DepEntry φ) : Bool := strLe a.id b.id

mutual
/-- collect.go `collectFingerprint`: the manifest of one package -/
def key (g : Global) : PkgT → Manifest φ
  | .mk d deps =>
    { env := envSection cfg g, common := commonSection cfg hb g, pkg := packageSection cfg hb g d
      -- collectDependencyInputs: skip self-imports, sort by ID
      deps := isort depLe ((depEntries g deps).filter fun e => e.id != d.id) }
/-- collect.go `dependencyFingerprint`, for each import -/
def depEntries (g : Global) : List PkgT → List (DepEntry φ)
  | [] => []
  | t :: ts =>
    (if t.data.modVersion ≠ "" then { id := t.data.id, version := t.data.modVersion, fingerprint := none }
     else { id := t.data.id, version := "", fingerprint := some (fp (key g t)) }) :: depEntries g ts
end

end Key

/-! ## what can alter the behaviour of a package archive -/

/-- build-wide part -/
structure GlobRel where
  goos : String
  goarch : String
  target : String
  targetABI : String
  llvmTriple : String
  abiMode : Nat
  opt : OptLevel
  goVersion : String
  llgoVersion : String
  compilerHash : String
  llvmVersion : String
  cc : String
  ccflagsRest : List String
  cflags : List String
  ldflags : List String
  linker : String
  extraFiles : List (String × Bytes)
  /-- what the compiler makes of the `listedEnvVars` (`envMeaning`) -/
  envVars : List String
  /-- values of `compilerEnvVars` -/
  compilerEnv : List String
  deriving DecidableEq, Repr

structure OwnRel where
  pkgPath : String
  id : String
  go : List (String × Bytes)
  alt : List (String × Bytes)
  other : List (String × Bytes)
  side : List (String × Bytes)
  embed : List (String × Bytes)
  rewrites : List (String × String)
  deriving DecidableEq, Repr

inductive Rel where
  | pkg (g : GlobRel) (own : OwnRel) (deps : List Rel)
  /-- a package of a versioned module: the version identifies the content (module cache is immutable) -/
  | versioned (id ver : String)
  deriving Repr, Inhabited

def Rel.id : Rel → String
  | .pkg _ own _ => own.id
  | .versioned id _ => id
def Rel.own? : Rel → Option OwnRel
  | .pkg _ own _ => some own
  | .versioned _ _ => none
def Rel.glob? : Rel → Option GlobRel
  | .pkg g _ _ => some g
  | .versioned _ _ => none
def Rel.compilerEnv? : Rel → Option (List String)
  | .pkg g _ _ => some g.compilerEnv
  | .versioned _ _ => none

def relFiles (fs : List File) : List (String × Bytes) :=
  isort (fun a b => strLe a.1 b.1) (fs.map fun f => (f.path, f.effective))

def globRel (g : Global) : GlobRel :=
  { goos := g.goos, goarch := g.goarch, target := g.target, targetABI := g.targetABI, llvmTriple := g.llvmTriple
    abiMode := g.abiMode, opt := g.opt, goVersion := g.goVersion, llgoVersion := g.llgoVersion
    compilerHash := g.compilerHash, llvmVersion := g.llvmVersion, cc := g.cc, ccflagsRest := g.ccflagsRest
    cflags := g.cflags, ldflags := g.ldflags, linker := g.linker, extraFiles := relFiles (g.extraFiles.map File.noOverlay)
    envVars := listedEnvVars.map (fun n => envMeaning n (getenv g n)), compilerEnv := compilerEnvVars.map (getenv g) }

def ownRel (g : Global) (d : PkgData) : OwnRel :=
  { pkgPath := d.path, id := d.id
    go := relFiles (selected g d.goFiles), alt := relFiles d.altFiles, other := relFiles d.otherFiles
    side := relFiles d.sideFiles, embed := relFiles d.embedFiles
    rewrites := isort (fun a b => strLe a.1 b.1) d.rewriteVars }

def relLe (a b : Rel) : Bool := strLe a.id b.id

mutual
def relevant (g : Global) : PkgT → Rel
  | .mk d deps => .pkg (globRel g) (ownRel g d) (isort relLe ((depRels g deps).filter fun r => r.id != d.id))
def depRels (g : Global) : List PkgT → List Rel
  | [] => []
  | t :: ts =>
    (if t.data.modVersion ≠ "" then .versioned t.data.id t.data.modVersion else relevant g t) :: depRels g ts
end

/-- `relevant : Inputs → RelevantInputs` -/
def relevantOf (i : Inputs) : Rel := relevant i.1 i.2

/-! ## the cache (collect.go `tryLoadFromCache`, `saveToCache`; build.go `buildAllPkgs`) -/

section Build
variable {φ : Type} [DecidableEq φ] (cfg : Cfg) (hb : Bytes → φ) (fp : Manifest φ → φ)
variable {Obj Stored : Type} (compileRel : Rel → Obj) (storeObj : Obj → Stored) (loadObj : Stored → Obj)

/-- finite map fingerprint → what is kept on disk for it (`<fp>.a` + the `metadata:` section of `<fp>.manifest`); the
    newest entry for a fingerprint wins (`copyFileAtomic` overwrites).  `storeObj` is what `saveToCache` writes for a
    compiled package, `loadObj` what `tryLoadFromCache` makes of it on a hit (archive path + `LinkArgs`, `NeedRt`,
    `NeedPyInit` from the manifest): see `Meta`, `storeMeta`, `loadMeta` below for the concrete pair. -/
abbrev CacheMap (φ Stored : Type) := List (φ × Stored)

def lookup (c : CacheMap φ Stored) (k : φ) : Option Stored :=
  match c.find? (fun e => e.1 == k) with
  | some e => some e.2
  | none => none

structure BuildOpts where
  /-- `-a` (`ForceRebuild`) -/
  force : Bool := false
  /-- `LLGO_BUILD_CACHE` not `off` -/
  cacheOn : Bool := true
  deriving DecidableEq, Repr, Inhabited

/-- build.go `buildAllPkgs`: `case cl.PkgDeclOnly: pkg.ExportFile = ""` — no fingerprint lookup, no archive -/
def cachedKind (d : PkgData) : Bool := d.kind != .declOnly

/-- one package: fingerprint, lookup, otherwise compile and store (never for `main`, never for decl-only packages) -/
def buildPkg (o : BuildOpts) (g : Global) (c : CacheMap φ Stored) (t : PkgT) : CacheMap φ Stored × Obj :=
  let k := fp (key cfg hb fp g t)
  match (if o.cacheOn && !o.force && cachedKind t.data then lookup c k else none) with
  | some s => (c, loadObj s)
  | none =>
    let obj := compileRel (relevant g t)
    (if o.cacheOn && t.data.name != "main" && cachedKind t.data then (k, storeObj obj) :: c else c, obj)

def buildProg (o : BuildOpts) (g : Global) : CacheMap φ Stored → List PkgT → CacheMap φ Stored × List Obj
  | c, [] => (c, [])
  | c, t :: ts =>
    let r := buildPkg cfg hb fp compileRel storeObj loadObj o g c t
    let rs := buildProg o g r.1 ts
    (rs.1, r.2 :: rs.2)

/-- a build with an empty cache -/
def cleanBuild (g : Global) (ts : List PkgT) : List Obj := ts.map fun t => compileRel (relevant g t)

/-- all packages of a program, in build order (dependencies first, `main` last) -/
structure Program where
  glob : Global
  pkgs : List PkgT
  deriving Repr, Inhabited

inductive Step where
  /-- any change of any input (sources, side files, flags, environment, package graph …) -/
  | edit (p : Program)
  | build (o : BuildOpts)
  /-- `llgo clean -cache` / removing the cache directory -/
  | clean
  deriving Repr, Inhabited

structure State (φ Stored Obj : Type) where
  prog : Program
  cache : CacheMap φ Stored
  /-- what the last build produced -/
  served : Option (List Obj)
  /-- every build so far: (inputs at that time, output) -/
  trace : List (Program × List Obj)

def step (s : State φ Stored Obj) : Step → State φ Stored Obj
  | .edit p => { s with prog := p }
  | .clean => { s with cache := [] }
  | .build o =>
    let r := buildProg cfg hb fp compileRel storeObj loadObj o s.prog.glob s.cache s.prog.pkgs
    { s with cache := r.1, served := some r.2, trace := (s.prog, r.2) :: s.trace }

def run (s : State φ Stored Obj) : List Step → State φ Stored Obj
  | [] => s
  | st :: rest => run (step cfg hb fp compileRel storeObj loadObj s st) rest

def State.init (p : Program) : State φ Stored Obj := { prog := p, cache := [], served := none, trace := [] }

/-- `key : Inputs → Manifest` -/
def keyOf (i : Inputs) : Manifest φ := key cfg hb fp i.1 i.2
/-- `compile : Inputs → Artifact`, by construction a function of `relevantOf` -/
def compile (i : Inputs) : Obj := compileRel (relevantOf i)
/-- the artifact the tool hands out after a history that starts with an empty cache -/
def served (p₀ : Program) (h : List Step) : Option (List Obj) := (run cfg hb fp compileRel storeObj loadObj (State.init p₀) h).served
/-- the inputs after a history -/
def current (p₀ : Program) (h : List Step) : Program := (run cfg hb fp compileRel storeObj loadObj (State.init p₀) h).prog

end Build

/-! ## what the cache keeps besides the archive (collect.go `saveToCache`, `tryLoadFromCache`, `parseManifestMetadata`) -/

/-- fingerprint.go `manifestMetadata` = build.go `aPackage.{LinkArgs, NeedRt, NeedPyInit}`: the link arguments contributed
    by the package (`#cgo LDFLAGS`, `LLGoPackage = "link: …"`; order and multiplicity matter: `-Xlinker A -Xlinker B`,
    `-lfoo -lbar -lfoo`) and whether it needs the llgo runtime / Python initialised by the entry module -/
structure Meta where
  linkArgs : List String := []
  needRt : Bool := false
  needPyInit : Bool := false
  deriving DecidableEq, Repr, Inhabited

/-- `saveToCache`: a copy of the three fields; `data.Metadata = nil` when all three are zero (the YAML has no
    `metadata:` section then) -/
def storeMeta (m : Meta) : Option Meta :=
  if m.linkArgs = [] ∧ m.needRt = false ∧ m.needPyInit = false then none
  else some { linkArgs := m.linkArgs, needRt := m.needRt, needPyInit := m.needPyInit }

/-- `parseManifestMetadata`: no `metadata:` section ⇒ the zero value -/
def loadMeta : Option Meta → Meta
  | none => {}
  | some m => { linkArgs := m.linkArgs, needRt := m.needRt, needPyInit := m.needPyInit }

/-- what a build has in hand for a package: the archive and the metadata -/
structure Artifact (A : Type) where
  archive : A
  md : Meta

/-- `saveToCache` / `tryLoadFromCache` on the pair (the archive is copied byte for byte: `copyFileAtomic`) -/
def storeArtifact {A : Type} (a : Artifact A) : A × Option Meta := (a.archive, storeMeta a.md)
def loadArtifact {A : Type} (s : A × Option Meta) : Artifact A := { archive := s.1, md := loadMeta s.2 }

/-! ## emission loops -/

inductive MemberKind where
  | func (generic : Bool)
  | type
  | global
  deriving DecidableEq, Repr, Inhabited

structure Member where
  name : String
  kind : MemberKind
  body : String
  deriving DecidableEq, Repr, Inhabited

def memberLe (a b : Member) : Bool := strLe a.name b.name

/-- cl/compile.go `processPkg`, the switch inside the emission loop -/
def emitMember (m : Member) : Option String :=
  match m.kind with
  | .func generic => if m.name.endsWith "_trampoline" || generic then none else some ("func " ++ m.name ++ " " ++ m.body)
  | .type => some ("type " ++ m.name ++ " " ++ m.body)
  | .global => if m.name.startsWith "__cgo_" then none else some ("global " ++ m.name ++ " " ++ m.body)

/-- cl/compile.go `processPkg`: `members` is what `range pkg.Members` (a Go map: arbitrary order) delivers -/
def processPkg (skips : List String) (members : List Member) : List String :=
  (isort memberLe (members.filter fun m => !skips.contains m.name)).filterMap emitMember

/-- ssa/abitype.go `getAbiTypesFor`, the `names` slice after `sort.Strings`: `syms` is what `range prog.abiSymbol` delivers
    (name, descriptor), `filter` the caller's predicate (`nil` = `fun _ => true`; internal/build `genMainModule` passes
    "defined by a linked module ∧ `filterAbiSymbol abiInit`").  BOTH branches of the Go function end in the same sort. -/
def abiTypeNames (filter : String → Bool) (syms : List (String × String)) : List String :=
  isort strLe ((syms.filter fun kv => filter kv.1).map (·.1))

/-- ssa/abitype.go `getAbiTypesFor`: result = the `fields` array (`name$array`), one pointer per listed name -/
def abiTypesFor (filter : String → Bool) (syms : List (String × String)) : List String :=
  (abiTypeNames filter syms).map fun n => match syms.find? (fun kv => kv.1 == n) with
    | some kv => n ++ "=" ++ kv.2
    | none => n

/-- fingerprint.go `orderedStringMap.MarshalYAML` -/
def marshalMap (m : List (String × String)) : List (String × String) := isort (fun a b => strLe a.1 b.1) m

end LlgoVerif.Cache
