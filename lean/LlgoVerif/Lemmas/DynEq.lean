import LlgoVerif.Spec.DynEq
/-!
# Lemmas for DynEq (C07): the run-time comparison / hashing of interface values against Go's `==`
-/
namespace LlgoVerif.DynEq

/-! ## little-endian bytes -/

theorem leBytes_length : ∀ k n, (leBytes k n).length = k
  | 0, _ => rfl
  | k+1, n => by simp [leBytes, leBytes_length k]

theorem le64_length (n : Nat) : (le64 n).length = 8 := leBytes_length 8 n

theorem leNat_leBytes : ∀ k n, leNat (leBytes k n) = n % 256 ^ k
  | 0, n => by simp [leBytes, leNat, Nat.mod_one]
  | k+1, n => by
    have h256 : (UInt8.ofNat (n % 256)).toNat = n % 256 := by
      simp
    simp only [leBytes, leNat, leNat_leBytes k, h256]
    rw [Nat.pow_succ, Nat.mul_comm (256 ^ k) 256, Nat.mod_mul]

/-- byte strings of one length with the same little-endian value are equal -/
theorem leNat_inj : ∀ (a b : List UInt8), a.length = b.length → leNat a = leNat b → a = b
  | [], [], _, _ => rfl
  | [], _ :: _, h, _ => by simp at h
  | _ :: _, [], h, _ => by simp at h
  | x :: a, y :: b, hl, h => by
    simp only [leNat] at h
    have hx := x.toNat_lt
    have hy := y.toNat_lt
    have h1 : x.toNat = y.toNat := by omega
    have h2 : leNat a = leNat b := by omega
    have hl' : a.length = b.length := by simpa using hl
    have e1 : x = y := UInt8.toNat_inj.1 h1
    have e2 : a = b := leNat_inj a b hl' h2
    rw [e1, e2]

theorem leNat_beq (a b : List UInt8) (hl : a.length = b.length) : (leNat a == leNat b) = (a == b) := by
  by_cases h : a = b
  · subst h
    rw [beq_self_eq_true, beq_self_eq_true]
  · have : leNat a ≠ leNat b := fun e => h (leNat_inj a b hl e)
    rw [beq_eq_false_iff_ne.2 this, beq_eq_false_iff_ne.2 h]

theorem le64_toNat_inj (x y : UInt64) : le64 x.toNat = le64 y.toNat ↔ x = y := by
  constructor
  · intro h
    have := congrArg leNat h
    simp only [le64, leNat_leBytes] at this
    have hx := x.toNat_lt
    have hy := y.toNat_lt
    have e : (256 : Nat) ^ 8 = 2 ^ 64 := by decide
    rw [e, Nat.mod_eq_of_lt hx, Nat.mod_eq_of_lt hy] at this
    exact UInt64.toNat_inj.1 this
  · intro h; rw [h]

/-! ## defined types are transparent -/

theorem under_idem : ∀ t : Ty, under (under t) = under t
  | .named _ u => by simp [under, under_idem u]
  | .basic _ | .ptr _ _ | .slice _ | .iface _ _ | .array _ _ | .struct _ _ => by simp [under]

theorem under_not_named : ∀ (t : Ty) (i : Nat) (u : Ty), under t ≠ .named i u
  | .named _ u', i, u => by simp only [under]; exact under_not_named u' i u
  | .basic _, _, _ | .ptr _ _, _, _ | .slice _, _, _ | .iface _ _, _, _ | .array _ _, _, _ | .struct _ _, _, _ => by simp [under]

theorem tsize_under : ∀ t : Ty, tsize (under t) = tsize t
  | .named _ u => by simp [under, tsize, tsize_under u]
  | .basic _ | .ptr _ _ | .slice _ | .iface _ _ | .array _ _ | .struct _ _ => by simp [under]

theorem equalName_under : ∀ t : Ty, equalName (under t) = equalName t
  | .named _ u => by simp [under, equalName, equalName_under u]
  | .basic _ | .ptr _ _ | .slice _ | .iface _ _ | .array _ _ | .struct _ _ => by simp [under]

theorem regularTy_under : ∀ t : Ty, regularTy (under t) = regularTy t
  | .named _ u => by simp [under, regularTy, regularTy_under u]
  | .basic _ | .ptr _ _ | .slice _ | .iface _ _ | .array _ _ | .struct _ _ => by simp [under]

theorem directTy_under : ∀ t : Ty, directTy (under t) = directTy t
  | .named _ u => by simp [under, directTy, directTy_under u]
  | .basic _ | .ptr _ _ | .slice _ | .iface _ _ | .array _ _ | .struct _ _ => by simp [under]

theorem comparable_under : ∀ t : Ty, comparable (under t) = comparable t
  | .named _ u => by simp [under, comparable, comparable_under u]
  | .basic _ | .ptr _ _ | .slice _ | .iface _ _ | .array _ _ | .struct _ _ => by simp [under]

theorem blankDirect_under : ∀ t : Ty, blankDirect (under t) = blankDirect t
  | .named _ u => by simp [under, blankDirect, blankDirect_under u]
  | .basic _ | .ptr _ _ | .slice _ | .iface _ _ | .array _ _ | .struct _ _ => by simp [under]

theorem layoutOK_under : ∀ t : Ty, layoutOK (under t) = layoutOK t
  | .named _ u => by simp [under, layoutOK, layoutOK_under u]
  | .basic _ | .ptr _ _ | .slice _ | .iface _ _ | .array _ _ | .struct _ _ => by simp [under]

theorem descOf_under : ∀ t : Ty, descOf (under t) = descOf t
  | .named _ u => by simp [under, descOf, descOf_under u]
  | .basic _ | .ptr _ _ | .slice _ | .iface _ _ | .array _ _ | .struct _ _ => by simp [under]

theorem commonOf_under (t : Ty) : commonOf (under t) = commonOf t := by
  simp [commonOf, tsize_under, regularTy_under, directTy_under, equalName_under]

/-- what the descriptor carries is what `Size`, `IsRegularMemory`, `directIfaceType`, `EqualName` answer -/
theorem descOf_c : ∀ t : Ty, (descOf t).c = commonOf t
  | .named i u => by
    rw [descOf, descOf_c u]
    simp [commonOf, tsize, regularTy, directTy, equalName]
  | .basic _ | .ptr _ _ | .slice _ | .iface _ _ | .array _ _ | .struct _ _ => by simp [descOf, Desc.c]

/-! ## `Equal` is nil exactly for the types Go cannot compare -/

mutual
theorem equalName_isSome : ∀ t : Ty, (equalName t).isSome = comparable t
  | .basic _ => by simp [equalName, comparable]
  | .ptr k _ => by cases k <;> simp [equalName, comparable]
  | .slice _ => by simp [equalName, comparable]
  | .iface n _ => by simp only [equalName, comparable]; split <;> rfl
  | .array _ e => by
    have ih := equalName_isSome e
    simp only [equalName, comparable]
    cases h : equalName e with
    | none => simp [h] at ih; simp [← ih]
    | some g => simp [h] at ih; rw [ih]; simp only []; split <;> rfl
  | .struct _ fs => by
    have ih := allEqualNamed_eq fs
    cases fs with
    | nil => simp [equalName, comparable, comparable.comparableFs]
    | cons n o t r =>
      simp only [equalName, comparable]
      rw [← ih]
      split <;> simp_all
  | .named _ u => by simp [equalName, comparable, equalName_isSome u]
theorem allEqualNamed_eq : ∀ fs : Fs, allEqualNamed fs = comparable.comparableFs fs
  | .nil => by simp [allEqualNamed, comparable.comparableFs]
  | .cons _ _ t r => by simp [allEqualNamed, comparable.comparableFs, equalName_isSome t, allEqualNamed_eq r]
end

theorem equalName_none_iff (t : Ty) : equalName t = none ↔ comparable t = false := by
  have := equalName_isSome t
  cases h : equalName t <;> simp_all

/-! ## the scalar `Equal` functions on well-formed images -/

theorem readBytes_bytes {a : List UInt8} {n : Nat} (h : a.length = n) : readBytes (.bytes a : Obj Ty) n = .ok a := by
  subst h
  simp [readBytes, flat]

theorem memeq_bytes {a b : List UInt8} {n : Nat} (ha : a.length = n) (hb : b.length = n) :
    memeq n (.bytes a : Obj Ty) (.bytes b) = .ok (leNat a == leNat b) := by
  simp [memeq, readBytes_bytes ha, readBytes_bytes hb, leNat_beq a b (ha.trans hb.symm)]

theorem floatEq_bytes {a b : List UInt8} {w : Nat} (ha : a.length = w) (hb : b.length = w) :
    floatEq w (.bytes a : Obj Ty) (.bytes b) = .ok (if w = 4 then feq32 (leNat a) (leNat b) else feq64 (leNat a) (leNat b)) := by
  simp [floatEq, readBytes_bytes ha, readBytes_bytes hb]

theorem complexEq_bytes {a b : List UInt8} {w : Nat} (ha : a.length = 2 * w) (hb : b.length = 2 * w) :
    complexEq w (.bytes a : Obj Ty) (.bytes b) =
      .ok (if w = 4 then feq32 (leNat (a.take 4)) (leNat (b.take 4)) && feq32 (leNat (a.drop 4)) (leNat (b.drop 4))
           else feq64 (leNat (a.take 8)) (leNat (b.take 8)) && feq64 (leNat (a.drop 8)) (leNat (b.drop 8))) := by
  simp [complexEq, readBytes_bytes ha, readBytes_bytes hb]

/-- scalars: the `Equal` function the compiler picks computes Go's `==` -/
theorem eq_spec_bytes (ty : Ty) (a : List UInt8) (q : Obj Ty) (f : EqFn)
    (hp : fits ty (.bytes a) = true) (hq : fits ty q = true) (hf : equalName ty = some f) :
    callEq descOf f (descOf ty) (.bytes a) q = goEq ty (valOf ty (.bytes a)) (valOf ty q) := by
  rw [← equalName_under ty] at hf
  cases hu : under ty with
  | basic b =>
    cases q with
    | bytes c =>
      simp only [fits, hu] at hp hq
      rw [hu] at hf
      cases b
      case float32 =>
        simp [equalName, Basic.equalName, Basic.size] at hp hq hf; subst hf
        simp [callEq, valOf, goEq, hu, floatEq_bytes hp hq]
      case float64 =>
        simp [equalName, Basic.equalName, Basic.size] at hp hq hf; subst hf
        simp [callEq, valOf, goEq, hu, floatEq_bytes hp hq]
      case complex64 =>
        simp [equalName, Basic.equalName, Basic.size] at hp hq hf; subst hf
        have hp' : a.length = 2 * 4 := hp
        have hq' : c.length = 2 * 4 := hq
        simp [callEq, valOf, goEq, hu, complexEq_bytes hp' hq']
      case complex128 =>
        simp [equalName, Basic.equalName, Basic.size] at hp hq hf; subst hf
        have hp' : a.length = 2 * 8 := hp
        have hq' : c.length = 2 * 8 := hq
        simp [callEq, valOf, goEq, hu, complexEq_bytes hp' hq']
      case string => simp at hp
      all_goals
        simp [equalName, Basic.equalName, Basic.size] at hp hq hf; subst hf
        simp [callEq, valOf, goEq, hu, memeq_bytes hp hq]
    | str _ _ => cases b <;> simp [fits, hu] at hp hq
    | enil _ => simp [fits, hu] at hq
    | eface _ _ _ _ => simp [fits, hu] at hq
    | seq _ _ => simp [fits, hu] at hq
  | ptr k tag =>
    cases q with
    | bytes c =>
      simp only [fits, hu] at hp hq
      rw [hu] at hf
      cases k <;> simp [equalName] at hp hq hf <;> subst hf <;>
        simp [callEq, valOf, goEq, hu, memeq_bytes hp hq]
    | str _ _ => simp [fits, hu] at hq
    | enil _ => simp [fits, hu] at hq
    | eface _ _ _ _ => simp [fits, hu] at hq
    | seq _ _ => simp [fits, hu] at hq
  | slice tag => rw [hu] at hf; simp [equalName] at hf
  | iface n tag => simp [fits, hu] at hp
  | array n e => simp [fits, hu] at hp
  | struct size fs => simp [fits, hu] at hp
  | named i u => exact absurd hu (under_not_named ty i u)

/-! ## sizes of well-formed images -/

theorem fitsElems_len : ∀ (ps : Parts Ty) (e : Ty) (n : Nat), fitsElems e n ps = true → (flatParts ps).length = n * tsize e
  | .nil, e, n, h => by simp [fitsElems] at h; simp [flatParts, h]
  | .cons pre o rest, e, 0, h => by simp [fitsElems] at h
  | .cons pre o rest, e, n+1, h => by
    simp only [fitsElems, Bool.and_eq_true, List.isEmpty_iff, beq_iff_eq] at h
    obtain ⟨⟨⟨hpre, _⟩, hlen⟩, hrest⟩ := h
    have ih := fitsElems_len rest e n hrest
    simp only [flatLen] at hlen
    simp [flatParts, hpre, hlen, ih, Nat.succ_mul, Nat.add_comm]

theorem flatLen_of_fits (ty : Ty) (o : Obj Ty) (h : fits ty o = true) : flatLen o = tsize ty := by
  rw [← tsize_under ty]
  cases o with
  | bytes bs =>
    cases hu : under ty with
    | basic b => cases b <;> simp [fits, hu] at h <;> simp [flatLen, flat, tsize, h]
    | ptr k tag => simp [fits, hu] at h; simp [flatLen, flat, tsize, h]
    | slice tag => simp [fits, hu] at h; simp [flatLen, flat, tsize, h]
    | iface n tag => simp [fits, hu] at h
    | array n e => simp [fits, hu] at h
    | struct size fs => simp [fits, hu] at h
    | named i u => exact absurd hu (under_not_named ty i u)
  | str ptr s =>
    cases hu : under ty with
    | basic b => cases b <;> simp [fits, hu] at h; simp [flatLen, flat, tsize, Basic.size, le64_length]
    | ptr k tag => simp [fits, hu] at h
    | slice tag => simp [fits, hu] at h
    | iface n tag => simp [fits, hu] at h
    | array n e => simp [fits, hu] at h
    | struct size fs => simp [fits, hu] at h
    | named i u => exact absurd hu (under_not_named ty i u)
  | enil dw =>
    cases hu : under ty with
    | iface n tag => simp [flatLen, flat, tsize, le64_length]
    | basic b => cases b <;> simp [fits, hu] at h
    | ptr k tag => simp [fits, hu] at h
    | slice tag => simp [fits, hu] at h
    | array n e => simp [fits, hu] at h
    | struct size fs => simp [fits, hu] at h
    | named i u => exact absurd hu (under_not_named ty i u)
  | eface tw t dw box =>
    cases hu : under ty with
    | iface n tag => simp [flatLen, flat, tsize, le64_length]
    | basic b => cases b <;> simp [fits, hu] at h
    | ptr k tag => simp [fits, hu] at h
    | slice tag => simp [fits, hu] at h
    | array n e => simp [fits, hu] at h
    | struct size fs => simp [fits, hu] at h
    | named i u => exact absurd hu (under_not_named ty i u)
  | seq ps tail =>
    cases hu : under ty with
    | array n e =>
      simp only [fits, hu, Bool.and_eq_true, List.isEmpty_iff] at h
      simp [flatLen, flat, tsize, h.1, fitsElems_len ps e n h.2]
    | struct size fs =>
      simp only [fits, hu, Bool.and_eq_true, beq_iff_eq] at h
      simp [flatLen, flat, tsize, h.2]
    | basic b => cases b <;> simp [fits, hu] at h
    | ptr k tag => simp [fits, hu] at h
    | slice tag => simp [fits, hu] at h
    | iface n tag => simp [fits, hu] at h
    | named i u => exact absurd hu (under_not_named ty i u)

/-! ## direct-interface types: the data word IS the value -/

theorem leNat_le64 (x : UInt64) : leNat (le64 x.toNat) = x.toNat := by
  have e : (256 : Nat) ^ 8 = 2 ^ 64 := by decide
  rw [le64, leNat_leBytes, e, Nat.mod_eq_of_lt x.toNat_lt]

theorem toNat_beq (x y : UInt64) : (x.toNat == y.toNat) = (x == y) := by
  by_cases h : x = y
  · subst h; rw [beq_self_eq_true, beq_self_eq_true]
  · have : x.toNat ≠ y.toNat := fun e => h (UInt64.toNat_inj.1 e)
    rw [beq_eq_false_iff_ne.2 this, beq_eq_false_iff_ne.2 h]

/-- for a direct-interface type without a blank pointer field, comparing the data words is Go's `==` on the values -/
theorem direct_eq : ∀ (a : Obj Ty) (t : Ty) (b : Obj Ty) (x y : UInt64),
    directTy t = true → blankDirect t = false → layoutOK t = true → comparable t = true →
    fits t a = true → fits t b = true → flat a = le64 x.toNat → flat b = le64 y.toNat →
    goEq t (valOf t a) (valOf t b) = .ok (x == y)
  | .bytes bs, t, b, x, y, hd, _, _, hc, ha, hb, fa, fb => by
    rw [← directTy_under] at hd; rw [← comparable_under] at hc
    cases hu : under t with
    | basic k =>
      rw [hu] at hd
      have hk : k = .unsafePointer := by simpa [directTy] using hd
      subst hk
      cases b with
      | bytes c =>
        simp only [flat] at fa fb
        subst fa; subst fb
        simp [valOf, goEq, hu, leNat_le64, toNat_beq]
      | str _ _ => simp [fits, hu] at hb
      | enil _ => simp [fits, hu] at hb
      | eface _ _ _ _ => simp [fits, hu] at hb
      | seq _ _ => simp [fits, hu] at hb
    | ptr k tag =>
      rw [hu] at hc
      cases b with
      | bytes c =>
        simp only [flat] at fa fb
        subst fa; subst fb
        cases k <;> simp [comparable] at hc <;> simp [valOf, goEq, hu, leNat_le64, toNat_beq]
      | str _ _ => simp [fits, hu] at hb
      | enil _ => simp [fits, hu] at hb
      | eface _ _ _ _ => simp [fits, hu] at hb
      | seq _ _ => simp [fits, hu] at hb
    | slice tag => simp [hu, directTy] at hd
    | iface n tag => simp [hu, directTy] at hd
    | array n e => simp [fits, hu] at ha
    | struct size fs => simp [fits, hu] at ha
    | named i u => exact absurd hu (under_not_named t i u)
  | .str _ _, t, b, x, y, hd, _, _, _, ha, _, _, _ => by
    rw [← directTy_under] at hd
    cases hu : under t with
    | basic k => cases k <;> simp [fits, hu] at ha; simp [hu, directTy] at hd
    | ptr k tag => simp [fits, hu] at ha
    | slice tag => simp [fits, hu] at ha
    | iface n tag => simp [fits, hu] at ha
    | array n e => simp [fits, hu] at ha
    | struct size fs => simp [fits, hu] at ha
    | named i u => exact absurd hu (under_not_named t i u)
  | .enil _, t, b, x, y, hd, _, _, _, ha, _, _, _ => by
    rw [← directTy_under] at hd
    cases hu : under t with
    | iface n tag => simp [hu, directTy] at hd
    | basic k => cases k <;> simp [fits, hu] at ha
    | ptr k tag => simp [fits, hu] at ha
    | slice tag => simp [fits, hu] at ha
    | array n e => simp [fits, hu] at ha
    | struct size fs => simp [fits, hu] at ha
    | named i u => exact absurd hu (under_not_named t i u)
  | .eface _ _ _ _, t, b, x, y, hd, _, _, _, ha, _, _, _ => by
    rw [← directTy_under] at hd
    cases hu : under t with
    | iface n tag => simp [hu, directTy] at hd
    | basic k => cases k <;> simp [fits, hu] at ha
    | ptr k tag => simp [fits, hu] at ha
    | slice tag => simp [fits, hu] at ha
    | array n e => simp [fits, hu] at ha
    | struct size fs => simp [fits, hu] at ha
    | named i u => exact absurd hu (under_not_named t i u)
  | .seq ps tail, t, b, x, y, hd, hbl, hl, hc, ha, hb, fa, fb => by
    rw [← directTy_under] at hd; rw [← comparable_under] at hc; rw [← blankDirect_under] at hbl
    rw [← layoutOK_under] at hl
    cases hu : under t with
    | array n e =>
      rw [hu] at hd hc hbl hl
      simp only [directTy, Bool.and_eq_true, beq_iff_eq] at hd
      obtain ⟨hn, hde⟩ := hd
      subst hn
      simp only [comparable] at hc
      simp only [blankDirect] at hbl
      simp only [layoutOK] at hl
      cases b with
      | seq qs tail' =>
        simp only [fits, hu, Bool.and_eq_true, List.isEmpty_iff] at ha hb
        obtain ⟨hta, hea⟩ := ha
        obtain ⟨htb, heb⟩ := hb
        subst hta; subst htb
        cases ps with
        | nil => simp [fitsElems] at hea
        | cons pre o rest =>
          cases qs with
          | nil => simp [fitsElems] at heb
          | cons pre' o' rest' =>
            simp only [fitsElems, Bool.and_eq_true, List.isEmpty_iff, beq_iff_eq] at hea heb
            obtain ⟨⟨⟨hpre, hfo⟩, _⟩, hr⟩ := hea
            obtain ⟨⟨⟨hpre', hfo'⟩, _⟩, hr'⟩ := heb
            subst hpre; subst hpre'
            cases rest with
            | cons _ _ _ => simp [fitsElems] at hr
            | nil =>
              cases rest' with
              | cons _ _ _ => simp [fitsElems] at hr'
              | nil =>
                simp only [flat, flatParts, List.nil_append, List.append_nil] at fa fb
                have ih := direct_eq o e o' x y hde hbl hl hc hfo hfo' fa fb
                simp only [valOf, hu, valElems, goEq, goEqElems, ih]
                cases x == y <;> rfl
      | bytes _ => cases e <;> simp [fits, hu] at hb
      | str _ _ => simp [fits, hu] at hb
      | enil _ => simp [fits, hu] at hb
      | eface _ _ _ _ => simp [fits, hu] at hb
    | struct size fs =>
      rw [hu] at hd hc hbl hl
      cases fs with
      | nil => simp [directTy] at hd
      | cons name off ft fr =>
        cases fr with
        | cons _ _ _ _ => simp [directTy] at hd
        | nil =>
          simp only [directTy] at hd
          simp only [comparable, comparable.comparableFs, Bool.and_true] at hc
          simp only [blankDirect, Bool.or_eq_false_iff, beq_eq_false_iff_ne] at hbl
          simp only [layoutOK, layoutOKFs, Bool.and_eq_true, beq_iff_eq, Bool.and_true] at hl
          obtain ⟨hname, hblt⟩ := hbl
          obtain ⟨⟨hoff, hsize⟩, hlt⟩ := hl
          subst hoff
          cases b with
          | seq qs tail' =>
            simp only [fits, hu, Bool.and_eq_true, beq_iff_eq] at ha hb
            obtain ⟨hfa, hsa⟩ := ha
            obtain ⟨hfb, hsb⟩ := hb
            cases ps with
            | nil => simp [fitsFields] at hfa
            | cons pre o rest =>
              cases qs with
              | nil => simp [fitsFields] at hfb
              | cons pre' o' rest' =>
                simp only [fitsFields, Bool.and_eq_true, beq_iff_eq, Nat.zero_add] at hfa hfb
                obtain ⟨⟨⟨hpre, hfo⟩, hlo⟩, hr⟩ := hfa
                obtain ⟨⟨⟨hpre', hfo'⟩, hlo'⟩, hr'⟩ := hfb
                have hpre0 : pre = [] := List.eq_nil_of_length_eq_zero hpre
                have hpre0' : pre' = [] := List.eq_nil_of_length_eq_zero hpre'
                subst hpre0; subst hpre0'
                cases rest with
                | cons _ _ _ => simp [fitsFields] at hr
                | nil =>
                  cases rest' with
                  | cons _ _ _ => simp [fitsFields] at hr'
                  | nil =>
                    simp only [flatLen] at hlo hlo'
                    simp only [flatParts, List.nil_append, List.append_nil, hlo, hlo', hsize] at hsa hsb
                    have ht : tail = [] := List.eq_nil_of_length_eq_zero (by omega)
                    have ht' : tail' = [] := List.eq_nil_of_length_eq_zero (by omega)
                    subst ht; subst ht'
                    simp only [flat, flatParts, List.nil_append, List.append_nil] at fa fb
                    have ih := direct_eq o ft o' x y hd hblt hlt hc hfo hfo' fa fb
                    simp only [valOf, hu, valFields, goEq, goEqFields, if_neg hname, ih]
                    cases x == y <;> rfl
          | bytes _ => simp [fits, hu] at hb
          | str _ _ => simp [fits, hu] at hb
          | enil _ => simp [fits, hu] at hb
          | eface _ _ _ _ => simp [fits, hu] at hb
    | basic k => cases k <;> simp [fits, hu] at ha
    | ptr k tag => simp [fits, hu] at ha
    | slice tag => simp [fits, hu] at ha
    | iface n tag => simp [fits, hu] at ha
    | named i u => exact absurd hu (under_not_named t i u)

/-! ## zero-size values are all equal -/

theorem Basic.size_pos (b : Basic) : 0 < b.size := by cases b <;> simp [Basic.size]

mutual
theorem zero_eq : ∀ (a : Obj Ty) (t : Ty) (b : Obj Ty), comparable t = true → fits t a = true → fits t b = true →
    tsize t = 0 → goEq t (valOf t a) (valOf t b) = .ok true
  | .bytes bs, t, b, _, ha, _, hz => by
    rw [← tsize_under] at hz
    cases hu : under t with
    | basic k => rw [hu] at hz; have := Basic.size_pos k; simp [tsize] at hz; omega
    | ptr k tag => rw [hu] at hz; simp [tsize] at hz
    | slice tag => rw [hu] at hz; simp [tsize] at hz
    | iface n tag => simp [fits, hu] at ha
    | array n e => simp [fits, hu] at ha
    | struct size fs => simp [fits, hu] at ha
    | named i u => exact absurd hu (under_not_named t i u)
  | .str _ _, t, b, _, ha, _, hz => by
    have := flatLen_of_fits t _ ha
    simp [flatLen, flat, le64_length, hz] at this
  | .enil _, t, b, _, ha, _, hz => by
    have := flatLen_of_fits t _ ha
    simp [flatLen, flat, le64_length, hz] at this
  | .eface _ _ _ _, t, b, _, ha, _, hz => by
    have := flatLen_of_fits t _ ha
    simp [flatLen, flat, le64_length, hz] at this
  | .seq ps tail, t, b, hc, ha, hb, hz => by
    rw [← tsize_under] at hz; rw [← comparable_under] at hc
    cases hu : under t with
    | array n e =>
      rw [hu] at hz hc
      simp only [comparable] at hc
      simp only [tsize, Nat.mul_eq_zero] at hz
      cases b with
      | seq qs tail' =>
        simp only [fits, hu, Bool.and_eq_true] at ha hb
        simp only [valOf, hu, goEq]
        exact zero_eq_elems ps e n qs hc ha.2 hb.2 hz
      | bytes _ => cases e <;> simp [fits, hu] at hb
      | str _ _ => simp [fits, hu] at hb
      | enil _ => simp [fits, hu] at hb
      | eface _ _ _ _ => simp [fits, hu] at hb
    | struct size fs =>
      rw [hu] at hz hc
      simp only [comparable] at hc
      simp only [tsize] at hz
      subst hz
      cases b with
      | seq qs tail' =>
        simp only [fits, hu, Bool.and_eq_true, beq_iff_eq] at ha hb
        simp only [valOf, hu, goEq]
        exact zero_eq_fields ps fs qs 0 0 hc ha.1 hb.1 (by omega) (by omega)
      | bytes _ => simp [fits, hu] at hb
      | str _ _ => simp [fits, hu] at hb
      | enil _ => simp [fits, hu] at hb
      | eface _ _ _ _ => simp [fits, hu] at hb
    | basic k => cases k <;> simp [fits, hu] at ha
    | ptr k tag => simp [fits, hu] at ha
    | slice tag => simp [fits, hu] at ha
    | iface n tag => simp [fits, hu] at ha
    | named i u => exact absurd hu (under_not_named t i u)
theorem zero_eq_elems : ∀ (ps : Parts Ty) (e : Ty) (n : Nat) (qs : Parts Ty), comparable e = true →
    fitsElems e n ps = true → fitsElems e n qs = true → (n = 0 ∨ tsize e = 0) →
    goEqElems e (valElems e ps) (valElems e qs) = .ok true
  | .nil, e, n, qs, _, ha, hb, _ => by
    simp only [fitsElems, beq_iff_eq] at ha
    subst ha
    cases qs with
    | nil => simp [valElems, goEqElems]
    | cons _ _ _ => simp [fitsElems] at hb
  | .cons pre o rest, e, n, qs, hc, ha, hb, hz => by
    cases n with
    | zero => simp [fitsElems] at ha
    | succ n =>
      cases qs with
      | nil => simp [fitsElems] at hb
      | cons pre' o' rest' =>
        have hz' : tsize e = 0 := by cases hz with | inl h => cases h | inr h => exact h
        simp only [fitsElems, Bool.and_eq_true] at ha hb
        have h1 := zero_eq o e o' hc ha.1.1.2 hb.1.1.2 hz'
        have h2 := zero_eq_elems rest e n rest' hc ha.2 hb.2 (Or.inr hz')
        simp [valElems, goEqElems, h1, h2]
theorem zero_eq_fields : ∀ (ps : Parts Ty) (fs : Fs) (qs : Parts Ty) (c c' : Nat), comparable.comparableFs fs = true →
    fitsFields fs ps c = true → fitsFields fs qs c' = true → (flatParts ps).length = 0 → (flatParts qs).length = 0 →
    goEqFields fs (valFields fs ps) (valFields fs qs) = .ok true
  | .nil, fs, qs, c, c', _, ha, hb, _, _ => by
    cases fs with
    | cons _ _ _ _ => simp [fitsFields] at ha
    | nil =>
      cases qs with
      | nil => simp [valFields, goEqFields]
      | cons _ _ _ => simp [fitsFields] at hb
  | .cons pre o rest, fs, qs, c, c', hc, ha, hb, hz, hz' => by
    cases fs with
    | nil => simp [fitsFields] at ha
    | cons name off t fr =>
      cases qs with
      | nil => simp [fitsFields] at hb
      | cons pre' o' rest' =>
        simp only [fitsFields, Bool.and_eq_true, beq_iff_eq] at ha hb
        simp only [comparable.comparableFs, Bool.and_eq_true] at hc
        simp only [flatParts, List.length_append] at hz hz'
        have hlo := ha.1.2
        simp only [flatLen] at hlo
        have h2 := zero_eq_fields rest fr rest' _ _ hc.2 ha.2 hb.2 (by omega) (by omega)
        by_cases hn : name = 0
        · simp [valFields, goEqFields, hn, h2]
        · have h1 := zero_eq o t o' hc.1 ha.1.1.2 hb.1.1.2 (by omega)
          simp [valFields, goEqFields, hn, h1, h2]
end

/-! ## the `Equal` function of a descriptor computes Go's `==` -/

theorem allEqualNamed_of_comparable {fs : Fs} : allEqualNamed fs = comparable.comparableFs fs := allEqualNamed_eq fs

theorem comparable_of_equalName {t : Ty} {g : EqFn} (h : equalName t = some g) : comparable t = true := by
  rw [← equalName_isSome, h]; rfl

/-- the interface case, given the induction hypothesis for the boxed value -/
theorem eq_spec_iface (tw : Nat) (t : Ty) (dw : UInt64) (box : Obj Ty) (ty : Ty) (q : Obj Ty) (f : EqFn)
    (hff : f = .nilinterequal ∨ f = .interequal) (n tag : Nat) (hu : under ty = .iface n tag)
    (hp : fits ty (.eface tw t dw box) = true) (hq : fits ty q = true) (hok : okDyn (.eface tw t dw box) = true)
    (ih : ∀ (q' : Obj Ty) (g : EqFn), fits t box = true → fits t q' = true → okDyn box = true → equalName t = some g →
      callEq descOf g (descOf t) box q' = goEq t (valOf t box) (valOf t q')) :
    callEq descOf f (descOf ty) (.eface tw t dw box) q = goEq ty (valOf ty (.eface tw t dw box)) (valOf ty q) := by
  simp only [fits, hu, Bool.and_eq_true, Bool.or_eq_true, Bool.not_eq_true', beq_iff_eq] at hp
  obtain ⟨⟨hfb, hlay⟩, hdir⟩ := hp
  simp only [okDyn, Bool.and_eq_true, Bool.not_eq_true'] at hok
  cases q with
  | enil dw' => rcases hff with rfl | rfl <;> simp [callEq, valOf, goEq, hu]
  | eface tw' t' dw' box' =>
    simp only [fits, hu, Bool.and_eq_true, Bool.or_eq_true, Bool.not_eq_true', beq_iff_eq] at hq
    obtain ⟨⟨hfb', _⟩, hdir'⟩ := hq
    have key : (if t ≠ t' then (Except.ok false : Except Err Bool)
        else match (descOf t).c.equal with
          | none => .error .uncomparable
          | some g => if (descOf t).c.direct = true then .ok (dw == dw') else callEq descOf g (descOf t) box box') =
        goEq ty (valOf ty (.eface tw t dw box)) (valOf ty (.eface tw' t' dw' box')) := by
      simp only [valOf, hu, goEq]
      by_cases htt : t = t'
      · subst htt
        simp only [ne_eq, not_true_eq_false, if_false, descOf_c, commonOf]
        cases he : equalName t with
        | none =>
          have := (equalName_none_iff t).1 he
          simp [this]
        | some g =>
          have hc := comparable_of_equalName he
          simp only [hc, Bool.not_true, Bool.false_eq_true, if_false]
          by_cases hd : directTy t = true
          · simp only [hd, if_true]
            have fa : flat box = le64 dw.toNat := by cases hdir with | inl h => simp [hd] at h | inr h => exact h
            have fb : flat box' = le64 dw'.toNat := by cases hdir' with | inl h => simp [hd] at h | inr h => exact h
            exact (direct_eq box t box' dw dw' hd hok.1 hlay hc hfb hfb' fa fb).symm
          · simp only [hd, Bool.false_eq_true, if_false]
            exact ih box' g hfb hfb' hok.2 he
      · simp [htt]
    rcases hff with rfl | rfl <;> simp only [callEq] <;> exact key
  | bytes _ => simp [fits, hu] at hq
  | str _ _ => simp [fits, hu] at hq
  | seq _ _ => simp [fits, hu] at hq

mutual
theorem eq_spec : ∀ (p : Obj Ty) (ty : Ty) (q : Obj Ty) (f : EqFn),
    fits ty p = true → fits ty q = true → okDyn p = true → equalName ty = some f →
    callEq descOf f (descOf ty) p q = goEq ty (valOf ty p) (valOf ty q)
  | .bytes a, ty, q, f, hp, hq, _, hf => eq_spec_bytes ty a q f hp hq hf
  | .str ptr s, ty, q, f, hp, hq, _, hf => by
    rw [← equalName_under ty] at hf
    cases hu : under ty with
    | basic b =>
      cases b <;> simp [fits, hu] at hp
      rw [hu] at hf
      simp [equalName, Basic.equalName] at hf; subst hf
      cases q with
      | str ptr' s' => simp [callEq, valOf, goEq, hu]
      | bytes _ => simp [fits, hu] at hq
      | enil _ => simp [fits, hu] at hq
      | eface _ _ _ _ => simp [fits, hu] at hq
      | seq _ _ => simp [fits, hu] at hq
    | ptr k tag => simp [fits, hu] at hp
    | slice tag => simp [fits, hu] at hp
    | iface n tag => simp [fits, hu] at hp
    | array n e => simp [fits, hu] at hp
    | struct size fs => simp [fits, hu] at hp
    | named i u => exact absurd hu (under_not_named ty i u)
  | .enil dw, ty, q, f, hp, hq, _, hf => by
    rw [← equalName_under ty] at hf
    cases hu : under ty with
    | iface n tag =>
      rw [hu] at hf
      have hff : f = .nilinterequal ∨ f = .interequal := by
        simp only [equalName] at hf
        split at hf <;> simp at hf <;> simp [← hf]
      cases q with
      | enil dw' => rcases hff with rfl | rfl <;> simp [callEq, valOf, goEq, hu]
      | eface tw' t' dw' box' => rcases hff with rfl | rfl <;> simp [callEq, valOf, goEq, hu]
      | bytes _ => simp [fits, hu] at hq
      | str _ _ => simp [fits, hu] at hq
      | seq _ _ => simp [fits, hu] at hq
    | basic b => cases b <;> simp [fits, hu] at hp
    | ptr k tag => simp [fits, hu] at hp
    | slice tag => simp [fits, hu] at hp
    | array n e => simp [fits, hu] at hp
    | struct size fs => simp [fits, hu] at hp
    | named i u => exact absurd hu (under_not_named ty i u)
  | .eface tw t dw box, ty, q, f, hp, hq, hok, hf => by
    rw [← equalName_under ty] at hf
    cases hu : under ty with
    | iface n tag =>
      rw [hu] at hf
      have hff : f = .nilinterequal ∨ f = .interequal := by
        simp only [equalName] at hf
        split at hf <;> simp at hf <;> simp [← hf]
      exact eq_spec_iface tw t dw box ty q f hff n tag hu hp hq hok
        (fun q' g h1 h2 h3 h4 => eq_spec box t q' g h1 h2 h3 h4)
    | basic b => cases b <;> simp [fits, hu] at hp
    | ptr k tag => simp [fits, hu] at hp
    | slice tag => simp [fits, hu] at hp
    | array n e => simp [fits, hu] at hp
    | struct size fs => simp [fits, hu] at hp
    | named i u => exact absurd hu (under_not_named ty i u)
  | .seq ps tail, ty, q, f, hp, hq, hok, hf => by
    rw [← equalName_under ty] at hf
    rw [← descOf_under ty]
    simp only [okDyn] at hok
    cases hu : under ty with
    | array n e =>
      rw [hu] at hf
      cases q with
      | seq qs tail' =>
        simp only [fits, hu, Bool.and_eq_true] at hp hq
        simp only [valOf, hu, goEq]
        simp only [equalName] at hf
        cases he : equalName e with
        | none => simp [he] at hf
        | some g =>
          simp only [he] at hf
          by_cases hz : tsize e = 0
          · simp only [hz, if_true, Option.some.injEq] at hf
            subst hf
            rw [zero_eq_elems ps e n qs (comparable_of_equalName he) hp.2 hq.2 (Or.inr hz)]
            simp [callEq]
          · simp only [hz, if_false, Option.some.injEq] at hf
            subst hf
            simp only [descOf, callEq]
            have := eq_spec_elems ps e n 0 qs g hp.2 hq.2 hok he
            simpa using this
      | bytes _ => cases e <;> simp [fits, hu] at hq
      | str _ _ => simp [fits, hu] at hq
      | enil _ => simp [fits, hu] at hq
      | eface _ _ _ _ => simp [fits, hu] at hq
    | struct size fs =>
      rw [hu] at hf
      cases q with
      | seq qs tail' =>
        simp only [fits, hu, Bool.and_eq_true, beq_iff_eq] at hp hq
        simp only [valOf, hu, goEq]
        cases fs with
        | nil =>
          simp only [equalName, Option.some.injEq] at hf
          subst hf
          cases ps with
          | cons _ _ _ => simp [fitsFields] at hp
          | nil =>
            cases qs with
            | cons _ _ _ => simp [fitsFields] at hq
            | nil => simp [callEq, valFields, goEqFields]
        | cons name off t fr =>
          simp only [equalName] at hf
          by_cases ha : allEqualNamed (.cons name off t fr) = true
          · simp only [ha, if_true, Option.some.injEq] at hf
            subst hf
            simp only [descOf, callEq]
            exact eq_spec_fields ps (.cons name off t fr) qs 0 hp.1 hq.1 hok ha
          · simp [ha] at hf
      | bytes _ => simp [fits, hu] at hq
      | str _ _ => simp [fits, hu] at hq
      | enil _ => simp [fits, hu] at hq
      | eface _ _ _ _ => simp [fits, hu] at hq
    | basic b => cases b <;> simp [fits, hu] at hp
    | ptr k tag => simp [fits, hu] at hp
    | slice tag => simp [fits, hu] at hp
    | iface n tag => simp [fits, hu] at hp
    | named i u => exact absurd hu (under_not_named ty i u)
theorem eq_spec_elems : ∀ (ps : Parts Ty) (e : Ty) (n i : Nat) (qs : Parts Ty) (g : EqFn),
    fitsElems e n ps = true → fitsElems e n qs = true → okDynParts ps = true → equalName e = some g →
    eqElems descOf (descOf e) n i ps qs (i * tsize e) (i * tsize e) = goEqElems e (valElems e ps) (valElems e qs)
  | .nil, e, n, i, qs, g, hp, hq, _, _ => by
    simp only [fitsElems, beq_iff_eq] at hp
    subst hp
    cases qs with
    | nil => simp [eqElems, valElems, goEqElems]
    | cons _ _ _ => simp [fitsElems] at hq
  | .cons pre o rest, e, n, i, qs, g, hp, hq, hok, he => by
    cases n with
    | zero => simp [fitsElems] at hp
    | succ n =>
      cases qs with
      | nil => simp [fitsElems] at hq
      | cons pre' o' rest' =>
        simp only [fitsElems, Bool.and_eq_true, List.isEmpty_iff, beq_iff_eq] at hp hq
        obtain ⟨⟨⟨hpre, hfo⟩, hlo⟩, hr⟩ := hp
        obtain ⟨⟨⟨hpre', hfo'⟩, hlo'⟩, hr'⟩ := hq
        subst hpre; subst hpre'
        simp only [okDynParts, Bool.and_eq_true] at hok
        have h1 := eq_spec o e o' g hfo hfo' hok.1 he
        have h2 := eq_spec_elems rest e n (i+1) rest' g hr hr' hok.2 he
        simp only [eqElems, descOf_c, commonOf, he, List.length_nil, Nat.add_zero, ne_eq, not_true_eq_false, or_self,
          if_false, h1, hlo, hlo', valElems, goEqElems]
        rw [show i * tsize e + tsize e = (i + 1) * tsize e by rw [Nat.succ_mul]]
        rw [h2]
        generalize goEq e (valOf e o) (valOf e o') = r
        cases r with
        | error x => rfl
        | ok b => cases b <;> rfl
theorem eq_spec_fields : ∀ (ps : Parts Ty) (fs : Fs) (qs : Parts Ty) (c : Nat),
    fitsFields fs ps c = true → fitsFields fs qs c = true → okDynParts ps = true → allEqualNamed fs = true →
    eqFields descOf (descFields fs) ps qs c c = goEqFields fs (valFields fs ps) (valFields fs qs)
  | .nil, fs, qs, c, hp, hq, _, _ => by
    cases fs with
    | cons _ _ _ _ => simp [fitsFields] at hp
    | nil =>
      cases qs with
      | nil => simp [descFields, eqFields, valFields, goEqFields]
      | cons _ _ _ => simp [fitsFields] at hq
  | .cons pre o rest, fs, qs, c, hp, hq, hok, ha => by
    cases fs with
    | nil => simp [fitsFields] at hp
    | cons name off t fr =>
      cases qs with
      | nil => simp [fitsFields] at hq
      | cons pre' o' rest' =>
        simp only [fitsFields, Bool.and_eq_true, beq_iff_eq] at hp hq
        obtain ⟨⟨⟨hpre, hfo⟩, hlo⟩, hr⟩ := hp
        obtain ⟨⟨⟨hpre', hfo'⟩, hlo'⟩, hr'⟩ := hq
        simp only [okDynParts, Bool.and_eq_true] at hok
        simp only [allEqualNamed, Bool.and_eq_true] at ha
        have h2 := eq_spec_fields rest fr rest' (off + tsize t) hr hr' hok.2 ha.2
        simp only [descFields, eqFields, hpre, hpre', ne_eq, not_true_eq_false, or_self, if_false, hlo, hlo', valFields,
          goEqFields]
        by_cases hn : name = 0
        · simp [hn, h2]
        · cases he : equalName t with
          | none => simp [he] at ha
          | some g =>
            have h1 := eq_spec o t o' g hfo hfo' hok.1 he
            simp only [hn, descOf_c, commonOf, he, h1, h2, beq_iff_eq, Bool.false_eq_true, if_false]
            generalize goEq t (valOf t o) (valOf t o') = r
            cases r with
            | error x => rfl
            | ok b => cases b <;> rfl
end

end LlgoVerif.DynEq
