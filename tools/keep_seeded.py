#!/usr/bin/env python3
"""keep_seeded.py <Cxx> <k> <src-dir> <caught:yes|no> <needs> <what-ran>  -> /verif/seeded/<Cxx>-<k>/"""
import json, os, shutil, sys
prop, k, src, caught, needs, ran = sys.argv[1:7]
dst = "/verif/seeded/%s-%s" % (prop, k)
shutil.rmtree(dst, ignore_errors=True)
os.makedirs(dst)
for f in os.listdir(src):
    p = os.path.join(src, f)
    if os.path.isfile(p) and os.path.getsize(p) < 200000:
        shutil.copy(p, dst)
json.dump({"property": prop, "breaks": prop, "needs_to_manifest": needs, "what_was_run": ran,
           "detected_by_check": caught == "yes",
           "confirmed": "patch applies to /repo HEAD of the time; package tests still pass; demonstration fails with the patch and passes without (logs mut.log / base.log)"},
          open(os.path.join(dst, "meta.json"), "w"), indent=1)
print("kept", dst)
