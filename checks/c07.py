"""C07 — dynamic type identity and interface satisfaction coincide with Go's rules.

Second model (interface ==, interface-keyed maps): Model/DynEq.lean (EfaceEqual, the Equal functions, typehash / nilinterhash / interhash of
runtime alg.go + z_face.go; EqualName / IsRegularMemory / directIfaceType of ssa/abi + ssa/abitype.go), Spec/DynEq.lean (Go's == on values),
Lemmas/Dyn*.lean; tie: `run_dyn` below (vlib/c07_dyn.py) + the dyn-* cases of the end-to-end program.

Lean: Model/GoType.lean (TypeName and callees), Model/Iface.lean (Implements / findMethod / NewItab scans),
Spec/TypeIdent.lean (identical, implements), Lemmas/GoType*.lean, Props/C07.lean.
Tie (B): harness/c07 imports the REAL ssa/abi and names go/types values obtained by type-checking generated
multi-package source (random grammar + near-miss mutation of one attribute); go/types' Identical/Implements is
the spec oracle; the compiled Lean model (SHA-256 + base64url in the driver) must reproduce every name and verdict.
Tie (B-N): verbatim z_face.go under the native stand-ins runs Implements/NewItab/findMethod/MatchesClosure on
synthesised descriptors (emitted tables of the generated types + random sorted/unsorted tables) against the model.
Tie (B-E): one generated multi-package program doing assertions / switches / == / interface-keyed maps over
near-miss pairs, compiled by llgo from the working tree and by the reference `go build`.
"""
import json
import os
import re

from vlib.common import *
from vlib import typegen as tg
from vlib import native
from vlib import c07_dyn as dy

sh = run      # vlib.common.run (this module's own `run` is the check entry point)

RT_FILES = ["map.go", "alg.go", "hash64.go", "z_map.go", "type.go", "errors.go", "z_face.go", "z_type.go",
            "mbarrier.go", "z_error.go", "z_slice.go", "z_string.go", "utf8.go", "stubs.go"]

# attribute classes (harness `why`) that are explained by a listed finding; anything else is a new violation
CLASS_WHAT = {
    "e2e:named-func-type-identified-with-underlying": "a defined func type and its underlying func type are one dynamic type at run time (MatchesClosure ignores the name)",
    "e2e:struct-tags-dropped-with-func-field": "struct types with a func-typed field that differ only in tags are one dynamic type at run time (ssa cvtStruct drops the tags)",
    "samename:tag": "struct types differing only in a field TAG get the same run-time name",
    "samename:embedded-name": "struct types whose embedded fields have different NAMES (alias vs target, byte vs uint8) but the same type get the same run-time name",
    "samename:method-pkg": "interface types whose unexported methods come from different packages get the same run-time name",
    "samename:targ-fallback:field-pkg": "generic instances whose struct type ARGUMENT has unexported fields of different packages get the same name",
    "samename:targ-fallback:method-pkg": "generic instances whose interface type ARGUMENT has unexported methods of different packages get the same name",
    "samename:targ-fallback:named-decl:same-pkg-and-name": "generic instances whose func/struct/interface type ARGUMENT mentions same-named local types of different scopes get the same name",
    "diffname:targ-basic-spelling": "identical generic instances spelled with byte/uint8 (rune/int32) type arguments get different names",
    "diffname:targ-fallback-spelling": "identical generic instances whose func/struct/interface type argument spells a component through an alias get different names",
}

IMPORTS = {"p": [], "q": ["p"], "x": [], "d": ["p", "q"], "r": ["p", "q"]}
PKG_ORDER = ["p", "q", "x", "d", "r"]


def package_source(pkg, decls):
    imps = ['import "unsafe"'] + ['import %s "%s"' % (tg.pkg_name(i), tg.pkg_path(i)) for i in IMPORTS[pkg]]
    uses = ["var _ unsafe.Pointer", "const pkgID = %d" % (PKG_ORDER.index(pkg) + 1)] + ["var _ %s.T" % tg.pkg_name(i) for i in IMPORTS[pkg]]
    return "package %s\n\n%s\n\n%s\n%s\n%s\n" % (tg.pkg_name(pkg), "\n".join(imps), "\n".join(uses), tg.PRELUDE_COMMON, "\n".join(decls))


def assemble(pairs, impls):
    """pairs: [{'a': (src, home, site|None), 'b': (...)}], impls: [(operand src, iface src, home)] -> job dict"""
    decls = {p: [] for p in PKG_ORDER}
    for i, pr in enumerate(pairs):
        loc = {}
        for side in "ab":
            src, home, site = pr[side]
            name = "V%d%s" % (i, side)
            if site is None:
                decls[home].append("var %s %s" % (name, src))
            else:
                loc.setdefault(site, []).append("var %s %s\n_ = %s" % (name, src, name))
        if loc:
            decls["r"].append(tg.local_function(i, loc))
    for i, (op, itf, home) in enumerate(impls):
        decls[home].append("var W%dt %s" % (i, op))
        decls[home].append("var W%di %s" % (i, itf))
    return {"packages": [{"path": tg.pkg_path(p), "src": package_source(p, decls[p])} for p in PKG_ORDER]}


# ------------------------------------------------------------------------------------------- pair generation

CORPUS_PAIRS = [
    # (label, a-src, a-home, b-src, b-home)
    ("corpus:tag", 'struct{ A int "x:1" }', "r", 'struct{ A int "x:2" }', "r"),
    ("corpus:tag-vs-none", 'struct{ A int "x:1" }', "r", 'struct{ A int }', "r"),
    ("corpus:tag-nested", '[]map[string]struct{ A int `json:"a"` }', "r", '[]map[string]struct{ A int `json:"b"` }', "r"),
    ("corpus:embedded-alias", 'struct{ AT }', "r", 'struct{ T }', "r"),
    ("corpus:embedded-byte", 'struct{ byte }', "r", 'struct{ uint8 }', "r"),
    ("corpus:embedded-vs-named", 'struct{ T }', "r", 'struct{ T T }', "r"),
    ("corpus:embedded-ptr", 'struct{ *T }', "r", 'struct{ T }', "r"),
    ("corpus:field-pkg", 'struct{ a int }', "q", 'struct{ a int }', "r"),
    ("corpus:field-pkg-blank", 'struct{ _ int }', "q", 'struct{ _ int }', "r"),
    ("corpus:embedded-basic-pkg", 'struct{ int }', "q", 'struct{ int }', "r"),
    ("corpus:method-pkg", 'interface{ m() }', "q", 'interface{ m() }', "r"),
    ("corpus:method-pkg-mixed", 'interface{ p.Ka; q.Kb }', "r", 'interface{ p.Kab }', "r"),
    ("corpus:variadic", 'func(...int)', "r", 'func([]int)', "r"),
    ("corpus:chan-dir", 'chan<- int', "r", 'chan int', "r"),
    ("corpus:chan-nesting", 'chan (<-chan int)', "r", 'chan<- (chan int)', "r"),
    ("corpus:chan-nesting2", '<-chan (chan int)', "r", 'chan (<-chan int)', "r"),
    ("corpus:array-len", '[3]int', "r", '[4]int', "r"),
    ("corpus:array-len-10", '[1][0]int', "r", '[10]int', "r"),
    ("corpus:named-pkg", 'p.T', "r", 'q.T', "r"),
    ("corpus:named-vs-local-pkg", 'T', "r", 'p.T', "r"),
    ("corpus:alias", 'p.AT', "r", 'p.T', "r"),
    ("corpus:byte", '[]byte', "r", '[]uint8', "r"),
    ("corpus:rune-map", 'map[rune]string', "r", 'map[int32]string', "r"),
    ("corpus:targ", 'p.G[int]', "r", 'p.G[string]', "r"),
    ("corpus:targ-pkg", 'p.G[p.T]', "r", 'p.G[q.T]', "r"),
    ("corpus:targ-byte", 'p.G[byte]', "r", 'p.G[uint8]', "r"),
    ("corpus:targ-alias", 'p.G[p.AT]', "r", 'p.G[p.T]', "r"),
    ("corpus:targ-chan", 'p.G[chan (<-chan int)]', "r", 'p.G[chan<- (chan int)]', "r"),
    ("corpus:targ-two", 'p.H[int, string]', "r", 'p.H[string, int]', "r"),
    ("corpus:targ-nested", 'p.G[p.G[int]]', "r", 'p.G[q.G[int]]', "r"),
    ("corpus:targ-struct-tag", 'p.G[struct{ A int "x" }]', "r", 'p.G[struct{ A int "y" }]', "r"),
    ("corpus:targ-struct-fieldpkg", 'p.G[struct{ a int }]', "q", 'p.G[struct{ a int }]', "r"),
    ("corpus:targ-iface-methodpkg", 'p.G[interface{ m() }]', "q", 'p.G[interface{ m() }]', "r"),
    ("corpus:targ-func-variadic", 'p.G[func(...int)]', "r", 'p.G[func([]int)]', "r"),
    ("corpus:patch-prefix", 'T', "x", 'T', "p"),
    ("corpus:func-result", 'func(int) string', "r", 'func(int, string)', "r"),
    ("corpus:func-param-result", 'func() (int, string)', "r", 'func(int) string', "r"),
    ("corpus:iface-sig", 'interface{ M() int }', "r", 'interface{ M() string }', "r"),
    ("corpus:iface-empty-any", 'interface{}', "r", 'any', "r"),
    ("corpus:error", 'error', "r", 'interface{ Error() string }', "r"),
    ("corpus:ptr", '*int', "r", 'int', "r"),
    ("corpus:slice-array", '[]int', "r", '[0]int', "r"),
    ("corpus:map-swap", 'map[string]int', "r", 'map[int]string', "r"),
    ("corpus:map-key-array", 'map[[2]int]string', "r", 'map[[2]int][]string', "r"),
    ("corpus:unsafe", 'unsafe.Pointer', "r", 'uintptr', "r"),
    ("corpus:field-order", 'struct{ A int; B string }', "r", 'struct{ B string; A int }', "r"),
    ("corpus:field-name-type-shift", 'struct{ A, B int }', "r", 'struct{ A int; B int }', "r"),
    ("corpus:named-underlying", 'p.T', "r", 'struct{ X int }', "r"),
    ("corpus:named-func-vs-underlying", 'p.Fn', "r", 'func(int) string', "r"),
    ("corpus:underlying-vs-named-func", 'func(int) string', "r", 'p.Fn', "r"),
    ("corpus:named-func-same", 'p.Fn', "r", 'p.Fn', "r"),
    ("corpus:named-func-pkg", 'p.Fn', "r", 'q.Fn', "r"),
    ("corpus:named-func-nested", '[]p.Fn', "r", '[]func(int) string', "r"),
    ("corpus:named-slice-vs-underlying", 'p.Sl', "r", '[]int', "r"),
    ("corpus:named-map-vs-underlying", 'p.Mp', "r", 'map[string]int', "r"),
    ("corpus:named-chan-vs-underlying", 'p.Ch', "r", 'chan int', "r"),
    ("corpus:named-pointer-vs-underlying", 'p.Ptr', "r", '*p.T', "r"),
    ("corpus:tag-with-func-field", 'struct{ F func(); A int "x:1" }', "r", 'struct{ F func(); A int "x:2" }', "r"),
    ("corpus:tag-with-func-field-none", 'struct{ A int "x:1"; F func(int) }', "r", 'struct{ A int; F func(int) }', "r"),
]


def gen_pairs(rng, n):
    """-> list of (label, pair dict)"""
    out = []
    for (label, a, ha, b, hb) in CORPUS_PAIRS:
        out.append((label, {"a": (a, ha, None), "b": (b, hb, None)}))
    # local-scope corpus: every pair of sites, bare and wrapped
    wrappers = ["%s", "[]%s", "struct{ F %s }", "func(%s)", "p.G[%s]", "map[%s]int", "*%s", "p.H[%s, %s]", "p.G[func(%s)]"]
    for sa in tg.LOCAL_SITES:
        for sb in tg.LOCAL_SITES:
            w = wrappers[(sa * 6 + sb) % len(wrappers)]
            src = w.replace("%s", "L")
            out.append(("local-scope" if sa != sb else "local-same", {"a": (src, "r", sa), "b": (src, "r", sb)}))
    g = tg.Gen(rng, home="r", universe=tg.UNIVERSE_WITH_METHODS)
    gc = tg.Gen(rng, home="r", allow_local=False, closed=True, universe=tg.UNIVERSE_WITH_METHODS)
    i = 0
    while len(out) < n:
        i += 1
        k = i % 20
        try:
            if k < 3:
                ta, tb = g.typ(rng.choice([1, 2, 3])), g.typ(rng.choice([1, 2, 3]))
                label = "random-independent"
            elif k < 5:
                ta = g.typ(rng.choice([1, 2, 3, 4]))
                tb = ta
                label = "same-term"
            elif k == 17:
                # package of an unexported name: the same closed term written in two packages
                ta = gc.typ(rng.choice([1, 2, 3]))
                tb = ta
                ha, hb = rng.sample(["p", "q", "r", "d"], 2)
                label = "home-package:" + ("unexported-member" if tg.has_unexported_member(ta) else "exported-only")
                out.append((label, {"a": (tg.render(ta, ha), ha, None), "b": (tg.render(tb, hb), hb, None)}))
                continue
            else:
                ta = g.typ(rng.choice([1, 2, 2, 3, 3, 4]), force=rng.choice([None, None, "struct", "struct", "func", "iface"]))
                m = tg.mutate(rng, ta, g)
                if m is None:
                    continue
                tb, label = m
        except (IndexError, ValueError):
            continue
        sa, sb = tg.local_sites(ta), tg.local_sites(tb)
        site_a = min(sa) if sa else None
        site_b = min(sb) if sb else None
        if len(sa) > 1 or len(sb) > 1:
            continue
        if label == "local-scope":
            # the mutated occurrence's new site applies to the whole side
            new = (tg.local_sites(tb) - sa) or sb
            site_b = min(new)
            tb = ta
        out.append((label, {"a": (tg.render(ta, "r"), "r", site_a), "b": (tg.render(tb, "r"), "r", site_b)}))
    return out


# ------------------------------------------------------------------------------------------- implements generation

IMPL_FIXED = [("struct{ p.Xz; q.Xc }", "interface{ p.Kz; q.Kc }"), ("struct{ p.Xz; q.Xc }", "interface{ q.Kc; p.Kz }"), ("struct{ p.Xz; q.Xc }", "p.Kz"), ("p.Box", "p.I"), ("p.Box", "p.J"), ("*p.Box", "p.J"), ("p.BoxS", "p.J"), ("*p.BoxR", "p.J"), ("p.BoxR", "p.J"), ("p.SlM", "p.I"), ("*p.SlM", "p.J"),
              ("p.MpM", "p.J"), ("p.FnM", "p.I"), ("*p.FnM", "p.J"), ("p.ArM", "p.I"), ("*p.ArM", "p.J"), ("p.StM", "p.J"), ("*p.FlM", "p.J"), ("p.PsM", "p.I"),
              ("Box", "interface{ M() int; k() }"), ("ArM", "interface{ M() int; k() }"), ("struct{ p.Box }", "p.I"),
              ("struct{ p.Xb; q.Xa }", "interface{ p.Kb; q.Ka }"), ("UniT", "Uni"), ("*UniT", "Uni"), ("p.UniT", "p.Uni"), ("UniT", "interface{ Zc() int; \u00c4b() int }"), ("MixT", "Mix"), ("*MixT", "Mix"), ("struct{ p.Xa; q.Xb }", "interface{ p.Ka; q.Kb }"), ("p.T", "p.I"), ("*p.T", "p.J"),
              ("p.T", "p.J"), ("p.T", "p.K"), ("p.T", "interface{ k() }"), ("T", "interface{ k() }"), ("p.MixT", "p.Mix"),
              ("struct{ p.MixT }", "p.Mix"), ("q.MixT", "p.Mix"), ("*p.G[int]", "interface{ Get() int }"),
              ("*p.G[string]", "interface{ Get() int }"), ("Mix", "interface{ Zeta(); alpha() }"), ("p.Mix", "interface{ Zeta(); alpha() }")]


def gen_impls(rng, n):
    out = []
    for home in ("r", "d"):
        def q(pkg, s):
            return s if pkg == home else tg.pkg_name(pkg) + "." + s
        ops, itfs = [], []
        for pkg in ("p", "q", home):
            for nm in ["T", "E", "U", "G[int]", "G[string]", "Em", "Xa", "Xb", "MixT", "UniT", "Box", "BoxS", "BoxR", "SlM", "MpM", "FnM", "ArM", "StM", "FlM", "PsM"]:
                ops += [q(pkg, nm), "*" + q(pkg, nm)]
            for nm in ["I", "J", "K", "Mix", "Kab", "Ka", "Uni"]:
                ops.append(q(pkg, nm))
                itfs.append(q(pkg, nm))
            itfs += [q(pkg, "Kb"), q(pkg, "AI"), "interface{ %s }" % q(pkg, "K"), "interface{ %s }" % q(pkg, "Mix")]
        ops += ["struct{ p.Box }", "struct{ *p.BoxR; X int }", "struct{ p.Xb; q.Xa }", "struct{ p.Xb; q.Xa2 }", "struct{ p.T }", "struct{ *p.T }", "*struct{ p.T }", "struct{ p.Xa; q.Xb }", "struct{ p.Xa; Xb }", "struct{ p.T; q.U }",
                "struct{ p.E; X int }", "interface{ M() int }", "int", "struct{}", "struct{ p.MixT }", "*struct{ MixT }", "error",
                "struct{ p.I }", "struct{ p.K }", "struct{ q.K; Xa }"]
        itfs += ["interface{ p.Kb; q.Ka }", "interface{ q.Ka; p.Kb }", "interface{ M() int; k() }", "any", "interface{}", "interface{ M() int }", "interface{ M() string }", "interface{ N(string) }",
                 "interface{ M() int; N(string) }", "interface{ k() }", "interface{ p.Ka; q.Kb }", "interface{ p.Ka; Kb }",
                 "interface{ q.Kb; p.Ka }", "interface{ Get() int }", "interface{ M() int; Get() int }", "interface{ Get() string }",
                 "interface{ Zeta(); Beta(int) string }", "interface{ Zeta(); alpha() }", "interface{ Beta(int) string; gamma() error }",
                 "error", "interface{ m() }", "interface{ M() int; k() }", "interface{ p.K; M() int }", "interface{ a() int }"]
        # fixed corpus first
        for op, itf in IMPL_FIXED:
            out.append((op, itf, home))
        for _ in range(n // 2):
            out.append((rng.choice(ops), rng.choice(itfs), home))
    return out


def gen_tables(rng, n):
    """synthetic method tables for the native/model correspondence: sorted, unsorted, duplicated names"""
    names = ["M", "N", "Close", "Zeta", "a", "vm/p.k", "vm/q.k", "9vm/d.alpha", "Beta", "sync.m", "io.x", "A", "AA", "Ab", "Éx"]
    lines = []
    for i in range(n):
        k = i % 6
        nv = rng.randint(0, 6)
        vn = rng.sample(names, min(nv, len(names)))
        v = [(x, rng.randint(1, 3), rng.randint(0 if rng.random() < 0.1 else 1, 40)) for x in vn]
        if k != 1:
            v.sort(key=lambda e: e[0].encode())
        if k == 4 and v:
            v.insert(rng.randrange(len(v) + 1), (rng.choice(v)[0], rng.randint(1, 3), rng.randint(1, 40)))   # duplicate name
        nt = rng.randint(0, 4)
        t = []
        for _ in range(nt):
            if v and rng.random() < 0.8:
                e = rng.choice(v)
                t.append((e[0], e[1] if rng.random() < 0.85 else e[1] % 3 + 1, 0))
            else:
                t.append((rng.choice(names), rng.randint(1, 3), 0))
        t = list(dict((e[0], e) for e in t).values())
        if k != 2:
            t.sort(key=lambda e: e[0].encode())
        else:
            rng.shuffle(t)
        enc = lambda es: " ".join("%s %d %d" % (hexs(a), b, c) for a, b, c in es)
        mode = rng.choice(["v:", "v:", "v@chan:", "v@pointer:", "v@slice:", "v@array:", "v@map:", "v@func:", "v@basic:", "iface:", "none"])
        if mode == "none":
            lines.append(("impl t: %s | none" % enc(t), t, None, mode))
        else:
            lines.append(("impl t: %s | %s %s" % (enc(t), mode, enc(v)), t, v, mode))
    return lines


def bytes_sorted_strict(es):
    ns = [e[0].encode() if isinstance(e[0], str) else e[0] for e in es]
    return all(ns[i] < ns[i + 1] for i in range(len(ns) - 1))


# ------------------------------------------------------------------------------------------- the check

def run(ctx, args):
    quick = ctx.tier == "quick"
    n_pairs = int(os.environ.get("C07_PAIRS", "20000" if quick else "200000"))
    n_impl = 3000 if quick else 20000
    n_tab = 4000 if quick else 60000
    rng = ctx.rng
    st = lean_check(ctx, ["LlgoVerif.Props.C07"], ["LlgoVerif/Props/C07.lean"],
                    extra_files=["LlgoVerif/Model/GoType.lean", "LlgoVerif/Model/Iface.lean", "LlgoVerif/Spec/TypeIdent.lean",
                                 "LlgoVerif/Lemmas/GoTypeStr.lean", "LlgoVerif/Lemmas/GoType.lean", "LlgoVerif/Lemmas/GoTypeInj.lean", "LlgoVerif/Lemmas/Iface.lean",
                                 "LlgoVerif/Model/DynEq.lean", "LlgoVerif/Spec/DynEq.lean", "LlgoVerif/Lemmas/DynEq.lean", "LlgoVerif/Lemmas/DynHash.lean",
                                 "LlgoVerif/Lemmas/DynLaws.lean"],
                    leanchecker=(ctx.tier == "thorough"))
    modeld = build_driver(ctx, "modeld_c07")
    # ssa/abitype.go directIfaceType (package ssa needs LLVM to build) is copied VERBATIM from the working tree into the harness
    direct_src = extract_direct_iface(ctx)
    harness = build_go_harness(ctx, "c07", overlay={os.path.join(ctx.scratch, "h-c07", "zz_direct.go"): direct_src})
    H = os.path.join(VERIF, "harness", "c07", "native")
    nat = native.make_native(ctx, RT_FILES, {"zz_support.go": native.RT_SUPPORT, "zz_c07.go": open(os.path.join(H, "rt_extra.go.txt")).read(),
                                             "zz_c07dyn.go": open(os.path.join(H, "dyn_rt.go.txt")).read()},
                             {"main.go": open(os.path.join(H, "main.go.txt")).read(), "ptr.go": open(os.path.join(H, "ptr.go.txt")).read(),
                              "dyn.go": open(os.path.join(H, "dyn.go.txt")).read()},
                             name="native-c07")
    ctx.log("built: model driver, ssa/abi harness, native z_face copy")

    stats = {}
    spec_fail = 0
    corr_bad = []          # correspondence mismatches (real vs model)
    specval_bad = []       # Lean spec vs go/types oracle
    nontrivial = set()
    samples = []
    evaluations = 0

    # ---------------------------------------------------------------- (1) names: batches of generated packages
    pairs = gen_pairs(rng, n_pairs)
    impls = gen_impls(rng, n_impl)
    BATCH = 5000
    pair_lines, impl_lines = [], []
    pair_cmp = {}
    pair_attrs = {}
    for b0 in range(0, len(pairs), BATCH):
        chunk = pairs[b0:b0 + BATCH]
        job = assemble([p for _, p in chunk], impls if b0 == 0 else [])
        jp = os.path.join(ctx.scratch, "job%d.json" % b0)
        json.dump(job, open(jp, "w"))
        p = sh([harness, jp])
        if p.returncode != 0:
            # a generated package that does not type-check is a generator bug, not a finding: show it
            raise RuntimeError("harness failed on batch %d: %s %s" % (b0, p.stdout[-3000:], p.stderr[-3000:]))
        for line in p.stdout.split("\n"):
            if line.startswith("pair "):
                f = line.split(" ", 7)
                why, cmpf = f[5].rsplit(",", 1)
                pair_lines.append((b0 + int(f[1]), f[2] == "1", f[3], f[4], why, f[7]))
                pair_cmp[b0 + int(f[1])] = cmpf
                pair_attrs[b0 + int(f[1])] = f[6]
            elif line.startswith("impl "):
                impl_lines.append(line)
    ctx.log("harness: %d pairs, %d implements cases named by the real ssa/abi" % (len(pair_lines), len(impl_lines)))
    if len(pair_lines) != len(pairs):
        raise RuntimeError("harness lost pairs: %d of %d" % (len(pair_lines), len(pairs)))

    # which variant of structHash does the working tree implement?  (pinned tree: neither tags nor embedded names are
    # written; fixes/C07-1.diff adds tags, fixes/C07-2.diff embedded names) - read off two corpus pairs, the model follows
    bylabel = {pairs[pl[0]][0]: pl for pl in pair_lines if pairs[pl[0]][0].startswith("corpus:")}
    v_tags = bylabel["corpus:tag"][2] != bylabel["corpus:tag"][3]
    v_emb = bylabel["corpus:embedded-alias"][2] != bylabel["corpus:embedded-alias"][3]
    variant = ("1" if v_tags else "0") + ("1" if v_emb else "0")
    ctx.log("structHash variant of the working tree: tags %s, embedded names %s" % ("written" if v_tags else "NOT written", "written" if v_emb else "NOT written"))
    ctx.coverage["structHash_variant"] = {"tags_written": v_tags, "embedded_names_written": v_emb}
    mout, rc, err = run_lines([modeld], ["pair " + variant + " " + pl[5] for pl in pair_lines])
    if len(mout) != len(pair_lines):
        raise RuntimeError("model driver died: %d/%d %s" % (len(mout), len(pair_lines), err[-2000:]))
    unsupported = 0
    unknown_seen = {}
    for (idx, ident, na, nb, why, terms), ml in zip(pair_lines, mout):
        label, pr = pairs[idx]
        stats[label.split(":")[0] if label.startswith("corpus") else label] = stats.get(label.split(":")[0] if label.startswith("corpus") else label, 0) + 1
        evaluations += 1
        if len(terms) > 40:
            nontrivial.add(terms)
        mf = ml.split(" ")
        same = na == nb
        stats["identical" if ident else "different"] = stats.get("identical" if ident else "different", 0) + 1
        # (a) the property, judged on the real code against go/types
        if same != ident:
            spec_fail += 1
            pre = "diffname:" if ident else "samename:"
            for attr in why.split("+"):
                key = pre + attr
                what = CLASS_WHAT.get(key)
                rep = {"a": pr["a"], "b": pr["b"], "types.Identical": ident, "TypeName_a": unhexs(na).decode(), "TypeName_b": unhexs(nb).decode(), "differs_in": why, "generator_label": label}
                if what is None or ctx.match_known(key) is None:
                    # a class no listed finding explains: the key carries the input (at most 3 inputs per class are written out)
                    unknown_seen[key] = unknown_seen.get(key, 0) + 1
                    if unknown_seen[key] > 3:
                        continue
                    key = key if what is not None else "%s:%s|%s" % (key, pr["a"][0][:60], pr["b"][0][:60])
                    what = what or "TypeName(t1)==TypeName(t2) is %s but types.Identical is %s (attribute %s)" % (same, ident, attr)
                ctx.report(key, what, rep)
        # (b) correspondence model vs real, (c) Lean spec vs go/types
        if len(mf) != 4:
            corr_bad.append((idx, "model answered " + ml, pr))
            continue
        if mf[3] == "1":
            # the pair satisfies the decidable hypotheses of typeName_injective_partial: the theorem then
            # PREDICTS name equality <-> identity; the real code must agree (else proof or tie is unsound)
            stats["inside-proved-fragment"] = stats.get("inside-proved-fragment", 0) + 1
            stats["inside-proved-fragment:" + ("identical" if ident else "different")] = stats.get("inside-proved-fragment:" + ("identical" if ident else "different"), 0) + 1
            if same != ident:
                corr_bad.append((idx, "pair inside the proved fragment contradicts typeName_injective_partial", pr))
        if mf[0] == "unsupported" or mf[1] == "unsupported":
            unsupported += 1
        else:
            if mf[0] != na or mf[1] != nb:
                corr_bad.append((idx, "name: real %s / %s model %s / %s" % (unhexs(na), unhexs(nb), unhexs(mf[0]), unhexs(mf[1])), pr))
        if (mf[2] == "1") != ident:
            specval_bad.append((idx, pr, ident, mf[2]))
        if len(samples) < 3 and label.startswith("corpus:tag"):
            samples.append({"pair": pr, "types.Identical": ident, "real_names": [unhexs(na).decode(), unhexs(nb).decode()], "model": ml})
    stats["typearg-fallback-unsupported-by-model"] = unsupported

    # ---------------------------------------------------------------- (2) implements: emitted tables of generated types
    typ_ids = {}
    def tid(name):
        return typ_ids.setdefault(name, len(typ_ids) + 1)
    nat_lines, model_lines, specs, metas = [], [], [], []
    implspec_lines = []
    for line in impl_lines:
        head, rest = line.split(" t: ", 1) if " t: " in line else (line.split(" t:", 1)[0], line.split(" t:", 1)[1])
        hf = head.split(" ")
        idx, spec, op_is_iface = int(hf[1]), hf[2] == "1", hf[3].split(",")[0] == "1"
        op_kind = hf[3].split(",")[1]
        parts = [x.strip() for x in rest.split("|")]
        ttab = parts[0].split()
        vtab = parts[1].split()[1:] if parts[1].startswith("v:") else []
        def ents(tab):
            return [(tab[i], tid(tab[i + 1]), 1 + (i // 2)) for i in range(0, len(tab), 2)]
        t, v = ents(ttab), ents(vtab)
        enc = lambda es: " ".join("%s %d %d" % e for e in es)
        # the operand's descriptor is laid out as ssa/abitype.go does for its KIND (chantype/arraytype/maptype/… header, then
        # the uncommon part): (*abi.Type).Uncommon() must find the method table behind each of them
        mode = "iface:" if op_is_iface else ("v:" if op_kind == "struct" else "v@%s:" % op_kind)
        stats["implements:operand-kind:" + op_kind] = stats.get("implements:operand-kind:" + op_kind, 0) + 1
        if not op_is_iface and not v:
            l = "impl t: %s | none" % enc(t)
        else:
            l = "impl t: %s | %s %s" % (enc(t), mode, enc(v))
        nat_lines.append(l)
        model_lines.append(l)
        specs.append(spec)
        metas.append((impls[idx], t, v, op_is_iface))
        implspec_lines.append("implspec %s | %s" % (parts[2], parts[3]))
    tabs = gen_tables(rng, n_tab)
    for (l, t, v, mode) in tabs:
        nat_lines.append(l)
        model_lines.append(l)
    rout, native_crashes = run_native(nat, nat_lines)
    err = ""
    mout2, rc2, err2 = run_lines([modeld], model_lines + implspec_lines)
    for (k, tail) in native_crashes[:3]:
        # the verbatim runtime code crashed on a descriptor laid out as the compiler emits it: an answer was due
        spec_fail += 1
        what = ("%s vs %s in %s" % metas[k][0]) if k < len(metas) else nat_lines[k][:160]
        ctx.report("native-crash:%s" % what, "Implements / NewItab (verbatim z_face.go + runtime/abi) crash on a descriptor with a method table",
                   {"input_line": nat_lines[k], "case": what, "stderr_tail": tail})
    if len(rout) != len(nat_lines) or len(mout2) != len(model_lines) + len(implspec_lines):
        raise RuntimeError("native/model died: %d/%d %d/%d\n%s\n%s" % (len(rout), len(nat_lines), len(mout2), len(model_lines) + len(implspec_lines), err[-2000:], err2[-2000:]))
    n_gen = len(impl_lines)
    for i, (rl, ml) in enumerate(zip(rout, mout2[:len(model_lines)])):
        evaluations += 1
        if rl in ("crash", "skipped"):
            continue
        rf, mf = rl.split(" "), ml.split(" ")
        nontrivial.add(nat_lines[i])
        # correspondence: Implements verdict, NewItab verdict
        if rf[0] != mf[0] or (rf[1] != "-" and rf[1] != mf[1]) or (rf[1] == "1" and len(mf) > 3 and rf[2] != mf[3]):
            corr_bad.append((i, "scan: real %s model %s on %s" % (rl, ml, nat_lines[i]), None))
        if i < n_gen:
            (op, itf, home), t, v, op_is_iface = metas[i]
            spec = specs[i]
            stats["implements:" + ("yes" if spec else "no")] = stats.get("implements:" + ("yes" if spec else "no"), 0) + 1
            lean_spec = mout2[len(model_lines) + i]
            if (lean_spec == "1") != spec:
                specval_bad.append((i, (op, itf, home), spec, lean_spec))
            real_impl = rf[0] == "1"
            rep = {"operand": op, "interface": itf, "package": tg.pkg_path(home), "types.Implements": spec, "interface_table": [unhexs(e[0]).decode() for e in t],
                   "operand_table": [unhexs(e[0]).decode() for e in v], "native": rl}
            if real_impl != spec:
                spec_fail += 1
                # does the same scan succeed when both tables are put in ONE order?  then the only cause is the order
                ts = sorted(t, key=lambda e: unhexs(e[0]))
                vs = sorted(v, key=lambda e: unhexs(e[0]))
                same_order_ok = scan_py(ts, vs) == spec
                key = "implements:table-order-mismatch" if (spec and same_order_ok) else "implements:%s|%s|%s" % (op, itf, home)
                if key != "implements:table-order-mismatch":
                    unknown_seen["implements"] = unknown_seen.get("implements", 0) + 1
                if key == "implements:table-order-mismatch" or unknown_seen["implements"] <= 3:
                    ctx.report(key, "runtime Implements(%s, %s) = %s but the type %s the interface" % (itf, op, real_impl, "implements" if spec else "does not implement"), rep)
            if rf[1] != "-" and (rf[1] == "1") != spec and not op_is_iface:
                spec_fail += 1
                key = "newitab:operand-table-not-sorted" if (spec and not bytes_sorted_strict([(unhexs(e[0]),) for e in v])) else "newitab:%s|%s|%s" % (op, itf, home)
                unknown_seen["newitab"] = unknown_seen.get("newitab", 0) + 1
                if unknown_seen["newitab"] <= 3:
                    ctx.report(key, "runtime NewItab(%s, %s) %s but the type %s the interface" % (itf, op, "succeeds" if rf[1] == "1" else "fails", "implements" if spec else "does not implement"), rep)
            if rf[1] == "1" and spec and not op_is_iface:
                # the method a call through the interface reaches: slot k must hold the code pointer of THE method of the operand
                # that has the interface method's name (and type)
                want = [str(next((m[2] for m in v if m[0] == e[0] and m[1] == e[1]), -1)) for e in t]
                if rf[2].split(",") != want:
                    spec_fail += 1
                    unknown_seen["itabfun"] = unknown_seen.get("itabfun", 0) + 1
                    if unknown_seen["itabfun"] <= 3:
                        ctx.report("newitab-slots:%s|%s|%s" % (op, itf, home), "the itab built by NewItab(%s, %s) does not hold the operand's methods in the interface's slots" % (itf, op), dict(rep, want=want))
        else:
            (l, t, v, mode) = tabs[i - n_gen]
            stats["synthetic-tables"] = stats.get("synthetic-tables", 0) + 1
            # on tables that meet the precondition the real scan must agree with the plain specification
            if v is not None and bytes_sorted_strict(t) and bytes_sorted_strict(v):
                spec = all(any(m[0] == e[0] and m[1] == e[1] for m in v) for e in t)
                stats["synthetic-sorted"] = stats.get("synthetic-sorted", 0) + 1
                if (rf[0] == "1") != spec:
                    spec_fail += 1
                    unknown_seen["syn"] = unknown_seen.get("syn", 0) + 1
                if (rf[0] == "1") != spec and unknown_seen["syn"] <= 3:
                    ctx.report("implements:sorted-tables:" + l[:120], "Implements disagrees with the specification on sorted duplicate-free tables", {"line": l, "native": rl})
                if mode.startswith("v") and t and rf[1] != "-":
                    ok_spec = spec and v and [m for m in v if m[0] == t[0][0]][0][2] != 0
                    if (rf[1] == "1") != bool(ok_spec):
                        spec_fail += 1
                        unknown_seen["synitab"] = unknown_seen.get("synitab", 0) + 1
                    if (rf[1] == "1") != bool(ok_spec) and unknown_seen["synitab"] <= 3:
                        ctx.report("newitab:sorted-tables:" + l[:120], "NewItab disagrees with the specification on sorted duplicate-free tables", {"line": l, "native": rl})
            else:
                stats["synthetic-unsorted-or-dup"] = stats.get("synthetic-unsorted-or-dup", 0) + 1
    # findMethod + MatchesClosure correspondence
    extra = []
    for (l, t, v, mode) in tabs[:1500]:
        if v:
            enc = " ".join("%s %d %d" % (hexs(a), b, c) for a, b, c in v)
            for e in (t[:2] or [("M", 1, 0)]):
                extra.append("find v: %s | %s %d" % (enc, hexs(e[0]), e[1]))
    # MatchesClosure: descriptors are determined by their id (closure flag, $f type, named flag); the spec: a closure type
    # matches itself, and two UNNAMED closure types with the same func type match (reflect.MakeFunc builds such types)
    def cdesc(k):
        return (k, 1 if k % 4 else 0, k % 3 + 1, 1 if k % 5 == 0 else 0)
    p0, _, _ = run_lines([nat], ["closure 5 1 7 1 | 6 1 7 0"])
    closure_fixed = p0[0] == "0"
    ctx.coverage["MatchesClosure_variant"] = "named closure types match only themselves (fixes/C07-3.diff)" if closure_fixed else "the name of a defined func type is ignored (pinned tree)"
    closure_cases = []
    for _ in range(400):
        a = cdesc(rng.randint(1, 12))
        bdesc = None if rng.random() < 0.1 else cdesc(rng.randint(1, 12))
        closure_cases.append((a, bdesc))
        extra.append("closure %d %d %d %d | %s" % (a + (("%d %d %d %d" % bdesc) if bdesc else "none",)))
    n_find = len(extra) - len(closure_cases)
    r3, _, e3 = run_lines([nat], extra)
    m3, _, e4 = run_lines([modeld], [x.replace("closure ", "closure %d " % (1 if closure_fixed else 0), 1) if x.startswith("closure ") else x for x in extra])
    for x, a, b in zip(extra, r3, m3):
        evaluations += 1
        if a != b:
            corr_bad.append((0, "%s: real %s model %s" % (x, a, b), None))
    for (a, bdesc), real in zip(closure_cases, r3[n_find:]):
        spec = bdesc is not None and (a[0] == bdesc[0] or (a[1] == 1 and bdesc[1] == 1 and a[2] == bdesc[2] and not a[3] and not bdesc[3]))
        # (T is the asserted closure type: the compiler calls MatchesClosure only for closure T)
        if a[1] == 1 and (real == "1") != spec:
            spec_fail += 1
            named_only = bdesc is not None and bdesc[1] == 1 and a[2] == bdesc[2] and (a[3] or bdesc[3])
            key = "matchesclosure:named-func-type" if (real == "1" and named_only) else "matchesclosure:%s|%s" % (a, bdesc)
            ctx.report(key, "runtime MatchesClosure(T, V) = %s for T=%s V=%s (id, closure, $f type, named)" % (real, a, bdesc), {"T": a, "V": bdesc, "native": real})
    stats["findMethod/MatchesClosure lines"] = len(extra)

    # ---------------------------------------------------------------- (2b) interface ==, Equal functions, typehash
    dyn = run_dyn(ctx, harness, nat, modeld, stats)
    evaluations += dyn["evaluations"]
    spec_fail += dyn["spec_fail"]
    corr_bad += dyn["corr_bad"]
    specval_bad += dyn["specval_bad"]
    nontrivial |= dyn["nontrivial"]

    # ---------------------------------------------------------------- (3) end to end
    e2e_info = run_e2e(ctx, stats, pairs, pair_lines, pair_cmp, impls, impl_lines, specs, metas, pair_attrs)

    # ---------------------------------------------------------------- verdict
    if specval_bad:
        ctx.log("Lean spec disagrees with go/types on %d cases, first: %s" % (len(specval_bad), specval_bad[0]))
        ctx.broken.append("spec validation: Lean identical/implements vs go/types (%d cases)" % len(specval_bad))
        if not ctx.violations:
            ctx.report_broken("Spec/TypeIdent vs go/types oracle", {"first": [str(x)[:500] for x in specval_bad[:5]]})
    if corr_bad:
        ctx.log("correspondence mismatches: %d, first: %s" % (len(corr_bad), str(corr_bad[0])[:800]))
        ctx.broken.append("correspondence real vs Lean model (%d cases)" % len(corr_bad))
        if not ctx.violations:
            ctx.report_broken("correspondence C07 real-vs-model", {"first": [str(x)[:800] for x in corr_bad[:5]]})
    for name, s in st.items():
        if s != "ok":
            ctx.log("theorem", name, s)
    if any(s != "ok" for s in st.values()) and not ctx.violations:
        ctx.report_broken("Props/C07: " + ", ".join(n for n, s in st.items() if s != "ok"), st)

    ctx.coverage["samples"] = samples + [nat_lines[0] + "  ->  " + rout[0]] + dyn["samples"] + (e2e_info.get("samples", []))
    ctx.coverage["dynamic_equality"] = dyn["coverage"]
    ctx.coverage["e2e"] = {k: v for k, v in e2e_info.items() if k != "samples"}
    ctx.coverage["trusted_base"] += [
        "hand-written Lean model of ssa/abi TypeName + z_face scans, tied by differential runs (real ssa/abi imported by harness/c07; verbatim z_face.go under the native stand-ins)",
        "go/types (Identical, Implements, NewMethodSet, the type checker) of the go1.24 toolchain is the executable reading of the Go spec the real names are judged against; Spec/TypeIdent.lean is validated against it on every generated pair",
        "SHA-256 + base64url of the model driver (Driver/C07.lean, executable only; every generated name compares them with crypto/sha256)",
        "hash injectivity (collision-freeness of SHA-256) is a HYPOTHESIS of typeName_injective_partial, never an axiom",
        "Python generator + term serialiser in harness/c07/main.go (go/types value -> model term)",
    ]
    ctx.assumptions += ["ssa/abi is exercised on go/types values as the type checker produces them; llgo's own pre-processing of types (closure structs, patched packages, local generic renaming in cl/compile.go) is covered by the e2e part only",
                        "typeArgString's types.TypeString fall-back (func/struct/interface type arguments) is outside the model: such names are judged against go/types but not against the model"]
    return ctx.finish("proof", {"evaluations": evaluations, "distinct_nontrivial": len(nontrivial),
                               "rule": "one evaluation = one pair of types named by the real ssa/abi and by the model and judged by go/types, or one method-table case run through the verbatim z_face.go and the model; non-trivial = serialised term longer than 40 chars / any table case; distinct by text",
                               "input_distribution": stats, "spec_failures_on_real_code": spec_fail,
                               "correspondence_mismatches": len(corr_bad), "spec_validation_mismatches": len(specval_bad)})


def extract_direct_iface(ctx):
    """copy `func directIfaceType` out of ssa/abitype.go, verbatim, into a file of the harness package"""
    path = os.path.join(REPO, "ssa", "abitype.go")
    text = open(path).read()
    m = re.search(r'^func directIfaceType\(t types\.Type\) bool \{\n.*?^\}\n', text, flags=re.M | re.S)
    out = os.path.join(ctx.scratch, "c07_direct.go")
    if not m:
        # the function was renamed / its signature changed: the tie to the compiler's choice of KindDirectIface is gone
        ctx.broken.append("ssa/abitype.go: func directIfaceType(t types.Type) bool not found")
        ctx.report_broken("extraction of directIfaceType from ssa/abitype.go", {"file": path})
        body = "func directIfaceType(t types.Type) bool { return false }\n"
    else:
        body = m.group(0)
    open(out, "w").write("// verbatim copy of ssa/abitype.go directIfaceType (made by checks/c07.py)\npackage main\n\nimport \"go/types\"\n\n" + body)
    ctx.coverage.setdefault("extracted", []).append("ssa/abitype.go: func directIfaceType (verbatim, %d bytes)" % len(body))
    return out


def run_dyn(ctx, harness, nat, modeld, stats):
    """interface ==, the Equal functions and typehash / nilinterhash / interhash: real code (ssa/abi imported, directIfaceType
    verbatim, alg.go / z_face.go / hash64.go native copy) against the Lean model (Model/DynEq.lean) and against Go's == on values"""
    rng = ctx.rng
    quick = ctx.tier == "quick"
    res = {"evaluations": 0, "spec_fail": 0, "corr_bad": [], "specval_bad": [], "nontrivial": set(), "samples": [], "coverage": {}}
    types = dy.universe(rng, 90 if quick else 600)
    job = {"packages": [{"path": "vm/dyn", "src": dy.package_source(types)}]}
    jp = os.path.join(ctx.scratch, "dynjob.json")
    json.dump(job, open(jp, "w"))
    p = sh([harness, jp])
    if p.returncode != 0:
        raise RuntimeError("harness failed on the dyn job: %s %s" % (p.stdout[-3000:], p.stderr[-3000:]))
    descs, terms, gocmp = {}, {}, {}
    for line in p.stdout.split("\n"):
        if line.startswith("dyn "):
            head, term = line.split(" | ", 1)
            f = head.split(" ")
            i = int(f[1])
            gocmp[i] = f[2] == "1"
            descs[i], _ = dy.parse_desc(f[3:])
            terms[i] = term
    if len(descs) != len(types):
        raise RuntimeError("harness answered %d of %d dyn types" % (len(descs), len(types)))
    # ---- (a) the compiler's choice: model vs real, real vs specification
    mout, _, err = run_lines([modeld], ["dynty " + terms[i] for i in range(len(types))])
    if len(mout) != len(types):
        raise RuntimeError("model driver died on dynty: %s" % err[-1000:])
    unknown = {}
    for i, t in enumerate(types):
        res["evaluations"] += 1
        res["nontrivial"].add("dynty " + dy.src(t))
        k = dy.under(t)[0]
        stats["dyn:type:" + k] = stats.get("dyn:type:" + k, 0) + 1
        stats["dyn:type:" + ("comparable" if gocmp[i] else "uncomparable")] = stats.get("dyn:type:" + ("comparable" if gocmp[i] else "uncomparable"), 0) + 1
        if descs[i]["reg"]:
            stats["dyn:type:regular-memory"] = stats.get("dyn:type:regular-memory", 0) + 1
        if descs[i]["dir"]:
            stats["dyn:type:direct-iface"] = stats.get("dyn:type:direct-iface", 0) + 1
        mf = mout[i].split(" ", 3)
        real = dy.desc_str(descs[i])
        complaints = dy.judge_desc(t, descs[i], gocmp[i])
        for c in complaints:
            res["spec_fail"] += 1
            unknown["desc"] = unknown.get("desc", 0) + 1
            if unknown["desc"] <= 3:
                ctx.report("dyn:descriptor:%s:%s" % (dy.src(t)[:80], c[:60]), "the descriptor ssa/abi emits for a type contradicts Go's rules for == / hashing: " + c,
                           {"type": dy.src(t), "descriptor": real, "legend": "kind size regular direct Equal …", "go/types.Comparable": gocmp[i]})
        if len(mf) != 4:
            res["corr_bad"].append((i, "dynty: model answered " + mout[i], dy.src(t)))
            continue
        if mf[3] != real:
            res["corr_bad"].append((i, "descriptor of %s: real %s model %s" % (dy.src(t), real, mf[3]), None))
        if (mf[0] == "1") != gocmp[i]:
            res["specval_bad"].append((i, dy.src(t), "comparable", gocmp[i], mf[0]))
        if (mf[2] == "1") != dy.blank_direct(t):
            res["specval_bad"].append((i, dy.src(t), "blankDirect", dy.blank_direct(t), mf[2]))
        if mf[1] != "1" and not complaints:
            res["specval_bad"].append((i, dy.src(t), "layoutOK false on a real layout", real, mf[1]))
    # ---- (b) run-time functions on memory images
    ia = next(i for i, t in enumerate(types) if dy.src(t) == "any")
    ii = next(i for i, t in enumerate(types) if dy.src(t) == "interface{ M() }")
    dyn_pool = [i for i, t in enumerate(types) if dy.under(t)[0] != "iface"]
    vg = dy.ValGen(rng, types, descs, dyn_pool)
    enc = dy.Encoder(rng, types, descs)
    hk = [rng.getrandbits(64) for _ in range(4)]
    script = [rng.getrandbits(32) for _ in range(64)]
    # alg.go readUnaligned32/64 read by goarch.BigEndian, a constant of the working tree (true on amd64 in the pinned tree: the
    # build tags of goarch/endian_big.go and endian_little.go are swapped; harmless for hashing): the native copy reports it
    be, _, _ = run_lines([nat], ["endian"])
    setup = ["hkey %d %d %d %d" % tuple(hk), "rnd " + " ".join(map(str, script))] + ["D %d %s" % (i, dy.desc_str(descs[i])) for i in range(len(types))]
    cases = []      # (line, kind, meta)

    def face(pos, v):
        return enc.obj(types[pos], descs[pos], v)

    def add_eq(pos, a, b, label):
        """a, b: interface VALUES ('nil',) | ('i', ti, v) in a position of static type types[pos]"""
        want = dy.iface_eq(types, a, b)
        seed = rng.getrandbits(64)
        meta = {"label": label, "static": dy.src(types[pos]), "a": a, "b": b, "want": want}
        cases.append(("eq %s | %s" % (face(pos, a), face(pos, b)), "eq", meta))
        cases.append(("eq %s | %s" % (face(pos, b), face(pos, a)), "eq-swapped", meta))
        hk_ = "iface" if descs[pos]["nmeth"] > 0 else "nilinter"
        cases.append(("hash %s %d %s" % (hk_, seed, face(pos, a)), "hash-a", meta))
        cases.append(("hash %s %d %s" % (hk_, seed, face(pos, b)), "hash-b", meta))

    def add_key(ti, a, b, label):
        """a, b values of the (comparable) type types[ti] used as a map key: t.Equal and typehash(t, …)"""
        t = types[ti]
        want = dy.go_eq(types, t, a, b)
        seed = rng.getrandbits(64)
        meta = {"label": label, "key": dy.src(t), "ti": ti, "a": a, "b": b, "want": want}
        cases.append(("heq %d %s | %s" % (ti, enc.obj(t, descs[ti], a), enc.obj(t, descs[ti], b)), "heq", meta))
        cases.append(("thash %d %d %s" % (ti, seed, enc.obj(t, descs[ti], a)), "thash-a", meta))
        cases.append(("thash %d %d %s" % (ti, seed, enc.obj(t, descs[ti], b)), "thash-b", meta))

    reps = 2 if quick else 12
    for ti in dyn_pool:
        t = types[ti]
        for rep in range(reps):
            v = vg.val(t)
            pos = ii if rng.random() < 0.2 else ia
            add_eq(pos, ("i", ti, v), ("i", ti, v), "same-value")
            w, ch = vg.mutate(t, v)
            add_eq(pos, ("i", ti, v), ("i", ti, w), "one-leaf-changed" if ch else "same-value")
            z = vg.flip_zero(t, v)
            if z != v:
                add_eq(pos, ("i", ti, v), ("i", ti, z), "zero-sign-flipped")
            if rep == 0:
                add_eq(pos, ("i", ti, v), ("nil",), "nil-vs-value")
                tj = rng.choice(dyn_pool)
                add_eq(pos, ("i", ti, v), ("i", tj, vg.val(types[tj])), "random-other-type" if tj != ti else "same-type-other-value")
                # near-miss type: same size, same bytes
                same_size = [j for j in dyn_pool if j != ti and descs[j]["size"] == descs[ti]["size"]]
                if same_size:
                    tj = rng.choice(same_size)
                    add_eq(pos, ("i", ti, v), ("i", tj, vg.val(types[tj])), "other-type-same-size")
    add_eq(ia, ("nil",), ("nil",), "nil-nil")
    add_eq(ii, ("nil",), ("nil",), "nil-nil")
    # corpus: the witness of Props/C07 efaceEqual_spec_counterexample, `type NB struct{ _ *int }` with the blank field holding 1 / 2
    nb = next(i for i, t in enumerate(types) if dy.src(t) == "NB")
    add_eq(ia, ("i", nb, ("agg", [("w", 1)])), ("i", nb, ("agg", [("w", 2)])), "corpus:blank-pointer-field")
    # map keys of every comparable type (the Hasher of a map type is typehash closed over the key descriptor)
    key_types = [i for i, t in enumerate(types) if gocmp[i]]
    for ti in key_types:
        t = types[ti]
        for rep in range(reps):
            v = vg.val(t)
            add_key(ti, v, v, "same-value")
            w, ch = vg.mutate(t, v)
            add_key(ti, v, w, "one-leaf-changed" if ch else "same-value")
            z = vg.flip_zero(t, v)
            if z != v:
                add_key(ti, v, z, "zero-sign-flipped")
    # ---- malformed / boundary descriptors: the run time is followed off the compiler's path too (model vs native only)
    mal = []
    def find(srcs):
        return next(i for i, t in enumerate(types) if dy.src(t) == srcs)
    def mdesc(mid, d):
        setup.append("D %d %s" % (mid, dy.desc_str(d)))
    import copy
    mid = 100000
    for (srcs, edit, what) in [
        ("struct{ a int8; b int64 }", lambda d: d.update(reg=True), "regular flag on a padded struct"),
        ("struct{ a float64; b int }", lambda d: d.update(reg=True), "regular flag on a struct with a float"),
        ("struct{ _ int; x int }", lambda d: d.update(reg=True), "regular flag on a struct with a blank field"),
        ("int64", lambda d: d.update(eq="-"), "nil Equal on int64"),
        ("int64", lambda d: d.update(eq="memequal32"), "memequal32 on int64"),
        ("uint64", lambda d: d.update(reg=False, pkind="f64"), "uint64 hashed as float64"),
        ("uint64", lambda d: d.update(reg=False), "integer without the regular flag"),
        ("[2]float64", lambda d: d.update(len=1), "array descriptor with a shorter length"),
        ("struct{ a int; b any }", lambda d: d["fields"][0][2].update(eq="-"), "struct whose field has a nil Equal"),
        ("struct{ a int; b any }", lambda d: d["fields"].__setitem__(1, (True, d["fields"][1][1], d["fields"][1][2])), "second field marked blank"),
        ("string", lambda d: d.update(eq="memequal128"), "memequal128 on a string header"),
        ("complex128", lambda d: d.update(eq="f64equal"), "f64equal on complex128"),
        ("float32", lambda d: d.update(pkind="other"), "float32 of kind other"),
    ]:
        try:
            ti = find(srcs)
        except StopIteration:
            continue
        d = copy.deepcopy(descs[ti])
        edit(d)
        mid += 1
        mdesc(mid, d)
        t = types[ti]
        for rep in range(6 if quick else 40):
            v = vg.val(t)
            w = v if rep % 2 == 0 else vg.mutate(t, v)[0]
            seed = rng.getrandbits(64)
            a_img, b_img = enc.obj(t, descs[ti], v), enc.obj(t, descs[ti], w)
            if "string" in srcs:
                # (string data pointers are real addresses natively: only lengths are comparable -> skip byte-reading variants)
                continue
            mal.append(("heq %d %s | %s" % (mid, a_img, b_img), what))
            mal.append(("thash %d %d %s" % (mid, seed, a_img), what))
            mal.append(("thash %d %d %s" % (mid, seed, b_img), what))
            fa = "e 0 %d %d %s" % (mid, 0, a_img)
            fb = "e 0 %d %d %s" % (mid, 0, b_img)
            mal.append(("eq %s | %s" % (fa, fb), what))
            mal.append(("hash nilinter %d %s" % (seed, fa), what))
    lines = setup + [c[0] for c in cases] + [m[0] for m in mal]
    rout, rrc, rerr = run_lines([nat], lines)
    mout2, mrc, merr = run_lines([modeld], ["endian " + (be[0] if be else "0")] + lines)
    mout2 = mout2[1:]
    res["coverage"]["goarch.BigEndian_on_this_target"] = (be[0] == "1") if be else None
    if len(rout) != len(lines) or len(mout2) != len(lines):
        ctx.log("dyn: native answered %d, model %d of %d lines; native stderr: %s; model stderr: %s" % (len(rout), len(mout2), len(lines), rerr[-600:], merr[-300:]))
        ctx.broken.append("dyn: native / model driver died")
        if not ctx.violations:
            ctx.report_broken("dynamic-equality run (native copy of alg.go / z_face.go or the model driver died)",
                              {"native_lines": len(rout), "model_lines": len(mout2), "of": len(lines), "native_stderr": rerr[-800:],
                               "next_line": lines[min(len(rout), len(mout2))][:400] if min(len(rout), len(mout2)) < len(lines) else ""})
        return res
    norm = lambda s: "wild" if s == "crash" else s
    n0 = len(setup)
    for k in range(n0):
        if rout[k] != "ok" or mout2[k] != "ok":
            res["corr_bad"].append((k, "dyn setup line %s: native %s model %s" % (lines[k][:120], rout[k], mout2[k]), None))
    # correspondence: every line, verdicts, panics, hash values, fastrand calls
    for k in range(n0, len(lines)):
        res["evaluations"] += 1
        if norm(rout[k]) != norm(mout2[k]):
            what = cases[k - n0][2]["label"] if k - n0 < len(cases) else "malformed descriptor: " + mal[k - n0 - len(cases)][1]
            res["corr_bad"].append((k, "dyn %s: native %s model %s on %s" % (what, rout[k], mout2[k], lines[k][:600]), None))
    stats["dyn:malformed-descriptor lines"] = len(mal)
    # the specification, on the REAL outputs
    def show(v):
        return repr(v)[:400]
    reported = {}
    def rep(key, what, obj, known_class=None):
        res["spec_fail"] += 1
        cls = known_class or ":".join(key.split(":")[:2])
        reported[cls] = reported.get(cls, 0) + 1
        if reported[cls] <= 3:
            ctx.report(known_class or key, what, obj)
    k = n0
    group = {}
    for (line, kind, meta) in cases:
        out = rout[k]
        k += 1
        res["nontrivial"].add(line)
        stats["dyn:" + kind.split("-")[0] + ":" + meta["label"]] = stats.get("dyn:" + kind.split("-")[0] + ":" + meta["label"], 0) + 1
        want = meta["want"]
        wants = {True: "1", False: "0", "panic": "panic:uncomparable"}[want]
        if kind in ("eq", "eq-swapped"):
            stats["dyn:eq:" + wants] = stats.get("dyn:eq:" + wants, 0) + 1
            if out != wants:
                a, b = meta["a"], meta["b"]
                tsrc = dy.src(types[a[1]]) if a[0] == "i" else "nil"
                # (the data-word shortcut on a blank pointer field answers "unequal" where Go goes on comparing: true or a later panic)
                blank = a[0] == "i" and b[0] == "i" and a[1] == b[1] and want is not False and out == "0" and blank_direct_inside(types, types[a[1]], a[2])
                rep("dyn:eq:%s|%s" % (tsrc[:80], meta["label"]),
                    "EfaceEqual (interface ==) on two values of dynamic type %s gives %s, Go's == gives %s" % (tsrc, out, wants),
                    {"static_type": meta["static"], "a": show(a), "b": show(b), "real": out, "go": wants, "line": line[:800], "generator_label": meta["label"],
                     "value_legend": "('i', type index, value) | ('nil',); value: ('w', int) ('c', re, im) ('s', bytes) ('agg', [fields incl. blank ones])"},
                    known_class="dyn:eq:blank-pointer-field-direct" if blank else None)
            group = {"eq": out}
        elif kind == "heq":
            stats["dyn:heq:" + wants] = stats.get("dyn:heq:" + wants, 0) + 1
            if out != wants:
                blank = want is not False and out == "0" and blank_direct_inside(types, types[meta["ti"]], meta["a"])
                rep("dyn:keyeq:%s|%s" % (meta["key"][:80], meta["label"]),
                    "the Equal function of type %s gives %s on two values, Go's == gives %s" % (meta["key"], out, wants),
                    {"type": meta["key"], "a": show(meta["a"]), "b": show(meta["b"]), "real": out, "go": wants, "line": line[:800]},
                    known_class="dyn:eq:blank-pointer-field-direct" if blank else None)
            group = {"eq": out}
        elif kind in ("hash-a", "thash-a"):
            group["ha"] = out
            group["a_line"] = line
        elif kind in ("hash-b", "thash-b"):
            ha, hb = group.get("ha"), out
            if "key" in meta:
                t, a, b = types[meta["ti"]], meta["a"], meta["b"]
                ua, ub = dy.unhashable(types, t, a), dy.unhashable(types, t, b)
                na = dy.nan_count(types, t, a)
                tsrc = meta["key"]
            else:
                a, b = meta["a"], meta["b"]
                anyt = types[ia]
                ua, ub = dy.unhashable(types, anyt, a), dy.unhashable(types, anyt, b)
                na = dy.nan_count(types, anyt, a)
                tsrc = dy.src(types[a[1]]) if a[0] == "i" else "nil"
            for (side, u, h, v) in (("a", ua, ha, a), ("b", ub, hb, b)):
                if u != (h == "panic:unhashable") and not (h == "panic:unhashable" and False):
                    # (a NaN in front of an unhashable part still panics: hashing visits every non-blank part)
                    rep("dyn:hash-panic:%s|%s" % (tsrc[:80], meta["label"]),
                        "hashing a value of type %s %s, the value is %s" % (tsrc, "panics" if h.startswith("panic") else "does not panic", "unhashable" if u else "hashable"),
                        {"type": tsrc, "value": show(v), "real": h})
            if group.get("eq") == "1" and not ua and not ub:
                stats["dyn:hash:equal-pairs"] = stats.get("dyn:hash:equal-pairs", 0) + 1
                if ha != hb or not ha.endswith(" 0"):
                    rep("dyn:hash-of-equal:%s|%s" % (tsrc[:80], meta["label"]),
                        "a == b but hash(a) != hash(b) (or the hash drew a random number) for type %s" % tsrc,
                        {"type": tsrc, "a": show(a), "b": show(b), "hash_a": ha, "hash_b": hb, "line_a": group.get("a_line", "")[:600], "line_b": line[:600]})
            if not ua and ha and not ha.startswith("panic") and ha.split(" ")[1] != str(na):
                rep("dyn:hash-nan:%s|%s" % (tsrc[:80], meta["label"]), "number of fastrand calls while hashing (%s) differs from the number of NaN parts (%d)" % (ha, na),
                    {"type": tsrc, "a": show(a), "real": ha})
    res["samples"] = [{"dyn_case": cases[0][0][:300], "native": rout[n0], "model": mout2[n0]},
                      {"dyn_case": cases[-1][0][:300], "native": rout[n0 + len(cases) - 1], "model": mout2[n0 + len(cases) - 1]}]
    res["coverage"].update({"types": len(types), "comparable_types": len(key_types), "cases": len(cases), "malformed_descriptor_lines": len(mal),
                       "hashkey": hk, "rule": "one evaluation = one line (EfaceEqual / t.Equal / nilinterhash / interhash / typehash call) run through the verbatim runtime code and the Lean model; verdicts, panic classes, 64-bit hash values and fastrand call counts compared"})
    ctx.log("dyn: %d types, %d run-time cases, %d malformed-descriptor lines through native alg.go/z_face.go and the model" % (len(types), len(cases), len(mal)))
    return res


def blank_direct_inside(types, t, v):
    """does the value (of type t) contain, in a compared position, an interface whose dynamic type is pointer shaped with the word in
    a blank field (or is t itself such a type, for a top-level dynamic value)"""
    if dy.blank_direct(t):
        return True
    u = dy.under(t)
    if u[0] == "iface":
        return v[0] == "i" and blank_direct_inside(types, types[v[1]], v[2])
    if u[0] == "array":
        return any(blank_direct_inside(types, u[2], x) for x in v[1])
    if u[0] == "struct":
        return any(name != "_" and blank_direct_inside(types, ft, x) for (name, ft), x in zip(u[1], v[1]))
    return False


def run_native(binary, lines, max_crashes=12):
    """feed the lines to the native binary; if it dies, note the line it died on and restart behind it.
    -> (one output per line: answer | 'crash' | 'skipped', [(line index, stderr tail)])"""
    out, crashes = [], []
    while len(out) < len(lines):
        res, rc, err = run_lines([binary], lines[len(out):])
        out += res
        if len(out) < len(lines):
            crashes.append((len(out), err[-500:]))
            out.append("crash")
            if len(crashes) >= max_crashes:
                out += ["skipped"] * (len(lines) - len(out))
    return out, crashes


def scan_py(t, v):
    """the two-index scan of Implements"""
    if not t:
        return True
    i = 0
    for vm in v:
        if vm[0] == t[i][0] and vm[1] == t[i][1]:
            i += 1
            if i >= len(t):
                return True
    return False


GENERIC_LOCAL_SRC = """
func glMk[T any]() any {
	type X struct{ v T }
	return X{}
}

func glUse1() any {
	type T int
	return glMk[T]()
}

func glUse2() any {
	type T int
	return glMk[T]()
}

func glAlias[T any]() any {
	type X struct{ v T }
	type Y = X
	var y Y
	return y
}

func glClosure[X any]() (func(X) any, func(any) bool) {
	type box struct{ v X }
	return func(x X) any { return box{x} }, func(a any) bool { _, ok := a.(box); return ok }
}

func glClosureCross() int {
	mkI, isI := glClosure[int]()
	mkS, isS := glClosure[string]()
	code := 0
	for _, b := range []bool{isI(mkI(1)), isI(mkS("x")), isS(mkS("x")), isS(mkI(1))} {
		code *= 2
		if b {
			code++
		}
	}
	return code
}

func glNested[T any]() any {
	type X struct{ v T }
	return []map[string]*X{}
}
"""
GENERIC_LOCAL_CASES = [
    ("plain", "glMk[int]() == glMk[string](), glMk[int]() == glMk[int](), glMk[p.T]() == glMk[q.T]()"),
    ("nested", "glNested[int]() == nil, func() bool { _, ok := glNested[int]().([]map[string]*struct{ v int }); return ok }()"),
    ("outer-local-type-argument", "glUse1() == glUse2(), glUse1() == glUse1()"),
    ("alias", "glAlias[int]() == glAlias[string](), glAlias[int]() == glAlias[int]()"),
    ("closure", "glClosureCross()"),
]
GENERIC_LOCAL_WHAT = {
    "outer-local-type-argument": "instances of a generic function's local type over two different function-local types of the same name are one dynamic type",
    "alias": "a local alias of a generic function's local type is not renamed per instantiation: al[int]() == al[string]()",
    "closure": "a generic function's local type used inside its closures is not kept apart per instantiation",
}

E2E_PRELUDE_EXTRA = """
func init() { _ = unsafe.Pointer(nil) }
"""


def e2e_package(pkg, body):
    imports = ['import "unsafe"'] + ['import %s "%s/%s"' % (i, tg.MOD, i) for i in IMPORTS[pkg]]
    uses = ["var _ unsafe.Pointer", "const pkgID = %d" % (PKG_ORDER.index(pkg) + 1)] + ["var _ %s.T" % i for i in IMPORTS[pkg]]
    name = "main" if pkg == "r" else pkg
    return "package %s\n\n%s\n\n%s\n%s\n%s\n" % (name, "\n".join(imports), "\n".join(uses), tg.PRELUDE_COMMON, body)


def run_e2e(ctx, stats, pairs, pair_lines, pair_cmp, impls, impl_lines, specs, metas, pair_attrs):
    """One generated three-package program; every case prints one line; the same source is built by llgo (from the
    working tree) and by the reference toolchain, the two outputs are compared line by line."""
    from vlib import e2e
    quick = ctx.tier == "quick"
    want_pairs = 60 if quick else 400
    want_impl = 12 if quick else 200
    by_idx = {pl[0]: pl for pl in pair_lines}
    chosen = []
    # corpus first (incl. every known-finding witness), then a spread over the generator's labels
    seen_labels = {}
    for idx, (label, pr) in enumerate(pairs):
        homes = {pr["a"][1], pr["b"][1]}
        if homes - {"p", "q", "r"}:
            continue
        if re.search(r'[{;]\s*\*?(?:\w+\.)?[GH]\[', pr["a"][0] + " " + pr["b"][0]):
            # llgo panics ("invalid recv type") on an unnamed struct embedding a generic instance with methods
            # (C15 known finding emit:struct-embedding-generic-instance): keep the shape out of the shared program
            stats["e2e:skipped-struct-embedding-generic-instance"] = stats.get("e2e:skipped-struct-embedding-generic-instance", 0) + 1
            continue
        is_corpus = label.startswith("corpus:") or label.startswith("local-")
        if quick and label.startswith("local-") and idx % 3 != 0:
            continue
        key = label
        if not is_corpus:
            if seen_labels.get(key, 0) >= (1 if quick else 8) or len(chosen) >= want_pairs:
                continue
            if len(pr["a"][0]) > 160 or len(pr["b"][0]) > 160:
                continue
        seen_labels[key] = seen_labels.get(key, 0) + 1
        chosen.append(idx)
    bodies = {"p": [], "q": [], "r": []}
    main_calls = []
    case_meta = []      # (kind, idx)
    for idx in chosen:
        label, pr = pairs[idx]
        (sa, ha, la), (sb, hb, lb) = pr["a"], pr["b"]
        cmpf = pair_cmp.get(idx, "00")
        cn = len(case_meta)
        if la is not None or lb is not None:
            if cmpf != "11":
                continue
            # local types: values escape through `any`; compared with == and as map keys
            loc = {}
            for side, (src, home, site) in (("a", pr["a"]), ("b", pr["b"])):
                stmt = "v%s = *new(%s)" % (side, src)
                if site is None:
                    loc.setdefault(0, []).append(stmt)
                else:
                    loc.setdefault(site, []).append(stmt)
            fn = tg.local_function(cn, loc).replace("func fa%d() {" % cn, "func fa%d() (va, vb any) {" % cn, 1) \
                .replace("func fb%d() {" % cn, "func fb%d(va, vb any) (any, any) {" % cn, 1)
            # fa returns at the end; fb (site 5) receives and returns
            fn = fn.replace("\n}\n\nfunc fb%d" % cn, "\n\treturn\n}\n\nfunc fb%d" % cn, 1)
            fn = fn.rstrip()[:-1] + "\treturn va, vb\n}\n"
            bodies["r"].append(fn)
            bodies["r"].append("func case%d() {\n\tva, vb := fa%d()\n\tva, vb = fb%d(va, vb)\n\tm := map[any]int{va: 1}\n\tm[vb] = 2\n\tprintln(%d, \"local\", va == vb, len(m))\n}\n" % (cn, cn, cn, cn))
            case_meta.append(("pair", idx))
            main_calls.append("case%d()" % cn)
            continue
        # value of type A made in A's home package, asserted to B in B's home package
        mk = "func Mk%d() any { return *new(%s) }" % (cn, sa)
        isf = "func Is%d(v any) (bool, bool) {\n\t_, ok := v.(%s)\n\tsw := false\n\tswitch v.(type) {\n\tcase %s:\n\t\tsw = true\n\t}\n\treturn ok, sw\n}" % (cn, sb, sb)
        mkb = "func MkB%d() any { return *new(%s) }" % (cn, sb)
        bodies[ha].append(mk)
        bodies[hb].append(isf)
        bodies[hb].append(mkb)
        qa = "" if ha == "r" else ha + "."
        qb = "" if hb == "r" else hb + "."
        extra = ""
        if cmpf == "11":
            extra = "\tm := map[any]int{%sMk%d(): 1}\n\tm[%sMkB%d()] = 2\n\tprintln(%d, \"eq\", %sMk%d() == %sMkB%d(), len(m))\n" % (qa, cn, qb, cn, cn, qa, cn, qb, cn)
        bodies["r"].append("func case%d() {\n\tok, sw := %sIs%d(%sMk%d())\n\tprintln(%d, \"assert\", ok, sw)\n%s}\n" % (cn, qb, cn, qa, cn, cn, extra))
        case_meta.append(("pair", idx))
        main_calls.append("case%d()" % cn)
    # local types of GENERIC functions (cl/compile.go renames them per instantiation): distinct instantiations must yield distinct
    # dynamic types, also when the type argument is itself a local type, through a local alias, and inside closures
    bodies["r"].append(GENERIC_LOCAL_SRC)
    for key, expr in GENERIC_LOCAL_CASES:
        cn = len(case_meta)
        bodies["r"].append("func case%d() {\n\tprintln(%d, \"generic-local\", %s)\n}\n" % (cn, cn, expr))
        case_meta.append(("generic-local", key))
        main_calls.append("case%d()" % cn)
    # uncomparable dynamic types: interface == and map[any] insertion must PANIC exactly as under the reference build
    # (a blank field counts: struct{ _ [0]func(); x int } is the "make it incomparable" idiom)
    for usrc in ["struct{ _ [0]func(); x int }", "[2]struct{ _ [0]func(); x int }", "struct{ F struct{ _ [0]func(); x int }; G int }",
                 "struct{ _ []int; x int }", "struct{ x int; _ map[int]int }", "struct{ _ func() }", "[1][]int", "struct{ a int; f func() }",
                 "struct{ _ [0]uint64; x int }", "struct{ _ int; x int }", "[0]func()", "struct{ _ [0]struct{ _ []int }; y uint8 }"]:
        cn = len(case_meta)
        bodies["r"].append(("func case%d() {\n\tvar a, b any = *new(%s), *new(%s)\n"
                            "\tfunc() {\n\t\tdefer func() { println(%d, \"eq-panicked\", recover() != nil) }()\n\t\tprintln(%d, \"eq\", a == b)\n\t}()\n"
                            "\tfunc() {\n\t\tdefer func() { println(%d, \"map-panicked\", recover() != nil) }()\n\t\tm := map[any]int{}\n\t\tm[a] = 1\n\t\tm[b] = 2\n\t\tprintln(%d, \"map\", len(m))\n\t}()\n}\n")
                           % (cn, usrc, usrc, cn, cn, cn, cn))
        case_meta.append(("uncomparable", usrc))
        main_calls.append("case%d()" % cn)
    # interface == / interface-keyed maps / maps keyed by structs with float, string, interface and blank parts / type switches over a
    # value universe (ints, floats incl. NaN and both zeros, strings behind different pointers, pointers, channels, arrays and structs of
    # those, nested interfaces, uncomparable kinds): what EfaceEqual, the Equal functions and typehash decide in the compiled program
    ddecl, dcases = dy.e2e_cases(ctx.rng, len(case_meta))
    bodies["r"].append(ddecl)
    for (dkind, dref, dbody) in dcases:
        cn = len(case_meta)
        bodies["r"].append("func case%d() {\n%s}\n" % (cn, dbody))
        case_meta.append((dkind, dref))
        main_calls.append("case%d()" % cn)
    # a method called through an interface must be the method a direct call reaches: interface{ p.Ka; q.Ka } has TWO methods
    # named `a` (one per package); each package's generic CallKa calls ITS `a` through a value of that interface type
    cn = len(case_meta)
    bodies["r"].append(("func case%d() {\n\tvar b interface {\n\t\tp.Ka\n\t\tq.Ka\n\t} = struct {\n\t\tp.Xa\n\t\tq.Xa2\n\t}{}\n"
                        "\tprintln(%d, \"imethod\", p.CallKa(b), q.CallKa(b))\n\tprintln(%d, \"converted\", p.CallKa[p.Ka](b), q.CallKa[q.Ka](b))\n}\n") % (cn, cn, cn))
    case_meta.append(("imethod", "interface{ p.Ka; q.Ka } over struct{ p.Xa; q.Xa2 }"))
    main_calls.append("case%d()" % cn)
    # implements cases (home r only), with the method call through the interface for two known interfaces
    n_impl = 0
    late_bodies, late_calls = [], []
    for i, line in enumerate(impl_lines):
        (op, itf, home), t, v, op_is_iface = metas[i]
        if home != "r" or n_impl >= want_impl and i >= len(IMPL_FIXED):
            continue
        if i >= len(IMPL_FIXED) and (i * 7919) % 11 != 0:
            continue
        cn = len(case_meta)
        has_m = itf.split(".")[-1] in ("I", "J", "AI") or "M() int" in itf
        # a non-nil operand value (a value method called through a nil pointer panics under Go as well); no calls at all where a
        # method is promoted through an embedded POINTER field (nil in the zero value)
        opval = "new(%s)" % op[1:] if op.startswith("*") else "*new(%s)" % op
        if re.search(r'[{;]\s*\*', op) or op.split(".")[-1] in ("Em", "*Em"):
            has_m = False
        call = ""
        if has_m and specs[i]:
            call = "\tif ok {\n\t\tprintln(%d, \"call\", i.M())\n\t}\n" % cn
        bodies["r"].append("func case%d() {\n\tvar v any = %s\n\ti, ok := v.(%s)\n\t_ = i\n\tprintln(%d, \"impl\", ok)\n%s}\n" % (cn, opval, itf, cn, call))
        case_meta.append(("impl", i))
        main_calls.append("case%d()" % cn)
        n_impl += 1
        if specs[i] and not op_is_iface:
            # the STATIC conversion (MakeInterface -> NewItab) and a call through every slot we can name: the method reached must be
            # the one a direct call reaches (its return value identifies package and receiver type).  These run last: an itab with
            # an empty slot crashes the program
            cn = len(case_meta)
            uses = []
            if has_m:
                uses.append("s.M()")
            if itf.split(".")[-1] == "Uni":
                uses.append("%sUseUni(s)" % ("" if "." not in itf else itf.split(".")[0] + "."))
            if "p.Kz" in itf and "q.Kc" in itf:
                uses += ["p.CallZed(s)", "q.CallAlpha(s)"]
            if itf == "p.Kz":
                uses.append("p.CallZed(s)")
            if uses:
                late_bodies.append("func case%d() {\n\tvar s %s = %s\n\tprintln(%d, \"static\", %s)\n}\n" % (cn, itf, opval, cn, ", ".join(uses)))
                case_meta.append(("static", i))
                late_calls.append("case%d()" % cn)
    bodies["r"] += late_bodies
    main_calls += late_calls
    bodies["r"].append("func main() {\n\t" + "\n\t".join(main_calls) + "\n}\n")
    files = {"p/p.go": e2e_package("p", "\n".join(bodies["p"])), "q/q.go": e2e_package("q", "\n".join(bodies["q"])),
             "main.go": e2e_package("r", "\n".join(bodies["r"]))}
    d = os.path.join(ctx.scratch, "e2e-prog")
    e2e.write_module(d, files, modname=tg.MOD)
    info = {"ran": True, "cases": len(case_meta)}
    ref = e2e.go_run_reference(ctx, d, os.path.join(d, "ref.bin"))
    if ref.returncode != 0:
        raise RuntimeError("the generated e2e program is not valid Go (generator bug): " + (ref.stdout + ref.stderr)[-3000:])
    ctx.log("e2e: reference build done (%d cases)" % len(case_meta))
    e2e.build_llgo(ctx)
    ctx.log("e2e: llgo built from the working tree")
    p = e2e.llgo_build(ctx, d, os.path.join(d, "llgo.bin"))
    ctx.log("e2e: program compiled by llgo")
    if p.returncode != 0:
        ctx.log("llgo failed to build the e2e program:\n" + (p.stdout + p.stderr)[-3000:])
        ctx.broken.append("e2e: llgo cannot build the generated program")
        ctx.report_broken("e2e build of the C07 program", (p.stdout + p.stderr)[-3000:])
        info["ran"] = False
        return info
    ro, re_, rrc = e2e.run_prog(os.path.join(d, "ref.bin"))
    lo, le, lrc = e2e.run_prog(os.path.join(d, "llgo.bin"))
    if rrc != 0:
        raise RuntimeError("the generated e2e program fails under the REFERENCE toolchain (generator bug), exit %s: %s" % (rrc, re_[-1500:]))
    rl = [x for x in re_.split("\n") if x]
    ll = [x for x in le.split("\n") if x]
    info["reference_lines"] = len(rl)
    info["llgo_lines"] = len(ll)
    info["exit"] = {"reference": rrc, "llgo": lrc}
    refmap, llmap = {}, {}
    for x in rl:
        f = x.split(" ", 2)
        refmap.setdefault(f[0], []).append(x)
    for x in ll:
        f = x.split(" ", 2)
        llmap.setdefault(f[0], []).append(x)
    diffs = 0
    crashed = lrc != rrc
    crash_reported = False
    for cn, (kind, ref_i) in enumerate(case_meta):
        a, b = refmap.get(str(cn), ["<missing>"]), llmap.get(str(cn), ["<missing>"])
        stats["e2e:" + kind] = stats.get("e2e:" + kind, 0) + 1
        if a == b:
            continue
        diffs += 1
        if crashed and b == ["<missing>"]:
            # the llgo-built program died (exit %s vs %s): the first case without output is the one that killed it
            if not crash_reported:
                crash_reported = True
                what = metas[ref_i][0] if kind in ("impl", "static") else (pairs[ref_i][1] if kind == "pair" else ref_i)
                ctx.report("e2e:crash:%s:%s" % (kind, str(what)[:120]), "the program built by llgo dies (exit status %s, reference %s) in this case" % (lrc, rrc),
                           {"case_kind": kind, "case": str(what), "reference_go": a, "llgo_last_lines": ll[-3:], "llgo_stderr_tail": le[-600:]})
            continue
        if kind == "static":
            (op, itf, home), t, v, op_is_iface = metas[ref_i]
            ctx.report("e2e:static-call:%s|%s" % (op, itf), "a method called through a statically converted interface value is not the method a direct call reaches",
                       {"operand": op, "interface": itf, "reference_go": a, "llgo": b})
            continue
        if kind == "generic-local":
            # (the closure class carries the key C01 lists it under, so the two entries correlate)
            gkey = "generic:local-type-in-closure-shared-across-instantiations" if ref_i == "closure" else "e2e:generic-local:" + ref_i
            ctx.report(gkey, GENERIC_LOCAL_WHAT.get(ref_i, ref_i), {"case": ref_i, "reference_go": a, "llgo": b})
            continue
        if kind == "imethod":
            ctx.report("e2e:imethod-slot-by-name", "a method called through an interface value is not the method a direct call reaches", {"case": ref_i, "reference_go": a, "llgo": b})
            continue
        if kind.startswith("dyn-"):
            # the first differing line names the row (value index) / the map operation
            first = next(((x, y) for x, y in zip(a, b) if x != y), (a[:1], b[:1]))
            ctx.report("e2e:%s:%s" % (kind, str(first[0])[:100]), "interface == / map keyed by interface or struct values / type switch behaves differently from the reference build: " + ref_i,
                       {"case": ref_i, "reference_go_first_difference": first[0], "llgo_first_difference": first[1], "reference_lines": len(a), "llgo_lines": len(b),
                        "values": "vlib/c07_dyn.py E2E_VALUES (index = row / column)"})
            continue
        if kind == "uncomparable":
            ctx.report("e2e:uncomparable:%s" % ref_i, "interface == / map[any] insertion on a value of an uncomparable (or comparable) type behaves differently from the reference build",
                       {"type": ref_i, "reference_go": a, "llgo": b})
            continue
        if kind == "pair":
            label, pr = pairs[ref_i]
            why = by_idx[ref_i][4]
            ident = by_idx[ref_i][1]
            pre = "diffname:" if ident else "samename:"
            keys = [pre + w for w in why.split("+")] if why != "-" else []
            rep = {"a": pr["a"], "b": pr["b"], "reference_go": a, "llgo": b, "generator_label": label}
            attrs = pair_attrs.get(ref_i, "-")
            if not keys and attrs == "named-func-vs-underlying":
                # names differ (ssa/abi is right); the run-time test for closure types ignores the NAME
                keys = ["e2e:named-func-type-identified-with-underlying"]
            elif not keys and attrs == "tag" and "func" in pr["a"][0] and "func" in pr["b"][0]:
                # names differ (tags are hashed); package ssa rebuilds a struct with a func-typed field WITHOUT its tags
                keys = ["e2e:struct-tags-dropped-with-func-field"]
            if keys and all(ctx.match_known(k) is not None for k in keys):
                for k in keys:
                    ctx.report(k, CLASS_WHAT.get(k, k), rep)
            else:
                ctx.report("e2e:pair:%s|%s" % (pr["a"][0][:60], pr["b"][0][:60]), "compiled program disagrees with the reference toolchain on a type-identity case", rep)
        else:
            (op, itf, home), t, v, op_is_iface = metas[ref_i]
            spec = specs[ref_i]
            ts = sorted(t, key=lambda e: unhexs(e[0]))
            vs = sorted(v, key=lambda e: unhexs(e[0]))
            rep = {"operand": op, "interface": itf, "reference_go": a, "llgo": b}
            unexp_pkgs = set(unhexs(e[0]).decode().rsplit(".", 1)[0] for e in t if b"." in unhexs(e[0]))
            if spec and scan_py(ts, vs) and not scan_py(t, v):
                ctx.report("implements:table-order-mismatch", "type assertion to an interface fails in the compiled program", rep)
            elif len(unexp_pkgs) >= 2:
                # the interface literal shares its symbol with the one-package interface of the same method names
                # (p.Kab): the linker keeps one descriptor, the assertion is answered for the wrong method set
                ctx.report("samename:method-pkg", CLASS_WHAT["samename:method-pkg"], rep)
            else:
                ctx.report("e2e:impl:%s|%s" % (op, itf), "compiled program disagrees with the reference toolchain on an interface-satisfaction case", rep)
    if not quick:
        # e2e witness of diffname:targ-basic-spelling (breaks the LINK, hence a program of its own)
        wd = os.path.join(ctx.scratch, "e2e-spelling")
        e2e.write_module(wd, {"p/p.go": "package p\n\ntype G[A any] struct{ V A }\n\nfunc (G[A]) M() int { return 7 }\n",
                              "main.go": "package main\n\nimport \"%s/p\"\n\nvar A *p.G[byte]\nvar B interface{ Apply(*p.G[uint8]) }\nvar Keep = []any{&A, &B}\n\nfunc main() { println(len(Keep)) }\n" % tg.MOD}, modname=tg.MOD)
        wp = e2e.llgo_build(ctx, wd, os.path.join(wd, "llgo.bin"))
        info["spelling_witness_builds"] = wp.returncode == 0
        if wp.returncode != 0 and "undefined reference" in (wp.stdout + wp.stderr):
            ctx.report("diffname:targ-basic-spelling", CLASS_WHAT["diffname:targ-basic-spelling"], {"program": "var A *p.G[byte]; var B interface{ Apply(*p.G[uint8]) }", "llgo": (wp.stdout + wp.stderr)[-400:]})
    info["differences"] = diffs
    info["samples"] = [{"e2e_reference": rl[:3], "e2e_llgo": ll[:3]}]
    ctx.log("e2e: %d cases, %d lines, %d differ from the reference toolchain" % (len(case_meta), len(rl), diffs))
    return info
