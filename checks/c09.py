"""C09 — values cross the Go/C boundary intact in both directions (x86-64).

Lean: LlgoVerif/Model/CAbi.lean (internal/cabi TypeInfoAmd64.GetTypeInfo + transformFuncType + scalar calling
convention + C-string helpers), Spec/SysV.lean (psABI classification, register image, sequential register
assignment), Props/C09.lean.

Tie to the working tree (every run):
  (i)   in-process: harness/c09 links the REAL internal/cabi (+ overlay accessor for transformFuncType) and
        classifies generated LLVM struct types / rewrites generated signatures; diffed against modeld_c09; the
        real classification is judged against the specification by the Lean checker (`judge`); the
        specification itself is validated against clang (-S -emit-llvm -O0: coerce types, byval) every run.
  (ii)  execution (the property's direct check): ONE generated Go program per optimisation level with hundreds of
        //go:linkname C functions and Go callbacks, compiled by the llgo built from the working tree and linked
        with a generated C file (clang via LLGoFiles at -O0, gcc-compiled object at -O2) that logs every field it
        receives and returns known structs; expected values are known by construction and cross-checked by the
        same calls made C-to-C (gcc callee + clang caller, and all gcc).
  (iii) C strings: CStrCopy / StringFromCStr run natively (verbatim copy of z_string.go) against the model, and
        AllocaCStr / GoString end to end.
"""
import os
import shutil
import subprocess
import threading
import time

from vlib.common import *
from vlib import e2e
from vlib import c09_gen as G

K_EXHAUST = "cabi:amd64:split-aggregate-after-register-exhaustion"
K_NESTED = "cabi:amd64:nested-struct-padding-split"
K_CAPTURE = "callback:capturing-closure-as-c-function-pointer"
K_RETLOAD = "cabi:return-load-shortcut:stale-pointee"
K_GOBYTES = "cgo:GoBytes:aliases-c-memory"
K_CBYTES = "cgo:CBytes:empty-slice-panics"
OPAQUE = os.path.join(VERIF, "harness", "e2e", "overlay", "zz_verif_opaque.go.txt")

CORPUS_INP = ["{ddd}", "{qqq}", "{[3[4f]]}"]   # v = rotate(&v), m = transpose(&m) of seeded change C09-5

CORPUS_SIGS = [  # (kind, shape, pre, post)  — DESIGN.md §8 #22 and the nested-padding witnesses, always run first
    ("arg", "{db}", "qqqqqq", ""), ("echo", "{db}", "qqqqqqd", ""), ("cbs", "{pf}", "qqqqqq", "f"), ("cbi", "{fbff}", "qqqqqqq", ""),
    ("arg", "{bd}", "wwwwww", "b"), ("arg", "{wwf}", "pppppp", ""), ("echo", "{qd}", "qqqqqq", ""), ("arg", "{fffb}", "qqqqqq", ""),
    ("arg", "{qq}", "qqqqq", ""), ("arg", "{qq}", "qqqqqq", "q"), ("arg", "{dd}", "ddddddd", "d"), ("arg", "{dd}", "dddddddd", ""),
    ("arg", "{db}", "", ""), ("echo", "{pf}", "", ""), ("cbs", "{fbff}", "", ""), ("ret", "{db}", "qqqqqq", ""),
    ("arg", "{bbbbb{bw}}", "", ""), ("ret", "{bbbbb{bw}}", "", ""), ("cbs", "{{hb}{hb}bb}", "", ""), ("echo", "{[2{hb}]bb}", "q", "d"),
    ("arg", "{qqq}", "qqqqqq", "q"), ("echo", "{qqq}", "qqqqq", "q"), ("cbs", "{d[9q]}", "qfq", "b"),
    # copy through a pointer, mutate the pointee, return the copy — one per AttrKind (direct, coerce, coerce2, memory)
    ("cbm", "{w}", "", ""), ("cbm", "{d}", "", ""), ("cbm", "{ww}", "", ""), ("cbm", "{ff}", "", ""), ("cbm", "{bbb}", "", ""),
    ("cbm", "{hb}", "", ""), ("cbm", "{[2w]}", "", ""), ("cbm", "{www}", "", ""), ("cbm", "{qd}", "", ""), ("cbm", "{bbbbb{bw}}", "", ""),
    ("cbm", "{qqq}", "", ""), ("cbm", "{d[9q]}", "", ""),
]


# ------------------------------------------------------------------------------------------------ helpers
def tool(cmd, cwd=None, input=None, timeout=900):
    return subprocess.run(cmd, cwd=cwd, input=input, capture_output=True, text=True, timeout=timeout)


def kind_of(line):
    """'coerce2 i64 i32 size=..' -> 'coerce2 i64 i32'"""
    return line.split(" size=")[0]


def has_i0(line):
    return " i0" in (" " + kind_of(line))


def gen_scalars(rng, n, mode):
    if mode == "ints":
        return [rng.choice("bhwqp") for _ in range(n)]
    if mode == "floats":
        return [rng.choice("fd") for _ in range(n)]
    return [rng.choice("bhwqpfd") for _ in range(n)]


def gen_case_sig(rng, t, kind, force=None):
    """pre / post scalar lists: 0-8 other arguments, every position"""
    nother = rng.randint(0, 8) if force is None else force[0]
    npre = rng.randint(0, nother) if force is None else force[1]
    if kind == "ret":
        npre, nother = nother, nother
    mode = rng.choice(["ints", "ints", "mixed", "mixed", "floats"])
    pre = gen_scalars(rng, npre, mode)
    post = gen_scalars(rng, nother - npre, rng.choice(["ints", "mixed", "floats"]))
    return pre, post


def mism_cur_any(real, model):
    """does the real classifier differ from the live model anywhere? (then the tree is not the current code)"""
    return any(a != b for a, b in zip(real, model))


# ------------------------------------------------------------------------------------------------ the check
def run(ctx, args):
    quick = ctx.tier == "quick"
    rng = ctx.rng
    scale = float(os.environ.get("VERIF_C09_SCALE", "1") or "1")   # test hook: shrink/grow the generated volumes
    n_cls = int((1500 if quick else 20000) * scale)          # shapes classified in-process
    n_sig = int((600 if quick else 6000) * scale)            # signatures rewritten in-process
    n_e2e_shapes = int((150 if quick else 1200) * scale)     # shapes executed end to end
    per_prog = 800 if quick else 600          # cases per generated program
    round2 = os.environ.get("VERIF_C09_ROUND2", "1") != "0"   # test hook (A/B timing): 0 = without the call-site / aliasing / cgo-history parts
    stats = {}
    st = lean_check(ctx, ["LlgoVerif.Props.C09"], ["LlgoVerif/Props/C09.lean"],
                    extra_files=["LlgoVerif/Model/CAbi.lean", "LlgoVerif/Spec/SysV.lean", "LlgoVerif/Spec/AAPCS64.lean",
                                 "LlgoVerif/Lemmas/CAbi.lean", "LlgoVerif/Lemmas/CAbiLayout.lean",
                                 "LlgoVerif/Model/CAbiCall.lean", "LlgoVerif/Lemmas/CAbiCall.lean",
                                 "LlgoVerif/Model/CgoStr.lean", "LlgoVerif/Lemmas/CgoStr.lean"],
                    leanchecker=(ctx.tier == "thorough"))
    for name, s in st.items():
        if s != "ok":
            ctx.log("theorem", name, s)
    modeld = build_driver(ctx, "modeld_c09")

    # llgo is built in the background while the in-process part runs
    llgo_err = []

    def _bg():
        try:
            e2e.build_llgo(ctx)
        except Exception as ex:  # noqa
            llgo_err.append(ex)
    th = threading.Thread(target=_bg)
    th.start()
    harness = build_go_harness(ctx, "c09", overlay={"internal/cabi/zz_verif_export.go": "overlay/zz_cabi_export.go.txt",
                                                    "ssa/zz_verif_opaque.go": OPAQUE}, tags="llvm14,verif")
    ctx.log("harness + model driver built")

    # ---------------------------------------------------------------- shapes
    shapes, seen = [], set()

    def add_shape(t):
        c = G.code(t)
        if c in seen:
            return
        size, _, leaves = G.layout(t)
        if not (1 <= size <= 80 and 1 <= len(leaves) <= 12):
            return
        seen.add(c)
        shapes.append(t)
    for _, s, _, _ in CORPUS_SIGS:
        add_shape(G.parse(s))
    for s in G.BOUNDARY + CORPUS_INP:
        add_shape(G.parse(s))
    corpus_dir = os.path.join(VERIF, "corpus", "C09")
    if os.path.isdir(corpus_dir):
        for fn in sorted(os.listdir(corpus_dir)):
            for line in open(os.path.join(corpus_dir, fn)):
                line = line.strip()
                if line and not line.startswith("#"):
                    add_shape(G.parse(line.split()[0]))
    n_fixed_shapes = len(shapes)
    guard = 0
    while len(shapes) < n_cls and guard < n_cls * 20:
        add_shape(G.gen_shape(rng))
        guard += 1
    codes = [G.code(t) for t in shapes]
    ctx.log("shapes: %d (%d boundary/corpus)" % (len(shapes), n_fixed_shapes))

    # ---------------------------------------------------------------- (i) classification: real vs model vs spec
    lines = []
    for c in codes:
        lines += ["cls " + c, "clsret " + c]
    real, rc, err = run_lines([harness], lines)
    if len(real) != len(lines):
        raise HarnessBuildError("harness/c09 died: %d/%d lines\n%s" % (len(real), len(lines), err[-3000:]))
    model, _, err2 = run_lines([modeld], lines)
    legl, _, _ = run_lines([modeld], [l.replace("cls ", "clslegacy ", 1).replace("clsret ", "clsretlegacy ", 1) for l in lines])
    specl, _, _ = run_lines([modeld], ["spec " + c for c in codes])
    if len(model) != len(lines) or len(specl) != len(codes):
        raise RuntimeError("modeld_c09 died: %s" % err2[-2000:])
    judge_lines = []
    for i, c in enumerate(codes):
        judge_lines += ["judge %s %s" % (c, kind_of(real[2 * i])), "judge %s %s" % (c, kind_of(real[2 * i + 1]))]
    judged, _, _ = run_lines([modeld], judge_lines)
    mism_cur, mism_leg = [], []
    legacy_tree = mism_cur_any(real, model) and not mism_cur_any(real, legl)
    shape_info = {}
    n_unsound = 0
    n_unsound_natural = 0
    n_reported_cls = 0
    kinds_hist = {}
    for i, c in enumerate(codes):
        natural = specl[i].endswith("natural=1")
        wf = " wf=1" in specl[i]
        sound = judged[2 * i] == "sound" and judged[2 * i + 1] == "sound"
        shape_info[c] = {"real": kind_of(real[2 * i]), "realret": kind_of(real[2 * i + 1]), "natural": natural, "sound": sound,
                         "spec": specl[i].split(" wf=")[0], "wf": wf, "i0": has_i0(real[2 * i]) or has_i0(real[2 * i + 1])}
        kinds_hist[kind_of(real[2 * i]).split()[0]] = kinds_hist.get(kind_of(real[2 * i]).split()[0], 0) + 1
        for j in (0, 1):
            if real[2 * i + j] != model[2 * i + j]:
                mism_cur.append((lines[2 * i + j], real[2 * i + j], model[2 * i + j]))
            if real[2 * i + j] != legl[2 * i + j]:
                mism_leg.append((lines[2 * i + j], real[2 * i + j], legl[2 * i + j]))
        if not sound:
            n_unsound += 1
            if natural:
                n_unsound_natural += 1
            # the model of the current code is proved sound on EVERY shape: an unsound real classification is a violation;
            # on a pre-fix tree the non-natural shapes are the (fixed) nested-padding class, judged by execution below
            if (natural or not legacy_tree) and n_reported_cls < 3:
                n_reported_cls += 1
                ctx.report("cabi:amd64:classify:" + c, "internal/cabi classifies %s as '%s' (result: '%s'): not the psABI register image" %
                           (c, kind_of(real[2 * i]), kind_of(real[2 * i + 1])),
                           {"shape": c, "real": real[2 * i], "real_ret": real[2 * i + 1], "psabi": specl[i], "model": model[2 * i]})
    # which variant of the classifier does the tree implement?  (the model's live variant is the repaired one)
    variant = "repaired"
    if mism_cur and not mism_leg:
        variant = "legacy"        # a tree from before "fix: split two-eightbyte aggregates at the real element offsets"
    stats["classifier_variant"] = variant
    mism = mism_cur if variant == "repaired" else mism_leg
    ctx.log("classification: %d shapes x {param,result}; real vs model mismatches %d (variant %s); unsound on real code: %d" %
            (len(codes), len(mism), variant, n_unsound))
    P = "" if variant == "repaired" else "legacy"

    # signatures (transformFuncType): real vs model
    sig_lines = []
    for k in range(n_sig):
        n = rng.randint(0, 9)
        ps = []
        for _ in range(n):
            ps.append(rng.choice(codes) if rng.random() < 0.35 else rng.choice(G.SCALARS))
        r = rng.choice(["v", rng.choice(G.SCALARS), rng.choice(codes), rng.choice(codes)])
        if any(shape_info.get(x, {}).get("i0") for x in ps + [r]):
            continue
        sig_lines.append("sig " + " ".join([r] + ps))
    sreal, _, serr = run_lines([harness], sig_lines)
    smodel, _, _ = run_lines([modeld], [l.replace("sig ", "sig%s " % P, 1) for l in sig_lines])
    if len(sreal) != len(sig_lines):
        raise HarnessBuildError("harness/c09 died on sig lines: %s" % serr[-2000:])
    sig_mism = [(l, a, b) for l, a, b in zip(sig_lines, sreal, smodel) if a != b]
    ctx.log("signatures: %d, mismatches %d" % (len(sig_lines), len(sig_mism)))

    # ---------------------------------------------------------------- call sites (transformCallInstr): real vs model
    cs_stats = callsite_check(ctx, harness, modeld, shapes, codes, shape_info, (24 if quick else 200) if round2 else 0)
    stats["call_sites"] = cs_stats

    # ---------------------------------------------------------------- spec validation against clang
    spec_val = validate_spec_with_clang(ctx, shapes[:(400 if quick else 3000)], codes, shape_info, modeld, rng)
    stats["spec_validation_clang"] = spec_val

    # ---------------------------------------------------------------- arm64 classifier (no execution: in-process + clang only)
    stats["arm64"] = arm64_check(ctx, harness, modeld, shapes, codes, 400 if quick else 3000)

    # ---------------------------------------------------------------- (iii) C strings, native route
    cstr_stats = cstr_native(ctx, modeld, rng, 400 if quick else 5000)
    stats["cstr_native"] = cstr_stats

    # ---------------------------------------------------------------- (ii) execution
    th.join()
    if llgo_err:
        raise llgo_err[0]
    ctx.log("llgo built")
    e2e_shapes = []
    for t in shapes:
        if len(e2e_shapes) >= n_e2e_shapes:
            break
        e2e_shapes.append(t)
    # shapes whose classification llgo cannot even compile (zero-width integer) are replayed separately
    crash_shapes = [t for t in e2e_shapes if shape_info[G.code(t)]["i0"]]
    run_shapes = [t for t in e2e_shapes if not shape_info[G.code(t)]["i0"]]
    cases = []
    idx_of = {G.code(t): i for i, t in enumerate(run_shapes)}
    for kind, s, pre, post in CORPUS_SIGS:
        if s in idx_of:
            cases.append(G.Case(len(cases), kind, idx_of[s], run_shapes[idx_of[s]], list(pre), list(post), rng, closure=(len(cases) % 3 == 0)))
    kinds = ["arg", "ret", "echo", "cbs", "cbi"]
    pos_cov = set()
    for si, t in enumerate(run_shapes):
        size = G.layout(t)[0]
        ncase = 4 if size <= 16 else 2
        for j in range(ncase):
            kind = kinds[(si + j) % 5]
            # every (number of others, position) pair gets visited round-robin, the rest is random
            force = None
            if j == 0:
                k = (si * 7) % 45
                a = 0
                while k > a:
                    k -= a + 1
                    a += 1
                force = (a, min(k, a))
            pre, post = gen_case_sig(rng, t, kind, force)
            cs = G.Case(len(cases), kind, si, t, pre, post, rng, closure=(rng.random() < 0.4))
            pos_cov.add((len(pre) + len(post), len(pre)))
            cases.append(cs)
    # copy through a pointer, mutate the pointee, return the copy (the result must carry the ORIGINAL values)
    for si, t in enumerate(run_shapes[:(60 if quick else 400)]):
        cases.append(G.Case(len(cases), "cbm", si, t, [], [], rng, closure=(si % 2 == 0)))
    # M = f(&M) / f(M, &M): the result is stored to (the by-value argument is loaded from) memory the C callee can reach;
    # every Go call-site form x both callee styles, on aggregates returned/passed in memory and in registers
    mem_si = [si for si, t in enumerate(run_shapes) if shape_info[G.code(t)]["realret"] == "memory"]
    reg_si = [si for si, t in enumerate(run_shapes) if shape_info[G.code(t)]["realret"] != "memory"]
    for s_ in CORPUS_INP:
        if s_ in idx_of and idx_of[s_] not in mem_si[:(24 if quick else 80)]:
            mem_si.insert(0, idx_of[s_])
    dests = list(G.INP_DESTS)
    srcs = list(G.ARGP_SRCS)
    n_alias = 0
    for j, si in enumerate((mem_si[:(24 if quick else 80)] + reg_si[:(8 if quick else 20)]) if round2 else []):
        t = run_shapes[si]
        reps = 3 if si in mem_si else 1
        for r_ in range(reps):
            d_ = dests[(j * 3 + r_) % len(dests)]
            cases.append(G.Case(len(cases), "inp", si, t, [], [], rng, dest=d_, style=("perm", "touch")[(j + r_) % 2]))
        cases.append(G.Case(len(cases), "argp", si, t, [], [], rng, dest=srcs[j % len(srcs)]))
        n_alias += reps + 1
    # a Go func literal that CAPTURES a variable, handed to C as a callback (a few per run; they may kill the process)
    for j in range(3):
        t = run_shapes[(j * 11) % len(run_shapes)]
        cases.append(G.Case(len(cases), "cbi", (j * 11) % len(run_shapes), t, ["w"] if j else [], [], rng, capture=True))
    # model predictions for every case
    place_lines = ["place%s %s" % (P, " ".join(c.sig_words())) for c in cases]
    placed, _, _ = run_lines([modeld], place_lines)
    pred = {}
    for c, l in zip(cases, placed):
        f = dict(x.split("=", 1) for x in l.split(" ") if "=" in x)
        pred[c.idx] = f
    e2e_stats = {"cases": len(cases), "shapes": len(run_shapes), "positions_covered": len(pos_cov), "runs": [],
                 "aliasing_cases": n_alias}
    # the generator's expectation for `M = f(&M)` (callee style 'perm') against the Lean specification of the call
    inp_perm = [c for c in cases if c.kind == "inp" and c.style == "perm"]
    il = run_lines([modeld], ["inplace %d %d %s" % (200 if c.dest == "other" else 100, len(c.perm), " ".join(str(x) for x in c.perm)) for c in inp_perm])[0] if inp_perm else []
    bad_gen = [(c.describe(), l) for c, l in zip(inp_perm, il)
               if "spec=" + ",".join(str(x + 1) for x in c.perm) + " " not in l or "temp=" + ",".join(str(x + 1) for x in c.perm) + " " not in l]
    if bad_gen:
        ctx.report_broken("C09 generator: expected cells of M = f(&M) differ from Model/CAbiCall.lean specCall / implCall(temp)", {"first": bad_gen[:3]})
    e2e_stats["inplace_model_dest_would_differ"] = sum(1 for l in il if l.split(" dest=")[1].split(" ")[0] != l.split(" spec=")[1].split(" ")[0])
    failures = {}   # case idx -> {opt: detail}
    progs = [cases[i:i + per_prog] for i in range(0, len(cases), per_prog)]
    # C-to-C reference (validates the expected values and the C side with the host compilers); runs beside the llgo builds
    ref_res = {}

    def _ref():
        try:
            ref_res["bad"] = sum(reference_run(ctx, run_shapes, pcs, pi) for pi, pcs in enumerate(progs))
        except Exception as ex:  # noqa
            ref_res["err"] = ex
    ref_th = threading.Thread(target=_ref)
    ref_th.start()
    configs = [("-O0", "clang-LLGoFiles"), ("-O2", "gcc-object")] if quick else \
        [("-O0", "clang-LLGoFiles"), ("-O2", "gcc-object"), ("-O2", "clang-LLGoFiles"), ("-O0", "gcc-object")]
    for pi, pcs in enumerate(progs):
        for opt, cside in configs:
            if not quick and pi >= 2 and (opt, cside) in configs[2:]:
                continue
            r = run_echo_program(ctx, run_shapes, pcs, pi, opt, cside)
            e2e_stats["runs"].append({"program": pi, "opt": opt, "c_side": cside, "cases": len(pcs), "build_s": r["build_s"],
                                      "failed_cases": len(r["bad"]), "build_failed": r["build_failed"]})
            for k, detail in r["bad"].items():
                failures.setdefault(k, {})[opt + "/" + cside] = detail
    ctx.log("e2e: %d cases in %d program(s); cases with a corrupted value: %d" % (len(cases), len(progs), len(failures)))

    ref_th.join()
    if "err" in ref_res:
        raise ref_res["err"]
    ref_bad = ref_res.get("bad", 0)
    e2e_stats["reference_c_to_c_mismatches"] = ref_bad
    if ref_bad:
        ctx.report_broken("C09 reference: C-to-C calls (gcc callee / clang caller) do not reproduce the constructed values",
                          {"mismatches": ref_bad})
    # judge every failing case; compare observation with the model's prediction
    by_idx = {c.idx: c for c in cases}
    n_known, n_pred_mism = 0, []
    classes = {"exhaustion": 0, "nested": 0, "capture": 0, "return-load-shortcut": 0, "other": 0, "result-aliases-input": 0,
               "byval-aliases-source": 0}
    for c in cases:
        p = pred[c.idx]
        if c.kind in ("inp", "argp") and c.idx in failures and shape_info[G.code(c.t)]["sound"] and p.get("eq") == "1":
            # nothing about registers: the object the callee fills (reads) is not private to the call
            cl = "result-aliases-input" if c.kind == "inp" else "byval-aliases-source"
            classes[cl] += 1
            if classes[cl] <= 3:
                rep = dict(c.describe())
                rep.update({"observed": failures[c.idx], "expected_words": ["%x" % w for w in c.expected()],
                            "call_site_lowering_seen_in_process": cs_stats.get("first_mismatch")})
                what = ("M = f(&M): the C callee fills its result object while it reads *p, and the two are the same memory" if c.kind == "inp"
                        else "f(M, &M): the by-value argument does not hold the value M had when the call was made / M changed")
                ctx.report("cabi:callsite:%s:%s:%s:%s" % (c.kind, c.dest, c.style or "-", G.code(c.t)), what + ": " + c.describe()["go_call_site"], rep)
            continue
        if c.kind == "cbm" and c.idx in failures and shape_info[G.code(c.t)]["sound"] and \
                shape_info[G.code(c.t)]["realret"].startswith("coerce "):
            # AttrWidthType result + `r := *p; mutate; return r`: transformFuncBody re-reads the load's source at the return
            classes["return-load-shortcut"] += 1
            rep = dict(c.describe())
            rep["observed"] = failures[c.idx]
            ctx.report(K_RETLOAD, "func(p *T) T { r := *p; p.<leaf0> = v; return r } called from C returns the MODIFIED value: " + G.code(c.t), rep)
            continue
        if c.capture:
            # closures are outside the placement model: judged on their own
            if c.idx in failures and pred[c.idx].get("eq") == "1" and shape_info[G.code(c.t)]["sound"]:
                classes["capture"] += 1
                rep = dict(c.describe())
                rep["observed"] = failures[c.idx]
                ctx.report(K_CAPTURE, "a Go func literal with a captured variable passed to a C function as callback: " + c.describe()["sig"], rep)
            continue
        sc = G.code(c.t)
        shape_bad = not shape_info[sc]["sound"]
        predicted_bad = (p.get("eq") == "0") or shape_bad
        observed_bad = c.idx in failures
        if observed_bad:
            detail = failures[c.idx]
            rep = dict(c.describe())
            rep.update({"observed": detail, "model": placed[c.idx], "shape_classification": shape_info[sc]})
            if shape_bad and not shape_info[sc]["natural"]:
                classes["nested"] += 1
                ctx.report(K_NESTED, "struct with nesting-introduced padding corrupted across the boundary: " + c.describe()["sig"], rep)
            elif p.get("fits") == "0" and p.get("eq") == "0":
                classes["exhaustion"] += 1
                ctx.report(K_EXHAUST, "aggregate split between register and stack: " + c.describe()["sig"], rep)
            else:
                classes["other"] += 1
                if classes["other"] <= 3:
                    ctx.report("cabi:amd64:e2e:%s:%s" % (c.kind, c.describe()["sig"].replace(" ", "_")),
                               "value corrupted across the Go/C boundary on a signature whose aggregates all fit in registers: %s (%s)" %
                               (c.describe()["sig"], c.kind), rep)
        if observed_bad != predicted_bad:
            n_pred_mism.append({"case": c.describe(), "observed_bad": observed_bad, "model": placed[c.idx]})
    e2e_stats["failure_classes"] = classes
    e2e_stats["prediction_mismatches"] = len(n_pred_mism)
    if n_pred_mism:
        ctx.log("placement model vs execution: %d disagreements, first %s" % (len(n_pred_mism), n_pred_mism[0]))

    # compile-crash class: a shape whose coerce type is the zero-width integer
    crash_stats = replay_crash_shapes(ctx, crash_shapes[:1] if quick else crash_shapes[:6], shape_info, rng)
    e2e_stats["uncompilable_shapes"] = crash_stats

    # C strings end to end
    e2e_stats["cstr_e2e"] = cstr_e2e(ctx, rng, 40 if quick else 300, opts=(("-O2",) if quick else ("-O0", "-O2")))
    stats["e2e"] = e2e_stats

    # ---------------------------------------------------------------- verdict on proofs / correspondence
    if mism or sig_mism:
        ctx.broken.append("correspondence real vs Lean model: %d classification lines, %d signature lines differ, e.g. %s" %
                          (len(mism), len(sig_mism), (mism + sig_mism)[0]))
        if not ctx.violations:
            ctx.report_broken("correspondence C09 classification real-vs-model", {"first": (mism + sig_mism)[:5]})
    if cs_stats["mismatches"] and not ctx.violations:
        ctx.report_broken("correspondence C09 call-site rewriting (transformCallInstr) real-vs-model", {"first": cs_stats["first"]})
    if n_pred_mism and not ctx.violations:
        ctx.broken.append("placement model disagrees with execution on %d cases" % len(n_pred_mism))
        ctx.report_broken("correspondence C09 placement model vs execution", {"first": n_pred_mism[:5]})
    if spec_val.get("mismatches"):
        ctx.broken.append("Spec/SysV.lean disagrees with clang on %d shapes/signatures" % spec_val["mismatches"])
        if not ctx.violations:
            ctx.report_broken("specification validation: Spec/SysV vs clang", spec_val.get("first"))
    if any(s != "ok" for s in st.values()) and not ctx.violations:
        ctx.report_broken("Props/C09: " + ", ".join(n for n, s in st.items() if s != "ok"), st)

    nontrivial = set(l for l in lines if len(l) > 8) | set(sig_lines) | set(place_lines)
    ctx.coverage["samples"] = [
        {"line": lines[0], "real": real[0], "model": model[0], "judge": judged[0]},
        {"line": sig_lines[0] if sig_lines else "", "real": sreal[0] if sreal else "", "model": smodel[0] if smodel else ""},
        {"case": cases[0].describe(), "expected_words": ["%x" % w for w in cases[0].expected()], "model": placed[0]},
        {"case": cases[len(cases) // 2].describe(), "model": placed[len(cases) // 2]},
    ]
    ctx.coverage["trusted_base"] += [
        "Spec/SysV.lean = my reading of the psABI for the C09 universe, validated every run against clang-14's lowering (coerce types, byval, sret) "
        "on %d shapes and %d signatures" % (spec_val.get("shapes", 0), spec_val.get("signatures", 0)),
        "LLVM's x86-64 calling convention for SCALAR parameters and byval pointers is modelled (Model/CAbi.lean ccArg) and tied by execution only",
        "hand-written Lean model of GetTypeInfo/transformFuncType tied by differential run on %d classification and %d signature lines "
        "(harness/c09 linking the real internal/cabi with LLVM 14)" % (len(lines), len(sig_lines)),
        "generators in vlib/c09_gen.py; expected values cross-checked by C-to-C runs (gcc callee + clang caller; all gcc)",
        "native-copy route for z_string.go (clite stand-in: memcpy/strlen over Go memory)",
    ]
    ctx.assumptions += ["only amd64 executes; arm64 is covered for the classifier only (model + in-process + clang), arm/riscv/386/wasm/esp32 not at all",
                        "natural layout only (no packed structs, bit-fields, long double, vectors, zero-length arrays, unions)",
                        "varargs C functions are not generated"]
    evaluations = cs_stats["contexts"] + stats["arm64"]["lines"] + len(lines) + len(sig_lines) + len(e2e_stats["runs"]) * 0 + sum(r["cases"] for r in e2e_stats["runs"]) + cstr_stats.get("cases", 0)
    stats.update({"shapes_classified": len(codes), "kinds": kinds_hist, "unsound_on_real_code": n_unsound, "unsound_on_naturally_laid_out_shapes": n_unsound_natural,
                  "natural_shapes": sum(1 for c in codes if shape_info[c]["natural"]),
                  "size_le16": sum(1 for t in shapes if G.layout(t)[0] <= 16), "nested": sum(1 for t in shapes if not G.is_flat(t)),
                  "signatures": len(sig_lines)})
    import resource
    ru = resource.getrusage(resource.RUSAGE_CHILDREN)
    stats["cpu_seconds_children"] = round(ru.ru_utime + ru.ru_stime, 1)   # load-independent cost of the run
    return ctx.finish("proof", {"evaluations": evaluations, "distinct_nontrivial": len(nontrivial),
                               "rule": "one evaluation = one classification / signature protocol line, or one executed call case at one optimisation level; "
                                       "distinct by protocol line text (shape code + signature); non-trivial = longer than 8 characters",
                               "input_distribution": stats,
                               "correspondence_mismatches": len(mism) + len(sig_mism),
                               "spec_failures_on_real_code": len(failures) + n_unsound})


# ------------------------------------------------------------------------------------------------ clang validation of the spec
def clang_params(defline):
    """'define dso_local void @f(i64 %s.coerce0, i32 %s.coerce1) #0 {' -> (ret, [param type strings])"""
    head = defline[len("define"):].strip()
    at = head.index("@")
    ret = " ".join(w for w in head[:at].split() if w not in ("dso_local", "noundef", "signext", "zeroext", "internal"))
    par = head[head.index("(", at) + 1:]
    depth, cur, out = 0, "", []
    for ch in par:
        if ch == "(":
            depth += 1
        if ch == ")":
            if depth == 0:
                break
            depth -= 1
        if ch == "," and depth == 0:
            out.append(cur.strip())
            cur = ""
        else:
            cur += ch
    if cur.strip():
        out.append(cur.strip())
    return ret, out


def clang_class(p):
    if "byval(" in p:
        return "memory"
    if "sret(" in p:
        return "sret"
    ty = p.split("%")[0].strip() if "%" in p else p
    if ty.startswith("<2 x float>") or ty.startswith("float") or ty.startswith("double"):
        return "SSE"
    return "INTEGER"


def validate_spec_with_clang(ctx, shapes, codes, shape_info, modeld, rng):
    """clang -S -emit-llvm -O0 on `void f(struct T s)` / `struct T r(void)` / whole signatures; compared with Spec/SysV"""
    d = os.path.join(ctx.scratch, "clangspec")
    os.makedirs(d, exist_ok=True)
    src = [G.C_PRELUDE]
    names = []
    for i, t in enumerate(shapes):
        nm = G.Names("T%d" % i, t)
        names.append(nm)
        src += nm.decl_c
        src.append("void fa%d(struct T%d s) {}" % (i, i))
        src.append("struct T%d fr%d(void) { struct T%d s; memset(&s, 0, sizeof s); return s; }" % (i, i, i))
    # whole signatures: does the aggregate go to memory when its eightbytes do not all fit?
    sigs = []
    for k in range(min(400, len(shapes) * 2)):
        si = rng.randrange(len(shapes))
        if G.layout(shapes[si])[0] > 16:
            continue
        pre = gen_scalars(rng, rng.randint(3, 9), rng.choice(["ints", "floats", "mixed"]))
        post = gen_scalars(rng, rng.randint(0, 2), "mixed")
        ps = ["%s a%d" % (G.SC[c][1], j) for j, c in enumerate(pre)] + ["struct T%d s" % si] + ["%s b%d" % (G.SC[c][1], j) for j, c in enumerate(post)]
        src.append("void fs%d(%s) {}" % (len(sigs), ", ".join(ps)))
        sigs.append((si, pre, post))
    open(os.path.join(d, "spec.c"), "w").write("\n".join(src) + "\n")
    p = tool(["clang", "-S", "-emit-llvm", "-O0", "-Xclang", "-disable-O0-optnone", "-o", "spec.ll", "spec.c"], cwd=d)
    if p.returncode != 0:
        ctx.log("clang failed on the specification-validation file: " + p.stderr[-500:])
        return {"error": p.stderr[-500:], "mismatches": 1, "first": p.stderr[-500:]}
    defs = {}
    for line in open(os.path.join(d, "spec.ll")):
        if line.startswith("define"):
            name = line[line.index("@") + 1:line.index("(", line.index("@"))]
            defs[name] = clang_params(line)
    mism = []
    for i, t in enumerate(shapes):
        c = G.code(t)
        spec = shape_info[c]["spec"]
        ret, ps = defs["fa%d" % i]
        cl = [clang_class(x) for x in ps]
        if spec == "memory":
            ok = cl == ["memory"]
        elif spec == "none":
            ok = cl == []
        else:
            ok = cl == spec.split()[1:]
        if not ok:
            mism.append({"shape": c, "spec": spec, "clang_param": ps})
        ret, ps = defs["fr%d" % i]
        if spec == "memory":
            ok = ret == "void" and ps and clang_class(ps[0]) == "sret"
        else:
            ok = ret != "void" or spec == "none"
            ok = ok and not (ps and clang_class(ps[0]) == "sret")
        if not ok:
            mism.append({"shape": c, "spec": spec, "clang_result": [ret] + ps})
    # sequential assignment
    pl, _, _ = run_lines([modeld], ["place v " + " ".join(list(pre) + [G.code(shapes[si])] + list(post)) for si, pre, post in sigs])
    n_mem = 0
    for k, (si, pre, post) in enumerate(sigs):
        ret, ps = defs["fs%d" % k]
        # find the struct's parameter(s): everything between the pre scalars and the post scalars
        mid = ps[len(pre):len(ps) - len(post)]
        clang_mem = any("byval(" in x for x in mid)
        spec_part = pl[k].split(" spec=")[1].split(" ")[0].split("|")[1].split(";")[len(pre)]
        locs = spec_part.split(",")
        spec_mem = all(x.startswith("s") for x in locs) and len(locs) >= 2
        spec_split = any(x.startswith("s") for x in locs) and not all(x.startswith("s") for x in locs)
        n_mem += 1 if spec_mem else 0
        if spec_split or (len(locs) >= 2 and clang_mem != spec_mem):
            mism.append({"sig": "v " + " ".join(list(pre) + [G.code(shapes[si])] + list(post)), "spec_locs": spec_part, "clang": mid})
    ctx.log("spec validation against clang: %d shapes, %d signatures (%d with the aggregate in memory), mismatches %d" %
            (len(shapes), len(sigs), n_mem, len(mism)))
    return {"shapes": len(shapes), "signatures": len(sigs), "signatures_with_aggregate_in_memory": n_mem, "mismatches": len(mism), "first": mism[:3]}



# ------------------------------------------------------------------------------------------------ call sites
def callsite_check(ctx, harness, modeld, shapes, codes, shape_info, n):
    """transformCallInstr on generated call-site contexts (result use x argument definition), for aggregates returned and
    passed in memory: the REAL TransformModule (optimize on and off) against Model/CAbiCall.lean lowerRet / lowerByval"""
    d = os.path.join(ctx.scratch, "callsite")
    os.makedirs(d, exist_ok=True)
    sel = [t for t, c in zip(shapes, codes) if shape_info[c]["real"] == "memory" and shape_info[c]["realret"] == "memory"][:n]
    if not sel:
        return {"shapes": 0, "contexts": 0, "mismatches": 0, "first": [], "first_mismatch": None, "lowerings": {}}
    req, meta = [], []
    for i, t in enumerate(sel):
        src, names = G.callsite_module(t)
        path = os.path.join(d, "cs%d.ll" % i)
        open(path, "w").write(src)
        for opt in ("1", "0"):
            req.append("xform %s %s" % (opt, path))
            meta.append((G.code(t), opt))
    real, _, err = run_lines([harness], req)
    if len(real) != len(req) or any(r.startswith("error") or r == "bad-op" for r in real):
        raise HarnessBuildError("harness/c09 xform failed: %s\n%s" % ([r for r in real if r.startswith("error")][:2], err[-1500:]))
    ctxs = [(u, a) for u in G.CS_USES for a in G.CS_ARGS]
    model, _, _ = run_lines([modeld], ["callsite nextstore=%d argload=%d" % (1 if G.CS_USES[u][1] else 0, 1 if G.CS_ARGS[a] else 0) for u, a in ctxs])
    mism, n_ctx, hist = [], 0, {}
    for (code_, opt), line in zip(meta, real):
        got = {}
        for ent in line.split(";"):
            f = ent.split()
            got[f[0][len("caller_"):]] = dict(x.split("=", 1) for x in f[1:])
        for (u, a), ml in zip(ctxs, model):
            n_ctx += 1
            g = got.get("%s_%s" % (u, a), {})
            dest = G.CS_USES[u][0]
            sret = g.get("sret")
            sret = "temp" if sret == "temp" else ("dest" if sret == dest else "other:%s" % sret)
            byv = g.get("byval")
            byv = "temp" if byv == "temp" else ("source" if byv == "src" else "other:%s" % byv)
            want = dict(x.split("=", 1) for x in ml.split())
            if G.CS_ARGS[a] is None:
                byv = want["byval"] = "-"
            hist["sret=%s byval=%s" % (sret, byv)] = hist.get("sret=%s byval=%s" % (sret, byv), 0) + 1
            if sret != want["sret"] or byv != want["byval"]:
                mism.append({"shape": code_, "optimize": opt, "result_use": u, "argument": a, "real": "sret=%s byval=%s" % (sret, byv), "model": ml})
    if mism:
        ctx.broken.append("call-site rewriting real vs Lean model: %d of %d contexts differ, e.g. %s" % (len(mism), n_ctx, mism[0]))
    ctx.log("call sites: %d shapes x %d contexts x optimize{1,0}; real vs model mismatches %d" % (len(sel), len(ctxs), len(mism)))
    return {"shapes": len(sel), "contexts": n_ctx, "mismatches": len(mism), "first": mism[:5], "first_mismatch": mism[0] if mism else None, "lowerings": hist}


# ------------------------------------------------------------------------------------------------ arm64
def clang64_class(p):
    t = p.strip()
    if t.startswith("[") and " x float]" in t:
        return "hfa %s float" % t[1:t.index(" x")]
    if t.startswith("[") and " x double]" in t:
        return "hfa %s double" % t[1:t.index(" x")]
    if t.startswith("[2 x i64]"):
        return "gpr 2"
    if "sret(" in t:
        return "sret"
    if t.startswith("%struct.") and "*" in t.split()[0]:
        return "memory"
    if t.startswith("i") or t.startswith("ptr"):
        return "gpr 1"
    return "?" + t


def arm64_check(ctx, harness, modeld, shapes, codes, n_clang):
    """TypeInfoArm64.GetTypeInfo: real (GOARCH=arm64 transformer, in-process) vs model, judged against Spec/AAPCS64,
    and Spec/AAPCS64 vs clang --target=aarch64-linux-gnu"""
    lines = []
    for c in codes:
        lines += ["cls64 " + c, "clsret64 " + c]
    real, _, err = run_lines([harness], lines)
    if len(real) != len(lines):
        raise HarnessBuildError("harness/c09 died on arm64 lines: %s" % err[-2000:])
    model, _, _ = run_lines([modeld], lines)
    spec, _, _ = run_lines([modeld], ["spec64 " + c for c in codes])
    jl = []
    for i, c in enumerate(codes):
        jl += ["judge64 arg %s %s" % (c, kind_of(real[2 * i])), "judge64 ret %s %s" % (c, kind_of(real[2 * i + 1]))]
    judged, _, _ = run_lines([modeld], jl)
    mism = [(l, a, b) for l, a, b in zip(lines, real, model) if a != b]
    unsound = [(l, r) for l, r, j in zip(lines, real, judged) if j != "sound"]
    for l, r in unsound[:3]:
        ctx.report("cabi:arm64:classify:" + l.replace(" ", "_"), "internal/cabi (arm64) classifies %s as '%s': not what AAPCS64 prescribes" %
                   (l.split()[1], kind_of(r)), {"line": l, "real": r})
    if mism:
        ctx.broken.append("correspondence arm64 classifier real vs Lean model: %d lines differ, e.g. %s" % (len(mism), mism[0]))
        if not ctx.violations:
            ctx.report_broken("correspondence C09 arm64 classification real-vs-model", {"first": mism[:5]})
    # specification vs clang
    d = os.path.join(ctx.scratch, "clang64")
    os.makedirs(d, exist_ok=True)
    sub = shapes[:n_clang]
    src = ["#include <stdint.h>"]
    for i, t in enumerate(sub):
        nm = G.Names("T%d" % i, t)
        src += nm.decl_c
        src.append("void fa%d(struct T%d s) {}" % (i, i))
        src.append("struct T%d fr%d(void) { struct T%d s; __builtin_memset(&s, 0, sizeof s); return s; }" % (i, i, i))
    open(os.path.join(d, "spec64.c"), "w").write("\n".join(src) + "\n")
    p = tool(["clang", "--target=aarch64-linux-gnu", "-ffreestanding", "-S", "-emit-llvm", "-O0", "-o", "spec64.ll", "spec64.c"], cwd=d)
    cm = []
    if p.returncode != 0:
        ctx.log("clang (aarch64) failed on the specification-validation file: " + p.stderr[-400:])
        cm.append({"clang": p.stderr[-300:]})
    else:
        defs = {}
        for line in open(os.path.join(d, "spec64.ll")):
            if line.startswith("define"):
                name = line[line.index("@") + 1:line.index("(", line.index("@"))]
                defs[name] = clang_params(line)
        for i, t in enumerate(sub):
            sp = spec[i]
            ret, ps = defs["fa%d" % i]
            got = [clang64_class(x) for x in ps]
            want = [] if sp == "none" else [sp]
            if got != want:
                cm.append({"shape": codes[i], "spec": sp, "clang_param": ps})
            ret, ps = defs["fr%d" % i]
            if sp == "memory":
                ok = ret == "void" and ps and clang64_class(ps[0]) == "sret"
            elif sp == "none":
                ok = ret == "void" and not ps
            elif sp.startswith("hfa"):
                ok = ret.startswith("%struct.") or clang64_class(ret) == sp
            else:
                ok = clang64_class(ret) == sp
            if not ok:
                cm.append({"shape": codes[i], "spec": sp, "clang_result": [ret] + ps})
    if cm:
        ctx.broken.append("Spec/AAPCS64.lean disagrees with clang (aarch64) on %d shapes" % len(cm))
        if not ctx.violations:
            ctx.report_broken("specification validation: Spec/AAPCS64 vs clang --target=aarch64", cm[:3])
    hist = {}
    for r in real[::2]:
        k = kind_of(r)
        hist[k] = hist.get(k, 0) + 1
    ctx.log("arm64: %d shapes x {param,result}; real vs model mismatches %d; unsound %d; AAPCS64 spec vs clang on %d shapes: %d mismatches" %
            (len(codes), len(mism), len(unsound), len(sub), len(cm)))
    ctx.coverage["trusted_base"].append("Spec/AAPCS64.lean = my reading of AAPCS64 for the C09 universe, validated against clang-14 --target=aarch64-linux-gnu "
                                        "on %d shapes; the arm64 classifier is tied in-process only (nothing executes on arm64)" % len(sub))
    return {"lines": len(lines), "mismatches": len(mism), "unsound_on_real_code": len(unsound), "param_kinds": hist,
            "spec_vs_clang_shapes": len(sub), "spec_vs_clang_mismatches": len(cm), "first": cm[:3]}

# ------------------------------------------------------------------------------------------------ execution
def write_prog(ctx, shapes, cases, name):
    src = G.build_sources(shapes, cases)
    d = os.path.join(ctx.scratch, name)
    os.makedirs(os.path.join(d, "_wrap"), exist_ok=True)
    for fn in ("shapes.h", "callee.c", "inplace.c", "refmain.c"):
        open(os.path.join(d, "_wrap", fn), "w").write(src[fn])
    return d, src


def reference_run(ctx, shapes, cases, pi):
    d, src = write_prog(ctx, shapes, cases, "ref%d" % pi)
    w = os.path.join(d, "_wrap")
    cmds = ["gcc -O1 -w -c callee.c -o callee_gcc.o", "clang -O1 -w -c refmain.c -o ref_clang.o", "gcc -o ref_mixed callee_gcc.o ref_clang.o",
            "gcc -O2 -w -o ref_gcc callee.c refmain.c"]
    for c in cmds:
        p = tool(c.split(), cwd=w)
        if p.returncode != 0:
            ctx.log("reference build failed: %s\n%s" % (c, p.stderr[-800:]))
            return len(cases)
    inp = "\n".join(str(c.idx) for c in cases) + "\n"
    bad = 0
    for prog in ("ref_mixed", "ref_gcc"):
        p = tool([os.path.join(w, prog)], input=inp)
        res, _ = G.parse_output(p.stdout)
        bad += sum(1 for c in cases if res.get(c.idx) != c.expected())
    return bad


def build_echo(ctx, shapes, cases, name, opt, cside):
    d, src = write_prog(ctx, shapes, cases, name)
    main = src["main.go"]
    if cside == "gcc-object":
        w = os.path.join(d, "_wrap")
        # the callees of kind 'inp' are compiled by clang also here: gcc never fills a result object while it still reads
        # its input (it would hide a result object that aliases the input), clang constructs the result in place
        for c in (["gcc", "-O2", "-w", "-DVERIF_NO_INPLACE", "-c", "callee.c", "-o", "vecho_gcc.o"],
                  ["clang", "-O2", "-w", "-c", "inplace.c", "-o", "vecho_inp.o"]):
            p = tool(c, cwd=w)
            if p.returncode != 0:
                raise RuntimeError("%s failed on the generated callee: %s" % (c[0], p.stderr[-800:]))
        main = main.replace('\tLLGoFiles   = "@LLGOFILES@"\n', "").replace("@LLGOPACKAGE@", "link: -L%s -l:vecho_gcc.o -l:vecho_inp.o" % w)
    else:
        main = main.replace("@LLGOFILES@", "_wrap/callee.c").replace("@LLGOPACKAGE@", "link")
    e2e.write_module(d, {"main.go": main})
    out = os.path.join(d, "prog")
    t0 = time.time()
    p = e2e.llgo_build(ctx, d, out, opt=opt, timeout=3000)
    return d, out, p, round(time.time() - t0, 1)


def run_cases(prog, cases):
    """-> {case idx: detail} of cases whose logged words differ from the constructed ones (crashes included)"""
    bad = {}
    todo = [c.idx for c in cases]
    by = {c.idx: c for c in cases}
    rounds = 0
    while todo and rounds < 25:
        rounds += 1
        out, err, rc = e2e.run_prog(prog, input="\n".join(str(k) for k in todo) + "\n", timeout=300)
        res, cur = G.parse_output(out)
        for k in todo:
            if k in res:
                c = by[k]
                exp = c.expected()
                if res[k] != exp:
                    lab = c.word_labels()
                    diffs = [{"what": lab[i] if i < len(lab) else "?", "expected": "%x" % exp[i] if i < len(exp) else None,
                              "got": "%x" % res[k][i] if i < len(res[k]) else None}
                             for i in range(max(len(exp), len(res[k]))) if i >= len(exp) or i >= len(res[k]) or exp[i] != res[k][i]]
                    bad[k] = {"corrupted": diffs[:6]}
        done = set(res)
        if cur is not None and cur not in done:
            bad[cur] = {"crash": "program died in this case (exit %s)" % rc}
            done.add(cur)
        rest = [k for k in todo if k not in done]
        if len(rest) == len(todo):
            for k in rest:
                bad[k] = {"crash": "no output (exit %s)" % rc}
            break
        todo = rest
    return bad


def run_echo_program(ctx, shapes, cases, pi, opt, cside, depth=0):
    name = "echo%d%s%s_%d" % (pi, opt, "g" if cside == "gcc-object" else "c", depth)
    d, prog, p, secs = build_echo(ctx, shapes, cases, name, opt, cside)
    ctx.log("llgo build %s (%s, %d cases): rc=%d in %.1fs" % (opt, cside, len(cases), p.returncode, secs))
    if p.returncode != 0:
        # the compiler itself fails on some signature: isolate it by halving (a failing build is a concrete failing input)
        if len(cases) == 1 or depth >= 9:
            return {"bad": {c.idx: {"build": "llgo build fails: " + (p.stdout + p.stderr)[:400]} for c in cases}, "build_s": secs, "build_failed": True}
        h = len(cases) // 2
        a = run_echo_program(ctx, shapes, cases[:h], pi, opt, cside, depth + 1)
        b = run_echo_program(ctx, shapes, cases[h:], pi, opt, cside, depth + 1)
        bad = dict(a["bad"])
        bad.update(b["bad"])
        return {"bad": bad, "build_s": secs + a["build_s"] + b["build_s"], "build_failed": True}
    bad = run_cases(prog, cases)
    shutil.rmtree(os.path.join(ctx.llgo_dir, "tmp"), ignore_errors=True)
    os.makedirs(os.path.join(ctx.llgo_dir, "tmp"), exist_ok=True)
    return {"bad": bad, "build_s": secs, "build_failed": False}


def replay_crash_shapes(ctx, crash_shapes, shape_info, rng):
    """shapes for which the classifier produces the zero-width integer type: llgo is expected to die compiling them"""
    out = []
    for n, t in enumerate(crash_shapes):
        cs = [G.Case(0, "arg", 0, t, [], [], rng), G.Case(1, "ret", 0, t, [], [], rng)]
        d, prog, p, secs = build_echo(ctx, [t], cs, "crash%d" % n, "-O0", "clang-LLGoFiles")
        c = G.code(t)
        if p.returncode != 0:
            out.append({"shape": c, "build": "failed"})
            ctx.report(K_NESTED, "llgo cannot compile a C function taking %s: coerce type i0" % c,
                       {"shape": c, "classification": shape_info[c], "llgo_output": (p.stdout + p.stderr)[:600]})
        else:
            bad = run_cases(prog, cs)
            out.append({"shape": c, "build": "ok", "bad": len(bad)})
            if bad:
                ctx.report(K_NESTED, "struct with nesting-introduced padding corrupted across the boundary: " + c,
                           {"shape": c, "classification": shape_info[c], "observed": bad})
    return out


# ------------------------------------------------------------------------------------------------ C strings
NATIVE_FILES = ["map.go", "alg.go", "hash64.go", "z_map.go", "type.go", "errors.go", "z_face.go", "z_type.go", "mbarrier.go", "z_error.go",
                "z_slice.go", "z_string.go", "utf8.go", "stubs.go", "z_cgo.go"]

NATIVE_MAIN = r'''package main

import (
	"bufio"
	"encoding/hex"
	"fmt"
	"os"
	"strconv"
	"strings"
	"unsafe"

	rt "github.com/goplus/llgo/runtime/internal/vn/rt"
)

func hx(b []byte) string {
	if len(b) == 0 {
		return "-"
	}
	return hex.EncodeToString(b)
}

func unhx(s string) []byte {
	if s == "-" {
		return nil
	}
	b, _ := hex.DecodeString(s)
	return b
}

// cgo gostrn|gostr|gobytes CFG HEXBUF OFF N HEXSCRIBBLE : C buffer HEXBUF (+ NUL); convert at OFF (length N) with the REAL
// z_cgo.go function; report the Go value; C overwrites its buffer with HEXSCRIBBLE; report the Go value again
// cgo cstring|cbytes HEX : Go value -> C copy (real CString / CBytes); the Go source is overwritten; report the C copy;
// cstring continues with GoString of the copy, overwrites the C copy and reports the Go string
func cgo(f []string) string {
	defer func() { recover() }()
	switch {
	case len(f) == 7 && (f[1] == "gostrn" || f[1] == "gostr" || f[1] == "gobytes" || f[1] == "zstrn" || f[1] == "zstr"):
		src := unhx(f[3])
		buf := make([]byte, len(src)+1)
		copy(buf, src)
		off, _ := strconv.Atoi(f[4])
		n, _ := strconv.Atoi(f[5])
		scr := unhx(f[6])
		p := (*int8)(unsafe.Pointer(&buf[off]))
		var now, later string
		switch f[1] {
		case "gostrn":
			g := rt.GoStringN(p, n)
			now = hx([]byte(g))
			copy(buf, scr)
			later = hx([]byte(g))
		case "gostr":
			g := rt.GoString(p)
			now = hx([]byte(g))
			copy(buf, scr)
			later = hx([]byte(g))
		case "zstr": // c.GoString(p) = llgo.string -> z_string.go StringFromCStr
			g := rt.StringFromCStr(p)
			now = hx(rt.VerifStringBytes(g))
			copy(buf, scr)
			later = hx(rt.VerifStringBytes(g))
		case "zstrn": // c.GoString(p, n) -> z_string.go StringFrom
			g := rt.StringFrom(unsafe.Pointer(p), n)
			now = hx(rt.VerifStringBytes(g))
			copy(buf, scr)
			later = hx(rt.VerifStringBytes(g))
		case "gobytes":
			g := rt.GoBytes(p, n)
			now = hx(g)
			copy(buf, scr)
			later = hx(g)
		}
		return "now=" + now + " later=" + later
	case len(f) == 3 && f[1] == "cbytes":
		v := unhx(f[2])
		if v == nil {
			v = []byte{}
		}
		p := rt.CBytes(v) // &b[0] of an empty slice panics (-> "panic") unless the copy is guarded
		n := len(v)
		for i := range v {
			v[i] = 0x5a
		}
		return "c=" + hx(append([]byte(nil), unsafe.Slice((*byte)(unsafe.Pointer(p)), n)...))
	case len(f) == 3 && f[1] == "cstring":
		v := unhx(f[2])
		n := len(v)
		var gs string
		if n > 0 {
			gs = unsafe.String(&v[0], n)
		}
		p := rt.CString(gs)
		for i := range v {
			v[i] = 0x5a
		}
		cc := append([]byte(nil), unsafe.Slice((*byte)(unsafe.Pointer(p)), n)...)
		back := rt.GoString(p)
		cb := unsafe.Slice((*byte)(unsafe.Pointer(p)), n+1)
		for i := range cb {
			cb[i] = 0x5a
		}
		return "c=" + hx(cc) + " back=" + hx([]byte(back))
	}
	return "bad-op"
}

// cstr DEST LEN HEX : CStrCopy into a dirty buffer of LEN bytes at DEST, then StringFromCStr -> ok HEX
func main() {
	in := bufio.NewScanner(os.Stdin)
	in.Buffer(make([]byte, 1<<20), 1<<20)
	out := bufio.NewWriter(os.Stdout)
	defer out.Flush()
	for in.Scan() {
		f := strings.Fields(in.Text())
		if len(f) > 0 && f[0] == "cgo" {
			r := cgo(f)
			if r == "" {
				r = "panic"
			}
			fmt.Fprintln(out, r)
			continue
		}
		if len(f) != 4 || f[0] != "cstr" {
			fmt.Fprintln(out, "bad-op")
			continue
		}
		dest, _ := strconv.Atoi(f[1])
		n, _ := strconv.Atoi(f[2])
		var s []byte
		if f[3] != "-" {
			s, _ = hex.DecodeString(f[3])
		}
		if dest+len(s)+1 > n {
			fmt.Fprintln(out, "oob")
			continue
		}
		buf := make([]byte, n+1)
		for i := range buf {
			buf[i] = 0xAA
		}
		buf[n] = 0 // guard: strlen never leaves the Go slice
		p := rt.CStrCopy(unsafe.Pointer(&buf[dest]), rt.VerifMkString(string(s)))
		if unsafe.Pointer(p) != unsafe.Pointer(&buf[dest]) {
			fmt.Fprintln(out, "bad-return")
			continue
		}
		// frame: nothing outside [dest, dest+len] was written
		frame := true
		for i := 0; i < n; i++ {
			if (i < dest || i > dest+len(s)) && buf[i] != 0xAA {
				frame = false
			}
		}
		r := rt.VerifStringBytes(rt.StringFromCStr(p))
		h := "-"
		if len(r) > 0 {
			h = hex.EncodeToString(r)
		}
		if !frame {
			fmt.Fprintln(out, "frame-violated", h)
			continue
		}
		fmt.Fprintln(out, "ok", h)
	}
}
'''

NATIVE_EXTRA = r'''package runtime

import "unsafe"

func VerifMkString(s string) String { return String{unsafe.Pointer(unsafe.StringData(s)), len(s)} }
func VerifStringBytes(s String) []byte {
	if s.len == 0 {
		return nil
	}
	return append([]byte(nil), unsafe.Slice((*byte)(s.data), s.len)...)
}
'''


def cstr_inputs(rng, n):
    out = [b"", b"a", b"hello", b"a\x00b", b"\x00", b"\xff\xfe\x01", bytes(range(1, 256)), b"x" * 300, b"ab\x00"]
    while len(out) < n:
        ln = rng.choice([0, 1, 2, 3, 7, 8, 9, 15, 16, 17, 31, 64, 100])
        b = bytes(rng.randint(1, 255) for _ in range(ln))
        if b and rng.random() < 0.2:
            pos = rng.randrange(len(b))
            b = b[:pos] + b"\x00" + b[pos + 1:]
        out.append(b)
    return out


def cstr_native(ctx, modeld, rng, n):
    from vlib import native
    try:
        binp = native.make_native(ctx, NATIVE_FILES,
                                  {"zz_verif_support.go": native.RT_SUPPORT, "zz_verif_c09.go": NATIVE_EXTRA},
                                  {"main.go": NATIVE_MAIN}, name="native-c09")
    except HarnessBuildError:
        raise
    lines = []
    for b in cstr_inputs(rng, n):
        dest = rng.choice([0, 1, 3, 8])
        room = rng.choice([0, 1, 5, 40])
        lines.append("cstr %d %d %s" % (dest, dest + len(b) + 1 + room, hexs(b)))
    real, rc, err = run_lines([binp], lines)
    model, _, _ = run_lines([modeld], lines)
    if len(real) != len(lines):
        raise HarnessBuildError("native C-string harness died: " + err[-2000:])
    mism, specfail, nul = 0, 0, 0
    for l, r, m in zip(lines, real, model):
        b = unhexs(l.split()[3])
        if r != m:
            mism += 1
            ctx.broken.append("C-string model vs native z_string.go: %s real=%s model=%s" % (l, r, m))
        if 0 in b:
            nul += 1
            continue     # the property's hypothesis: C strings cannot carry NUL
        if r != "ok " + hexs(b):
            specfail += 1
            ctx.report("cstr:roundtrip:" + l.replace(" ", "_"), "StringFromCStr(CStrCopy(s)) != s", {"line": l, "real": r})
    if mism and not ctx.violations:
        ctx.report_broken("correspondence C09 C-string helpers real-vs-model", {"mismatches": mism})
    ctx.log("C strings (native z_string.go): %d cases, mismatches %d, spec failures %d" % (len(lines), mism, specfail))
    st = {"cases": len(lines), "with_interior_nul": nul, "mismatches": mism, "spec_failures": specfail}
    st["cgo"] = cgo_native(ctx, binp, modeld, rng, n) if os.environ.get("VERIF_C09_ROUND2", "1") != "0" else {"cases": 0}
    st["cases"] += st["cgo"]["cases"]
    return st


def cgo_lines(rng, n):
    """histories for the cgo helpers of z_cgo.go: (C buffer, conversion at an offset, what C writes into the buffer afterwards)"""
    out = []
    bufs = [b"first one", b"a", b"ab", b"\xff\x80z", bytes(range(1, 60)), b"x" * 200, b"hello\x00world", b"\x00", b"tail\x00"]
    while len(bufs) < n:
        ln = rng.choice([1, 2, 3, 7, 8, 9, 15, 16, 17, 31, 64, 100])
        b = bytes(rng.randint(1, 255) for _ in range(ln))
        if rng.random() < 0.25:
            pos = rng.randrange(len(b))
            b = b[:pos] + b"\x00" + b[pos + 1:]
        bufs.append(b)
    for i, b in enumerate(bufs):
        off = rng.choice([0, 0, 1, len(b) // 2, len(b) - 1]) if len(b) > 1 else 0
        room = len(b) - off
        nn = rng.choice([0, 1, room, room, max(1, room // 2)])
        scr = bytes((x ^ 0x5A) or 0x41 for x in b) if i % 3 else b"Z" * len(b)    # never equal to the original at any position
        for op in ("gostrn", "gostr", "gobytes", "zstrn", "zstr"):
            out.append(("cgo %s %%s %s %d %d %s" % (op, hexs(b), off, nn, hexs(scr)), op, b, off, nn))
    vals = [b"", b"a", b"hello", b"\xff\xfe\x01", bytes(range(1, 256)), b"q" * 300]
    while len(vals) < max(8, n // 4):
        vals.append(bytes(rng.randint(1, 255) for _ in range(rng.choice([1, 2, 5, 8, 16, 33]))))
    for v in vals:
        out.append(("cgo cstring %s" % hexs(v), "cstring", v, 0, 0))
        out.append(("cgo cbytes %s" % hexs(v), "cbytes", v, 0, 0))
    return out


def cgo_native(ctx, binp, modeld, rng, n):
    """z_cgo.go (verbatim native copy) against Model/CgoStr.lean, and against the property: a converted value is a COPY —
    it reads the same after the other side has overwritten its buffer"""
    items = cgo_lines(rng, max(12, n // 8))
    real, _, err = run_lines([binp], [it[0].replace("%s", "real") for it in items])
    if len(real) != len(items):
        raise HarnessBuildError("native cgo harness died: " + err[-2000:])
    mcopy, _, _ = run_lines([modeld], [it[0].replace("%s", "copy") for it in items])
    malias, _, _ = run_lines([modeld], [it[0].replace("%s", "alias") for it in items])
    # which variant of GoBytes does the tree implement?  (before / after "C.GoBytes returns a copy")
    gb = [i for i, it in enumerate(items) if it[1] == "gobytes"]
    gobytes_variant = "copy" if all(real[i] == mcopy[i] for i in gb) else ("alias" if all(real[i] == malias[i] for i in gb) else "neither")
    # ... and of CBytes?  (before / after the `len(b) > 0` guard)
    ce = [i for i, it in enumerate(items) if it[1] == "cbytes" and not it[2]]
    cbytes_variant = "guard" if all(real[i] == "c=-" for i in ce) else "index"
    mguard, _, _ = run_lines([modeld], [it[0] + " guard" for it in items if it[1] == "cbytes"])
    mguard = dict(zip([i for i, it in enumerate(items) if it[1] == "cbytes"], mguard))
    mism, specfail, reported = [], 0, 0
    for i, (line, op, b, off, nn) in enumerate(items):
        model = malias[i] if (op == "gobytes" and gobytes_variant == "alias") else mcopy[i]
        if op == "cbytes" and cbytes_variant == "guard":
            model = mguard[i]
        if real[i] != model:
            mism.append((line.replace("%s", "real"), real[i], model))
        # the property, independent of the model
        f = dict(x.split("=", 1) for x in real[i].split(" ") if "=" in x)
        if op in ("gostrn", "gobytes", "zstrn"):
            want = b[off:off + nn]
        elif op in ("gostr", "zstr"):
            rest = b[off:]
            want = rest[:rest.index(0)] if 0 in rest else rest
        else:
            want = b
        ok = True
        if op in ("gostrn", "gostr", "gobytes", "zstrn", "zstr"):
            ok = f.get("now") == hexs(want) and f.get("later") == hexs(want)
        elif op == "cbytes":
            ok = f.get("c") == hexs(want)
        elif 0 not in b:
            ok = f.get("c") == hexs(want) and f.get("back") == hexs(want)
        if not ok:
            specfail += 1
            rep = {"line": line.replace("%s", "real"), "real": real[i], "expected_bytes": hexs(want),
                   "history": "C buffer -> %s -> C overwrites its buffer -> Go reads the value again" % op}
            if op == "gobytes" and f.get("now") == hexs(want):
                if reported & 1 == 0:
                    reported |= 1
                    ctx.report(K_GOBYTES, "C.GoBytes(p, n) returns a window onto the C buffer, not a copy: the Go slice changes when C reuses the buffer", rep)
            elif op == "cbytes" and not b and real[i] == "panic":
                ctx.report(K_CBYTES, "C.CBytes([]byte{}) panics with 'index out of range' instead of returning a zero-length C buffer", rep)
            elif reported < 6:
                reported += 2
                ctx.report("cgo:native:" + line.replace("%s", "real").replace(" ", "_"), "%s: the converted value does not keep its bytes" % op, rep)
    if mism:
        ctx.broken.append("cgo helpers model vs native z_cgo.go: %d lines differ, e.g. %s" % (len(mism), mism[0]))
        if not ctx.violations:
            ctx.report_broken("correspondence C09 cgo helpers (z_cgo.go) real-vs-model", {"first": mism[:5]})
    ctx.log("cgo helpers (native z_cgo.go): %d histories, mismatches %d, spec failures %d, GoBytes variant %s, CBytes variant %s" %
            (len(items), len(mism), specfail, gobytes_variant, cbytes_variant))
    return {"cases": len(items), "mismatches": len(mism), "spec_failures": specfail, "gobytes_variant": gobytes_variant,
            "cbytes_variant": cbytes_variant}


CSTR_GO = r'''package main

import (
	"unsafe"

	"github.com/goplus/lib/c"

	_ "verifprog/cs"
)

// The C side is linked through package verifprog/cs (LLGoFiles): a MAIN package that itself declares LLGoPackage = "link"
// gets no call to runtime.init, so panics (and recover) would not work in this program.

// the compiler intrinsics C.GoString / C.GoStringN / C.GoBytes / C.CString / C.CBytes resolve to (cl/instr.go), i.e.
// runtime/internal/runtime/z_cgo.go; cgo's preamble machinery itself cannot be built in the sandbox

//go:linkname cgoGoString llgo._Cfunc_GoString
func cgoGoString(p *int8) string

//go:linkname cgoGoStringN llgo._Cfunc_GoStringN
func cgoGoStringN(p *int8, n int32) string

//go:linkname cgoGoBytes llgo._Cfunc_GoBytes
func cgoGoBytes(p unsafe.Pointer, n int32) []byte

//go:linkname cgoCString llgo._Cfunc_CString
func cgoCString(s string) *int8

//go:linkname cgoCBytes llgo._Cfunc_CBytes
func cgoCBytes(b []byte) unsafe.Pointer

//go:linkname scheck C.scheck
func scheck(k int32, p *c.Char) int32

//go:linkname sget C.sget
func sget(k int32) *c.Char

//go:linkname sbuf C.sbuf
func sbuf(k int32) *c.Char

//go:linkname sscribble C.sscribble
func sscribble(k int32)

//go:linkname sfree C.sfree
func sfree(p unsafe.Pointer, n int32)

//go:linkname sverify C.sverify
func sverify(k int32, p *byte, n int32, want int32) int32

//go:linkname sdone C.sdone
func sdone(k int32, mask int32, n int32)

var strs = []string{@STRS@}

func bit(i uint, ok int32) int32 {
	if ok != 0 {
		return 1 << i
	}
	return 0
}

func min32(a, b int32) int32 {
	if a < b {
		return a
	}
	return b
}

func main() {
	for i, s := range strs {
		k := int32(i)
		L := int32(len(s))
		m := int32(0)
		// Go -> C: AllocaCStr
		m |= bit(0, scheck(k, c.AllocaCStr(s)))
		// C -> Go, checked at once (C's constant table)
		g := c.GoString(sget(k))
		m |= bit(1, sverify(k, unsafe.StringData(g), int32(len(g)), L))
		g2 := c.GoString(sget(k), min32(L, 1))
		m |= bit(2, sverify(k, unsafe.StringData(g2), int32(len(g2)), min32(L, 1)))
		// C -> Go with a HISTORY: C hands out a buffer it owns, Go converts, C reuses (and frees) the buffer, Go reads
		p := sbuf(k)
		n3 := min32(L, 3)
		a1 := cgoGoString(p)
		a2 := cgoGoStringN(p, n3)
		a3 := cgoGoBytes(unsafe.Pointer(p), L)
		a4 := c.GoString(p)
		a5 := c.GoString(p, n3)
		sscribble(k)
		m |= bit(3, sverify(k, unsafe.StringData(a1), int32(len(a1)), L))
		m |= bit(4, sverify(k, unsafe.StringData(a2), int32(len(a2)), n3))
		m |= bit(5, sverify(k, unsafe.SliceData(a3), int32(len(a3)), L))
		m |= bit(6, sverify(k, unsafe.StringData(a4), int32(len(a4)), L))
		m |= bit(7, sverify(k, unsafe.StringData(a5), int32(len(a5)), n3))
		// Go -> C copies: C.CString, C.CBytes; the Go side then changes its slice, C frees its copy
		cs := cgoCString(s)
		m |= bit(8, scheck(k, cs))
		if L > 0 {
			src := []byte(s)
			cb := cgoCBytes(src)
			for j := range src {
				src[j] ^= 0x5a
			}
			m |= bit(9, sverify(k, (*byte)(cb), L, L))
			sfree(cb, L)
		} else {
			m |= bit(9, 1) // the empty slice is checked on its own below: it may panic
		}
		back := cgoGoString(cs)
		sfree(unsafe.Pointer(cs), L+1)
		m |= bit(10, sverify(k, unsafe.StringData(back), int32(len(back)), L))
		sdone(k, m, int32(len(a1)))
	}
	// nil / zero-length corner cases
	e := int32(0)
	if cgoGoString(nil) == "" {
		e |= 1
	}
	if cgoGoStringN(sget(0), 0) == "" {
		e |= 2
	}
	if len(cgoGoBytes(unsafe.Pointer(sget(0)), 0)) == 0 {
		e |= 4
	}
	sdone(-1, e, 0)
	sdone(-2, cbytesEmpty(), 0)
}

// C.CBytes of an empty slice is a valid (zero-length) C buffer
func cbytesEmpty() (ok int32) {
	defer func() {
		if recover() != nil {
			ok = 0
		}
	}()
	p := cgoCBytes([]byte{})
	sfree(p, 0)
	return 1
}
'''

CSTR_CS_GO = '''package cs

const (
	LLGoFiles   = "_wrap/s.c"
	LLGoPackage = "link"
)
'''

CSTR_C = r'''#include <string.h>
#include <stdint.h>
#include <stdio.h>
#include <stdlib.h>
static const char *tab[] = {@TAB@};
static const int tabn[] = {@TABN@};
static char sbuf_static[512];
static char *sbuf_cur; static int sbuf_heap;
int32_t scheck(int32_t k, const char *p) { return strlen(p) == (size_t)tabn[k] && memcmp(p, tab[k], tabn[k]) == 0; }
const char *sget(int32_t k) { return tab[k]; }
/* a buffer C owns, holding string k: static storage for even k, malloc'd for odd k */
char *sbuf(int32_t k) {
  sbuf_heap = k & 1;
  sbuf_cur = sbuf_heap ? malloc(tabn[k] + 1) : sbuf_static;
  memcpy(sbuf_cur, tab[k], tabn[k] + 1);
  return sbuf_cur;
}
/* C reuses its buffer: every byte changes; the malloc'd one is freed as well */
void sscribble(int32_t k) {
  volatile char *q = sbuf_cur;   /* volatile: clang-14's loop vectoriser crashes under -opaque-pointers (sandbox limit) */
  for (int i = 0; i <= tabn[k]; i++) q[i] = (char)(((unsigned char)tab[k][i] ^ 0x5A) ? ((unsigned char)tab[k][i] ^ 0x5A) : 0x41);
  if (sbuf_heap) free(sbuf_cur);
}
void sfree(void *p, int32_t n) { if (p) { memset(p, 0x5A, n); free(p); } }
/* the first `want` bytes of string k, exactly */
int32_t sverify(int32_t k, const char *p, int32_t n, int32_t want) { return n == want && (n == 0 || memcmp(p, tab[k], n) == 0); }
void sdone(int32_t k, int32_t mask, int32_t n) { printf("S %d %d %d\n", k, mask, n); fflush(stdout); }
'''

CSTR_BITS = ["AllocaCStr seen by C", "c.GoString(p) at once", "c.GoString(p, n) at once", "C.GoString(p) after C reused its buffer",
             "C.GoStringN(p, n) after C reused its buffer", "C.GoBytes(p, n) after C reused its buffer",
             "c.GoString(p) [llgo.string] after C reused its buffer", "c.GoString(p, n) [llgo.string] after C reused its buffer",
             "C.CString(s) seen by C", "C.CBytes(b) after Go changed b", "C.GoString(C.CString(s)) after C freed the copy"]


def cstr_e2e(ctx, rng, n, opts=("-O0", "-O2")):
    """Go string -> AllocaCStr -> C compares; C string -> GoString -> C compares (NUL-free byte strings)"""
    strs = [b for b in cstr_inputs(rng, n * 2) if 0 not in b and len(b) <= 120][:n]
    go_lit = ", ".join('"' + "".join("\\x%02x" % x for x in b) + '"' for b in strs)
    c_lit = ", ".join('"' + "".join("\\%03o" % x for x in b) + '"' for b in strs)
    d = os.path.join(ctx.scratch, "cstr")
    gomod = "module verifprog\n\ngo 1.24\n\nrequire github.com/goplus/lib v0.3.1\n"
    e2e.write_module(d, {"main.go": CSTR_GO.replace("@STRS@", go_lit), "cs/cs.go": CSTR_CS_GO,
                         "cs/_wrap/s.c": CSTR_C.replace("@TAB@", c_lit).replace("@TABN@", ", ".join(str(len(b)) for b in strs)),
                         "go.mod": gomod})
    if os.path.exists(os.path.join(REPO, "go.sum")):
        shutil.copy(os.path.join(REPO, "go.sum"), os.path.join(d, "go.sum"))
    res = {"cases": len(strs), "failures": 0}
    for opt in opts:
        p = e2e.llgo_build(ctx, d, os.path.join(d, "prog" + opt), opt=opt, timeout=1800)
        if p.returncode != 0:
            ctx.log("C-string e2e program does not build (%s): %s" % (opt, (p.stdout + p.stderr)[-600:]))
            res["build_" + opt] = "failed: " + (p.stdout + p.stderr)[-300:]
            ctx.broken.append("C-string e2e program does not build at " + opt)
            continue
        out, err, rc = e2e.run_prog(os.path.join(d, "prog" + opt), timeout=120)
        got = {}
        for line in out.split("\n"):
            f = line.split()
            if len(f) == 4 and f[0] == "S":
                got[int(f[1])] = [int(x) for x in f[2:]]
        full = (1 << len(CSTR_BITS)) - 1
        reported = 0
        for i, b in enumerate(strs):
            exp = [full, len(b)]
            g = got.get(i)
            if g == exp:
                continue
            bad_bits = [j for j in range(len(CSTR_BITS)) if g is None or not (g[0] >> j) & 1]
            rep = {"bytes": hexs(b), "got": g, "expected": exp, "opt": opt, "failed": [CSTR_BITS[j] for j in bad_bits],
                   "history": "C hands out a buffer holding the bytes; Go converts; C overwrites (and frees) the buffer; Go passes the value back to C for comparison"}
            if g is not None and bad_bits == [5] and g[1] == len(b):
                res["gobytes_alias"] = res.get("gobytes_alias", 0) + 1
                if not res.get("gobytes_reported"):
                    res["gobytes_reported"] = True
                    ctx.report(K_GOBYTES, "C.GoBytes(p, n) returns a window onto the C buffer, not a copy (%s): the Go slice changes when C reuses the buffer" % opt, rep)
                continue
            res["failures"] += 1
            if reported < 3:
                reported += 1
                ctx.report("cstr:e2e:%s:%s:%s" % (opt, "+".join(str(j) for j in bad_bits), hexs(b)),
                           "bytes lost across the Go/C boundary at %s: %s" % (opt, "; ".join(CSTR_BITS[j] for j in bad_bits[:3])), rep)
        if got.get(-2) != [1, 0]:
            res["cbytes_empty_panics"] = res.get("cbytes_empty_panics", 0) + 1
            if not res.get("cbytes_reported"):
                res["cbytes_reported"] = True
                ctx.report(K_CBYTES, "C.CBytes([]byte{}) does not return a (zero-length) C buffer: it panics with 'index out of range' (%s)" % opt,
                           {"input": "C.CBytes([]byte{})", "got": got.get(-2), "expected": [1, 0], "opt": opt, "exit": rc})
        if got.get(-1) != [7, 0]:
            res["failures"] += 1
            ctx.report("cstr:e2e:%s:nil-and-zero-length" % opt, "C.GoString(nil) / C.GoStringN(p, 0) / C.GoBytes(p, 0) is not empty", {"got": got.get(-1), "opt": opt})
    res.pop("gobytes_reported", None)
    res.pop("cbytes_reported", None)
    ctx.log("C strings (e2e AllocaCStr / c.GoString / C.GoString[N] / C.GoBytes / C.CString / C.CBytes with buffer reuse): %d strings x %s, failures %d%s" %
            (len(strs), "/".join(opts), res["failures"], (", GoBytes aliasing (known) on %d" % res["gobytes_alias"]) if res.get("gobytes_alias") else ""))
    return res
