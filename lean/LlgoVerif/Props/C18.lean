import LlgoVerif.Lemmas.Targets
import LlgoVerif.Gen.C18Fields
/-!
# C18 — every target description resolves to one well-defined configuration

Property theorems only.  Model: `LlgoVerif/Model/Targets.lean` (`load` = `Loader.Load`/`resolveInheritance`/`mergeConfig`
of `internal/targets/loader.go`, `loadV` = the same loader with the visited path of `fixes/C18-1.diff`);
specification: `LlgoVerif/Spec/Targets.lean` (`lineage` = depth-first inheritance order, `specConfig`);
lemmas: `LlgoVerif/Lemmas/Targets.lean`; regenerated facts about the Go source: `LlgoVerif/Gen/C18Fields.lean`.

All statements quantify over **every** directory `fs` (any number of files, any `inherits` graph — forests, diamonds,
cycles, dangling parents, unparsable files), every name and every stack budget `fuel`.
-/
namespace LlgoVerif.Targets

/-! ## Precedence: what a resolved configuration contains -/

/-- **Refinement.** On every directory, for every name and stack budget, the loader computes exactly the
    specification: the field-wise combination (`specConfig`) of the depth-first inheritance order (`lineage`), the
    same error when the lineage cannot be read, and it diverges exactly when the walk does. -/
theorem resolve_eq_spec (fs : FS) (fuel : Nat) (name : String) :
    load fs fuel name = specResolve fs fuel name :=
  load_eq_spec fs fuel name

/-- A successful resolution has a lineage, and it ends with the description's own settings
    ("… followed by its own"). -/
theorem resolve_lineage (fs : FS) (fuel : Nat) (name : String) (cfg : Config)
    (h : load fs fuel name = .ok cfg) :
    ∃ ds raw, lineage fs fuel name = .ok (ds ++ [(name, raw.config)]) ∧ loadRaw fs name = .ok raw := by
  rw [load_eq_spec, specResolve] at h
  cases fuel with
  | zero => simp [lineage, Outcome.map] at h
  | succ fuel =>
    simp only [lineage] at h ⊢
    cases hr : loadRaw fs name with
    | error e => rw [hr] at h; simp [Outcome.map] at h
    | ok raw =>
      rw [hr] at h
      simp only at h ⊢
      cases hl : lineages (lineage fs fuel) raw.inherits with
      | ok ds => exact ⟨ds, raw, rfl, rfl⟩
      | error e => rw [hl] at h; simp [Outcome.map] at h
      | diverge => rw [hl] at h; simp [Outcome.map] at h

/-- **Scalar precedence** (`resolve_scalar`): every string setting of the resolved configuration is the value given by
    the *last* description, in depth-first inheritance order, that sets it (`""` when none does). -/
theorem resolve_scalar (fs : FS) (fuel : Nat) (name : String) (cfg : Config) (ds : List (String × Config))
    (h : load fs fuel name = .ok cfg) (hl : lineage fs fuel name = .ok ds) (f : SField) :
    cfg.str f = lastSet (ds.map fun d => d.2.str f) := by
  rw [load_eq_spec, specResolve, hl] at h
  simp only [Outcome.map] at h
  injection h with h
  rw [← h]; simp [specConfig]

/-- `resolve_scalar`, spelled out: if `(n, c)` sets `f` and no later description of the lineage does, the resolved
    value is `c`'s. -/
theorem resolve_scalar_last (fs : FS) (fuel : Nat) (name : String) (cfg : Config)
    (pre post : List (String × Config)) (n : String) (c : Config) (f : SField)
    (h : load fs fuel name = .ok cfg) (hl : lineage fs fuel name = .ok (pre ++ (n, c) :: post))
    (hset : c.str f ≠ "") (hpost : ∀ d ∈ post, d.2.str f = "") : cfg.str f = c.str f := by
  rw [resolve_scalar fs fuel name cfg _ h hl f]
  simp only [List.map_append, List.map_cons]
  apply lastSet_last _ _ _ hset
  intro x hx
  obtain ⟨d, hd, rfl⟩ := List.mem_map.mp hx
  exact hpost d hd

/-- … and a setting that no description of the lineage sets stays unset. -/
theorem resolve_scalar_unset (fs : FS) (fuel : Nat) (name : String) (cfg : Config) (ds : List (String × Config))
    (f : SField) (h : load fs fuel name = .ok cfg) (hl : lineage fs fuel name = .ok ds)
    (hun : ∀ d ∈ ds, d.2.str f = "") : cfg.str f = "" := by
  rw [resolve_scalar fs fuel name cfg _ h hl f]
  apply lastSet_all_unset
  intro x hx
  obtain ⟨d, hd, rfl⟩ := List.mem_map.mp hx
  exact hun d hd

example : ∃ (c : Config), c.str .cpu ≠ "" ∧ ∀ d ∈ [("x", ({} : Config))], d.2.str .cpu = "" :=
  ⟨{ cpu := "cortex-m0" }, by decide, by decide⟩

/-- The one boolean setting (`rp2040-boot-patch`; Go's "unset" is `false`): set iff some description sets it. -/
theorem resolve_flag (fs : FS) (fuel : Nat) (name : String) (cfg : Config) (ds : List (String × Config))
    (h : load fs fuel name = .ok cfg) (hl : lineage fs fuel name = .ok ds) :
    cfg.rp2040BootPatch = ds.any fun d => d.2.rp2040BootPatch := by
  rw [load_eq_spec, specResolve, hl] at h
  simp only [Outcome.map] at h
  injection h with h
  rw [← h]; simp [specConfig]

/-- **List concatenation** (`resolve_list`): every list setting of the resolved configuration is the concatenation
    of the descriptions' own lists in depth-first inheritance order (ancestors first, own list last). -/
theorem resolve_list (fs : FS) (fuel : Nat) (name : String) (cfg : Config) (ds : List (String × Config))
    (h : load fs fuel name = .ok cfg) (hl : lineage fs fuel name = .ok ds) (l : LField) :
    cfg.list l = (ds.map fun d => d.2.list l).flatten := by
  rw [load_eq_spec, specResolve, hl] at h
  simp only [Outcome.map] at h
  injection h with h
  rw [← h]; simp [specConfig]

/-- The resolved configuration carries the requested name (never a parent's). -/
theorem resolve_name (fs : FS) (fuel : Nat) (name : String) (cfg : Config)
    (h : load fs fuel name = .ok cfg) : cfg.name = name := by
  rw [load_eq_spec, specResolve] at h
  cases hl : lineage fs fuel name with
  | ok ds => rw [hl] at h; simp only [Outcome.map] at h; injection h with h; rw [← h]; simp [specConfig]
  | error e => rw [hl] at h; simp [Outcome.map] at h
  | diverge => rw [hl] at h; simp [Outcome.map] at h

/-- **"Nearest description"**, read on the parents' *resolved* configurations: a description's own value wins; a
    setting it leaves unset comes from the last-listed parent whose resolved configuration has it; lists are the
    parents' resolved lists, in `inherits` order, followed by the own list. -/
theorem resolve_nearest (fs : FS) (fuel : Nat) (name : String) (cfg : Config)
    (h : load fs (fuel + 1) name = .ok cfg) :
    ∃ (raw : RawConfig) (cs : List Config), loadRaw fs name = .ok raw ∧
      raw.inherits.map (load fs fuel) = cs.map Outcome.ok ∧
      (∀ f, cfg.str f = if raw.config.str f ≠ "" then raw.config.str f else lastSet (cs.map fun c => c.str f)) ∧
      (∀ l, cfg.list l = (cs.map fun c => c.list l).flatten ++ raw.config.list l) := by
  rw [load_succ] at h
  obtain ⟨raw, cs, hr, hcs, hcfg⟩ := loadStep_ok_nearest fs _ name cfg h
  refine ⟨raw, cs, hr, hcs, ?_, ?_⟩
  · intro f
    rw [hcfg, mergeAll_append, mergeAll_cons, mergeAll_nil, mergeConfig_str, mergeAll_str]
    simp only [List.map_map, empty_str]
    by_cases h1 : raw.config.str f = ""
    · simp only [h1, ne_eq, not_true_eq_false, ↓reduceIte]
      split <;> simp_all [Function.comp_def]
    · simp [h1]
  · intro l
    rw [hcfg, mergeAll_append, mergeAll_cons, mergeAll_nil, mergeConfig_list, mergeAll_list]
    simp [List.map_map, Function.comp_def]

/-- The hypotheses of the precedence theorems are satisfiable: a diamond `a → {b, c} → d`. -/
def diamondFS : FS :=
  [("a", .good { inherits := ["b", "c"], config := { cFlags := ["-a"] } }),
   ("b", .good { inherits := ["d"], config := { cpu := "b-cpu", cFlags := ["-b"] } }),
   ("c", .good { inherits := ["d"], config := { features := "c-feat" } }),
   ("d", .good { inherits := [], config := { cpu := "d-cpu", features := "d-feat", cFlags := ["-d"] } })]

example : ∃ cfg ds, load diamondFS 3 "a" = .ok cfg ∧ lineage diamondFS 3 "a" = .ok ds
    ∧ ds.map (·.1) = ["d", "b", "d", "c", "a"]
    ∧ cfg.cpu = "d-cpu" ∧ cfg.features = "c-feat" ∧ cfg.cFlags = ["-d", "-b", "-d", "-a"] :=
  ⟨_, _, rfl, rfl, by decide, by decide, by decide, by decide⟩

/-! ## Determinism -/

/-- **Determinism in the stack budget**: once a result (configuration or error) is produced, every larger budget
    produces the same result. -/
theorem resolve_deterministic (fs : FS) (fuel fuel' : Nat) (name : String) (r : Outcome Config)
    (h : load fs fuel name = r) (hr : r ≠ .diverge) (hle : fuel ≤ fuel') : load fs fuel' name = r :=
  load_mono fs fuel fuel' name r h hr hle

example : load diamondFS 3 "a" ≠ .diverge := by decide

/-- **Independence of the directory representation**: two directories that give the same content for every file
    name resolve every name identically (the loader reads the directory only through name → content). -/
theorem resolve_deterministic_fs (fs fs' : FS) (h : ∀ n, fs.lookup n = fs'.lookup n) (fuel : Nat)
    (name : String) : load fs fuel name = load fs' fuel name :=
  load_congr_fs fs fs' h fuel name

/-- … in particular any reordering of the directory listing (file names being unique). -/
theorem resolve_deterministic_perm (fs fs' : FS) (hp : fs.Perm fs') (hnd : (fs.map Prod.fst).Nodup)
    (fuel : Nat) (name : String) : load fs fuel name = load fs' fuel name :=
  load_congr_fs fs fs' (lookup_perm hp hnd) fuel name

example : (diamondFS.map Prod.fst).Nodup ∧ diamondFS.Perm diamondFS.reverse :=
  ⟨by decide, (List.reverse_perm _).symm⟩

/-! ## Missing and unreadable parents -/

/-- A name whose file is missing or unparsable is an error (with any non-zero budget). -/
theorem resolve_missing (fs : FS) (fuel : Nat) (name : String) (e : Err) (h : loadRaw fs name = .error e) :
    load fs (fuel + 1) name = .error e := by
  simp [load, h]

/-- **Missing parent**: if any description reachable through `inherits` is missing or unparsable, no budget makes
    the loader return a configuration. -/
theorem resolve_missing_parent (fs : FS) (name q : String) (e : Err) (hq : Reach fs name q)
    (he : loadRaw fs q = .error e) (fuel : Nat) (cfg : Config) : load fs fuel name ≠ .ok cfg := by
  intro h
  obtain ⟨raw, hr⟩ := load_ok_reach fs fuel name q cfg h hq
  rw [he] at hr; cases hr

example : ∃ raw, loadRaw [("a", .good { inherits := ["gone"] })] "a" = .ok raw ∧ "gone" ∈ raw.inherits
    ∧ loadRaw [("a", .good { inherits := ["gone"] })] "gone" = .error (.missing "gone") :=
  ⟨_, rfl, by decide, rfl⟩

/-! ## Totality — and the finding: a cyclic `inherits` never terminates -/

/-- The full statement the property asks for: resolution always ends (with a configuration or an error). -/
def ResolveTotal : Prop := ∀ (fs : FS) (name : String), ∃ fuel, load fs fuel name ≠ .diverge

/-- the smallest cyclic directory: `a.json = {"inherits": ["a"]}` -/
def selfCycleFS : FS := [("a", .good { inherits := ["a"] })]

/-- `a.json = {"inherits": ["b"]}`, `b.json = {"inherits": ["a"]}` -/
def twoCycleFS : FS := [("a", .good { inherits := ["b"] }), ("b", .good { inherits := ["a"] })]

theorem selfCycle_diverges (fuel : Nat) : load selfCycleFS fuel "a" = .diverge := by
  induction fuel with
  | zero => rfl
  | succ fuel ih =>
    have hr : loadRaw selfCycleFS "a" = .ok { inherits := ["a"], config := { name := "a" } } := rfl
    simp [load, hr, RawConfig.hasInheritance, mergeParents, ih]

theorem twoCycle_diverges (fuel : Nat) :
    load twoCycleFS fuel "a" = .diverge ∧ load twoCycleFS fuel "b" = .diverge := by
  induction fuel with
  | zero => exact ⟨rfl, rfl⟩
  | succ fuel ih =>
    have ha : loadRaw twoCycleFS "a" = .ok { inherits := ["b"], config := { name := "a" } } := rfl
    have hb : loadRaw twoCycleFS "b" = .ok { inherits := ["a"], config := { name := "b" } } := rfl
    constructor
    · simp [load, ha, RawConfig.hasInheritance, mergeParents, ih.2]
    · simp [load, hb, RawConfig.hasInheritance, mergeParents, ih.1]

/-- **Finding.** `ResolveTotal` is false for the loader as written: it keeps no visited set, so on
    `a.json = {"inherits": ["a"]}` every stack budget is exhausted (the Go process dies with
    "fatal error: stack overflow"; replayed on the real code by `./check C18`). -/
theorem resolve_total_counterexample : ¬ ResolveTotal := by
  intro h
  obtain ⟨fuel, hf⟩ := h selfCycleFS "a"
  exact hf (selfCycle_diverges fuel)

/-- More generally, a description that lies on an inheritance cycle never resolves to a configuration, whatever
    the budget (it diverges, or fails earlier on some other unreadable parent). -/
theorem resolve_cycle_never_ok (fs : FS) (name : String) (hc : OnCycle fs name) (fuel : Nat) (cfg : Config) :
    load fs fuel name ≠ .ok cfg :=
  load_cycle_not_ok fs fuel name hc cfg

example : OnCycle twoCycleFS "a" :=
  ⟨{ inherits := ["b"], config := { name := "a" } }, "b", rfl, by decide,
   .step (raw := { inherits := ["a"], config := { name := "b" } }) rfl (by decide) (.refl "a")⟩

/-- **Totality on acyclic forests** (`resolve_total`, the part that holds): if the decidable depth-first test finds
    no name repeated on its own inheritance path, resolution ends — with a configuration or an error — within
    `fs.length + 1` nested loads, and every larger budget gives that same result. -/
theorem resolve_total_partial (fs : FS) (name : String) (h : acyclic fs name = true) :
    ∃ r, r ≠ Outcome.diverge ∧ ∀ fuel, fs.length + 1 ≤ fuel → load fs fuel name = r := by
  have hnd := acyclicFrom_load fs (fs.length + 1) [] name h
  exact ⟨load fs (fs.length + 1) name, hnd, fun fuel hle => load_mono fs _ fuel name _ rfl hnd hle⟩

example : acyclic diamondFS "a" = true := by decide
example : acyclic selfCycleFS "a" = false := by decide
example : acyclic twoCycleFS "b" = false := by decide

/-- The decidable test accepts every DAG: if some rank decreases strictly along every `inherits` edge, the test
    succeeds for every name (so `resolve_total_partial` covers all acyclic forests, of any size and depth). -/
theorem acyclic_of_ranked (fs : FS) (rank : String → Nat) (hr : Ranked fs rank) (name : String) :
    acyclic fs name = true :=
  acyclicFrom_of_ranked fs rank hr (fs.length + 1) [] name (by simp) List.nodup_nil (by simp) (by simp)

example : Ranked diamondFS (fun n => if n = "a" then 2 else if n = "d" then 0 else 1) :=
  ranked_of_rankedB _ _ (by decide)

/-- On an acyclic forest a missing / unparsable ancestor makes the result an **error** (not a hang, not a
    configuration). -/
theorem resolve_missing_parent_error (fs : FS) (name q : String) (e : Err) (h : acyclic fs name = true)
    (hq : Reach fs name q) (he : loadRaw fs q = .error e) :
    ∃ e', ∀ fuel, fs.length + 1 ≤ fuel → load fs fuel name = .error e' := by
  obtain ⟨r, hr, hall⟩ := resolve_total_partial fs name h
  cases r with
  | ok cfg => exact absurd (hall _ (Nat.le_refl _)) (resolve_missing_parent fs name q e hq he _ cfg)
  | error e' => exact ⟨e', hall⟩
  | diverge => exact absurd rfl hr

example : acyclic [("a", .good { inherits := ["gone"] })] "a" = true
    ∧ Reach [("a", .good { inherits := ["gone"] })] "a" "gone"
    ∧ loadRaw [("a", .good { inherits := ["gone"] })] "gone" = .error (.missing "gone") :=
  ⟨by decide, .step (raw := { inherits := ["gone"], config := { name := "a" } }) rfl (by decide) (.refl _), rfl⟩

/-! ## The repaired loader (`fixes/C18-1.diff`: visited path) -/

/-- With the visited path the loader is total on **every** directory: `fs.length + 1` nested loads always suffice. -/
theorem fixed_total (fs : FS) (name : String) : loadV fs (fs.length + 1) [] name ≠ .diverge :=
  loadV_ne_diverge fs (fs.length + 1) [] name List.nodup_nil (by simp) (by simp)

/-- The repair changes nothing on acyclic forests (diamonds included: the path is a stack, not a global set). -/
theorem fixed_agrees (fs : FS) (name : String) (h : acyclic fs name = true) :
    loadV fs (fs.length + 1) [] name = load fs (fs.length + 1) name :=
  loadV_eq_load fs (fs.length + 1) [] name h

/-- `cycle → .error`: a description on an inheritance cycle resolves to an error. -/
theorem fixed_cycle_error (fs : FS) (name : String) (hc : OnCycle fs name) :
    ∃ e, loadV fs (fs.length + 1) [] name = .error e := by
  cases h : loadV fs (fs.length + 1) [] name with
  | ok cfg => exact absurd h (loadV_cycle_not_ok fs _ [] name hc cfg)
  | error e => exact ⟨e, rfl⟩
  | diverge => exact absurd h (fixed_total fs name)

example : loadV selfCycleFS 2 [] "a" = .error (.cycle "a") := by decide
example : loadV twoCycleFS 3 [] "b" = .error (.cycle "b") := by decide

/-! ## Tie (A): the field lists of the Go source, regenerated on every run -/

/-- **`mergeConfig_complete`**: every field of `type Config struct` (as declared in the working tree *now*), other
    than the identifying `Name`, is written by `mergeConfig` (as written in the working tree *now*).  Adding a
    field to `Config` without merging it makes this theorem false. -/
theorem mergeConfig_complete :
    ∀ f ∈ Gen.C18.configFields, f.1 ≠ "Name" → f.1 ∈ Gen.C18.mergedFields := by decide

/-- `mergeConfig` writes nothing but declared fields, and never the name. -/
theorem mergeConfig_sound :
    ∀ m ∈ Gen.C18.mergedFields, m ≠ "Name" ∧ m ∈ Gen.C18.configFields.map (·.1) := by decide

/-- Every field of the Lean model is a field of the Go struct, with the same Go type (the model speaks about no
    setting that does not exist).  The converse — every field of the struct is in the model — is
    `GenProofs/C18Coverage.lean` `config_fields_modelled`. -/
theorem model_fields_declared :
    ∀ m ∈ modelFields, m ∈ Gen.C18.configFields.map fun f => (f.1, f.2.1) := by decide

/-- `RawConfig` is `Inherits []string` (JSON key `inherits`) plus the embedded `Config`. -/
theorem rawConfig_shape :
    Gen.C18.rawConfigFields = [("Inherits", "[]string", "inherits"), ("Config", "Config", "")] := by decide

end LlgoVerif.Targets
