import LlgoVerif.Lemmas.ChanThreads
/-! Liveness-side invariant for C10: a thread parked in one of the two *buffered* wait loops of
    `ChanSend` / `ChanRecv` has its wait condition still true, unless a `Broadcast` on that channel is pending. -/
namespace LlgoVerif.Chan

/-! ### channel-level facts about the critical sections -/

theorem body_cap (p : Point) (t : Tid) (ch : Chan) : (body p t ch).ch.cap = ch.cap := by
  cases p <;> simp only [body]
  case sendLock c v => unfold sendLoop; split <;> (try split) <;> (try split) <;> simp_all [Chan.push, Chan.handOff] <;> (split <;> simp_all)
  case sendWaitU c v => unfold sendLoop; split <;> (try split) <;> (try split) <;> simp_all [Chan.push, Chan.handOff] <;> (split <;> simp_all)
  case sendWaitB c v => unfold sendLoop; split <;> (try split) <;> (try split) <;> simp_all [Chan.push, Chan.handOff] <;> (split <;> simp_all)
  case recvLock c sl => unfold recvLoop; split <;> (try split) <;> (try split) <;> simp_all [Chan.pop]
  case recvWaitU c sl => unfold recvLoop; split <;> (try split) <;> (try split) <;> simp_all [Chan.pop]
  case recvWaitB c sl => unfold recvLoop; split <;> (try split) <;> (try split) <;> simp_all [Chan.pop]
  case recv2Lock c b => unfold recv2Loop; split <;> simp_all
  case recv2Wait c b => unfold recv2Loop; split <;> simp_all
  case closeLock c => unfold closeBody; split <;> simp_all
  case trySendLock c v => unfold trySendBody; split <;> (try split) <;> simp_all [Chan.push, Chan.handOff] <;> (split <;> simp_all)
  case tryRecvLock c sl a => unfold tryRecvBody; split <;> (try split) <;> (try split) <;> simp_all [Chan.pop]
  case prepLock c b => unfold prepBody; split <;> simp_all <;> (split <;> simp_all)
  case endLock c b => unfold endBody; simp_all; split <;> simp_all

/-- a critical section that changes anything a `Cond.Wait` loop tests is followed by `Unlock; Broadcast` -/
theorem body_change_broadcasts (p : Point) (t : Tid) (ch : Chan)
    (h : (body p t ch).ch.len ≠ ch.len ∨ (body p t ch).ch.closed ≠ ch.closed ∨ (body p t ch).ch.getp ≠ ch.getp) :
    ∃ n, (body p t ch).out = .notify (.finish true n) := by
  cases p <;> simp only [body] at h ⊢
  case sendLock c v => unfold sendLoop at h ⊢; split <;> (try split) <;> (try split) <;> simp_all [Chan.push, Chan.handOff] <;> (split <;> simp_all)
  case sendWaitU c v => unfold sendLoop at h ⊢; split <;> (try split) <;> (try split) <;> simp_all [Chan.push, Chan.handOff] <;> (split <;> simp_all)
  case sendWaitB c v => unfold sendLoop at h ⊢; split <;> (try split) <;> (try split) <;> simp_all [Chan.push, Chan.handOff] <;> (split <;> simp_all)
  case recvLock c sl => unfold recvLoop at h ⊢; split <;> (try split) <;> (try split) <;> simp_all [Chan.pop]
  case recvWaitU c sl => unfold recvLoop at h ⊢; split <;> (try split) <;> (try split) <;> simp_all [Chan.pop]
  case recvWaitB c sl => unfold recvLoop at h ⊢; split <;> (try split) <;> (try split) <;> simp_all [Chan.pop]
  case recv2Lock c b => unfold recv2Loop at h ⊢; split <;> simp_all
  case recv2Wait c b => unfold recv2Loop at h ⊢; split <;> simp_all
  case closeLock c => unfold closeBody at h ⊢; split <;> simp_all
  case trySendLock c v => unfold trySendBody at h ⊢; split <;> (try split) <;> simp_all [Chan.push, Chan.handOff] <;> (split <;> simp_all)
  case tryRecvLock c sl a => unfold tryRecvBody at h ⊢; split <;> (try split) <;> (try split) <;> simp_all [Chan.pop]
  case prepLock c b => unfold prepBody at h ⊢; split <;> simp_all <;> (split at h <;> simp_all)
  case endLock c b => unfold endBody at h ⊢; simp_all; split at h <;> simp_all

theorem body_quiet_len (p : Point) (t : Tid) (ch : Chan)
    (h : ∀ n, (body p t ch).out ≠ .notify (.finish true n)) : (body p t ch).ch.len = ch.len := by
  by_cases hl : (body p t ch).ch.len = ch.len
  · exact hl
  · obtain ⟨n, hn⟩ := body_change_broadcasts p t ch (Or.inl hl)
    exact absurd hn (h n)

/-- the two buffered wait loops -/
def Point.isWaitB : Point → Bool
  | .sendWaitB .. | .recvWaitB .. => true
  | _ => false

/-- the condition under which the code went to sleep at wait point `p` (buffered loops only) -/
def waitCond (p : Point) (ch : Chan) : Prop :=
  match p with
  | .sendWaitB .. => ch.len = ch.cap ∧ ch.cap ≠ 0
  | .recvWaitB .. => ch.len = 0 ∧ ch.cap ≠ 0
  | _ => True

theorem waitCond_of_not_B (p : Point) (ch : Chan) (h : p.isWaitB = false) : waitCond p ch := by
  cases p <;> simp_all [Point.isWaitB, waitCond]

theorem waitCond_congr (p : Point) (ch ch' : Chan) (h1 : ch'.len = ch.len) (h2 : ch'.cap = ch.cap)
    (h : waitCond p ch) : waitCond p ch' := by
  cases p <;> simp_all [waitCond]

theorem isWait_of_isWaitB (p : Point) (h : p.isWaitB = true) : p.isWait = true := by
  cases p <;> simp_all [Point.isWaitB, Point.isWait]

/-- going to sleep: same channel, and the wait condition holds at that moment -/
theorem body_wait (p q : Point) (t : Tid) (ch : Chan) (h : (body p t ch).out = .wait q) :
    q.chan = p.chan ∧ waitCond q ch := by
  cases p <;> simp only [body] at h
  case sendLock c v => unfold sendLoop at h; split at h <;> (try split at h) <;> (try split at h) <;> (try simp_all) <;> (try split at h) <;> (try simp_all) <;> (try (subst h; simp_all [waitCond, Point.chan, Point.isWaitB]))
  case sendWaitU c v => unfold sendLoop at h; split at h <;> (try split at h) <;> (try split at h) <;> (try simp_all) <;> (try split at h) <;> (try simp_all) <;> (try (subst h; simp_all [waitCond, Point.chan, Point.isWaitB]))
  case sendWaitB c v => unfold sendLoop at h; split at h <;> (try split at h) <;> (try split at h) <;> (try simp_all) <;> (try split at h) <;> (try simp_all) <;> (try (subst h; simp_all [waitCond, Point.chan, Point.isWaitB]))
  case recvLock c sl => unfold recvLoop at h; split at h <;> (try split at h) <;> (try split at h) <;> (try simp_all) <;> (try split at h) <;> (try simp_all) <;> (try (subst h; simp_all [waitCond, Point.chan, Point.isWaitB]))
  case recvWaitU c sl => unfold recvLoop at h; split at h <;> (try split at h) <;> (try split at h) <;> (try simp_all) <;> (try split at h) <;> (try simp_all) <;> (try (subst h; simp_all [waitCond, Point.chan, Point.isWaitB]))
  case recvWaitB c sl => unfold recvLoop at h; split at h <;> (try split at h) <;> (try split at h) <;> (try simp_all) <;> (try split at h) <;> (try simp_all) <;> (try (subst h; simp_all [waitCond, Point.chan, Point.isWaitB]))
  case recv2Lock c b => unfold recv2Loop at h; split at h <;> (try split at h) <;> (try split at h) <;> (try simp_all) <;> (try split at h) <;> (try simp_all) <;> (try (subst h; simp_all [waitCond, Point.chan, Point.isWaitB]))
  case recv2Wait c b => unfold recv2Loop at h; split at h <;> (try split at h) <;> (try split at h) <;> (try simp_all) <;> (try split at h) <;> (try simp_all) <;> (try (subst h; simp_all [waitCond, Point.chan, Point.isWaitB]))
  case closeLock c => unfold closeBody at h; split at h <;> (try split at h) <;> (try split at h) <;> (try simp_all) <;> (try split at h) <;> (try simp_all) <;> (try (subst h; simp_all [waitCond, Point.chan, Point.isWaitB]))
  case trySendLock c v => unfold trySendBody at h; split at h <;> (try split at h) <;> (try split at h) <;> (try simp_all) <;> (try split at h) <;> (try simp_all) <;> (try (subst h; simp_all [waitCond, Point.chan, Point.isWaitB]))
  case tryRecvLock c sl a => unfold tryRecvBody at h; split at h <;> (try split at h) <;> (try split at h) <;> (try simp_all) <;> (try split at h) <;> (try simp_all) <;> (try (subst h; simp_all [waitCond, Point.chan, Point.isWaitB]))
  case prepLock c b => unfold prepBody at h; split at h <;> (try split at h) <;> (try split at h) <;> (try simp_all) <;> (try split at h) <;> (try simp_all) <;> (try (subst h; simp_all [waitCond, Point.chan, Point.isWaitB]))
  case endLock c b => unfold endBody at h; split at h <;> (try split at h) <;> (try split at h) <;> (try simp_all) <;> (try split at h) <;> (try simp_all) <;> (try (subst h; simp_all [waitCond, Point.chan, Point.isWaitB]))

/-- `notifyOps` followed by `Wait` happens only in the unbuffered loop of `ChanSend` -/
theorem body_notify_wait (p q : Point) (t : Tid) (ch : Chan) (h : (body p t ch).out = .notify (.wait q)) :
    q.chan = p.chan ∧ q.isWaitB = false := by
  cases p <;> simp only [body] at h
  case sendLock c v => unfold sendLoop at h; split at h <;> (try split at h) <;> (try split at h) <;> (try simp_all) <;> (try split at h) <;> (try simp_all) <;> (try (subst h; simp_all [waitCond, Point.chan, Point.isWaitB]))
  case sendWaitU c v => unfold sendLoop at h; split at h <;> (try split at h) <;> (try split at h) <;> (try simp_all) <;> (try split at h) <;> (try simp_all) <;> (try (subst h; simp_all [waitCond, Point.chan, Point.isWaitB]))
  case sendWaitB c v => unfold sendLoop at h; split at h <;> (try split at h) <;> (try split at h) <;> (try simp_all) <;> (try split at h) <;> (try simp_all) <;> (try (subst h; simp_all [waitCond, Point.chan, Point.isWaitB]))
  case recvLock c sl => unfold recvLoop at h; split at h <;> (try split at h) <;> (try split at h) <;> (try simp_all) <;> (try split at h) <;> (try simp_all) <;> (try (subst h; simp_all [waitCond, Point.chan, Point.isWaitB]))
  case recvWaitU c sl => unfold recvLoop at h; split at h <;> (try split at h) <;> (try split at h) <;> (try simp_all) <;> (try split at h) <;> (try simp_all) <;> (try (subst h; simp_all [waitCond, Point.chan, Point.isWaitB]))
  case recvWaitB c sl => unfold recvLoop at h; split at h <;> (try split at h) <;> (try split at h) <;> (try simp_all) <;> (try split at h) <;> (try simp_all) <;> (try (subst h; simp_all [waitCond, Point.chan, Point.isWaitB]))
  case recv2Lock c b => unfold recv2Loop at h; split at h <;> (try split at h) <;> (try split at h) <;> (try simp_all) <;> (try split at h) <;> (try simp_all) <;> (try (subst h; simp_all [waitCond, Point.chan, Point.isWaitB]))
  case recv2Wait c b => unfold recv2Loop at h; split at h <;> (try split at h) <;> (try split at h) <;> (try simp_all) <;> (try split at h) <;> (try simp_all) <;> (try (subst h; simp_all [waitCond, Point.chan, Point.isWaitB]))
  case closeLock c => unfold closeBody at h; split at h <;> (try split at h) <;> (try split at h) <;> (try simp_all) <;> (try split at h) <;> (try simp_all) <;> (try (subst h; simp_all [waitCond, Point.chan, Point.isWaitB]))
  case trySendLock c v => unfold trySendBody at h; split at h <;> (try split at h) <;> (try split at h) <;> (try simp_all) <;> (try split at h) <;> (try simp_all) <;> (try (subst h; simp_all [waitCond, Point.chan, Point.isWaitB]))
  case tryRecvLock c sl a => unfold tryRecvBody at h; split at h <;> (try split at h) <;> (try split at h) <;> (try simp_all) <;> (try split at h) <;> (try simp_all) <;> (try (subst h; simp_all [waitCond, Point.chan, Point.isWaitB]))
  case prepLock c b => unfold prepBody at h; split at h <;> (try split at h) <;> (try split at h) <;> (try simp_all) <;> (try split at h) <;> (try simp_all) <;> (try (subst h; simp_all [waitCond, Point.chan, Point.isWaitB]))
  case endLock c b => unfold endBody at h; split at h <;> (try split at h) <;> (try split at h) <;> (try simp_all) <;> (try split at h) <;> (try simp_all) <;> (try (subst h; simp_all [waitCond, Point.chan, Point.isWaitB]))

/-! ### a thread that continues after a return is at a `Lock`, never at a wait point -/

def PC.isWaitPt : PC → Bool
  | .at p => p.isWait
  | _ => false

theorem startOps_notWaitPt (th : Thread) (ops : List Op) : (startOps th ops).pc.isWaitPt = false := by
  induction ops generalizing th with
  | nil => rfl
  | cons op rest ih =>
    cases op with
    | send c' v => rfl
    | recv c' => rfl
    | close c' => rfl
    | select cases blocking =>
      cases blocking with
      | true => cases cases <;> rfl
      | false =>
        cases cases with
        | nil => simp only [startOps]; exact ih _
        | cons cs r =>
          simp only [startOps, pollPoint]
          split <;> (try split) <;> rfl

theorem finishOp_notWaitPt (th : Thread) (r : Res) : (finishOp th r).pc.isWaitPt = false :=
  startOps_notWaitPt _ _

theorem pollPoint_notWait (sl : Sel) (i : Nat) (cs : Case) : (pollPoint sl i cs).isWait = false := by
  unfold pollPoint; split <;> (try split) <;> rfl

theorem pollFrom_notWaitPt (th : Thread) (sl : Sel) (pass i : Nat) : (pollFrom th sl pass i).pc.isWaitPt = false := by
  unfold pollFrom
  split
  · split
    · exact pollPoint_notWait _ _ _
    · split
      · split
        · exact pollPoint_notWait _ _ _
        · rfl
      · rfl
  · split
    · exact pollPoint_notWait _ _ _
    · exact finishOp_notWaitPt _ _

theorem commitSel_notWaitPt (th : Thread) (sl : Sel) (ok : Bool) : (commitSel th sl ok).pc.isWaitPt = false := by
  unfold commitSel
  dsimp only
  split
  · split
    · rfl
    · exact finishOp_notWaitPt _ _
  · exact finishOp_notWaitPt _ _

theorem onRet_notWaitPt (th : Thread) (r : Ret) : (onRet th r).pc.isWaitPt = false := by
  unfold onRet
  split
  · split <;> exact finishOp_notWaitPt _ _
  · split
    · split
      · rfl
      · exact pollFrom_notWaitPt _ _ _ _
    · split
      · exact commitSel_notWaitPt _ _ _
      · exact pollFrom_notWaitPt _ _ _ _
    · split
      · exact commitSel_notWaitPt _ _ _
      · exact pollFrom_notWaitPt _ _ _ _
    · split
      · rfl
      · exact finishOp_notWaitPt _ _
    · exact finishOp_notWaitPt _ _

/-! ### `doAfter`: who sleeps afterwards -/

/-- after `notifyOps … k` the acting thread sits at a wait point only if `k` was `Wait` at that point -/
theorem doAfter_self (s : State) (t : Tid) (c : Cid) (k : After) (ht : t < s.threads.length) (q : Point)
    (hpc : ((doAfter s t c k).thread t).pc = .at q) (hq : q.isWait = true) : k = .wait q := by
  cases k with
  | wait p =>
    simp only [doAfter] at hpc
    rw [thread_setThread_self _ _ _ (by simpa using ht)] at hpc
    cases hpc; rfl
  | finish bc n =>
    exfalso
    simp only [doAfter] at hpc
    have hl : t < (if bc = true then { (s.setOwner c none) with threads := broadcast c (s.setOwner c none).threads } else s.setOwner c none).threads.length := by
      split
      · simp only [broadcast_length]; exact ht
      · exact ht
    cases n with
    | ret r =>
      simp only [] at hpc
      rw [thread_setThread_self _ _ _ hl] at hpc
      have := onRet_notWaitPt ((if bc = true then { (s.setOwner c none) with threads := broadcast c (s.setOwner c none).threads } else s.setOwner c none).thread t) r
      rw [hpc] at this
      simp [PC.isWaitPt, hq] at this
    | recv2 b =>
      simp only [] at hpc
      rw [thread_setThread_self _ _ _ hl] at hpc
      cases hpc
      cases hq

/-- `Unlock; Broadcast` leaves nobody else asleep at a wait point of the channel -/
theorem doAfter_wakes (s : State) (t t' : Tid) (c : Cid) (n : Next) (p : Point) (hne : t' ≠ t)
    (hpc : (s.thread t').pc = .at p) (hw : p.isWait = true) (hc : p.chan = c) :
    ((doAfter s t c (.finish true n)).thread t').waiting = false := by
  simp only [doAfter, if_true]
  have hb : (({ (s.setOwner c none) with threads := broadcast c (s.setOwner c none).threads } : State).thread t').waiting = false :=
    broadcast_wakes c _ t' p hpc hw hc
  cases n with
  | ret r => simp only []; rw [thread_setThread_ne _ _ _ _ (Ne.symm hne)]; exact hb
  | recv2 b => simp only []; rw [thread_setThread_ne _ _ _ _ (Ne.symm hne)]; exact hb

end LlgoVerif.Chan
