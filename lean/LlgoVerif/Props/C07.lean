import LlgoVerif.Lemmas.GoTypeInj
import LlgoVerif.Lemmas.Iface
import LlgoVerif.Lemmas.DynHash
import LlgoVerif.Lemmas.DynLaws
/-!
# C07 — dynamic type identity and interface satisfaction coincide with Go's rules

Property theorems only.  Models: `Model/GoType.lean` (`typeName` = `ssa/abi` `TypeName`),
`Model/Iface.lean` (`scan`/`findMethod`/`newItabFuns` = `runtime` `Implements`/`findMethod`/`NewItab`);
specification: `Spec/TypeIdent.lean`; lemmas: `Lemmas/GoType*.lean`, `Lemmas/Iface.lean`.

The hash (`base64url ∘ sha256`) is a PARAMETER of every statement; its injectivity is a
hypothesis, never an axiom.
-/
namespace LlgoVerif.Types

/-! ## the run-time name determines the type -/

/-- **Full statement** (what C07 demands of the naming scheme): for a collision-free hash two types
    get the same run-time name exactly when they are identical.  FALSE on the current code. -/
def typeName_injective : Prop :=
  ∀ (hash : List UInt8 → String), Function.Injective hash →
    ∀ t₁ t₂ : GoType, (typeName hash t₁ = typeName hash t₂ ↔ identical t₁ t₂ = true)

/-- an injective stand-in for the hash, used by the counterexamples (one character per byte) -/
def byteChars (bs : List UInt8) : String := String.ofList (bs.map fun b => Char.ofNat b.toNat)

theorem byteChars_injective : Function.Injective byteChars := by
  intro a b h
  have h := String.ofList_inj.1 h
  refine (List.map_inj_right ?_).1 h
  intro x y hxy
  have key : ∀ z : UInt8, (Char.ofNat z.toNat).toNat = z.toNat := by
    intro z
    have hz : z.toNat < 256 := z.toNat_lt
    have : z.toNat.isValidChar := by left; omega
    simp [Char.ofNat, this, Char.ofNatAux, Char.toNat]
  have := congrArg Char.toNat hxy
  rw [key x, key y] at this
  exact UInt8.toNat_inj.1 this

/-- `struct{ A int "x:1" }` -/
def tagX1 : GoType := .struct (.cons ['A'] none false ['x', ':', '1'] (.basic .int) .nil)
/-- `struct{ A int "x:2" }` -/
def tagX2 : GoType := .struct (.cons ['A'] none false ['x', ':', '2'] (.basic .int) .nil)

/-- **Counterexample (struct tags).** `structHash` does not write the tag: the two struct types
    above are not identical but have the same name under EVERY hash.  Replayed on the real
    `ssa/abi` by the check (finding `samename:tag`, repair `fixes/C07-1.diff`). -/
theorem typeName_injective_counterexample : ¬ typeName_injective := by
  intro h
  have := (h byteChars byteChars_injective tagX1 tagX2).1 rfl
  simp [tagX1, tagX2, identical, identicalF, unalias] at this

/-- `type T struct{…}` of package `p` (declaration 1) -/
def namedT : GoType := .named 1 (some ['p']) ['T'] .pkg .nil
/-- `struct{ AT }` with `type AT = T` -/
def embAT : GoType := .struct (.cons ['A', 'T'] none true [] (.alias ['A', 'T'] namedT) .nil)
/-- `struct{ T }` -/
def embT : GoType := .struct (.cons ['T'] none true [] namedT .nil)

/-- **Counterexample (embedded field names).** Erasing tags is not enough: `structHash` writes `-`
    for an embedded field, so `struct{ AT }` and `struct{ T }` (field names `AT` / `T`, one type)
    share a name.  Replayed by the check (finding `samename:embedded-name`). -/
theorem typeName_injective_counterexample_embedded :
    ¬ (∀ (hash : List UInt8 → String), Function.Injective hash → ∀ t₁ t₂ : GoType,
        tagsErased t₁ = true → tagsErased t₂ = true →
        (typeName hash t₁ = typeName hash t₂ ↔ identical t₁ t₂ = true)) := by
  intro h
  have := (h byteChars byteChars_injective embAT embT (by decide) (by decide)).1 rfl
  simp [embAT, embT, identical, identicalF, unalias] at this

/-- the hash token consists of base64url characters (no blank, newline, bracket, `$`, `*`, `<`, `.`, …) -/
def HashClean (hash : List UInt8 → String) : Prop := ∀ bs, ∀ c ∈ (hash bs).toList, hashChar c = true

/-- **Partial theorem, for every variant of `structHash`** (`cfg`: the pinned tree, or with the tag
    repair and/or the embedded-name repair).  For every collision-free hash with base64url output and
    all types `t₁ t₂` of the covered fragment — well-formed (`wfT`: sane identifier / path characters,
    package present exactly on non-exported names and uniform per struct / interface, embedded
    fields named by their type unless the variant writes the name, func-typed methods, named types
    with reachable scope whose type arguments are canonical basic types, named types, pointers /
    slices / aliases of these (`wfArg`)), tags harmless (`tagsOk`: the variant writes
    them, or there are none), declarations rendered coherently (`Coherent`: same declaration ⇔ same
    (PathOf package, name, scope indices)) — the names agree exactly when the types are identical.
    Covers: basic types incl. `byte`/`rune`, pointer, slice, array length, map, channel direction,
    func arity / order / variadic flag, struct field names / order / embedding / package of
    non-exported names (and tags, in the repaired variant), interface method sets incl. package of
    non-exported methods, aliases, named types by (package, name, scope indices, type arguments).
    NOT covered: type arguments outside `wfArg` (array / map / chan / func / struct / interface /
    nested generic arguments and the `byte`/`rune` spellings — `typeArgString` has listed defects
    there), detached scopes (`Scope.pos`), closure structs. -/
theorem typeNameCfg_injective_partial (cfg : Cfg) (hash : List UInt8 → String) (hinj : Function.Injective hash)
    (hclean : HashClean hash) (ex : Str → Bool) (t₁ t₂ : GoType)
    (w₁ : wfT cfg ex t₁ = true) (w₂ : wfT cfg ex t₂ = true)
    (e₁ : tagsOk cfg t₁ = true) (e₂ : tagsOk cfg t₂ = true)
    (hco : Coherent (declKeys t₁ ++ declKeys t₂)) :
    typeNameCfg cfg hash t₁ = typeNameCfg cfg hash t₂ ↔ identical t₁ t₂ = true := by
  unfold typeNameCfg
  rw [String.ofList_inj]
  have hi : Function.Injective fun cs => (hash (utf8 cs)).toList := by
    intro a b h
    exact utf8_injective (hinj (String.toList_inj.1 h))
  exact inj_T hi (fun x c hc => hclean _ c hc) hco t₁ t₂
    ⟨w₁, e₁, List.subset_append_left _ _⟩ ⟨w₂, e₂, List.subset_append_right _ _⟩

/-- **Partial theorem for the pinned tree**: under `tagsErased` (no struct field carries a tag) and
    the other side conditions of `typeNameCfg_injective_partial`. -/
theorem typeName_injective_partial (hash : List UInt8 → String) (hinj : Function.Injective hash)
    (hclean : HashClean hash) (ex : Str → Bool) (t₁ t₂ : GoType)
    (w₁ : wfT .current ex t₁ = true) (w₂ : wfT .current ex t₂ = true)
    (e₁ : tagsErased t₁ = true) (e₂ : tagsErased t₂ = true)
    (hco : Coherent (declKeys t₁ ++ declKeys t₂)) :
    typeName hash t₁ = typeName hash t₂ ↔ identical t₁ t₂ = true :=
  typeNameCfg_injective_partial .current hash hinj hclean ex t₁ t₂ w₁ w₂ e₁ e₂ hco

mutual
theorem tagsOk_fixed : ∀ t : GoType, tagsOk .fixed t = true
  | .basic _ => rfl
  | .pointer e => by simp [tagsOk, tagsOk_fixed e]
  | .slice e => by simp [tagsOk, tagsOk_fixed e]
  | .array _ e => by simp [tagsOk, tagsOk_fixed e]
  | .map k v => by simp [tagsOk, tagsOk_fixed k, tagsOk_fixed v]
  | .chan _ e => by simp [tagsOk, tagsOk_fixed e]
  | .alias _ a => by simp [tagsOk, tagsOk_fixed a]
  | .func ps rs _ => by simp [tagsOk, tagsOkL_fixed ps, tagsOkL_fixed rs]
  | .struct fs => by simp [tagsOk, tagsOkF_fixed fs]
  | .iface ms => by simp [tagsOk, tagsOkM_fixed ms]
  | .named _ _ _ _ targs => by simp [tagsOk, tagsOkL_fixed targs]
theorem tagsOkL_fixed : ∀ l : TList, tagsOkL .fixed l = true
  | .nil => rfl
  | .cons t r => by simp [tagsOkL, tagsOk_fixed t, tagsOkL_fixed r]
theorem tagsOkF_fixed : ∀ l : FList, tagsOkF .fixed l = true
  | .nil => rfl
  | .cons _ _ _ _ t r => by simp [tagsOkF, tagsOk_fixed t, tagsOkF_fixed r, show Cfg.fixed.tags = true from rfl]
theorem tagsOkM_fixed : ∀ l : MList, tagsOkM .fixed l = true
  | .nil => rfl
  | .cons _ _ s r => by simp [tagsOkM, tagsOk_fixed s, tagsOkM_fixed r]
end

/-- **With both repairs (`fixes/C07-1.diff`, `fixes/C07-2.diff`) the tag hypothesis disappears**: struct
    tags and embedded field names are then part of the name. -/
theorem typeName_injective_partial_fixed (hash : List UInt8 → String) (hinj : Function.Injective hash)
    (hclean : HashClean hash) (ex : Str → Bool) (t₁ t₂ : GoType)
    (w₁ : wfT .fixed ex t₁ = true) (w₂ : wfT .fixed ex t₂ = true)
    (hco : Coherent (declKeys t₁ ++ declKeys t₂)) :
    typeNameCfg .fixed hash t₁ = typeNameCfg .fixed hash t₂ ↔ identical t₁ t₂ = true :=
  typeNameCfg_injective_partial .fixed hash hinj hclean ex t₁ t₂ w₁ w₂ (tagsOk_fixed t₁) (tagsOk_fixed t₂) hco

/-- Go's `token.IsExported` on ASCII names, for the examples -/
def exAscii (s : Str) : Bool := match s with | c :: _ => c.isUpper | [] => false

/-- in the repaired variant the two witnesses above are told apart, under every admissible hash -/
theorem fixed_separates_witnesses (hash : List UInt8 → String) (hinj : Function.Injective hash) (hclean : HashClean hash) :
    typeNameCfg .fixed hash tagX1 ≠ typeNameCfg .fixed hash tagX2 ∧
    typeNameCfg .fixed hash embAT ≠ typeNameCfg .fixed hash embT := by
  constructor
  · intro h
    have := (typeName_injective_partial_fixed hash hinj hclean exAscii tagX1 tagX2 (by decide) (by decide) (by decide)).1 h
    simp [tagX1, tagX2, identical, identicalF, unalias] at this
  · intro h
    have := (typeName_injective_partial_fixed hash hinj hclean exAscii embAT embT (by decide) (by decide) (by decide)).1 h
    simp [embAT, embT, identical, identicalF, unalias] at this


/-- `struct{ A int; b p.T; *p.T }` of package `q`, and `map[string]func(...[]int) chan<- error`-like terms satisfy the hypotheses -/
example :
    let t₁ : GoType := .struct (.cons ['A'] none false [] (.basic .int)
      (.cons ['b'] (some ['q']) false [] namedT (.cons ['T'] none true [] (.pointer namedT) .nil)))
    let t₂ : GoType := .map (.basic .string) (.func (.cons (.slice (.array 3 (.basic .byte))) .nil)
      (.cons (.chan .send (.named 2 none ['e', 'r', 'r', 'o', 'r'] .pkg .nil)) .nil) true)
    wfT .current exAscii t₁ = true ∧ wfT .current exAscii t₂ = true ∧ tagsErased t₁ = true ∧ tagsErased t₂ = true ∧
      Coherent (declKeys t₁ ++ declKeys t₂) := by decide

/-- generic instances satisfy the hypotheses: `p.G[*p.T, []int]` and `p.G[p.T, string]` -/
example :
    let g (a b : GoType) : GoType := .named 7 (some ['p']) ['G'] .pkg (.cons a (.cons b .nil))
    let t₁ := g (.pointer namedT) (.slice (.basic .int))
    let t₂ := g namedT (.basic .string)
    wfT .current exAscii t₁ = true ∧ wfT .current exAscii t₂ = true ∧ tagsErased t₁ = true ∧ tagsErased t₂ = true ∧
      Coherent (declKeys t₁ ++ declKeys t₂) := by decide

/-- the tag pair and the embedded-alias pair satisfy the hypotheses of the repaired variant -/
example : wfT .fixed exAscii tagX1 = true ∧ wfT .fixed exAscii tagX2 = true ∧
    wfT .fixed exAscii embAT = true ∧ wfT .fixed exAscii embT = true ∧
    Coherent (declKeys embAT ++ declKeys embT) := by decide

/-! ## interface satisfaction -/

open LlgoVerif.Face in
/-- **`Implements` is correct for tables sorted by ONE strict order.**  For any irreflexive,
    transitive order on method names: if the interface's table `t` and the operand's table `v` are
    both strictly increasing (sorted, no duplicate names), the two-index scan of `Implements`
    returns true iff every interface method `(name, type)` occurs in `v` — for ALL tables. -/
theorem implements_scan_correct (lt : List Nat → List Nat → Prop) (ho : StrictOrder lt)
    (t v : List Ent) (st : SortedBy lt t) (sv : SortedBy lt v) :
    implScan t (some v) = true ↔ implSpec t v := by
  unfold implScan
  cases t with
  | nil => simp [implSpec]
  | cons tm ts => simpa using scan_correct ho v (tm :: ts) st sv

open LlgoVerif.Face in
/-- **`findMethod` / `NewItab` are correct for an operand table sorted in Go's string order**
    (the order the `>=` test of `findMethod` uses); the interface's table may be in any order. -/
theorem newItab_scan_correct (t v : List Ent) (sv : sortedNames v) :
    (newItabFuns t v).isSome = true ↔ implSpec t v := newItabFuns_isSome t v sv

open LlgoVerif.Face in
/-- the hypotheses are satisfiable: two sorted tables -/
example : SortedBy (fun a b => bytesLt a b = true) [⟨[77], 1, 1⟩, ⟨[78], 2, 1⟩] ∧
    sortedNames [⟨[65], 3, 1⟩, ⟨[77], 1, 1⟩, ⟨[78], 2, 1⟩] := by
  simp [SortedBy, sortedNames]; decide

open LlgoVerif.Face in
/-- **The precondition matters** (and the emitter violates it, finding `implements:table-order-mismatch`):
    the interface table `[Beta, alpha]` in go/types' interface order against the method table
    `[alpha, Beta]`-style order of a package whose path sorts first: every method is present, the
    scan says no. -/
theorem implements_scan_unsorted_counterexample :
    ∃ t v : List Ent, implSpec t v ∧ implScan t (some v) = false ∧ (newItabFuns t v).isSome = true := by
  refine ⟨[⟨[66], 1, 1⟩, ⟨[57, 46, 97], 2, 1⟩], [⟨[57, 46, 97], 2, 1⟩, ⟨[66], 1, 1⟩], ?_, by decide, by decide⟩
  intro e he
  simp at he
  rcases he with rfl | rfl
  · exact ⟨⟨[66], 1, 1⟩, by simp, rfl, rfl⟩
  · exact ⟨⟨[57, 46, 97], 2, 1⟩, by simp, rfl, rfl⟩

open LlgoVerif.Face in
/-- **A defined func type is identified with its underlying func type** (pinned tree): for `T` the
    descriptor of `type F func() int` and `V` that of `func() int` (distinct addresses, same `$f`
    type) `MatchesClosure(T, V)` is true.  Replayed natively and end to end
    (findings `matchesclosure:named-func-type`, `e2e:named-func-type-identified-with-underlying`). -/
theorem matchesClosure_named_counterexample :
    matchesClosure false { id := 1, closure := true, field0 := 7, named := true } (some { id := 2, closure := true, field0 := 7 }) = true := by
  decide

open LlgoVerif.Face in
/-- with `fixes/C07-3.diff` the test is the intended one, for ALL descriptors: the same descriptor, or
    two UNNAMED closure types over the same func type -/
theorem matchesClosure_fixed_spec (t v : Desc) :
    matchesClosure true t (some v) = true ↔
      (t.id = v.id ∨ (v.closure = true ∧ t.named = false ∧ v.named = false ∧ t.field0 = v.field0)) := by
  unfold matchesClosure
  by_cases h1 : t.id = v.id
  · simp [h1]
  · cases hc : v.closure <;> cases hn : t.named <;> cases hm : v.named <;> simp [h1, hc, hn, hm]

/-! ## interface `==` and interface-keyed maps: `EfaceEqual`, the `Equal` functions and `typehash` (Model/DynEq.lean)

Models: `efaceEqual` = z_face.go `EfaceEqual`; `callEq`/`eqFields`/`eqElems` = alg.go `memequal*`, `f32equal` … `interequal`,
`nilinterequal` (`efaceeq`/`ifaceeq`), `structequal`, `arrayequal`; `typehash`/`nilinterhash`/`interhash` = alg.go;
`descOf` = what ssa/abi `EqualName`/`IsRegularMemory`/`Size`/`Kind` and ssa/abitype.go `directIfaceType` put into the
descriptor of a type.  Specification: `Spec/DynEq.lean` (`goEq`/`ifaceEq` = Go's `==`, `comparable`, `valOf` = the Go value
a memory image denotes, `fits` = well-formed image).  The `memhash` routines are PARAMETERS (`H`), `rnd` is `fastrand`. -/

section dyn
open LlgoVerif.DynEq

/-- **Full statement**: on all well-formed images `EfaceEqual` computes Go's `==` on interface values.  FALSE on the current
    code (and under the reference toolchain alike) for a direct-interface type with a blank pointer field. -/
def efaceEqual_spec : Prop :=
  ∀ v u : Obj Ty, fits (.iface 0 0) v = true → fits (.iface 0 0) u = true →
    efaceEqual descOf v u = ifaceEq (valOf (.iface 0 0) v) (valOf (.iface 0 0) u)

/-- `struct{ _ *T }` -/
def blankPtrStruct : Ty := .struct 8 (.cons 0 0 (.ptr .pointer 0) .nil)
/-- `any(struct{ _ *T }{…})` whose blank field holds the pointer `w` (only `unsafe` stores can put one there) -/
def blankPtrVal (w : UInt64) : Obj Ty :=
  .eface 0 blankPtrStruct w (.seq (.cons [] (.bytes (le64 w.toNat)) .nil) [])

/-- Go: blank fields are not compared, the two values are equal; `EfaceEqual` compares the data words. -/
theorem efaceEqual_spec_counterexample : ¬ efaceEqual_spec := by
  intro h
  have e := h (blankPtrVal 1) (blankPtrVal 2) (by decide) (by decide)
  have e1 : efaceEqual descOf (blankPtrVal 1) (blankPtrVal 2) = .ok false := by rfl
  have e2 : ifaceEq (valOf (.iface 0 0) (blankPtrVal 1)) (valOf (.iface 0 0) (blankPtrVal 2)) = .ok true := by rfl
  rw [e1, e2] at e
  cases e

/-- **interface `==` is Go's `==`**: for ALL well-formed images whose dynamic types (at any depth) are not direct-interface
    types with a blank pointer field, `EfaceEqual` returns / panics exactly as the specification `ifaceEq` does — every
    type (scalars, floats, complex, strings, pointers, channels, arrays, structs with blank fields and padding, nested
    interfaces, defined types), every value, every padding content; by mutual induction over memory images. -/
theorem efaceEqual_spec_partial (v u : Obj Ty) (hv : fits (.iface 0 0) v = true) (hu : fits (.iface 0 0) u = true)
    (hok : okDyn v = true) :
    efaceEqual descOf v u = ifaceEq (valOf (.iface 0 0) v) (valOf (.iface 0 0) u) :=
  efaceEqual_spec_of_okDyn v u hv hu hok

/-- `struct{ f float64; s string }` with padding-free layout -/
def exStruct : Ty := .struct 24 (.cons 1 0 (.basic .float64) (.cons 2 8 (.basic .string) .nil))
def exVal (f : Nat) (p : Nat) : Obj Ty :=
  .eface 7 exStruct 0 (.seq (.cons [] (.bytes (leBytes 8 f)) (.cons [] (.str p [104, 105]) .nil)) [])

example : fits (.iface 0 0) (exVal 0 1) = true ∧ fits (.iface 0 0) (exVal (2^63) 2) = true ∧ okDyn (exVal 0 1) = true := by
  decide

/-- the same dynamic type, `+0`/`-0` and two different string headers over equal bytes: equal -/
example : efaceEqual descOf (exVal 0 1) (exVal (2^63) 2) = .ok true := by rfl

theorem ifaceEq_idyn (t : Ty) (x : V) (u : Ty) (y : V) :
    ifaceEq (.idyn t x) (.idyn u y) =
      if t ≠ u then .ok false else if (!comparable t) = true then .error .uncomparable else goEq t x y := by
  simp only [ifaceEq, goEq]

/-- **true iff identical dynamic types and equal dynamic values (or both nil)** -/
theorem ifaceEq_true_iff (a b : V) :
    ifaceEq a b = .ok true ↔
      (a = .inil ∧ b = .inil) ∨ ∃ t x y, a = .idyn t x ∧ b = .idyn t y ∧ comparable t = true ∧ goEq t x y = .ok true := by
  cases a with
  | idyn t x =>
    cases b with
    | idyn u y =>
      rw [ifaceEq_idyn]
      constructor
      · intro h
        right
        by_cases htu : t = u
        · subst htu
          by_cases hc : comparable t = true
          · simp [hc] at h
            exact ⟨t, x, y, rfl, rfl, hc, h⟩
          · have hc' : comparable t = false := by simpa using hc
            simp [hc'] at h
        · simp [htu] at h
      · intro h
        rcases h with ⟨h1, _⟩ | ⟨t', x', y', h1, h2, hc, hg⟩
        · cases h1
        · cases h1; cases h2
          simp [hc, hg]
    | word _ | pair _ _ | str _ | opq | inil | agg _ | skip | bad => simp [ifaceEq, goEq]
  | inil => cases b <;> simp [ifaceEq, goEq]
  | word _ => cases b <;> simp [ifaceEq, goEq, under]
  | pair _ _ => cases b <;> simp [ifaceEq, goEq, under]
  | str _ => cases b <;> simp [ifaceEq, goEq, under]
  | agg _ => cases b <;> simp [ifaceEq, goEq, under]
  | opq => cases b <;> simp [ifaceEq, goEq]
  | skip => cases b <;> simp [ifaceEq, goEq]
  | bad => cases b <;> simp [ifaceEq, goEq]

/-- **it panics exactly when the dynamic types are identical and not comparable** (or the comparison of the dynamic values
    itself panics: an interface-typed field holding such a value); in particular never when the types differ -/
theorem ifaceEq_panics_iff (a b : V) :
    ifaceEq a b = .error .uncomparable ↔
      ∃ t x y, a = .idyn t x ∧ b = .idyn t y ∧ (comparable t = false ∨ goEq t x y = .error .uncomparable) := by
  cases a with
  | idyn t x =>
    cases b with
    | idyn u y =>
      rw [ifaceEq_idyn]
      constructor
      · intro h
        by_cases htu : t = u
        · subst htu
          by_cases hc : comparable t = true
          · simp [hc] at h
            exact ⟨t, x, y, rfl, rfl, Or.inr h⟩
          · have hc' : comparable t = false := by simpa using hc
            exact ⟨t, x, y, rfl, rfl, Or.inl hc'⟩
        · simp [htu] at h
      · intro h
        rcases h with ⟨t', x', y', h1, h2, hc⟩
        cases h1; cases h2
        rcases hc with hc | hg
        · simp [hc]
        · by_cases hc : comparable t = true
          · simp [hc, hg]
          · have hc' : comparable t = false := by simpa using hc
            simp [hc']
    | word _ | pair _ _ | str _ | opq | inil | agg _ | skip | bad => simp [ifaceEq, goEq]
  | inil => cases b <;> simp [ifaceEq, goEq]
  | word _ => cases b <;> simp [ifaceEq, goEq, under]
  | pair _ _ => cases b <;> simp [ifaceEq, goEq, under]
  | str _ => cases b <;> simp [ifaceEq, goEq, under]
  | agg _ => cases b <;> simp [ifaceEq, goEq, under]
  | opq => cases b <;> simp [ifaceEq, goEq]
  | skip => cases b <;> simp [ifaceEq, goEq]
  | bad => cases b <;> simp [ifaceEq, goEq]

theorem ifaceEq_types_differ (t u : Ty) (x y : V) (h : t ≠ u) : ifaceEq (.idyn t x) (.idyn u y) = .ok false := by
  simp [ifaceEq, goEq, h]

example : (Ty.named 1 (.basic .int32)) ≠ Ty.basic .int32 := by decide

/-- `a == b` and `b == a` agree, results and panics alike -/
theorem ifaceEq_symm (a b : V) : ifaceEq a b = ifaceEq b a := goEq_symm a (.iface 0 0) b

theorem efaceEqual_symm (v u : Obj Ty) (hv : fits (.iface 0 0) v = true) (hu : fits (.iface 0 0) u = true)
    (hokv : okDyn v = true) (hoku : okDyn u = true) :
    efaceEqual descOf v u = efaceEqual descOf u v := by
  rw [efaceEqual_spec_of_okDyn v u hv hu hokv, efaceEqual_spec_of_okDyn u v hu hv hoku]
  exact ifaceEq_symm _ _

example : fits (.iface 0 0) (exVal 5 1) = true ∧ okDyn (exVal 5 1) = true := by decide

/-- **reflexive except through NaN** (and uncomparable dynamic types): `reflOK` = no NaN in a compared position, every
    dynamic type inside comparable -/
theorem ifaceEq_refl (a : V) (h : reflOK (.iface 0 0) a = true) : ifaceEq a a = .ok true := goEq_refl a (.iface 0 0) h

example : reflOK (.iface 0 0) (valOf (.iface 0 0) (exVal 5 1)) = true := by decide

/-- `var x any = math.NaN(); x == x` is false -/
theorem ifaceEq_nan_counterexample :
    ifaceEq (.idyn (.basic .float64) (.word 0x7ff8000000000001)) (.idyn (.basic .float64) (.word 0x7ff8000000000001)) = .ok false := by
  rfl

theorem efaceEqual_refl (v : Obj Ty) (hv : fits (.iface 0 0) v = true) (hok : okDyn v = true)
    (h : reflOK (.iface 0 0) (valOf (.iface 0 0) v) = true) : efaceEqual descOf v v = .ok true := by
  rw [efaceEqual_spec_of_okDyn v v hv hv hok]
  exact ifaceEq_refl _ h

/-- **the compiler leaves `Equal` nil exactly for the types Go cannot compare** (`EqualName`, all types) -/
theorem equal_nil_iff_uncomparable (t : Ty) : (descOf t).c.equal = none ↔ comparable t = false := by
  rw [descOf_c]; exact equalName_none_iff t

variable (H : Hashers) (rnd : Nat → UInt32)

/-- **`a == b → hash a = hash b`**, for EVERY comparable key type `K` (the `Hasher` of a map type is `typehash` closed over the
    key descriptor), every pair of well-formed images, every seed: if the key's `Equal` says true then `typehash` gives both
    the same hash, does not panic and draws no `fastrand`.  Covers `TFlagRegularMemory` (flagged types have no padding, no
    float, string or interface part: `regular_flat`), `±0`, strings behind different pointers, blank fields, nested
    interfaces.  This is the hypothesis `HashOK.hash_eq` of C06's refinement theorems. -/
theorem hash_respects_equal (K : Ty) (f : EqFn) (a b : Obj Ty) (hl : layoutOK K = true) (ha : fits K a = true) (hb : fits K b = true)
    (hf : equalName K = some f) (he : callEq descOf f (descOf K) a b = .ok true) (seed : UInt64) (k : Nat) :
    ∃ x, typehash descOf H rnd (descOf K) a seed k = .ok (x, k) ∧ typehash descOf H rnd (descOf K) b seed k = .ok (x, k) :=
  hash_eq H rnd a K b f hl ha hb hf he seed k

example : layoutOK (.basic .float64) = true ∧ fits (.basic .float64) (.bytes (leBytes 8 0)) = true ∧
    fits (.basic .float64) (.bytes (leBytes 8 (2^63))) = true ∧ equalName (.basic .float64) = some .f64equal ∧
    callEq descOf .f64equal (descOf (.basic .float64)) (.bytes (leBytes 8 0) : Obj Ty) (.bytes (leBytes 8 (2^63))) = .ok true :=
  ⟨by decide, by decide, by decide, by decide, by rfl⟩

/-- the `Hasher` of `map[K]V` (`typehash` closed over `K`'s descriptor) as a function of the seed and the key image -/
def keyHash (K : Ty) (seed : UInt64) (a : Obj Ty) : UInt64 :=
  match typehash descOf H rnd (descOf K) a seed 0 with
  | .ok (x, _) => x
  | .error _ => 0

/-- **C06's `HashOK` for the real key equality and the real hasher**, over the well-formed key images of ANY comparable key
    type `K` (so also `any`, interface types, structs and arrays with interface / float / string parts):
    `keyEq` (= `K`'s `Equal` says true) implies equal `keyHash` under every seed (`HashOK.hash_eq`), and `keyEq` is symmetric and
    transitive (`EqOK`; through the specification, hence for images without a blank-pointer direct dynamic type) -/
theorem keyHash_respects_keyEq (K : Ty) (hc : comparable K = true) (hl : layoutOK K = true) (seed : UInt64) (a b : Obj Ty)
    (ha : fits K a = true) (hb : fits K b = true) (h : keyEq K a b = true) :
    keyHash H rnd K seed a = keyHash H rnd K seed b := by
  rw [keyEq_iff] at h
  have hs := equalName_isSome K
  rw [hc] at hs
  cases hf : equalName K with
  | none => simp [hf] at hs
  | some f =>
    simp only [equalD, descOf_c, commonOf, hf] at h
    obtain ⟨x, e1, e2⟩ := hash_eq H rnd a K b f hl ha hb hf h seed 0
    simp [keyHash, e1, e2]

theorem keyEq_equivalence (K : Ty) (hc : comparable K = true) :
    (∀ a b : Obj Ty, fits K a = true → fits K b = true → okDyn a = true → okDyn b = true → keyEq K a b = true → keyEq K b a = true) ∧
    (∀ a b c : Obj Ty, fits K a = true → fits K b = true → fits K c = true → okDyn a = true → okDyn b = true →
      keyEq K a b = true → keyEq K b c = true → keyEq K a c = true) :=
  ⟨fun a b ha hb hoa hob h => keyEq_symm K a b hc ha hb hoa hob h,
   fun a b c ha hb hcc hoa hob h1 h2 => keyEq_trans K a b c hc ha hb hcc hoa hob h1 h2⟩

example : comparable exStruct = true ∧ layoutOK exStruct = true ∧
    fits exStruct (.seq (.cons [] (.bytes (leBytes 8 0)) (.cons [] (.str 1 [104, 105]) .nil)) [] : Obj Ty) = true ∧
    keyEq exStruct (.seq (.cons [] (.bytes (leBytes 8 0)) (.cons [] (.str 1 [104, 105]) .nil)) [])
      (.seq (.cons [] (.bytes (leBytes 8 (2^63))) (.cons [] (.str 2 [104, 105]) .nil)) []) = true :=
  ⟨by decide, by decide, by decide, by rfl⟩

/-- interface keys (`map[any]V`, `map[I]V`): `a == b` (as `EfaceEqual` decides it) implies equal `nilinterhash`/`interhash` -/
theorem ifaceHash_respects_equal (v u : Obj Ty) (hv : fits (.iface 0 0) v = true) (hu : fits (.iface 0 0) u = true)
    (he : efaceEqual descOf v u = .ok true) (seed : UInt64) (k : Nat) :
    ∃ x, nilinterhash descOf H rnd v seed k = .ok (x, k) ∧ nilinterhash descOf H rnd u seed k = .ok (x, k) := by
  rw [efaceEqual_eq_callEq (descOf (.iface 0 0)) v u] at he
  have := hash_eq H rnd v (.iface 0 0) u .nilinterequal (by decide) hv hu (by simp [equalName]) he seed k
  simpa [descOf, typehash_iface H rnd _ _ _ _ _ (show (commonOf (.iface 0 0)).regular = false by decide)] using this

example : fits (.iface 0 0) (exVal 0 1) = true ∧ fits (.iface 0 0) (exVal (2^63) 2) = true ∧
    efaceEqual descOf (exVal 0 1) (exVal (2^63) 2) = .ok true := ⟨by decide, by decide, by rfl⟩

/-- **hashing a value of an uncomparable dynamic type panics** ("hash of unhashable type"), whatever the value -/
theorem hash_unhashable_panics (tw : Nat) (t : Ty) (dw : UInt64) (box : Obj Ty) (hc : comparable t = false) (seed : UInt64) (k : Nat) :
    nilinterhash descOf H rnd (.eface tw t dw box) seed k = .error .unhashable ∧
      interhash descOf H rnd (.eface tw t dw box) seed k = .error .unhashable := by
  have : (descOf t).c.equal = none := (equal_nil_iff_uncomparable t).2 hc
  simp [interhash, nilinterhash, this]

example : comparable (.struct 32 (.cons 1 0 (.basic .int) (.cons 2 8 (.slice 0) .nil))) = false := by decide

/-- **hashing a key panics exactly when the key holds, in a non-blank position at any depth, an interface with an uncomparable
    dynamic type** (`unhashable`, on the abstract value): for every comparable key type `K` and every well-formed key image,
    `typehash` then panics with "hash of unhashable type", and otherwise returns a hash — it never fails for another reason -/
theorem hash_panics_iff_unhashable (K : Ty) (hc : comparable K = true) (a : Obj Ty) (ha : fits K a = true) (seed : UInt64) (k : Nat) :
    (unhashable K (valOf K a) = true → typehash descOf H rnd (descOf K) a seed k = .error .unhashable) ∧
    (unhashable K (valOf K a) = false → ∃ x k', typehash descOf H rnd (descOf K) a seed k = .ok (x, k')) :=
  ⟨(hash_total H rnd a K hc ha seed k).2, (hash_total H rnd a K hc ha seed k).1⟩

/-- `struct{ x, y any }` -/
def exPair : Ty := .struct 32 (.cons 1 0 (.iface 0 0) (.cons 2 16 (.iface 0 0) .nil))
/-- `{x: int64(1), y: []int{…}}` -/
def exPairBad : Obj Ty :=
  .seq (.cons [] (.eface 0 (.basic .int64) 0 (.bytes (leBytes 8 1))) (.cons [] (.eface 0 (.slice 0) 0 (.bytes (leBytes 24 0))) .nil)) []

example : comparable exPair = true ∧ fits exPair exPairBad = true ∧ unhashable exPair (valOf exPair exPairBad) = true := by decide

end dyn

end LlgoVerif.Types
