/-! placeholder driver (property C07 not built yet) -/
def main : IO Unit := IO.println "bad-op"
