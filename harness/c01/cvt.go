// Correspondence harness for C01, part D (Go type -> raw type lowering, ssa/type_cvt.go).
//
//	harness.bin -cvt file.go ...
//
// Every file is type-checked as a package of its own (imports: "unsafe" only).  The package-level named types and the
// types of the package-level variables are lowered IN SOURCE ORDER by ONE fresh goTypes value (the memo table is shared,
// as in a compilation), through the overlay accessor VerifNewGoTypes / CvtType (the real goTypes.cvtType).  Output:
//
//	REQ <file> | (decls D*) (order T*)            the request for the Lean model (lean/LlgoVerif/Model/TypeCvt.lean)
//	RES <file> <k> | <go type> | <src> | <raw> | <cvt> | <mset T src> | <mset T raw> | <mset *T src> | <mset *T raw>
//	TWIN <file> <id> | <underlying type of the raw twin, or ->
//
// Method sets are go/types' own (types.NewMethodSet) on the SOURCE type and on the LOWERED type: the reference for
// "promoted methods survive the lowering".  Types are rendered as s-expressions (see showTy in the Lean model).
package main

import (
	"bufio"
	"encoding/hex"
	"fmt"
	"go/ast"
	"go/parser"
	"go/token"
	"go/types"
	"os"
	"sort"
	"strconv"
	"strings"

	llssa "github.com/goplus/llgo/ssa"
)

type cvtCtx struct {
	ids   map[*types.TypeName]int
	named []*types.Named
}

func hexs(s string) string {
	if s == "" {
		return "-"
	}
	return hex.EncodeToString([]byte(s))
}

func (c *cvtCtx) tuple(t *types.Tuple) string {
	var xs []string
	for i := 0; i < t.Len(); i++ {
		xs = append(xs, c.render(t.At(i).Type()))
	}
	return strings.Join(xs, " ")
}

func (c *cvtCtx) render(t types.Type) string {
	switch t := t.(type) {
	case *types.Basic:
		return "(b " + strings.ReplaceAll(t.Name(), " ", "_") + ")" // unsafe.Pointer is called "Pointer"
	case *types.Pointer:
		return "(p " + c.render(t.Elem()) + ")"
	case *types.Slice:
		return "(sl " + c.render(t.Elem()) + ")"
	case *types.Array:
		return "(ar " + strconv.FormatInt(t.Len(), 10) + " " + c.render(t.Elem()) + ")"
	case *types.Map:
		return "(m " + c.render(t.Key()) + " " + c.render(t.Elem()) + ")"
	case *types.Chan:
		d := map[types.ChanDir]string{types.SendRecv: "0", types.SendOnly: "1", types.RecvOnly: "2"}[t.Dir()]
		return "(ch " + d + " " + c.render(t.Elem()) + ")"
	case *types.Named:
		id, ok := c.ids[t.Obj()]
		if !ok {
			return "(b ?named:" + t.Obj().Name() + ")"
		}
		raw := "0"
		if t != c.named[id] {
			raw = "1"
		}
		return "(n " + strconv.Itoa(id) + " " + raw + ")"
	case *types.Signature:
		v := "0"
		if t.Variadic() {
			v = "1"
		}
		return "(f (" + c.tuple(t.Params()) + ") (" + c.tuple(t.Results()) + ") " + v + ")"
	case *types.Struct:
		var b strings.Builder
		b.WriteString("(st")
		for i := 0; i < t.NumFields(); i++ {
			f := t.Field(i)
			e := "0"
			if f.Embedded() {
				e = "1"
			}
			fmt.Fprintf(&b, " (%s %s %s %s)", f.Name(), c.render(f.Type()), e, hexs(t.Tag(i)))
		}
		b.WriteString(")")
		return b.String()
	case *types.Interface:
		var b strings.Builder
		b.WriteString("(if")
		for i := 0; i < t.NumExplicitMethods(); i++ {
			m := t.ExplicitMethod(i)
			fmt.Fprintf(&b, " (%s %s 0 -)", m.Name(), c.render(m.Type()))
		}
		b.WriteString(")")
		return b.String()
	}
	return "(b ?" + strings.ReplaceAll(fmt.Sprintf("%T", t), " ", "_") + ")"
}

func msetNames(t types.Type) string {
	ms := types.NewMethodSet(t)
	var xs []string
	for i := 0; i < ms.Len(); i++ {
		xs = append(xs, ms.At(i).Obj().Name())
	}
	sort.Strings(xs)
	if len(xs) == 0 {
		return "-"
	}
	return strings.Join(xs, ",")
}

func cvtFile(out *bufio.Writer, fn string) {
	fset := token.NewFileSet()
	f, err := parser.ParseFile(fset, fn, nil, 0)
	if err != nil {
		fmt.Fprintln(os.Stderr, "parse:", err)
		os.Exit(2)
	}
	info := &types.Info{Defs: map[*ast.Ident]types.Object{}}
	pkg, err := (&types.Config{Importer: unsafeOnly{}}).Check("tc", fset, []*ast.File{f}, info)
	if err != nil {
		// a file the generator got wrong is skipped and counted by the check, never judged
		fmt.Fprintf(out, "SKIP %s | %s\n", fn, strings.ReplaceAll(err.Error(), "\n", " "))
		return
	}
	_ = pkg
	c := &cvtCtx{ids: map[*types.TypeName]int{}}
	var order []types.Type
	for _, d := range f.Decls {
		gd, ok := d.(*ast.GenDecl)
		if !ok {
			continue
		}
		for _, sp := range gd.Specs {
			switch sp := sp.(type) {
			case *ast.TypeSpec:
				tn := info.Defs[sp.Name].(*types.TypeName)
				nt, ok := tn.Type().(*types.Named)
				if !ok {
					continue
				}
				c.ids[tn] = len(c.named)
				c.named = append(c.named, nt)
				order = append(order, nt)
			case *ast.ValueSpec:
				for _, n := range sp.Names {
					if v, ok := info.Defs[n].(*types.Var); ok {
						order = append(order, v.Type())
					}
				}
			}
		}
	}
	var decls []string
	for _, nt := range c.named {
		var ms []string
		for i := 0; i < nt.NumMethods(); i++ {
			m := nt.Method(i)
			p := "0"
			if _, isPtr := m.Type().(*types.Signature).Recv().Type().(*types.Pointer); isPtr {
				p = "1"
			}
			ms = append(ms, "("+m.Name()+" "+p+")")
		}
		decls = append(decls, "(d "+c.render(nt.Underlying())+" "+strings.Join(ms, " ")+")")
	}
	var srcs []string
	for _, t := range order {
		srcs = append(srcs, c.render(t))
	}
	fmt.Fprintf(out, "REQ %s | (decls %s) (order %s)\n", fn, strings.Join(decls, " "), strings.Join(srcs, " "))
	g := llssa.VerifNewGoTypes()
	for k, t := range order {
		raw, changed := g.CvtType(t)
		ch := "0"
		if changed {
			ch = "1"
		}
		fmt.Fprintf(out, "RES %s %d | %s | %s | %s | %s | %s | %s | %s | %s\n", fn, k, strings.ReplaceAll(types.TypeString(t, nil), " | ", " || "),
			srcs[k], c.render(raw), ch, msetNames(t), msetNames(raw), msetNames(types.NewPointer(t)), msetNames(types.NewPointer(raw)))
	}
	for id, nt := range c.named {
		raw, _ := g.CvtType(nt)
		u := "-"
		if rn, ok := raw.(*types.Named); ok && rn != nt {
			u = c.render(rn.Underlying())
		}
		fmt.Fprintf(out, "TWIN %s %d | %s\n", fn, id, u)
	}
}

func cvtMode(out *bufio.Writer, files []string) {
	for _, fn := range files {
		cvtFile(out, fn)
	}
}
