import LlgoVerif.Lemmas.Bounds
/-!
# C03 — every run-time panic Go mandates is raised, recoverable, and raised only then

Fixed theorems.  The per-shape obligations "`x[i]` for this indexable kind and index type traps exactly when the
index, at its source type's value, is outside `[0, len)` and otherwise addresses element `i`" are REGENERATED from
the compiler's IR into `Gen/C03_idx.lean` on every run (statement: `f len i = idxSpec (GoArith.val s i) len`).
Here: what `idxSpec` means, and the signal-based recovery state machine behind nil dereferences.
-/
namespace LlgoVerif.C03
open LlgoVerif LlgoVerif.LLVM LlgoVerif.Bounds

/-- the index check panics exactly on out-of-range indexes … -/
theorem idxSpec_panics_iff (v : Int) (len : BitVec 64) :
    idxSpec v len = .error .indexRange ↔ ¬ (0 ≤ v ∧ v < len.toInt) := by
  unfold idxSpec; split <;> simp_all

/-- … and an in-range index reaches the address computation unchanged ("raised only then") -/
theorem idxSpec_in_range (v : Int) (len : BitVec 64) (h0 : 0 ≤ v) (h1 : v < len.toInt) :
    ∃ c : BitVec 64, idxSpec v len = .ok c ∧ c.toInt = v := by
  refine ⟨BitVec.ofInt 64 v, ?_, ?_⟩
  · simp [idxSpec, h0, h1]
  · have hl := @BitVec.toInt_lt 64 len
    rw [BitVec.toInt_ofInt]
    apply Int.bmod_eq_of_le <;> omega

/-- no other trap and no undefined behaviour can come out of an index check -/
theorem idxSpec_total (v : Int) (len : BitVec 64) :
    (∃ c, idxSpec v len = .ok c) ∨ idxSpec v len = .error .indexRange := by
  unfold idxSpec; split
  · exact Or.inl ⟨_, rfl⟩
  · exact Or.inr rfl

example : (0 : Int) ≤ 2 ∧ (2 : Int) < (BitVec.ofNat 64 3).toInt := by decide

/-! ## nil dereference: the SIGSEGV handler and `sigsetjmp(jb, 0)`

`z_signal.go` installs a SIGSEGV handler that panics; the panic unwinds by `siglongjmp` to the frame's
`sigsetjmp(jb, savemask = 0)`.  While a handler runs the kernel blocks its signal; a jump out of the handler with
`savemask = 0` does not restore the mask.  The model below is that protocol; `second_fault_fatal` is the reason the
check lists "second recovered nil dereference in one thread kills the process" as a known finding. -/

inductive SigEv where
  | fault        -- a hardware fault (nil dereference)
deriving DecidableEq, Repr

structure SigState where
  blocked : Bool := false     -- SIGSEGV blocked in the thread's signal mask
  dead    : Bool := false     -- process killed by the kernel
  recovered : Nat := 0        -- faults turned into recoverable Go panics
deriving DecidableEq, Repr

/-- one fault: delivered to the handler if unblocked (which leaves it blocked after the longjmp, savemask = 0),
    fatal if the signal is blocked -/
def sigStep (savemask : Bool) (s : SigState) (_ : SigEv) : SigState :=
  if s.dead then s
  else if s.blocked then { s with dead := true }
  else { s with blocked := !savemask, recovered := s.recovered + 1 }

def sigRun (savemask : Bool) (evs : List SigEv) : SigState := evs.foldl (sigStep savemask) {}

/-- with the code as it is (`savemask = 0`) the second fault of a thread is fatal, however the first was recovered -/
theorem second_fault_fatal (evs : List SigEv) (h : 2 ≤ evs.length) : (sigRun false evs).dead = true := by
  match evs, h with
  | .fault :: .fault :: rest, _ =>
    simp only [sigRun, List.foldl_cons, sigStep]
    have : ∀ (l : List SigEv) (s : SigState), s.dead = true → (l.foldl (sigStep false) s).dead = true := by
      intro l
      induction l with
      | nil => intro s hs; simpa using hs
      | cons e es ih => intro s hs; exact ih _ (by simp [sigStep, hs])
    exact this rest _ (by simp)

/-- the property's demand ("as many times as it happens in one goroutine") holds of the protocol with the mask restored -/
theorem every_fault_recovered_if_mask_restored (evs : List SigEv) :
    (sigRun true evs).dead = false ∧ (sigRun true evs).recovered = evs.length := by
  have : ∀ (l : List SigEv) (s : SigState), s.dead = false → s.blocked = false →
      (l.foldl (sigStep true) s).dead = false ∧ (l.foldl (sigStep true) s).recovered = s.recovered + l.length := by
    intro l
    induction l with
    | nil => intro s h1 _; simp [h1]
    | cons e es ih =>
      intro s h1 h2
      have := ih (sigStep true s e) (by simp [sigStep, h1, h2]) (by simp [sigStep, h1, h2])
      simp only [List.foldl_cons, List.length_cons]
      refine ⟨this.1, ?_⟩
      rw [this.2]; simp [sigStep, h1, h2]; omega
  have := this evs {} rfl rfl
  simpa [sigRun] using this

end LlgoVerif.C03
