import LlgoVerif.Model.Gzip
import LlgoVerif.Model.Extract
/-!
# What `archive/tar.Reader` (go1.24) hands to the loop of `extractTarGz`

`extractTarGz` calls `tr.Next()` until it returns `io.EOF` and, for a regular file, `io.Copy(f, tr)`.  This file
models the tar framing as far as it decides what that loop sees:

* the stream is read **lazily** in 512-byte blocks from the `Stream` the gzip layer delivers (`readFull`,
  `tryReadFull`, `discard` with Go's three different end-of-input conventions);
* `readHeader`: a block of zeros followed by a second one (or by the end of the stream) is the end-of-archive
  marker — **nothing behind it is ever read**; the end of the stream exactly at a header boundary is a clean end
  as well; the checksum (unsigned or signed sum, octal field), the format by magic/version/trailer
  (V7, USTAR/PAX, STAR, GNU), the name (`prefix + "/" + name` for USTAR and STAR; the pre-go1.8 GNU fallback),
  the size (octal or base-256), and Go's rule that *any* malformed numeric field (mode, uid, gid, mtime,
  devmajor, devminor, STAR atime/ctime) makes the header invalid;
* `next`: the meta members that describe the following member — PAX extended headers (`x`: records
  `"%d key=value\n"`, of which `path`, `size` change what the loop sees, and `uid gid atime mtime ctime size`
  must parse), PAX global headers (`g`: handed to the loop as a member of their own, not applied to later
  members), GNU long names / long links (`L`, `K`); type `\0` becomes a directory when the final name ends in
  `/`, else a regular file;
* the data of a regular file is what `io.Copy` gets: `size` bytes, or — when the stream ends early — what was
  there, followed by an error; the padding to the next block boundary is skipped at the *next* `Next()`.

Sparse members (type `S`, PAX `GNU.sparse.*`) are not modelled: `TarEnd.unsupported`.

`extractTarGzBytes` = `gzip.NewReader` + this reader + the loop body `tarStep` of `Model/Extract.lean`.
-/
namespace LlgoVerif.Tar
open LlgoVerif.Gzip (Bytes Stream)
open LlgoVerif.Extract (Entry Kind Cfg FS)
open LlgoVerif.Path (Str)

inductive TErr where
  | header          -- `tar.ErrHeader`
  | unexpectedEOF
  | fieldTooLong
  | rd (e : Gzip.Err)   -- the underlying reader's error
  deriving DecidableEq, Repr

/-- how the sequence of `Next()` calls ended -/
inductive TarEnd where
  | eof                         -- `io.EOF`: the loop ends normally
  | err (e : TErr)              -- `Next()` returned an error
  | partialFile (e : Entry) (err : TErr)   -- `Next()` succeeded, `io.Copy` got `e.data` and then an error
  | unsupported                 -- a sparse member: not modelled
  deriving DecidableEq, Repr

def toStr (bs : Bytes) : Str := bs.map fun b => Char.ofNat b.toNat

/-! ## reading from the stream -/

inductive Rd (α : Type) where
  | ok (a : α) (s : Stream)
  | eof
  | err (e : TErr)

def tailErr (s : Stream) (atEOF : TErr) : TErr :=
  match s.tail with
  | none => atEOF
  | some e => .rd e

/-- `io.ReadFull(r, buf[:n])`: nothing at all and `io.EOF` → `io.EOF`; some but not all → `io.ErrUnexpectedEOF` -/
def readFull (n : Nat) (s : Stream) : Rd Bytes :=
  if n ≤ s.data.length then .ok (s.data.take n) ⟨s.data.drop n, s.tail⟩
  else if s.data = [] ∧ s.tail = none then .eof
  else .err (tailErr s .unexpectedEOF)

/-- `tryReadFull` used for the padding: the end of the stream before `n` bytes → `io.EOF` -/
def tryReadFull (n : Nat) (s : Stream) : Rd Unit :=
  if n ≤ s.data.length then .ok () ⟨s.data.drop n, s.tail⟩
  else match s.tail with
    | none => .eof
    | some e => .err (.rd e)

/-- `discard(r, n)` (the reader is not a Seeker): the end of the stream before `n` bytes → `io.ErrUnexpectedEOF` -/
def discard (n : Nat) (s : Stream) : Rd Unit :=
  if n ≤ s.data.length then .ok () ⟨s.data.drop n, s.tail⟩
  else .err (tailErr s .unexpectedEOF)

/-! ## header fields -/

def slice (b : Bytes) (off len : Nat) : Bytes := (b.drop off).take len

/-- `parser.parseString`: up to the first NUL -/
def parseString (b : Bytes) : Bytes := b.takeWhile (· ≠ 0)

def trimByte (x : UInt8) : Bool := x = 32 || x = 0

/-- `bytes.Trim(b, " \x00")` -/
def trim (b : Bytes) : Bytes := ((b.dropWhile trimByte).reverse.dropWhile trimByte).reverse

def octalDigits : Bytes → Nat → Option Nat
  | [], acc => some acc
  | c :: cs, acc => if 48 ≤ c.toNat ∧ c.toNat ≤ 55 then octalDigits cs (acc * 8 + (c.toNat - 48)) else none

/-- `parser.parseOctal`; `none` = `p.err = ErrHeader` -/
def parseOctal (b : Bytes) : Option Nat :=
  let t := trim b
  if t = [] then some 0
  else
    match octalDigits (parseString t) 0 with
    | some v => if v < 2 ^ 64 then some v else none
    | none => none

def base256 : Bytes → Bool → Nat → Nat → Option Nat
  | [], _, _, x => some x
  | c :: cs, inv, i, x =>
    let c := if inv then 255 - c.toNat else c.toNat
    let c := if i = 0 then c % 128 else c
    if x / 2 ^ 56 > 0 then none else base256 cs inv (i + 1) (x * 256 + c)

/-- `parser.parseNumeric`: octal, or base-256 (two's complement) when the top bit of the first byte is set -/
def parseNumeric (b : Bytes) : Option Int :=
  match b with
  | c :: _ =>
    if c.toNat ≥ 128 then
      let inv := c.toNat % 128 ≥ 64
      match base256 b inv 0 0 with
      | none => none
      | some x => if x / 2 ^ 63 > 0 then none else some (if inv then -(Int.ofNat x) - 1 else Int.ofNat x)
    else (parseOctal b).map Int.ofNat
  | [] => (parseOctal b).map Int.ofNat

def sumBytes (b : Bytes) : Nat := b.foldl (fun a c => a + c.toNat) 0
def sumSigned (b : Bytes) : Int := b.foldl (fun a c => a + (if c.toNat ≥ 128 then Int.ofNat c.toNat - 256 else Int.ofNat c.toNat)) 0

/-- `block.computeChecksum` matches the recorded value (the field itself counted as eight spaces) -/
def checksumOK (blk : Bytes) : Bool :=
  match parseOctal (slice blk 148 8) with
  | none => false
  | some v =>
    let body := blk.take 148 ++ List.replicate 8 (32 : UInt8) ++ blk.drop 156
    v == sumBytes body || Int.ofNat v == sumSigned body

inductive Fmt where
  | v7 | ustar | star | gnu
  deriving DecidableEq, Repr

def bytesOf (s : String) : Bytes := s.toList.map fun c => UInt8.ofNat c.toNat

/-- `block.getFormat` for a block whose checksum is right -/
def getFormat (blk : Bytes) : Fmt :=
  let magic := slice blk 257 6
  let version := slice blk 263 2
  let trailer := slice blk 508 4
  if magic = bytesOf "ustar\x00" ∧ trailer = bytesOf "tar\x00" then .star
  else if magic = bytesOf "ustar\x00" then .ustar
  else if magic = bytesOf "ustar " ∧ version = bytesOf " \x00" then .gnu
  else .v7

structure Hdr where
  typeflag : UInt8
  name : Bytes
  size : Int
  deriving DecidableEq, Repr

/-- `Reader.readHeader` on a non-zero block; `none` = `ErrHeader` (checksum, or any malformed numeric field) -/
def parseHeader (blk : Bytes) : Option Hdr :=
  if !checksumOK blk then none
  else
    let fmt := getFormat blk
    let name := parseString (slice blk 0 100)
    let num (off len : Nat) : Option Int := parseNumeric (slice blk off len)
    let size := num 124 12
    let v7ok := (num 100 8).isSome && (num 108 8).isSome && (num 116 8).isSome && size.isSome && (num 136 12).isSome
    let devok := fmt = .v7 || ((num 329 8).isSome && (num 337 8).isSome)
    let ustarPrefix := parseString (slice blk 345 155)
    let (pfx, extraOK) : Bytes × Bool :=
      match fmt with
      | .v7 => ([], true)
      | .ustar => (ustarPrefix, true)
      | .star => (parseString (slice blk 345 131), (num 476 12).isSome && (num 488 12).isSome)
      | .gnu =>
        -- atime / ctime are parsed only when their first byte is not NUL; if that fails the block is taken for
        -- the output of a pre-go1.8 writer and the USTAR prefix is used when it is ASCII
        let a := slice blk 345 12
        let c := slice blk 357 12
        let bad := (a.head? ≠ some 0 && (parseNumeric a).isNone) || (c.head? ≠ some 0 && (parseNumeric c).isNone)
        if bad && ustarPrefix.all (·.toNat < 128) then (ustarPrefix, true) else ([], true)
    match size with
    | none => none
    | some sz =>
      if v7ok && devok && extraOK then
        some { typeflag := blk.getD 156 0
               name := if pfx = [] then name else pfx ++ (47 : UInt8) :: name
               size := sz }
      else none

/-- `isHeaderOnlyType` -/
def headerOnly (t : UInt8) : Bool :=
  t = 49 || t = 50 || t = 51 || t = 52 || t = 53 || t = 54   -- '1' link '2' symlink '3' char '4' block '5' dir '6' fifo

/-! ## PAX records -/

def decDigits : Bytes → Nat → Option Nat
  | [], acc => some acc
  | c :: cs, acc => if 48 ≤ c.toNat ∧ c.toNat ≤ 57 then decDigits cs (acc * 10 + (c.toNat - 48)) else none

/-- `strconv.ParseInt(s, 10, 64)`: optional sign, digits; `none` = error (syntax or range) -/
def parseInt (s : Bytes) : Option Int :=
  let (neg, ds) : Bool × Bytes :=
    match s with
    | 43 :: r => (false, r)
    | 45 :: r => (true, r)
    | _ => (false, s)
  if ds = [] then none
  else match decDigits ds 0 with
    | none => none
    | some v =>
      if neg then (if v ≤ 2 ^ 63 then some (-(Int.ofNat v)) else none)
      else (if v < 2 ^ 63 then some (Int.ofNat v) else none)

/-- `parsePAXTime` succeeds -/
def paxTimeOK (s : Bytes) : Bool :=
  let ss := s.takeWhile (· ≠ 46)
  let sn := (s.dropWhile (· ≠ 46)).drop 1
  (parseInt ss).isSome && sn.all (fun c => 48 ≤ c.toNat && c.toNat ≤ 57)

def hasNUL (b : Bytes) : Bool := b.any (· = 0)

/-- `parsePAXRecord`: key, value, residual; `none` = `ErrHeader` -/
def parsePAXRecord (s : Bytes) : Option (Bytes × Bytes × Bytes) :=
  if !s.any (· = 32) then none
  else
    let nStr := s.takeWhile (· ≠ 32)
    let rest := (s.dropWhile (· ≠ 32)).drop 1
    match parseInt nStr with
    | none => none
    | some n =>
      if n < 5 ∨ n > Int.ofNat s.length then none
      else
        let m := n.toNat - (nStr.length + 1)
        if n.toNat ≤ nStr.length + 1 then none
        else
          let rec_ := rest.take (m - 1)
          let nl := (rest.drop (m - 1)).take 1
          let rem := rest.drop m
          if nl ≠ [10] then none
          else if !rec_.any (· = 61) then none
          else
            let k := rec_.takeWhile (· ≠ 61)
            let v := (rec_.dropWhile (· ≠ 61)).drop 1
            let special := k = bytesOf "path" ∨ k = bytesOf "linkpath" ∨ k = bytesOf "uname" ∨ k = bytesOf "gname"
            if k = [] then none
            else if (if special then hasNUL v else hasNUL k) then none
            else some (k, v, rem)

/-- `parsePAX` on the member's data: the records, later ones first -/
def parsePAXRecords : Nat → Bytes → List (Bytes × Bytes) → Option (List (Bytes × Bytes))
  | 0, _, _ => none
  | fuel + 1, s, acc =>
    if s = [] then some acc
    else match parsePAXRecord s with
      | none => none
      | some (k, v, rem) => parsePAXRecords fuel rem ((k, v) :: acc)

def paxGet (recs : List (Bytes × Bytes)) (k : String) : Option Bytes :=
  (recs.find? fun kv => kv.1 = bytesOf k).map (·.2)

/-- a non-empty value of key `k` (an empty value means "keep the header's own field") -/
def paxVal (recs : List (Bytes × Bytes)) (k : String) : Option Bytes :=
  match paxGet recs k with
  | some v => if v = [] then none else some v
  | none => none

/-- the numeric records `mergePAX` insists on parsing -/
def paxNumbersOK (recs : List (Bytes × Bytes)) : Bool :=
  (["uid", "gid", "size"].all fun k => match paxVal recs k with | some v => (parseInt v).isSome | none => true) &&
  (["atime", "mtime", "ctime"].all fun k => match paxVal recs k with | some v => paxTimeOK v | none => true)

def isSparseKey (k : Bytes) : Bool := (bytesOf "GNU.sparse.").isPrefixOf k

/-! ## `Next()` -/

/-- result of `Next()`: a member (type flag after the `\0` rule, final name, number of data bytes the caller may
    still read, number of padding bytes after them), with the stream positioned at that data -/
inductive NextRes where
  | member (typeflag : UInt8) (name : Bytes) (size : Nat) (pad : Nat) (s : Stream)
  | eof
  | err (e : TErr)
  | unsupported

/-- read a special member's data (`readSpecialFile`) and skip its padding -/
def readSpecial (size : Nat) (s : Stream) : Rd Bytes :=
  if size > 1048576 then .err (if s.data.length > 1048576 then .fieldTooLong else tailErr s .unexpectedEOF)
  else if size ≤ s.data.length then .ok (s.data.take size) ⟨s.data.drop size, s.tail⟩
  else .err (tailErr s .unexpectedEOF)

/-- padding after `n` data bytes -/
def padOf (n : Nat) : Nat := (512 - n % 512) % 512

/-- `Reader.next`: meta members are consumed until a member for the caller is found.
    `pax` / `longName` = what the meta members seen so far in this call said. -/
def next : Nat → Stream → Option (List (Bytes × Bytes)) → Bytes → NextRes
  | 0, _, _, _ => .err .header
  | fuel + 1, s, pax, longName =>
    match readFull 512 s with
    | .eof => .eof
    | .err e => .err e
    | .ok blk s1 =>
      if blk.all (· = 0) then
        -- end-of-archive marker: a second zero block, or the end of the stream
        (match readFull 512 s1 with
         | .eof => .eof
         | .err e => .err e
         | .ok blk2 _ => if blk2.all (· = 0) then .eof else .err .header)
      else
        match parseHeader blk with
        | none => .err .header
        | some h =>
          let nb : Int := if headerOnly h.typeflag then 0 else h.size
          if nb < 0 then .err .header
          else
            let t := h.typeflag
            if t = 120 ∨ t = 103 then          -- 'x', 'g'
              match readSpecial nb.toNat s1 with
              | .eof => .err .unexpectedEOF
              | .err e => .err e
              | .ok data s2 =>
                match parsePAXRecords (data.length + 1) data [] with
                | none => .err .header
                | some recs =>
                  if recs.any (fun kv => isSparseKey kv.1) then .unsupported
                  else if t = 103 then
                    -- a global header is a member of its own; its records are not applied to later members
                    if !paxNumbersOK recs then .unsupported   -- Go applies the records in map order and stops at the first bad one
                    else .member t ((paxVal recs "path").getD h.name) 0 (padOf nb.toNat) s2
                  else
                    match tryReadFull (padOf nb.toNat) s2 with
                    | .eof => .eof
                    | .err e => .err e
                    | .ok _ s3 => next fuel s3 (some recs) longName
            else if t = 76 ∨ t = 75 then       -- 'L', 'K'
              match readSpecial nb.toNat s1 with
              | .eof => .err .unexpectedEOF
              | .err e => .err e
              | .ok data s2 =>
                match tryReadFull (padOf nb.toNat) s2 with
                | .eof => .eof
                | .err e => .err e
                | .ok _ s3 => next fuel s3 pax (if t = 76 then parseString data else longName)
            else
              let recs := pax.getD []
              if !paxNumbersOK recs then .err .header
              else
                let name := (paxVal recs "path").getD h.name
                let name := if longName ≠ [] then longName else name
                let size : Int := match paxVal recs "size" with
                  | some v => (parseInt v).getD 0
                  | none => h.size
                let t := if t = 0 then (if name.getLast? = some 47 then 53 else 48) else t
                let nb : Int := if headerOnly t then 0 else size
                if nb < 0 then .err .header
                else if t = 83 then .unsupported      -- 'S' old GNU sparse
                else .member t name nb.toNat (padOf nb.toNat) s1

/-- the kind of member the loop of `extractTarGz` distinguishes -/
def kindOf (t : UInt8) : Kind :=
  if t = 53 then .dir else if t = 48 then .reg else if t = 50 then .sym else .other

/-- the sequence of `Next()` results, each followed by what the loop does with the member's data
    (`io.Copy` for a regular file, nothing otherwise — the rest is skipped by the following `Next()`).
    `acc` = members so far, last first. -/
def readLoop : Nat → Stream → List Entry → List Entry × TarEnd
  | 0, _, acc => (acc.reverse, .err .header)
  | fuel + 1, s, acc =>
    match next (s.data.length / 512 + 2) s none [] with
    | .eof => (acc.reverse, .eof)
    | .err e => (acc.reverse, .err e)
    | .unsupported => (acc.reverse, .unsupported)
    | .member t name size pad s1 =>
      if t = 48 then
        if size ≤ s1.data.length then
          let e : Entry := { kind := .reg, name := toStr name, data := s1.data.take size, link := [] }
          match tryReadFull pad ⟨s1.data.drop size, s1.tail⟩ with
          | .ok _ s2 => readLoop fuel s2 (e :: acc)
          | .eof => ((e :: acc).reverse, .eof)
          | .err x => ((e :: acc).reverse, .err x)
        else
          (acc.reverse, .partialFile { kind := .reg, name := toStr name, data := s1.data, link := [] }
                          (tailErr s1 .unexpectedEOF))
      else
        let e : Entry := { kind := kindOf t, name := toStr name, data := [], link := [] }
        match discard size s1 with
        | .eof => ((e :: acc).reverse, .err .unexpectedEOF)
        | .err x => ((e :: acc).reverse, .err x)
        | .ok _ s2 =>
          match tryReadFull pad s2 with
          | .ok _ s3 => readLoop fuel s3 (e :: acc)
          | .eof => ((e :: acc).reverse, .eof)
          | .err x => ((e :: acc).reverse, .err x)

/-- what `archive/tar` hands to the loop of `extractTarGz` when reading the stream `s` -/
def readTar (s : Stream) : List Entry × TarEnd := readLoop (s.data.length / 512 + 2) s []

/-! ## `extractTarGz` from the bytes of the file -/

/-- outcome of the byte-level model: `none` = not modelled (sparse member reached) -/
def finish (cfg : Cfg) (dest : Str) (r : FS × Option Extract.Err) (e : TarEnd) : Option (FS × Option Extract.Err) :=
  match r with
  | (fs, some err) => some (fs, some err)      -- the loop returned before the reader got that far
  | (fs, none) =>
    match e with
    | .eof => some (fs, none)
    | .err _ => some (fs, some .read)
    | .unsupported => none
    | .partialFile ent _ =>
      match Extract.tarStep cfg dest fs ent with
      | .ok fs' => some (fs', some .read)
      | .error err => some (fs, some err)

/-- `extractTarGz(file, dest)` on the bytes of `file` -/
def extractTarGzBytes (cfg : Cfg) (dest : Str) (fs : FS) (file : Bytes) : Option (FS × Option Extract.Err) :=
  match Gzip.gunzip true file with
  | .error _ => some (fs, some .read)
  | .ok s =>
    let (es, e) := readTar s
    finish cfg dest (Extract.extract cfg .tgz dest fs es) e

end LlgoVerif.Tar
