import LlgoVerif.Model.Chan
/-! Helper lemmas for C10: ring-buffer arithmetic, the per-channel invariant and its preservation by every
    critical-section body of `z_chan.go`, and the lifting to all interleavings. -/
namespace LlgoVerif.Chan

/-! ## ring buffer -/

theorem ringFrom_congr (data : List Val) (cap : Nat) :
    ∀ (n g1 g2 : Nat), g1 % cap = g2 % cap → ringFrom data cap g1 n = ringFrom data cap g2 n := by
  intro n
  induction n with
  | zero => intros; rfl
  | succ n ih =>
    intro g1 g2 h
    simp only [ringFrom]
    rw [h, ih (g1 + 1) (g2 + 1) (by rw [Nat.add_mod, h, ← Nat.add_mod])]

theorem ringFrom_snoc (data : List Val) (cap : Nat) :
    ∀ (n g : Nat), ringFrom data cap g (n + 1) = ringFrom data cap g n ++ [data.getD ((g + n) % cap) 0] := by
  intro n
  induction n with
  | zero => intro g; simp [ringFrom]
  | succ n ih =>
    intro g
    rw [ringFrom, ih (g + 1)]
    simp only [ringFrom, List.cons_append]
    rw [show g + 1 + n = g + (n + 1) by omega]

theorem ringFrom_set_irrelevant (data : List Val) (cap k : Nat) (v : Val) :
    ∀ (n g : Nat), (∀ i, i < n → (g + i) % cap ≠ k) →
      ringFrom (data.set k v) cap g n = ringFrom data cap g n := by
  intro n
  induction n with
  | zero => intros; rfl
  | succ n ih =>
    intro g h
    simp only [ringFrom]
    have h0 : g % cap ≠ k := by simpa using h 0 (by omega)
    have ht : ∀ i, i < n → (g + 1 + i) % cap ≠ k := by
      intro i hi
      have := h (i + 1) (by omega)
      rwa [show g + (i + 1) = g + 1 + i by omega] at this
    rw [ih (g + 1) ht]
    congr 1
    simp [List.getD, Ne.symm h0]

/-- two ring positions less than `cap` apart are different cells -/
theorem ring_cells_distinct {cap g i n : Nat} (hi : i < n) (hn : n < cap) : (g + i) % cap ≠ (g + n) % cap := by
  intro h
  have h1 := Nat.sub_mod_eq_zero_of_mod_eq h.symm
  have h2 : g + n - (g + i) = n - i := by omega
  rw [h2, Nat.mod_eq_of_lt (by omega)] at h1
  omega

theorem ringFrom_push (data : List Val) (cap g n : Nat) (v : Val) (hlen : data.length = cap) (hn : n < cap) :
    ringFrom (data.set ((g + n) % cap) v) cap g (n + 1) = ringFrom data cap g n ++ [v] := by
  rw [ringFrom_snoc, ringFrom_set_irrelevant data cap _ v n g (fun i hi => ring_cells_distinct hi hn)]
  congr 2
  have : (g + n) % cap < data.length := by rw [hlen]; exact Nat.mod_lt _ (by omega)
  simp [List.getD, this]

theorem ringFrom_pop (data : List Val) (cap g n : Nat) (hg : g < cap) :
    ringFrom data cap g (n + 1) = data.getD g 0 :: ringFrom data cap ((g + 1) % cap) n := by
  rw [ringFrom, Nat.mod_eq_of_lt hg]
  congr 1
  exact ringFrom_congr data cap n _ _ (by simp)

/-! ## per-channel invariant -/

structure ChanInv (ch : Chan) : Prop where
  dlen : ch.data.length = ch.cap
  lenle : ch.len ≤ ch.cap
  getp_lt : 0 < ch.cap → ch.getp < ch.cap
  fifo : 0 < ch.cap → ch.sent = ch.recvd ++ ch.contents
  unb_len : ch.cap = 0 → ch.len = 0
  unb_hist : ch.cap = 0 → ch.sent = ch.recvd
  unb_armed : ch.cap = 0 → ch.getp = hasRecv → ch.slot.isSome
  sent_by : ch.sentBy.map (·.2) = ch.sent
  recv_by : ch.recvBy.map (·.2) = ch.recvd

theorem newChan_inv (cfg : Cfg) (cap : Nat) : ChanInv (newChan cfg cap) := by
  constructor <;> simp [newChan, Chan.contents, ringFrom, hasRecv]

theorem push_inv {ch : Chan} (h : ChanInv ch) (hcap : ch.cap ≠ 0) (hlt : ch.len ≠ ch.cap) (t : Tid) (v : Val) :
    ChanInv (ch.push t v) := by
  have hlen := h.lenle
  constructor
  · simp [Chan.push, h.dlen]
  · simp only [Chan.push]; omega
  · intro _; exact h.getp_lt (by omega)
  · intro hc
    simp only [Chan.push, Chan.contents]
    rw [ringFrom_push _ _ _ _ _ h.dlen (by omega), h.fifo hc]
    simp [Chan.contents]
  · intro hc; exact absurd hc hcap
  · intro hc; exact absurd hc hcap
  · intro hc; exact absurd hc hcap
  · simp [Chan.push, h.sent_by]
  · simp [Chan.push, h.recv_by]

theorem pop_inv {ch : Chan} (h : ChanInv ch) (hcap : ch.cap ≠ 0) (hne : ch.len ≠ 0) (r : Tid) : ChanInv (ch.pop r) := by
  have hlen := h.lenle
  have hg := h.getp_lt (by omega)
  constructor
  · simp [Chan.pop, h.dlen]
  · simp only [Chan.pop]; omega
  · intro hc; simp only [Chan.pop]; exact Nat.mod_lt _ hc
  · intro hc
    simp only [Chan.pop, Chan.contents, Chan.front]
    have hfifo := h.fifo hc
    simp only [Chan.contents] at hfifo
    obtain ⟨m, hm⟩ : ∃ m, ch.len = m + 1 := ⟨ch.len - 1, by omega⟩
    rw [hm, ringFrom_pop _ _ _ _ hg] at hfifo
    rw [hm, hfifo]
    simp
  · intro hc; exact absurd hc hcap
  · intro hc; exact absurd hc hcap
  · intro hc; exact absurd hc hcap
  · simp [Chan.pop, h.sent_by]
  · simp [Chan.pop, h.recv_by, Chan.front]

theorem handOff_inv {ch : Chan} (h : ChanInv ch) (hcap : ch.cap = 0) (hg : ch.getp = hasRecv) (t : Tid) (v : Val) :
    ChanInv (ch.handOff t v).1 := by
  have hs := h.unb_armed hcap hg
  obtain ⟨tg, htg⟩ := Option.isSome_iff_exists.mp hs
  simp only [Chan.handOff, htg]
  constructor
  · exact h.dlen
  · exact h.lenle
  · intro hc; simp [hcap] at hc
  · intro hc; simp [hcap] at hc
  · exact h.unb_len
  · intro _; simp [h.unb_hist hcap]
  · intro _ hgp; simp [noSendRecv, hasRecv] at hgp
  · simp [h.sent_by]
  · simp [h.recv_by]

/-- fields that only the bookkeeping of blocked senders / selects touches do not matter for `ChanInv` -/
theorem inv_of_same {ch ch' : Chan} (h : ChanInv ch)
    (h1 : ch'.cap = ch.cap) (h2 : ch'.data = ch.data) (h3 : ch'.slot = ch.slot) (h4 : ch'.getp = ch.getp)
    (h5 : ch'.len = ch.len) (h6 : ch'.sent = ch.sent) (h7 : ch'.recvd = ch.recvd)
    (h8 : ch'.sentBy = ch.sentBy) (h9 : ch'.recvBy = ch.recvBy) : ChanInv ch' := by
  constructor
  · rw [h2, h1]; exact h.dlen
  · rw [h5, h1]; exact h.lenle
  · rw [h1, h4]; exact h.getp_lt
  · rw [h1, h6, h7]; simp only [Chan.contents, h1, h2, h4, h5]; exact h.fifo
  · rw [h1, h5]; exact h.unb_len
  · rw [h1, h6, h7]; exact h.unb_hist
  · rw [h1, h4, h3]; exact h.unb_armed
  · rw [h8, h6]; exact h.sent_by
  · rw [h9, h7]; exact h.recv_by

theorem arm_inv {ch : Chan} (h : ChanInv ch) (hcap : ch.cap = 0) (tg : Target) :
    ChanInv { ch with getp := hasRecv, slot := some tg } := by
  constructor
  · exact h.dlen
  · exact h.lenle
  · intro hc; simp [hcap] at hc
  · intro hc; simp [hcap] at hc
  · exact h.unb_len
  · exact h.unb_hist
  · intro _ _; rfl
  · exact h.sent_by
  · exact h.recv_by

theorem sendLoop_inv {ch : Chan} (h : ChanInv ch) (t : Tid) (c : Cid) (v : Val) : ChanInv (sendLoop ch t c v).ch := by
  unfold sendLoop
  split
  · rename_i hcap
    split
    · dsimp only
      split <;> exact inv_of_same h rfl rfl rfl rfl rfl rfl rfl rfl rfl
    · rename_i hne
      split
      · exact h
      · rename_i hcl
        have hg : ch.getp = hasRecv := by
          by_cases hg : ch.getp = hasRecv
          · exact hg
          · exfalso; apply hne; exact ⟨hg, by simpa using hcl⟩
        exact handOff_inv h hcap hg t v
  · rename_i hcap
    split
    · exact h
    · rename_i hlen
      split
      · exact h
      · exact push_inv h hcap hlen t v

theorem recvLoop_inv {ch : Chan} (h : ChanInv ch) (c : Cid) (tg : Target) : ChanInv (recvLoop ch c tg).ch := by
  unfold recvLoop
  split
  · rename_i hcap
    split
    · exact h
    · split
      · exact h
      · exact arm_inv h hcap tg
  · rename_i hcap
    split
    · split <;> exact h
    · rename_i hlen
      exact pop_inv h hcap hlen _

theorem recv2Loop_inv {ch : Chan} (h : ChanInv ch) (c : Cid) (b : Bool) (seq : Nat) :
    ChanInv (recv2Loop ch c b seq).ch := by
  unfold recv2Loop; split <;> (split <;> exact h)

theorem closeBody_inv {ch : Chan} (h : ChanInv ch) : ChanInv (closeBody ch).ch := by
  unfold closeBody; split
  · exact h
  · exact inv_of_same h rfl rfl rfl rfl rfl rfl rfl rfl rfl

theorem trySendBody_inv {ch : Chan} (h : ChanInv ch) (t : Tid) (v : Val) : ChanInv (trySendBody ch t v).ch := by
  unfold trySendBody
  split
  · rename_i hcap
    split
    · exact h
    · rename_i hne
      have hg : ch.getp = hasRecv := by
        by_cases hg : ch.getp = hasRecv
        · exact hg
        · exfalso; exact hne (Or.inl hg)
      exact handOff_inv h hcap hg t v
  · rename_i hcap
    split
    · exact h
    · rename_i hne
      exact push_inv h hcap (fun e => hne (Or.inl e)) t v

theorem tryRecvBody_inv {ch : Chan} (h : ChanInv ch) (tg : Target) (a : Bool) : ChanInv (tryRecvBody ch tg a).ch := by
  unfold tryRecvBody
  split
  · rename_i hcap
    split
    · exact h
    · split
      · exact h
      · exact arm_inv h hcap tg
  · rename_i hcap
    split
    · exact h
    · rename_i hlen
      exact pop_inv h hcap hlen _

theorem prepBody_inv {ch : Chan} (h : ChanInv ch) (t : Tid) (b : Bool) : ChanInv (prepBody ch t b).ch := by
  by_cases hc : ch.cap = 0 ∧ b = true
  · simp only [prepBody, if_pos hc]; exact inv_of_same h rfl rfl rfl rfl rfl rfl rfl rfl rfl
  · simp only [prepBody, if_neg hc]; exact inv_of_same h rfl rfl rfl rfl rfl rfl rfl rfl rfl

theorem endBody_inv {ch : Chan} (h : ChanInv ch) (t : Tid) (b : Bool) : ChanInv (endBody ch t b).ch := by
  by_cases hc : ch.cap = 0 ∧ b = true
  · simp only [endBody, if_pos hc]; exact inv_of_same h rfl rfl rfl rfl rfl rfl rfl rfl rfl
  · simp only [endBody, if_neg hc]; exact inv_of_same h rfl rfl rfl rfl rfl rfl rfl rfl rfl

/-- every critical section of `z_chan.go` preserves the channel invariant -/
theorem body_inv {ch : Chan} (h : ChanInv ch) (p : Point) (t : Tid) : ChanInv (body p t ch).ch := by
  cases p <;> simp only [body]
  · exact sendLoop_inv h _ _ _
  · exact sendLoop_inv (ch := { ch with sends := ch.sends - 1 }) (inv_of_same h rfl rfl rfl rfl rfl rfl rfl rfl rfl) _ _ _
  · exact sendLoop_inv h _ _ _
  · exact recvLoop_inv h _ _
  · exact recvLoop_inv h _ _
  · exact recvLoop_inv h _ _
  · exact recv2Loop_inv h _ _ _
  · exact recv2Loop_inv h _ _ _
  · exact closeBody_inv h
  · exact trySendBody_inv h _ _
  · exact tryRecvBody_inv h _ _
  · exact prepBody_inv h _ _
  · exact endBody_inv h _ _

/-! ## lifting to the global transition system -/

@[simp] theorem setThread_chans (s : State) (t : Tid) (th : Thread) : (s.setThread t th).chans = s.chans := rfl
@[simp] theorem setOwner_chans (s : State) (c : Cid) (o : Option Tid) : (s.setOwner c o).chans = s.chans := rfl
@[simp] theorem setChan_chans (s : State) (c : Cid) (ch : Chan) : (s.setChan c ch).chans = s.chans.set c ch := rfl
@[simp] theorem setThread_owner (s : State) (t : Tid) (th : Thread) : (s.setThread t th).owner = s.owner := rfl
@[simp] theorem setChan_owner (s : State) (c : Cid) (ch : Chan) : (s.setChan c ch).owner = s.owner := rfl
@[simp] theorem setChan_threads (s : State) (c : Cid) (ch : Chan) : (s.setChan c ch).threads = s.threads := rfl
@[simp] theorem setOwner_threads (s : State) (c : Cid) (o : Option Tid) : (s.setOwner c o).threads = s.threads := rfl

@[simp] theorem applyDeliver_chans (s : State) (d : Option (Target × Val)) : (applyDeliver s d).chans = s.chans := by
  cases d with
  | none => rfl
  | some x => rfl

@[simp] theorem doAfter_chans (s : State) (t : Tid) (c : Cid) (k : After) : (doAfter s t c k).chans = s.chans := by
  cases k with
  | wait p => rfl
  | finish bc n => cases n <;> cases bc <;> rfl

@[simp] theorem doNotify_chans (s : State) (t : Tid) (c : Cid) (k : After) : (doNotify s t c k).chans = s.chans := by
  unfold doNotify
  split
  · exact doAfter_chans ..
  · rfl

/-- a step rewrites at most one channel record, and only through a critical-section body -/
theorem exec_chans (s : State) (t : Tid) :
    (exec s t).chans = s.chans ∨
    ∃ p, (s.thread t).pc = .at p ∧ (exec s t).chans = s.chans.set p.chan (body p t (s.chan p.chan)).ch := by
  unfold exec
  dsimp only
  cases hpc : (s.thread t).pc with
  | done => left; rfl
  | start => left; rfl
  | «at» p =>
    right
    refine ⟨p, rfl, ?_⟩
    dsimp only
    cases (body p t (s.chan p.chan)).out <;> simp
  | notify c rest k =>
    left
    dsimp only
    cases rest with
    | nil => simp
    | cons x xs => cases xs <;> simp
  | selLock =>
    left
    dsimp only
    split
    · split <;> rfl
    · rfl
  | selWait =>
    left
    dsimp only
    split <;> rfl

/-- all channels of a state satisfy the channel invariant -/
def GInv (s : State) : Prop := ∀ c, ChanInv (s.chan c)

theorem getD_set_all {α : Type} (P : α → Prop) (l : List α) (d x : α) (i : Nat)
    (h : ∀ j, P (l.getD j d)) (hx : P x) : ∀ j, P ((l.set i x).getD j d) := by
  intro j
  have hj := h j
  simp only [List.getD, List.getElem?_set] at hj ⊢
  split
  · split
    · simpa using hx
    · rename_i hlt
      have : l[j]? = none := by simp; omega
      rw [this] at hj
      simpa [‹i = j›, this] using hj
  · exact hj

theorem exec_ginv {s : State} (h : GInv s) (t : Tid) : GInv (exec s t) := by
  rcases exec_chans s t with he | ⟨p, _, he⟩
  · intro c; unfold State.chan; rw [he]; exact h c
  · intro c; unfold State.chan; rw [he]
    exact getD_set_all ChanInv s.chans dfltChan _ p.chan h (body_inv (h p.chan) p t) c

theorem init_ginv (cfg : Cfg) (caps : List Nat) (progs : List (List Op)) : GInv (init cfg caps progs) := by
  intro c
  simp only [State.chan, init, List.getD, List.getElem?_map]
  cases caps[c]? with
  | none => exact newChan_inv Cfg.current 0
  | some cap => exact newChan_inv cfg cap

/-- reachability under every scheduler choice (steps of runnable threads and spurious wake-ups) -/
inductive Reachable (s0 : State) : State → Prop
  | init : Reachable s0 s0
  | next {s s' : State} (ch : Choice) : Reachable s0 s → apply s ch = some s' → Reachable s0 s'

theorem apply_ginv {s s' : State} (h : GInv s) (ch : Choice) (hs : apply s ch = some s') : GInv s' := by
  cases ch with
  | step t =>
    simp only [apply, step] at hs
    split at hs
    · cases hs; exact exec_ginv h t
    · cases hs
  | wake t =>
    simp only [apply, wake] at hs
    split at hs
    · cases hs; exact h
    · cases hs

theorem reachable_ginv {cfg : Cfg} {caps : List Nat} {progs : List (List Op)} {s : State}
    (h : Reachable (init cfg caps progs) s) : GInv s := by
  induction h with
  | init => exact init_ginv cfg caps progs
  | next ch _ hs ih => exact apply_ginv ih ch hs

/-- running a schedule from a reachable state stays reachable -/
theorem reachable_runSched {s0 s1 s : State} (h0 : Reachable s0 s1) :
    ∀ (l : List Choice), runSched s1 l = some s → Reachable s0 s := by
  intro l
  induction l generalizing s1 with
  | nil => intro h; simp only [runSched] at h; cases h; exact h0
  | cons ch rest ih =>
    intro h
    simp only [runSched] at h
    cases ha : apply s1 ch with
    | none => rw [ha] at h; cases h
    | some s2 => rw [ha] at h; exact ih (Reachable.next ch h0 ha) h

end LlgoVerif.Chan
