import LlgoVerif.Model.Zip
import LlgoVerif.Lemmas.Extract
import LlgoVerif.Lemmas.Tar
/-! Lemmas for the zip layer of C20: the byte-level loop `Zip.runZip` changes nothing outside the destination, and
    coincides with the entry-level loop on members whose `Open` succeeds. -/
namespace LlgoVerif.Zip
open LlgoVerif.Extract LlgoVerif.Path

/-- the file system a pass through `decompress` leaves behind -/
def Step.fsOf : Step → Option FS
  | .ok fs => some fs
  | .fail fs _ => some fs
  | .unsupported => none

/-- one pass through `decompress`, successful or not: nothing outside the destination changes -/
theorem zipStepB_frame (cfg : Cfg) (hguard : cfg.zipGuard = true) (d0 : Str) (fs fs' : FS) (e : ZEntry)
    (hr : DestReady fs (comps (clean ('/' :: d0)))) (h : (zipStepB cfg ('/' :: d0) fs e).fsOf = some fs') :
    Frame (comps (clean ('/' :: d0))) fs fs' := by
  unfold zipStepB at h
  simp only [hguard, Bool.true_and] at h
  split at h
  · simp only [Step.fsOf, Option.some.injEq] at h; subst h; exact Frame.refl _ _
  · rename_i hg
    simp at hg
    obtain ⟨ht, hd⟩ := target_facts d0 e.name cfg.zipAcceptRoot hg
    split at h
    · split at h
      · rename_i fs1 hm
        simp only [Step.fsOf, Option.some.injEq] at h; subst h
        exact mkdirAll_frame _ _ _ _ hr (Or.inr ht) hm
      · simp only [Step.fsOf, Option.some.injEq] at h; subst h; exact Frame.refl _ _
    · split at h
      · simp only [Step.fsOf, Option.some.injEq] at h; subst h; exact Frame.refl _ _
      · rename_i fs1 hm
        have f1 : Frame (comps (clean ('/' :: d0))) fs fs1 := by
          split at hm
          · exact mkdirAll_frame _ _ _ _ hr hd hm
          · cases hm; exact Frame.refl _ _
        split at h
        · simp [Step.fsOf] at h
        · simp only [Step.fsOf, Option.some.injEq] at h; subst h; exact f1
        · split at h
          · simp only [Step.fsOf, Option.some.injEq] at h; subst h; exact f1
          · rename_i fs2 hw
            have f2 := f1.trans (openWrite_frame _ _ _ _ _ _ (hr.of_frame f1) ht hw)
            split at h <;> (simp only [Step.fsOf, Option.some.injEq] at h; subst h; exact f2)

theorem runZip_frame (cfg : Cfg) (hguard : cfg.zipGuard = true) (d0 : Str) (es : List ZEntry) :
    ∀ (fs fs' : FS) (err : Option Extract.Err), DestReady fs (comps (clean ('/' :: d0))) →
      runZip cfg ('/' :: d0) fs es = some (fs', err) → Frame (comps (clean ('/' :: d0))) fs fs' := by
  induction es with
  | nil =>
    intro fs fs' err _ h
    simp only [runZip, Option.some.injEq, Prod.mk.injEq] at h
    obtain ⟨rfl, _⟩ := h
    exact Frame.refl _ _
  | cons e es ih =>
    intro fs fs' err hr h
    unfold runZip at h
    cases hs : zipStepB cfg ('/' :: d0) fs e with
    | ok fs1 =>
      rw [hs] at h
      have hstep := zipStepB_frame cfg hguard d0 fs fs1 e hr (by rw [hs]; rfl)
      exact hstep.trans (ih fs1 fs' err (hr.of_frame hstep) h)
    | fail fs1 e1 =>
      rw [hs] at h
      simp only [Option.some.injEq, Prod.mk.injEq] at h
      obtain ⟨rfl, _⟩ := h
      exact zipStepB_frame cfg hguard d0 fs fs1 e hr (by rw [hs]; rfl)
    | unsupported => rw [hs] at h; cases h

/-- a member the way the entry-level model describes it -/
def ofEntry (e : Entry) : ZEntry :=
  { name := e.name, isDir := zipIsDir e, isSym := e.kind = .sym, opened := .copied (zipData e) false }

theorem zipStepB_ofEntry (cfg : Cfg) (dest : Str) (fs fs' : FS) (e : Entry) (h : zipStep cfg dest fs e = .ok fs') :
    zipStepB cfg dest fs (ofEntry e) = .ok fs' := by
  unfold zipStep at h
  unfold zipStepB ofEntry
  simp only at h ⊢
  split at h
  · cases h
  · rename_i hg
    simp only [hg, if_false]
    split at h
    · rename_i hd
      simp [hd, h]
    · rename_i hd
      simp only [hd, if_false, Bool.false_eq_true]
      split at h
      · cases h
      · rename_i fs1 hm
        simp [hm, h]

/-- when the entry-level loop succeeds, the byte-level loop on the same members does the same -/
theorem runZip_ofEntry (cfg : Cfg) (dest : Str) (es : List Entry) : ∀ (fs : FS),
    (extract cfg .zip dest fs es).2 = none →
    runZip cfg dest fs (es.map ofEntry) = some ((extract cfg .zip dest fs es).1, none) := by
  induction es with
  | nil => intro fs _; rfl
  | cons e es ih =>
    intro fs h
    simp only [extract, runSteps, Extract.step] at h ⊢
    cases hs : zipStep cfg dest fs e with
    | error err => rw [hs] at h; cases h
    | ok fs1 =>
      rw [hs] at h
      simp only [List.map_cons, runZip, zipStepB_ofEntry cfg dest fs fs1 e hs]
      have := ih fs1 h
      simp only [extract, Extract.step] at this
      exact this

/-! ### the reader on files written by `Container.zipFile` -/

open LlgoVerif.Container
open LlgoVerif.Gzip (natLE le length_natLE le_natLE crc32)

def fieldOff : List (Nat × Nat) → Nat → Nat
  | [], _ => 0
  | _ :: _, 0 => 0
  | (w, _) :: fs, k + 1 => w + fieldOff fs k

def fieldsLen (fs : List (Nat × Nat)) : Nat := (fs.map (·.1)).sum

/-- discharge `fields[k]? = some (w, v)` and `fieldOff fields k = off` for a literal list of fields -/
macro "fld" : tactic => `(tactic| simp [ZipCentral.fixed, ZipLocal.fixed, eocdFixed, fieldOff])

theorem length_encFields (fs : List (Nat × Nat)) : (encFields fs).length = fieldsLen fs := by
  induction fs with
  | nil => rfl
  | cons f fs ih => obtain ⟨w, v⟩ := f; simp [encFields, fieldsLen, length_natLE] at ih ⊢; omega

/-- the `k`-th field read back -/
theorem field_at (fs : List (Nat × Nat)) : ∀ (k w v : Nat), fs[k]? = some (w, v) → ∀ (rest : Bytes),
    le (((encFields fs ++ rest).drop (fieldOff fs k)).take w) = v % 256 ^ w := by
  induction fs with
  | nil => intro k w v h; simp at h
  | cons f fs ih =>
    obtain ⟨w0, v0⟩ := f
    intro k w v h rest
    cases k with
    | zero =>
      simp only [List.getElem?_cons_zero, Option.some.injEq, Prod.mk.injEq] at h
      obtain ⟨rfl, rfl⟩ := h
      simp only [fieldOff, List.drop_zero, encFields, List.append_assoc]
      rw [List.take_left' (length_natLE _ _), le_natLE]
    | succ k =>
      simp only [List.getElem?_cons_succ] at h
      simp only [fieldOff, encFields, List.append_assoc]
      rw [List.drop_append, List.drop_eq_nil_of_le (by rw [length_natLE]; omega), List.nil_append, length_natLE,
        Nat.add_sub_cancel_left]
      exact ih k w v h rest

theorem u16_field (fs : List (Nat × Nat)) (k v : Nat) (rest : Bytes) (off : Nat) (h : fs[k]? = some (2, v))
    (ho : fieldOff fs k = off) (hv : v < 65536) : u16 (encFields fs ++ rest) off = v := by
  subst ho
  have := field_at fs k 2 v h rest
  unfold u16
  rw [this]; exact Nat.mod_eq_of_lt hv

theorem u32_field (fs : List (Nat × Nat)) (k v : Nat) (rest : Bytes) (off : Nat) (h : fs[k]? = some (4, v))
    (ho : fieldOff fs k = off) (hv : v < 4294967296) : u32 (encFields fs ++ rest) off = v := by
  subst ho
  have := field_at fs k 4 v h rest
  unfold u32
  rw [this]; exact Nat.mod_eq_of_lt hv

/-- the central header as `readCDH` reports it -/
def hdrOf (ls : List ZipLocal) (c : ZipCentral) (l : ZipLocal) : CDH :=
  { creator := c.creator, flags := 0, method := 0, crc := (crc32 l.data).toNat, csize := l.data.length,
    usize := l.data.length, extAttrs := c.extAttrs, offset := offsetOf ls c.idx, name := l.name,
    len := 46 + l.name.length + c.extra.length + c.comment.length }

theorem sigCDH_eq : natLE 4 0x02014b50 = sigCDH := by decide
theorem sigLFH_eq : natLE 4 0x04034b50 = sigLFH := by decide
theorem sigEOCD_eq : natLE 4 0x06054b50 = sigEOCD := by decide

theorem localsBytes_take_le (ls : List ZipLocal) (i : Nat) : offsetOf ls i ≤ (localsBytes ls).length := by
  unfold offsetOf localsBytes
  conv => rhs; rw [← List.take_append_drop i ls]
  simp only [List.flatMap_append, List.length_append]
  omega

theorem readCDH_encode (ls : List ZipLocal) (c : ZipCentral) (l : ZipLocal) (rest : Bytes)
    (hl : ls[c.idx]? = some l) (hn : l.name.length < 65536) (hd : l.data.length < 4294967295)
    (hc : c.creator < 65536) (ha : c.extAttrs < 4294967296) (hx : c.extra.length < 65536) (hm : c.comment.length < 65536)
    (ho : (localsBytes ls).length < 4294967295) :
    readCDH (c.encode ls ++ rest) = .ok (hdrOf ls c l) := by
  have hoff : offsetOf ls c.idx < 4294967295 := Nat.lt_of_le_of_lt (localsBytes_take_le ls c.idx) ho
  have hcrc : (crc32 l.data).toNat < 4294967296 := UInt32.toNat_lt _
  let R : Bytes := l.name ++ (c.extra ++ (c.comment ++ rest))
  have hb : c.encode ls ++ rest = encFields (c.fixed ls l) ++ R := by
    simp only [ZipCentral.encode, hl, List.append_assoc, R]
  rw [hb]
  have hlen : (encFields (c.fixed ls l)).length = 46 := by rw [length_encFields]; simp [fieldsLen, ZipCentral.fixed]
  have hsig : (encFields (c.fixed ls l) ++ R).take 4 = sigCDH := by
    have : encFields (c.fixed ls l) = natLE 4 0x02014b50 ++ encFields (c.fixed ls l).tail := by
      simp [ZipCentral.fixed, encFields]
    rw [this, List.append_assoc, List.take_left' (length_natLE _ _), sigCDH_eq]
  have f (k v off : Nat) (h : (c.fixed ls l)[k]? = some (2, v)) (ho : fieldOff (c.fixed ls l) k = off) (hv : v < 65536) :=
    u16_field (c.fixed ls l) k v R off h ho hv
  have g (k v off : Nat) (h : (c.fixed ls l)[k]? = some (4, v)) (ho : fieldOff (c.fixed ls l) k = off) (hv : v < 4294967296) :=
    u32_field (c.fixed ls l) k v R off h ho hv
  have hdrop : (encFields (c.fixed ls l) ++ R).drop 46 = R := List.drop_left' hlen
  unfold readCDH
  simp only [hsig, ne_eq, not_true, if_false, hdrop,
    f 1 c.creator 4 (by fld) (by fld) hc, f 3 0 8 (by fld) (by fld) (by decide), f 4 0 10 (by fld) (by fld) (by decide),
    g 7 _ 16 (by fld) (by fld) hcrc, g 8 l.data.length 20 (by fld) (by fld) (by omega),
    g 9 l.data.length 24 (by fld) (by fld) (by omega),
    f 10 l.name.length 28 (by fld) (by fld) hn, f 11 c.extra.length 30 (by fld) (by fld) hx,
    f 12 c.comment.length 32 (by fld) (by fld) hm,
    g 15 c.extAttrs 38 (by fld) (by fld) ha, g 16 (offsetOf ls c.idx) 42 (by fld) (by fld) (by omega)]
  have h1 : ¬ (encFields (c.fixed ls l) ++ R).length < 46 := by simp [hlen]
  have h2 : ¬ R.length < l.name.length + c.extra.length + c.comment.length := by simp [R]; omega
  have h3 : ¬ (l.data.length = 4294967295 ∨ l.data.length = 4294967295 ∨ offsetOf ls c.idx = 4294967295) := by omega
  have h4 : R.take l.name.length = l.name := List.take_left' rfl
  simp only [h1, h2, h3, if_false, h4, hdrOf]

/-- the local record a central header points at -/
def localOf (ls : List ZipLocal) (c : ZipCentral) : ZipLocal := ls.getD c.idx ⟨[], [], []⟩

theorem localOf_get (ls : List ZipLocal) (c : ZipCentral) (h : c.idx < ls.length) : ls[c.idx]? = some (localOf ls c) := by
  simp [localOf, List.getD_eq_getElem?_getD, List.getElem?_eq_getElem h]

theorem length_central_encode (ls : List ZipLocal) (c : ZipCentral) (h : c.idx < ls.length) :
    (c.encode ls).length = 46 + (localOf ls c).name.length + c.extra.length + c.comment.length := by
  simp only [ZipCentral.encode, localOf_get ls c h, List.length_append, length_encFields]
  simp [fieldsLen, ZipCentral.fixed]; omega

theorem length_local_encode (l : ZipLocal) : l.encode.length = 30 + l.name.length + l.extra.length + l.data.length := by
  simp only [ZipLocal.encode, List.length_append, length_encFields]
  simp [fieldsLen, ZipLocal.fixed]; omega

theorem readDir_central (ls : List ZipLocal) (tail : Bytes) (ht : tail ≠ []) (ht2 : tail.length < 46)
    (hnames : ∀ l ∈ ls, l.name.length < 65536 ∧ l.extra.length < 65536 ∧ l.data.length < 4294967295)
    (ho : (localsBytes ls).length < 4294967295) (cs : List ZipCentral) :
    ∀ (fuel : Nat) (acc : List CDH),
      (∀ c ∈ cs, c.idx < ls.length ∧ c.creator < 65536 ∧ c.extAttrs < 4294967296 ∧ c.extra.length < 65536 ∧ c.comment.length < 65536) →
      cs.length < fuel →
      readDir fuel (centralBytes ls cs ++ tail) acc = .ok (acc.reverse ++ cs.map (fun c => hdrOf ls c (localOf ls c)), .unexpectedEOF) := by
  induction cs with
  | nil =>
    intro fuel acc _ hf
    obtain ⟨f, rfl⟩ : ∃ f, fuel = f + 1 := ⟨fuel - 1, by omega⟩
    simp only [centralBytes, List.flatMap_nil, List.nil_append, List.map_nil, List.append_nil]
    rw [readDir]
    simp only [ht, if_false]
    have : readCDH tail = .err .unexpectedEOF := by simp [readCDH, ht2]
    rw [this]
  | cons c cs ih =>
    intro fuel acc hcs hf
    obtain ⟨f, rfl⟩ : ∃ f, fuel = f + 1 := ⟨fuel - 1, by omega⟩
    obtain ⟨h1, h2, h3, h4, h5⟩ := hcs c (by simp)
    have hl := localOf_get ls c h1
    have hmem : localOf ls c ∈ ls := List.mem_of_getElem? hl
    obtain ⟨hn, _, hd⟩ := hnames _ hmem
    simp only [centralBytes, List.flatMap_cons, List.append_assoc]
    have hne : c.encode ls ++ (List.flatMap (ZipCentral.encode ls) cs ++ tail) ≠ [] := by
      intro e
      have := congrArg List.length e
      simp only [List.length_append, length_central_encode ls c h1, List.length_nil] at this
      omega
    rw [readDir]
    simp only [hne, if_false]
    rw [readCDH_encode ls c (localOf ls c) _ hl hn hd h2 h3 h4 h5 ho]
    simp only
    have hdrop : (c.encode ls ++ (List.flatMap (ZipCentral.encode ls) cs ++ tail)).drop (hdrOf ls c (localOf ls c)).len =
        List.flatMap (ZipCentral.encode ls) cs ++ tail :=
      List.drop_left' (by rw [length_central_encode ls c h1]; rfl)
    rw [hdrop]
    have := ih f (hdrOf ls c (localOf ls c) :: acc) (fun x hx => hcs x (by simp [hx])) (by simp at hf; omega)
    simp only [centralBytes] at this
    rw [this]
    simp

/-! ### the end record -/

theorem u16_append_left (X E : Bytes) (off : Nat) : u16 (X ++ E) (X.length + off) = u16 E off := by
  unfold u16
  rw [List.drop_append, List.drop_eq_nil_of_le (by omega), List.nil_append, Nat.add_sub_cancel_left]

theorem u32_append_left (X E : Bytes) (off : Nat) : u32 (X ++ E) (X.length + off) = u32 E off := by
  unfold u32
  rw [List.drop_append, List.drop_eq_nil_of_le (by omega), List.nil_append, Nat.add_sub_cancel_left]

theorem length_eocd (ls : List ZipLocal) (cs : List ZipCentral) : (encFields (eocdFixed ls cs)).length = 22 := by
  rw [length_encFields]; simp [fieldsLen, eocdFixed]

theorem findEOCD_zipFile (X : Bytes) (ls : List ZipLocal) (cs : List ZipCentral) :
    findEOCD (X ++ encFields (eocdFixed ls cs)) = .ok X.length := by
  have hlen := length_eocd ls cs
  -- the record: signature, then 18 more bytes
  obtain ⟨E18, hE, hE18⟩ : ∃ E18 : Bytes, encFields (eocdFixed ls cs) = sigEOCD ++ E18 ∧ E18.length = 18 := by
    refine ⟨encFields (eocdFixed ls cs).tail, ?_, ?_⟩
    · rw [← sigEOCD_eq]; simp [eocdFixed, encFields]
    · rw [length_encFields]; simp [fieldsLen, eocdFixed]
  unfold findEOCD
  have hsize : (X ++ encFields (eocdFixed ls cs)).length = X.length + 22 := by simp [hlen]
  have hn : ¬ (X ++ encFields (eocdFixed ls cs)).length < 22 := by omega
  simp only [hn, if_false, hsize]
  have hrev : (X ++ encFields (eocdFixed ls cs)).reverse.drop 18 = [6, 5, 75, 80] ++ X.reverse := by
    rw [hE, List.reverse_append, List.reverse_append, List.append_assoc,
      List.drop_left' (by simp [hE18])]
    rfl
  obtain ⟨w, hw⟩ : ∃ w, Nat.min (X.length + 22) 66560 - 22 + 1 = w + 1 := ⟨_, rfl⟩
  rw [hw, hrev]
  simp only [List.cons_append, List.nil_append, scanRev, Nat.add_sub_cancel]
  have hsig : ([80, 75, 5, 6] : Bytes) = sigEOCD := rfl
  simp only [hsig, if_true]
  have hcl : u16 (encFields (eocdFixed ls cs)) 20 = 0 := by
    have := u16_field (eocdFixed ls cs) 7 0 [] 20 (by fld) (by fld) (by decide)
    simpa using this
  rw [u16_append_left X _ 20, hcl]
  simp only [Nat.zero_add]
  rw [if_neg (by omega), if_neg (by omega)]

theorem length_centralBytes (ls : List ZipLocal) (cs : List ZipCentral) (h : ∀ c ∈ cs, c.idx < ls.length) :
    46 * cs.length ≤ (centralBytes ls cs).length := by
  induction cs with
  | nil => simp [centralBytes]
  | cons c cs ih =>
    have := ih (fun x hx => h x (by simp [hx]))
    simp only [centralBytes, List.flatMap_cons, List.length_append, List.length_cons,
      length_central_encode ls c (h c (by simp))] at this ⊢
    omega

/-- `Reader.init` on a written file: the central directory in its own order, base offset 0 -/
theorem readDirectory_zipFile (ls : List ZipLocal) (cs : List ZipCentral) (wf : ZipWF ls cs) :
    readDirectory (zipFile ls cs) = .ok (cs.map (fun c => hdrOf ls c (localOf ls c)), 0) := by
  have hE := length_eocd ls cs
  have hfile : zipFile ls cs = ((localsBytes ls) ++ (centralBytes ls cs)) ++ (encFields (eocdFixed ls cs)) := by simp [zipFile]
  have hfind : findEOCD (zipFile ls cs) = .ok ((localsBytes ls) ++ (centralBytes ls cs)).length := by rw [hfile]; exact findEOCD_zipFile _ ls cs
  have hrec : u16 (zipFile ls cs) (((localsBytes ls) ++ (centralBytes ls cs)).length + 10) = cs.length := by
    rw [hfile, u16_append_left]
    have := u16_field (eocdFixed ls cs) 4 cs.length [] 10 (by fld) (by fld) (by have := wf.count; omega)
    simpa using this
  have hsz : u32 (zipFile ls cs) (((localsBytes ls) ++ (centralBytes ls cs)).length + 12) = (centralBytes ls cs).length := by
    rw [hfile, u32_append_left]
    have := u32_field (eocdFixed ls cs) 5 (centralBytes ls cs).length [] 12 (by fld) (by fld) wf.dirSize.1
    simpa using this
  have hof : u32 (zipFile ls cs) (((localsBytes ls) ++ (centralBytes ls cs)).length + 16) = (localsBytes ls).length := by
    rw [hfile, u32_append_left]
    have := u32_field (eocdFixed ls cs) 6 (localsBytes ls).length [] 16 (by fld) (by fld) (by have := wf.dirOffset; omega)
    simpa using this
  unfold readDirectory
  simp only [hfind, hrec, hsz, hof]
  have hz : ¬ ((cs.length = 65535 ∨ (centralBytes ls cs).length = 65535 ∨ (localsBytes ls).length = 4294967295) ∧ ((localsBytes ls) ++ (centralBytes ls cs)).length ≥ 20 ∧
      ((zipFile ls cs).drop (((localsBytes ls) ++ (centralBytes ls cs)).length - 20)).take 4 = sigLoc64 ∧ u32 (zipFile ls cs) (((localsBytes ls) ++ (centralBytes ls cs)).length - 20 + 4) = 0 ∧
      u32 (zipFile ls cs) (((localsBytes ls) ++ (centralBytes ls cs)).length - 20 + 16) = 1) := by
    intro ⟨h, _⟩
    have h1 := wf.count; have h2 := wf.dirSize.2; have h3 := wf.dirOffset
    rcases h with h | h | h <;> omega
  simp only [hz, if_false]
  have hbase : (Int.ofNat ((localsBytes ls) ++ (centralBytes ls cs)).length - Int.ofNat (centralBytes ls cs).length - Int.ofNat (localsBytes ls).length : Int) = 0 := by
    simp only [List.length_append, Int.ofNat_eq_natCast, Int.natCast_add]; omega
  simp only [hbase, Int.zero_add, Int.lt_irrefl, decide_false, Bool.false_and]
  have hsize : (zipFile ls cs).length = (localsBytes ls).length + (centralBytes ls cs).length + 22 := by
    rw [hfile]; simp only [List.length_append, hE]
  have ho : ¬ (Int.ofNat (localsBytes ls).length < 0 ∨ Int.ofNat (localsBytes ls).length ≥ Int.ofNat (zipFile ls cs).length) := by
    rw [hsize]; simp only [Int.ofNat_eq_natCast]; omega
  simp only [ho, if_false, Bool.false_eq_true]
  have hstart : ¬ (Int.ofNat (localsBytes ls).length < 0) := by simp only [Int.ofNat_eq_natCast]; omega
  have htn : (Int.ofNat (localsBytes ls).length).toNat = (localsBytes ls).length := rfl
  rw [Int.zero_add]
  simp only [hstart, if_false, htn]
  have hdrop : (zipFile ls cs).drop (localsBytes ls).length = (centralBytes ls cs) ++ (encFields (eocdFixed ls cs)) := by
    simp only [zipFile]; exact List.drop_left' rfl
  rw [hdrop]
  have hcidx : ∀ c ∈ cs, c.idx < ls.length := fun c hc => (wf.centrals c hc).1
  rw [readDir_central ls (encFields (eocdFixed ls cs)) (by intro e; rw [e] at hE; simp at hE) (by omega) wf.names wf.dirOffset cs _ [] wf.centrals]
  · have h1 := wf.count
    simp only [List.reverse_nil, List.nil_append, List.length_map]
    rw [Nat.mod_eq_of_lt (by omega)]
    simp
  · have := length_centralBytes ls cs hcidx
    rw [hsize]
    omega

/-! ### `File.Open` + `io.Copy` -/

theorem localsBytes_split (ls : List ZipLocal) (i : Nat) (l : ZipLocal) (h : ls[i]? = some l) :
    localsBytes ls = localsBytes (ls.take i) ++ (l.encode ++ localsBytes (ls.drop (i + 1))) := by
  have hi : i < ls.length := by
    rcases Nat.lt_or_ge i ls.length with h' | h'
    · exact h'
    · rw [List.getElem?_eq_none h'] at h; cases h
  have hl : ls[i] = l := by rw [List.getElem?_eq_getElem hi] at h; exact Option.some.inj h
  have : ls = ls.take i ++ l :: ls.drop (i + 1) := by
    rw [← hl, List.getElem_cons_drop, List.take_append_drop]
  conv => lhs; rw [this]
  simp [localsBytes]

/-- the member a central header points at, opened and copied: its content, no error -/
theorem openMember_zipFile (ls : List ZipLocal) (cs : List ZipCentral) (wf : ZipWF ls cs) (c : ZipCentral) (hc : c ∈ cs) :
    openMember (zipFile ls cs) 0 (hdrOf ls c (localOf ls c)) = .copied (localOf ls c).data false := by
  obtain ⟨hidx, _⟩ := wf.centrals c hc
  have hl := localOf_get ls c hidx
  have hmem : localOf ls c ∈ ls := List.mem_of_getElem? hl
  obtain ⟨hn, hx, hd⟩ := wf.names _ hmem
  -- the file from the recorded offset on
  obtain ⟨T, hT⟩ : ∃ T, (zipFile ls cs).drop (offsetOf ls c.idx) = (localOf ls c).encode ++ T := by
    refine ⟨localsBytes (ls.drop (c.idx + 1)) ++ (centralBytes ls cs ++ encFields (eocdFixed ls cs)), ?_⟩
    simp only [zipFile]
    rw [localsBytes_split ls c.idx _ hl]
    simp only [List.append_assoc]
    exact List.drop_left' rfl
  have hT' : (zipFile ls cs).drop (offsetOf ls c.idx) = encFields (localOf ls c).fixed ++ ((localOf ls c).name ++ ((localOf ls c).extra ++ ((localOf ls c).data ++ T))) := by
    rw [hT]; simp [ZipLocal.encode]
  have hlen : (encFields (localOf ls c).fixed).length = 30 := by rw [length_encFields]; simp [fieldsLen, ZipLocal.fixed]
  have hsig : (encFields (localOf ls c).fixed ++ ((localOf ls c).name ++ ((localOf ls c).extra ++ ((localOf ls c).data ++ T)))).take 4 = sigLFH := by
    have : encFields (localOf ls c).fixed = natLE 4 0x04034b50 ++ encFields (localOf ls c).fixed.tail := by simp [ZipLocal.fixed, encFields]
    rw [this, List.append_assoc, List.take_left' (length_natLE _ _), sigLFH_eq]
  have hnl := u16_field (localOf ls c).fixed 9 (localOf ls c).name.length ((localOf ls c).name ++ ((localOf ls c).extra ++ ((localOf ls c).data ++ T))) 26 (by fld) (by fld) hn
  have hxl := u16_field (localOf ls c).fixed 10 (localOf ls c).extra.length ((localOf ls c).name ++ ((localOf ls c).extra ++ ((localOf ls c).data ++ T))) 28 (by fld) (by fld) hx
  have hbody : (zipFile ls cs).drop (offsetOf ls c.idx + 30 + (localOf ls c).name.length + (localOf ls c).extra.length) = (localOf ls c).data ++ T := by
    have : offsetOf ls c.idx + 30 + (localOf ls c).name.length + (localOf ls c).extra.length = offsetOf ls c.idx + (30 + (localOf ls c).name.length + (localOf ls c).extra.length) := by omega
    rw [this, ← List.drop_drop, hT']
    rw [← List.append_assoc, ← List.append_assoc]
    exact List.drop_left' (by simp [hlen]; omega)
  unfold openMember
  have hoff : ¬ (Int.ofNat (hdrOf ls c (localOf ls c)).offset + 0 < 0) := by
    simp only [Int.ofNat_eq_natCast, Int.add_zero]; omega
  have htn : (Int.ofNat (hdrOf ls c (localOf ls c)).offset + 0).toNat = offsetOf ls c.idx := by
    simp [hdrOf]
  simp only [hoff, if_false, htn, hT', hsig, ne_eq, not_true, hnl, hxl]
  have h30 : ¬ (encFields (localOf ls c).fixed ++ ((localOf ls c).name ++ ((localOf ls c).extra ++ ((localOf ls c).data ++ T)))).length < 30 := by simp [hlen]
  have hmeth : ¬ ((hdrOf ls c (localOf ls c)).method ≠ 0 ∧ (hdrOf ls c (localOf ls c)).method ≠ 8) := by simp [hdrOf]
  simp only [h30, hmeth, if_false, hbody]
  have hsect : ((localOf ls c).data ++ T).take (hdrOf ls c (localOf ls c)).csize = (localOf ls c).data := List.take_left' rfl
  simp only [hsect]
  have hm0 : (hdrOf ls c (localOf ls c)).method = 0 := rfl
  have hcs : (hdrOf ls c (localOf ls c)).csize = (localOf ls c).data.length := rfl
  have hus : (hdrOf ls c (localOf ls c)).usize = (localOf ls c).data.length := rfl
  have hfl : (hdrOf ls c (localOf ls c)).flags = 0 := rfl
  have hcrc : (hdrOf ls c (localOf ls c)).crc = (crc32 (localOf ls c).data).toNat := rfl
  simp only [hm0, if_true, hcs, hus, hfl, hcrc]
  have hdd : ¬ (0 / 8 % 2 = 1) := by decide
  simp only [and_self, not_true, and_false, if_false, hdd]
  by_cases he : (localOf ls c).data.length = 0
  · have hnil : (localOf ls c).data = [] := List.eq_nil_of_length_eq_zero he
    simp [hnil, checksumCopy]
  · simp [he, checksumCopy]

/-- **the reader inverts the writer**: `r.File` is the central directory in its own order; each member has the
    name, kind and content of the local record its header points at -/
theorem readZip_zipFile (ls : List ZipLocal) (cs : List ZipCentral) (wf : ZipWF ls cs) :
    readZip (zipFile ls cs) = .ok (cs.map (ZipCentral.entry ls)) := by
  unfold readZip
  rw [readDirectory_zipFile ls cs wf]
  have hnul : (cs.map (fun c => hdrOf ls c (localOf ls c))).any (fun h => h.name.any (· = 0)) = false := by
    rw [List.any_eq_false]
    intro h hh
    simp only [List.mem_map] at hh
    obtain ⟨c, hc, rfl⟩ := hh
    have hmem : localOf ls c ∈ ls := List.mem_of_getElem? (localOf_get ls c (wf.centrals c hc).1)
    have := wf.noNUL _ hmem
    simp only [hdrOf, List.any_eq_true, decide_eq_true_eq, not_exists, not_and]
    intro x hx e
    subst e
    exact this hx
  simp only [hnul, Bool.false_eq_true, if_false, List.map_map]
  congr 1
  apply List.map_congr_left
  intro c hc
  simp only [Function.comp, ZipCentral.entry]
  have ho := openMember_zipFile ls cs wf c hc
  have hh : hdrOf ls c (localOf ls c) =
      { creator := c.creator, flags := 0, method := 0, crc := (crc32 (ls.getD c.idx ⟨[], [], []⟩).data).toNat,
        csize := (ls.getD c.idx ⟨[], [], []⟩).data.length, usize := (ls.getD c.idx ⟨[], [], []⟩).data.length,
        extAttrs := c.extAttrs, offset := offsetOf ls c.idx, name := (ls.getD c.idx ⟨[], [], []⟩).name,
        len := 46 + (ls.getD c.idx ⟨[], [], []⟩).name.length + c.extra.length + c.comment.length } := rfl
  rw [← hh, ho]
  cases isDirOf (hdrOf ls c (localOf ls c)) <;> rfl

end LlgoVerif.Zip
