/-!
# DynEq — model of the run-time comparison and hashing of interface values   (property C07)

Three pieces of llgo are mirrored here, branch by branch, in core Lean:

* **runtime/internal/runtime/z_face.go** `EfaceEqual` (what `ssa/expr.go` `BinOp` calls for `==`/`!=` on two interface
  values, empty or not) → `efaceEqual`;
* **runtime/internal/runtime/alg.go**: the `Equal` functions a descriptor can carry (`memequal0/8/16/32/64/128/ptr`,
  `f32equal`, `f64equal`, `c64equal`, `c128equal`, `strequal`, `interequal`, `nilinterequal` with `efaceeq`/`ifaceeq`,
  `structequal`, `arrayequal`) → `callEq`/`eqFields`/`eqElems`; the hashers (`typehash`, `nilinterhash`, `interhash`,
  `f32hash`, `f64hash`, `c64hash`, `c128hash`, `strhash`; `typehash` closed over the key type is the `Hasher` of EVERY map type,
  `ssa/abitype.go` `abiExtendedFields`) → `typehash`/`hashFields`/`hashElems`, `nilinterhash`, `interhash`;
* **ssa/abi/type.go** `EqualName`, `IsRegularMemory`/`ispaddedfield` (→ `TFlagRegularMemory`), `Kind`, `Size`, and
  **ssa/abitype.go** `directIfaceType` (→ `KindDirectIface`): which of these the compiler writes into the descriptor of a
  type → `equalName`, `regularTy`, `directTy`, `tsize`, `descOf`.

## What the run time reads

`Desc` is what `alg.go`/`z_face.go` read of an `abi.Type`: `Size_`, `TFlag & TFlagRegularMemory`, `Kind_ & KindDirectIface`,
`Equal` (which function, `none` = nil), the kind (as far as `typehash`'s switch distinguishes it) and the kind-specific tail
(`ArrayType.Elem/Len`, `StructType.Fields[i].{Name_ == "_", Offset, Typ}`, `len(InterfaceType.Methods)`).  Descriptor
IDENTITY (`v._type != u._type` compares pointers) is not a field: an interface value holds a type pointer `t : τ`, and
`D : τ → Desc` is the descriptor memory.  `structequal`/`arrayequal` are closures over the descriptor they sit in
(`ssa/abitype.go`: `env := b.abiType(t)`).

## Memory

`Obj τ` is the memory image an `Equal`/hash function is pointed at: raw bytes; a string header (with the bytes it points to);
an interface header `{type word, data word}` (with the dynamic type pointer `t : τ` and the object `box` the hash/equal
functions get to see: for an indirect type the value `data` points to, for a direct type the data word itself);
a sequence of adjacent parts (struct fields / array elements), each preceded by its padding bytes `pre`, with trailing
padding `tail`.  `flat` is the byte image; padding and unobservable words (string pointer, box address, type word) are part
of it — a hash that reads them is wrong, and the model shows it.  Field `i` of a descriptor is looked up positionally and the
model checks that it really lies at `Fields[i].Offset` (array element `i` at `i * Elem.Size_`); `.error .wild` means "the
descriptor does not describe this memory, or a nil `Equal` is called" (behaviour outside the model).

`.error .uncomparable` / `.error .unhashable` are the two run-time panics
("comparing uncomparable type …" / "hash of unhashable type …").

The three `memhash` routines (`hash64.go`) are PARAMETERS `H.mh/mh32/mh64 : bytes → seed → hash`; `rnd` is the `fastrand`
stream (NaN hashes), threaded as a call counter.
-/
namespace LlgoVerif.DynEq

inductive Err
  | uncomparable   -- panic: comparing uncomparable type
  | unhashable     -- panic: hash of unhashable type
  | wild           -- outside the model: descriptor and memory do not match / nil Equal called
  deriving DecidableEq, Repr, Inhabited

/-! ## descriptors (what the run time reads) -/

/-- the functions of alg.go a descriptor's `Equal` can point to -/
inductive EqFn
  | memequal0 | memequal8 | memequal16 | memequal32 | memequal64 | memequal128 | memequalptr
  | f32equal | f64equal | c64equal | c128equal | strequal | interequal | nilinterequal
  | structequal | arrayequal
  deriving DecidableEq, Repr, Inhabited

/-- `t.Kind()` as far as `typehash` distinguishes kinds without a kind-specific tail -/
inductive PKind
  | float32 | float64 | complex64 | complex128 | string
  | other     -- bool, integers, pointer, chan, unsafe.Pointer, func, map, slice: `typehash`'s `default`
  deriving DecidableEq, Repr, Inhabited

structure Common where
  /-- `Size_` -/
  size : Nat
  /-- `TFlag & TFlagRegularMemory != 0` -/
  regular : Bool
  /-- `Kind_ & KindDirectIface != 0` (`isDirectIface`) -/
  direct : Bool
  /-- `Equal` (`none` = nil) -/
  equal : Option EqFn
  deriving DecidableEq, Repr, Inhabited

mutual
inductive Desc
  | plain (c : Common) (kind : PKind)
  | iface (c : Common) (nmeth : Nat)
  | array (c : Common) (elem : Desc) (len : Nat)
  | struct (c : Common) (fields : DFields)
inductive DFields
  | nil
  | cons (blank : Bool) (off : Nat) (t : Desc) (rest : DFields)
end

instance : Inhabited Desc := ⟨.plain default .other⟩

def Desc.c : Desc → Common
  | .plain c _ => c
  | .iface c _ => c
  | .array c _ _ => c
  | .struct c _ => c

/-! ## memory -/

mutual
inductive Obj (τ : Type)
  | bytes (bs : List UInt8)
  /-- string header `{data, len}`; `s` = the `len` bytes `data` points to -/
  | str (ptr : Nat) (s : List UInt8)
  /-- nil interface value (type word 0) -/
  | enil (dw : UInt64)
  /-- interface value: type word (`_type`, or `tab` with `tab._type = t`), dynamic type pointer, data word, and the
      object the data word stands for (direct type: the word itself; otherwise what it points to) -/
  | eface (tw : Nat) (t : τ) (dw : UInt64) (box : Obj τ)
  | seq (parts : Parts τ) (tail : List UInt8)
inductive Parts (τ : Type)
  | nil
  | cons (pre : List UInt8) (o : Obj τ) (rest : Parts τ)
end

instance {τ : Type} : Inhabited (Obj τ) := ⟨.bytes []⟩

/-- little-endian bytes of `n mod 2^(8k)` -/
def leBytes : Nat → Nat → List UInt8
  | 0, _ => []
  | k+1, n => UInt8.ofNat (n % 256) :: leBytes k (n / 256)

def le64 (n : Nat) : List UInt8 := leBytes 8 n

/-- little-endian value of a byte string (`readUnaligned32/64`, `*(*int16)(p)` …) -/
def leNat : List UInt8 → Nat
  | [] => 0
  | b :: r => b.toNat + 256 * leNat r

variable {τ : Type}

mutual
/-- the byte image -/
def flat : Obj τ → List UInt8
  | .bytes bs => bs
  | .str ptr s => le64 ptr ++ le64 s.length
  | .enil dw => le64 0 ++ le64 dw.toNat
  | .eface tw _ dw _ => le64 tw ++ le64 dw.toNat
  | .seq ps tail => flatParts ps ++ tail
def flatParts : Parts τ → List UInt8
  | .nil => []
  | .cons pre o rest => pre ++ flat o ++ flatParts rest
end

def flatLen (o : Obj τ) : Nat := (flat o).length

/-- read `n` bytes at the object's address; reading past the object is outside the model -/
def readBytes (o : Obj τ) (n : Nat) : Except Err (List UInt8) :=
  if (flat o).length < n then .error .wild else .ok ((flat o).take n)

/-! ## IEEE-754 `==` on bit patterns -/

def nanBits32 (x : Nat) : Bool := x / 2^23 % 256 == 255 && x % 2^23 != 0
def zeroBits32 (x : Nat) : Bool := x % 2^31 == 0
def nanBits64 (x : Nat) : Bool := x / 2^52 % 2048 == 2047 && x % 2^52 != 0
def zeroBits64 (x : Nat) : Bool := x % 2^63 == 0

/-- `float32 == float32` -/
def feq32 (x y : Nat) : Bool := !nanBits32 x && !nanBits32 y && (x == y || (zeroBits32 x && zeroBits32 y))
/-- `float64 == float64` -/
def feq64 (x y : Nat) : Bool := !nanBits64 x && !nanBits64 y && (x == y || (zeroBits64 x && zeroBits64 y))

/-! ## alg.go: the `Equal` functions -/

/-- `memequalN(p, q)`: `*(*intN)(p) == *(*intN)(q)` -/
def memeq (n : Nat) (p q : Obj τ) : Except Err Bool :=
  match readBytes p n, readBytes q n with
  | .ok a, .ok b => .ok (a == b)
  | _, _ => .error .wild

/-- `f32equal` / `f64equal` (`w` = 4 / 8) -/
def floatEq (w : Nat) (p q : Obj τ) : Except Err Bool :=
  match readBytes p w, readBytes q w with
  | .ok a, .ok b => .ok (if w = 4 then feq32 (leNat a) (leNat b) else feq64 (leNat a) (leNat b))
  | _, _ => .error .wild

/-- `c64equal` / `c128equal`: real parts equal and imaginary parts equal (`w` = width of one part) -/
def complexEq (w : Nat) (p q : Obj τ) : Except Err Bool :=
  match readBytes p (2 * w), readBytes q (2 * w) with
  | .ok a, .ok b =>
    .ok (if w = 4 then feq32 (leNat (a.take 4)) (leNat (b.take 4)) && feq32 (leNat (a.drop 4)) (leNat (b.drop 4))
         else feq64 (leNat (a.take 8)) (leNat (b.take 8)) && feq64 (leNat (a.drop 8)) (leNat (b.drop 8)))
  | _, _ => .error .wild

section runtime
variable [DecidableEq τ] (D : τ → Desc)

mutual
/-- `t.Equal(p, q)` for `t.Equal = f` sitting in descriptor `d` (the closure environment of `structequal`/`arrayequal`) -/
def callEq (f : EqFn) (d : Desc) (p q : Obj τ) : Except Err Bool :=
  match f with
  | .memequal0 => .ok true
  | .memequal8 => memeq 1 p q
  | .memequal16 => memeq 2 p q
  | .memequal32 => memeq 4 p q
  | .memequal64 => memeq 8 p q
  | .memequal128 => memeq 16 p q
  | .memequalptr => memeq 8 p q
  | .f32equal => floatEq 4 p q
  | .f64equal => floatEq 8 p q
  | .c64equal => complexEq 4 p q
  | .c128equal => complexEq 8 p q
  | .strequal =>
    -- `*(*string)(p) == *(*string)(q)`: lengths and bytes; the data pointers are not compared
    match p, q with
    | .str _ s1, .str _ s2 => .ok (s1 == s2)
    | _, _ => .error .wild
  | .interequal =>
    -- `x.tab == y.tab && ifaceeq(x.tab, x.data, y.data)`; one itab per (interface type, dynamic type): `tab` equality is
    -- equality of the dynamic type pointers
    match p, q with
    | .enil _, .enil _ => .ok true                      -- ifaceeq(nil, …) = true
    | .enil _, .eface _ _ _ _ => .ok false
    | .eface _ _ _ _, .enil _ => .ok false
    | .eface _ tx dx bx, .eface _ ty dy qy =>
      if tx ≠ ty then .ok false
      else match (D tx).c.equal with
        | none => .error .uncomparable                   -- panic("comparing uncomparable type " + t.Str_)
        | some g => if (D tx).c.direct then .ok (dx == dy) else callEq g (D tx) bx qy
    | _, _ => .error .wild
  | .nilinterequal =>
    -- `x._type == y._type && efaceeq(x._type, x.data, y.data)`
    match p, q with
    | .enil _, .enil _ => .ok true                      -- efaceeq(nil, …) = true
    | .enil _, .eface _ _ _ _ => .ok false
    | .eface _ _ _ _, .enil _ => .ok false
    | .eface _ tx dx bx, .eface _ ty dy qy =>
      if tx ≠ ty then .ok false
      else match (D tx).c.equal with
        | none => .error .uncomparable
        | some g => if (D tx).c.direct then .ok (dx == dy) else callEq g (D tx) bx qy
    | _, _ => .error .wild
  | .structequal =>
    match d, p, q with
    | .struct _ fs, .seq ps _, .seq qs _ => eqFields fs ps qs 0 0
    | _, _, _ => .error .wild
  | .arrayequal =>
    match d, p, q with
    | .array _ elem len, .seq ps _, .seq qs _ => eqElems elem len 0 ps qs 0 0
    | _, _, _ => .error .wild
/-- the loop of `structequal`: fields named `_` are skipped, the first unequal field ends the comparison;
    `cp`/`cq` = offset reached in `p`/`q` -/
def eqFields (fs : DFields) (ps qs : Parts τ) (cp cq : Nat) : Except Err Bool :=
  match fs, ps, qs with
  | .nil, _, _ => .ok true
  | .cons blank off t rest, .cons pre o ps', .cons pre' o' qs' =>
    if cp + pre.length ≠ off ∨ cq + pre'.length ≠ off then .error .wild
    else if blank then eqFields rest ps' qs' (off + flatLen o) (off + flatLen o')
    else
      -- `ft.Typ.Equal(pi, qi)`
      match t.c.equal with
      | none => .error .wild
      | some g =>
        match callEq g t o o' with
        | .error e => .error e
        | .ok false => .ok false
        | .ok true => eqFields rest ps' qs' (off + flatLen o) (off + flatLen o')
  | _, _, _ => .error .wild
/-- the loop of `arrayequal`: `n` elements left, element `i` lies at `i * elem.Size_` -/
def eqElems (elem : Desc) (n i : Nat) (ps qs : Parts τ) (cp cq : Nat) : Except Err Bool :=
  match n, ps, qs with
  | 0, _, _ => .ok true
  | n'+1, .cons pre o ps', .cons pre' o' qs' =>
    if cp + pre.length ≠ i * elem.c.size ∨ cq + pre'.length ≠ i * elem.c.size then .error .wild
    else
      match elem.c.equal with
      | none => .error .wild
      | some g =>
        match callEq g elem o o' with
        | .error e => .error e
        | .ok false => .ok false
        | .ok true => eqElems elem n' (i+1) ps' qs' (i * elem.c.size + flatLen o) (i * elem.c.size + flatLen o')
  | _, _, _ => .error .wild
end

/-- `t.Equal(p, q)` (calling a nil `Equal` is a crash) -/
def equalD (d : Desc) (p q : Obj τ) : Except Err Bool :=
  match d.c.equal with
  | none => .error .wild
  | some f => callEq D f d p q

/-- **`EfaceEqual(v, u)`** (z_face.go) -/
def efaceEqual (v u : Obj τ) : Except Err Bool :=
  match v, u with
  -- `if v._type == nil || u._type == nil { return v._type == u._type }`
  | .enil _, .enil _ => .ok true
  | .enil _, .eface _ _ _ _ => .ok false
  | .eface _ _ _ _, .enil _ => .ok false
  | .eface _ tv dv bv, .eface _ tu du bu =>
    -- `if v._type != u._type { return false }`
    if tv ≠ tu then .ok false
    else match (D tv).c.equal with
      -- `if equal == nil { panic("comparing uncomparable type …") }`
      | none => .error .uncomparable
      | some f =>
        -- `if isDirectIface(v._type) { return v.data == u.data }`
        if (D tv).c.direct then .ok (dv == du)
        -- `return equal(v.data, u.data)`
        else callEq D f (D tv) bv bu
  | _, _ => .error .wild

/-- `efaceeq(t, x, y)` (alg.go) on the parts of an interface value: `t` = nil ↔ `none` -/
def efaceeq (t : Option τ) (dx dy : UInt64) (bx qy : Obj τ) : Except Err Bool :=
  match t with
  | none => .ok true
  | some t =>
    match (D t).c.equal with
    | none => .error .uncomparable
    | some g => if (D t).c.direct then .ok (dx == dy) else callEq D g (D t) bx qy

/-! ## alg.go: hashing -/

structure Hashers where
  /-- `memhash(p, h, s)` on the `s` bytes at `p` -/
  mh : List UInt8 → UInt64 → UInt64
  /-- `memhash32(p, h)` -/
  mh32 : List UInt8 → UInt64 → UInt64
  /-- `memhash64(p, h)` -/
  mh64 : List UInt8 → UInt64 → UInt64

variable (H : Hashers) (rnd : Nat → UInt32)

/-- `c0`, `c1` of alg.go for `PtrSize = 8` -/
def c0 : UInt64 := 33054211828000289
def c1 : UInt64 := 23344194077549503

/-- `f32hash` / `f64hash` on the 4 / 8 bytes read (`w` = 4 / 8); `k` = number of `fastrand` calls made so far -/
def floatHash (w : Nat) (bs : List UInt8) (h : UInt64) (k : Nat) : UInt64 × Nat :=
  let f := leNat bs
  if (if w = 4 then zeroBits32 f else zeroBits64 f) then (c1 * (c0 ^^^ h), k)                        -- +0, -0
  else if (if w = 4 then nanBits32 f else nanBits64 f) then (c1 * (c0 ^^^ h ^^^ (rnd k).toUInt64), k + 1)   -- any kind of NaN
  else (H.mh bs h, k)

/-- `c64hash` / `c128hash`: `fNhash(&x[1], fNhash(&x[0], h))` -/
def complexHash (w : Nat) (bs : List UInt8) (h : UInt64) (k : Nat) : UInt64 × Nat :=
  let r := floatHash H rnd w (bs.take w) h k
  floatHash H rnd w (bs.drop w) r.1 r.2

abbrev HM := Except Err (UInt64 × Nat)

mutual
/-- **`typehash(t, p, h)`**; the interface case is `nilinterhash`/`interhash` (same shape; stated below) -/
def typehash (d : Desc) (o : Obj τ) (h : UInt64) (k : Nat) : HM :=
  if d.c.regular then
    -- `switch t.Size_ { case 4: memhash32; case 8: memhash64; default: memhash(p, h, t.Size_) }`
    match readBytes o d.c.size with
    | .error e => .error e
    | .ok bs => .ok ((if d.c.size = 4 then H.mh32 bs h else if d.c.size = 8 then H.mh64 bs h else H.mh bs h), k)
  else
    match d with
    | .plain _ .float32 => (readBytes o 4).map fun bs => floatHash H rnd 4 bs h k
    | .plain _ .float64 => (readBytes o 8).map fun bs => floatHash H rnd 8 bs h k
    | .plain _ .complex64 => (readBytes o 8).map fun bs => complexHash H rnd 4 bs h k
    | .plain _ .complex128 => (readBytes o 16).map fun bs => complexHash H rnd 8 bs h k
    | .plain _ .string =>
      -- `strhash`: `memhash(x.data, h, uintptr(x.len))`
      match o with
      | .str _ s => .ok (H.mh s h, k)
      | _ => .error .wild
    | .plain _ .other => .error .unhashable        -- `default: panic("hash of unhashable type …")`
    | .iface _ _ =>
      match o with
      | .enil _ => .ok (h, k)                      -- `if t == nil { return h }`
      | .eface _ t _ box =>
        if (D t).c.equal.isNone then .error .unhashable
        else
          -- direct: `typehash(t, unsafe.Pointer(&a.data), h^c0)`; otherwise `typehash(t, a.data, h^c0)`: in both cases `box`
          match typehash (D t) box (h ^^^ c0) k with
          | .error e => .error e
          | .ok (x, k') => .ok (c1 * x, k')
      | _ => .error .wild
    | .array _ elem len =>
      match o with
      | .seq ps _ => hashElems elem len 0 ps 0 h k
      | _ => .error .wild
    | .struct _ fs =>
      match o with
      | .seq ps _ => hashFields fs ps 0 h k
      | _ => .error .wild
/-- the struct loop of `typehash`: fields named `_` are skipped -/
def hashFields (fs : DFields) (ps : Parts τ) (cur : Nat) (h : UInt64) (k : Nat) : HM :=
  match fs, ps with
  | .nil, _ => .ok (h, k)
  | .cons blank off t rest, .cons pre o ps' =>
    if cur + pre.length ≠ off then .error .wild
    else if blank then hashFields rest ps' (off + flatLen o) h k
    else
      match typehash t o h k with
      | .error e => .error e
      | .ok (h', k') => hashFields rest ps' (off + flatLen o) h' k'
  | _, _ => .error .wild
/-- the array loop of `typehash` -/
def hashElems (elem : Desc) (n i : Nat) (ps : Parts τ) (cur : Nat) (h : UInt64) (k : Nat) : HM :=
  match n, ps with
  | 0, _ => .ok (h, k)
  | n'+1, .cons pre o ps' =>
    if cur + pre.length ≠ i * elem.c.size then .error .wild
    else
      match typehash elem o h k with
      | .error e => .error e
      | .ok (h', k') => hashElems elem n' (i+1) ps' (i * elem.c.size + flatLen o) h' k'
  | _, _ => .error .wild
end

/-- **`nilinterhash(p, h)`** -/
def nilinterhash (o : Obj τ) (h : UInt64) (k : Nat) : HM :=
  match o with
  | .enil _ => .ok (h, k)
  | .eface _ t _ box =>
    if (D t).c.equal.isNone then .error .unhashable
    else
      match typehash D H rnd (D t) box (h ^^^ c0) k with
      | .error e => .error e
      | .ok (x, k') => .ok (c1 * x, k')
  | _ => .error .wild

/-- **`interhash(p, h)`**: as `nilinterhash`, the type is read through `tab._type` -/
def interhash (o : Obj τ) (h : UInt64) (k : Nat) : HM := nilinterhash D H rnd o h k

end runtime

/-! ## the compiler's choice: ssa/abi/type.go, ssa/abitype.go -/

/-- typed basic kinds of go/types -/
inductive Basic
  | bool | int8 | int16 | int32 | int64 | uint8 | uint16 | uint32 | uint64
  | int | uint | uintptr | float32 | float64 | complex64 | complex128 | string | unsafePointer
  deriving DecidableEq, Repr, Inhabited

/-- pointer-shaped composite kinds (`tag` below stands for the element type / signature) -/
inductive PtrK
  | pointer | chan | map | func
  deriving DecidableEq, Repr, Inhabited

mutual
/-- go/types values as far as `EqualName`, `IsRegularMemory`, `Kind`, `Size`, `directIfaceType` look at them.
    `tag` = whatever else identifies the type (element type, signature, method set); a struct carries what
    `b.Sizes.Sizeof`/`Offsetsof` answer (layout itself is C08's subject); a field name is a number, `0` = `_`. -/
inductive Ty
  | basic (b : Basic)
  | ptr (k : PtrK) (tag : Nat)
  | slice (tag : Nat)
  | iface (nmeth : Nat) (tag : Nat)
  | array (n : Nat) (e : Ty)
  | struct (size : Nat) (fs : Fs)
  | named (id : Nat) (u : Ty)
  deriving DecidableEq, Repr
inductive Fs
  | nil
  | cons (name : Nat) (off : Nat) (t : Ty) (rest : Fs)
  deriving DecidableEq, Repr
end

instance : Inhabited Ty := ⟨.basic .int⟩

def Fs.length : Fs → Nat
  | .nil => 0
  | .cons _ _ _ r => r.length + 1

/-- `(*Builder).Size` for `PtrSize = 8` -/
def Basic.size : Basic → Nat
  | .bool | .int8 | .uint8 => 1
  | .int16 | .uint16 => 2
  | .int32 | .uint32 | .float32 => 4
  | .int64 | .uint64 | .int | .uint | .uintptr | .unsafePointer | .float64 | .complex64 => 8
  | .complex128 | .string => 16

/-- `(*Builder).Size` -/
def tsize : Ty → Nat
  | .basic b => b.size
  | .ptr _ _ => 8
  | .slice _ => 24
  | .iface _ _ => 16
  | .array n e => n * tsize e
  | .struct size _ => size
  | .named _ u => tsize u

/-- `(*Builder).EqualName` on basic kinds (`PtrSize = 8`) -/
def Basic.equalName : Basic → EqFn
  | .bool | .int8 | .uint8 => .memequal8
  | .int16 | .uint16 => .memequal16
  | .int32 | .uint32 => .memequal32
  | .int64 | .uint64 | .int | .uint | .uintptr => .memequal64
  | .float32 => .f32equal
  | .float64 => .f64equal
  | .complex64 => .c64equal
  | .complex128 => .c128equal
  | .string => .strequal
  | .unsafePointer => .memequalptr

mutual
/-- `(*Builder).EqualName` (`none` = the empty name: `Equal` is nil) -/
def equalName : Ty → Option EqFn
  | .basic b => some b.equalName
  | .ptr .pointer _ => some .memequalptr
  | .ptr .chan _ => some .memequalptr
  | .ptr .map _ => none
  | .ptr .func _ => none
  | .slice _ => none
  | .iface n _ => if n = 0 then some .nilinterequal else some .interequal
  | .struct _ fs =>
    match fs with
    | .nil => some .memequal0
    | fs => if allEqualNamed fs then some .structequal else none
  | .array _ e =>
    match equalName e with
    | some _ => if tsize e = 0 then some .memequal0 else some .arrayequal
    | none => none
  | .named _ u => equalName u
/-- `for i := 0; i < n; i++ { if b.EqualName(t.Field(i).Type()) == "" { return "" } }` -/
def allEqualNamed : Fs → Bool
  | .nil => true
  | .cons _ _ t r => (equalName t).isSome && allEqualNamed r
end

/-- `(*Builder).IsRegularMemory` on basic kinds -/
def Basic.regular : Basic → Bool
  | .float32 | .float64 | .complex64 | .complex128 | .string => false
  | _ => true

mutual
/-- `(*Builder).IsRegularMemory` -/
def regularTy : Ty → Bool
  | .basic b => b.regular
  | .ptr .pointer _ => true
  | .ptr .chan _ => true
  | .ptr .map _ => false
  | .ptr .func _ => false
  | .slice _ => false
  | .iface _ _ => false
  | .struct size fs =>
    match fs with
    | .nil => true
    | .cons name _ t .nil => name != 0 && regularTy t
    | fs => regularFields size fs
  | .array n e => regularTy e || n == 0
  | .named _ u => regularTy u
/-- the loop of the `default` case: `f.Name() == "_" || !IsRegularMemory(f.Type()) || ispaddedfield(…)` → false;
    `ispaddedfield`: `end` = offset of the next field, or the struct's size for the last one -/
def regularFields (size : Nat) : Fs → Bool
  | .nil => true
  | .cons name off t rest =>
    name != 0 && regularTy t &&
      (off + tsize t == (match rest with | .nil => size | .cons _ off' _ _ => off')) &&
      regularFields size rest
end

/-- `directIfaceType` (ssa/abitype.go) -/
def directTy : Ty → Bool
  | .basic b => b == .unsafePointer
  | .ptr _ _ => true
  | .slice _ => false
  | .iface _ _ => false
  | .array n e => n == 1 && directTy e
  | .struct _ fs =>
    match fs with
    | .cons _ _ t .nil => directTy t
    | _ => false
  | .named _ u => directTy u

/-- `(*Builder).Kind` as far as `typehash` looks -/
def Basic.pkind : Basic → PKind
  | .float32 => .float32 | .float64 => .float64 | .complex64 => .complex64 | .complex128 => .complex128
  | .string => .string | _ => .other

def commonOf (t : Ty) : Common := ⟨tsize t, regularTy t, directTy t, equalName t⟩

mutual
/-- the descriptor `abiCommonFields`/`abiExtendedFields` emit for a type (a defined type gets a descriptor with its
    underlying type's `Size_`/`TFlagRegularMemory`/`Kind_`/`Equal` and tail) -/
def descOf : Ty → Desc
  | .basic b => .plain (commonOf (.basic b)) b.pkind
  | .ptr k tag => .plain (commonOf (.ptr k tag)) .other
  | .slice tag => .plain (commonOf (.slice tag)) .other
  | .iface n tag => .iface (commonOf (.iface n tag)) n
  | .array n e => .array (commonOf (.array n e)) (descOf e) n
  | .struct size fs => .struct (commonOf (.struct size fs)) (descFields fs)
  | .named _ u => descOf u
def descFields : Fs → DFields
  | .nil => .nil
  | .cons name off t rest => .cons (name == 0) off (descOf t) (descFields rest)
end

end LlgoVerif.DynEq
