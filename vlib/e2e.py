"""End-to-end route: build llgo from /repo's working tree (LLVM 14 + opaque-pointer overlay), compile and
run generated Go programs under the sandbox shims (stub libunwind, ld.gold behind the name ld.lld, -tags nogc)."""
import json
import os
import shutil
import subprocess

from .common import REPO, VERIF, go_env, run, HarnessBuildError

E2E = os.path.join(VERIF, "harness", "e2e")


def build_llgo(ctx):
    """-> path of the llgo binary built from the current working tree"""
    d = os.path.join(ctx.scratch, "llgo")
    os.makedirs(d, exist_ok=True)
    ov = {"Replace": {os.path.join(REPO, "ssa", "zz_verif_opaque.go"): os.path.join(E2E, "overlay", "zz_verif_opaque.go.txt")}}
    ovp = os.path.join(d, "ov.json")
    json.dump(ov, open(ovp, "w"))
    out = os.path.join(d, "llgo")
    p = run(["go", "build", "-tags", "llvm14,verif,dev", "-overlay", ovp, "-o", out, "./cmd/llgo"], cwd=REPO, env=go_env())
    if p.returncode != 0:
        raise HarnessBuildError("building llgo from the working tree failed:\n" + (p.stdout + p.stderr)[-4000:])
    # shims
    sh = os.path.join(d, "shims")
    shutil.copytree(os.path.join(E2E, "shims"), sh)
    lib = os.path.join(sh, "lib")
    os.makedirs(lib, exist_ok=True)
    subprocess.run(["ar", "rc", os.path.join(lib, "libunwind.a")], check=True)
    os.makedirs(os.path.join(d, "tmp"), exist_ok=True)
    os.makedirs(os.path.join(d, "xdg"), exist_ok=True)
    ctx.llgo = out
    ctx.llgo_dir = d
    ctx.coverage["trusted_base"].append(
        "e2e route: llgo built from the working tree with -tags llvm14,verif,dev + opaque-pointer overlay; clang-14, ld.gold (as ld.lld), "
        "stub libunwind, -tags nogc allocator; LLVM 14 optimiser/codegen, clang, linker, glibc are modelled-not-verified")
    return out


def llgo_env(ctx, extra=None):
    d = ctx.llgo_dir
    sh = os.path.join(d, "shims")
    e = go_env()
    e["PATH"] = os.path.join(sh, "bin") + os.pathsep + e["PATH"]
    e["LLGO_ROOT"] = REPO
    e["CCFLAGS"] = "-I%s -mllvm -opaque-pointers" % os.path.join(sh, "include")
    e["LDFLAGS"] = "-L%s" % os.path.join(sh, "lib")
    # llgo's package-archive cache AND the Go build cache (GOCACHE defaults to $XDG_CACHE_HOME/go-build) are private per
    # check run: several checks locate the -gen-llfiles IR by globbing <llgo_dir>/xdg/go-build, and a private cache keeps
    # concurrent checks from seeing each other's IR.  Cost: std export data is rebuilt once per run (~60 s).
    e["XDG_CACHE_HOME"] = os.path.join(d, "xdg")
    e["TMPDIR"] = os.path.join(d, "tmp")
    if extra:
        e.update(extra)
    return e


def llgo_build(ctx, srcdir, out, opt="-O0", tags="nogc", extra_args=(), extra_env=None, timeout=900, pkg="."):
    """Compile the package in srcdir (a module with go.mod).  Returns CompletedProcess."""
    cmd = [ctx.llgo, "build", "-tags", tags]
    if opt:
        cmd.append(opt)
    cmd += list(extra_args) + ["-o", out, pkg]
    return run(cmd, cwd=srcdir, env=llgo_env(ctx, extra_env), timeout=timeout)


def write_module(dirpath, files, modname="verifprog", gover="1.24"):
    os.makedirs(dirpath, exist_ok=True)
    for name, content in files.items():
        p = os.path.join(dirpath, name)
        os.makedirs(os.path.dirname(p), exist_ok=True)
        with open(p, "w") as f:
            f.write(content)
    if "go.mod" not in files:
        with open(os.path.join(dirpath, "go.mod"), "w") as f:
            f.write("module %s\n\ngo %s\n" % (modname, gover))


def _limit_as(gib):
    def f():
        import resource
        resource.setrlimit(resource.RLIMIT_AS, (gib << 30, gib << 30))
    return f


def run_prog(path, args=(), input=None, timeout=60, env=None, mem_gib=None):
    """-> (stdout, stderr, returncode or 'timeout').  mem_gib caps the address space of the child (a runaway
    llgo-compiled program under the never-freeing `nogc` allocator must not take the machine down)."""
    try:
        p = subprocess.run([path] + list(args), input=input, capture_output=True, text=True, timeout=timeout, env=env, errors="replace",
                           preexec_fn=_limit_as(mem_gib) if mem_gib else None)
        return p.stdout, p.stderr, p.returncode
    except subprocess.TimeoutExpired as e:
        return (e.stdout or b"").decode("utf-8", "replace") if isinstance(e.stdout, bytes) else (e.stdout or ""), "", "timeout"


def go_run_reference(ctx, srcdir, out, timeout=600):
    """Build the same program with the reference Go toolchain (spec validation)."""
    return run(["go", "build", "-o", out, "."], cwd=srcdir, env=go_env(), timeout=timeout)
