import LlgoVerif.Util
import LlgoVerif.Model.Utf8
import LlgoVerif.Model.Shell
/-! Line-protocol driver for C17. One request per line, one answer per line.
    `parse H` | `split H` | `tags H,H,…` | `expand T D K=V,K=V,…`   (H = hex of UTF-8 bytes, `-` = empty) -/
open LlgoVerif LlgoVerif.Util

def bytesToChars (bs : List UInt8) : List Char :=
  (Utf8.toRunes (bs.map (·.toNat))).map Char.ofNat

def charsToHex (cs : List Char) : String :=
  hex ((Utf8.fromRunes (cs.map (·.toNat))).map UInt8.ofNat)

def hexList (ls : List (List Char)) : String :=
  if ls.isEmpty then "." else " ".intercalate (ls.map charsToHex)

def unhexChars (h : String) : Option (List Char) := (unhex h).map bytesToChars

def handle (line : String) : String :=
  match fields line with
  | ["parse", h] =>
    match unhexChars h with
    | some cs => match Shell.parse cs with
      | .ok args => "ok " ++ hexList args
      | .error _ => "err"
    | none => "bad-op"
  | ["split", h] =>
    match unhex h with
    | some bs =>
      let out := Shell.splitFlags (bs.map (·.toNat))
      "ok " ++ (if out.isEmpty then "." else " ".intercalate (out.map fun f => hex (f.map UInt8.ofNat)))
    | none => "bad-op"
  | ["tags", hs] =>
    match (hs.splitOn ",").mapM unhexChars with
    | some fl => "ok " ++ hexList (Shell.parseBuildTags fl)
    | none => "bad-op"
  | ["expand", t, d, kvs] =>
    let parseKV (s : String) : Option (List Char × List Char) :=
      match s.splitOn "=" with
      | [k, v] => do pure ((← unhexChars k), (← unhexChars v))
      | _ => none
    let kvl := if kvs = "." then some [] else (kvs.splitOn ",").mapM parseKV
    match unhexChars t, unhexChars d, kvl with
    | some t, some d, some kvl => "ok " ++ charsToHex (Shell.expandTemplate t kvl d)
    | _, _, _ => "bad-op"
  | _ => "bad-op"

def main : IO Unit := lineLoop handle
