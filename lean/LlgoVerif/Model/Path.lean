/-!
# Lexical path functions of Go's `path/filepath` (Unix), as used by `internal/crosscompile/fetch.go`

A path is a list of characters, **one `Char` per byte** of the Go string (the driver maps byte `b` to
`Char.ofNat b`, so arbitrary byte strings — valid UTF-8 or not — are covered; only `'/'` and `'.'` matter).

`clean` is Go's `filepath.Clean` (go1.24 `internal/filepathlite.Clean`, Unix: no volume name). The Go code
scans the bytes once with a write index into a lazily allocated buffer; the loop body looks at one *path
element* at a time (`/`-separated) and has four cases: empty element, `.`, `..`, anything else.  The model
splits at every `/` exactly like `strings.Split` and folds the same four cases over the elements, with the
output buffer represented as a stack of elements (top first):

  Go                                              | model (`cleanStep`)
  ------------------------------------------------+----------------------------------------------
  `case os.IsPathSeparator(path[r])`  (empty)     | `c = []` → stack unchanged
  `case path[r]=='.' && (r+1==n || sep)`          | `c = "."` → stack unchanged
  `case ".." …: switch { case out.w > dotdot:`    | `c = ".."`: top exists and is not `..` → pop
  `   case !rooted:` append `..`, `dotdot = out.w`|   otherwise, not rooted → push `..`
  `   }` (rooted, nothing to pop: dropped)        |   otherwise (rooted) → unchanged
  `default:` append separator if needed + element | push `c`

`out.w > dotdot` holds exactly when the buffer holds an element after the leading run of `..` (not rooted) /
after the leading `/` (rooted), i.e. when the stack is non-empty and its top is not `..` (an ordinary element is
never `..`, and a rooted stack never contains `..`).  The transcription is validated on every run against the
real `filepath.Clean/Join/Dir` (protocol lines `clean`, `join`, `dir`).
-/
namespace LlgoVerif.Path

abbrev Str := List Char
abbrev Comp := List Char

def dot : Comp := ['.']
def dotdot : Comp := ['.', '.']

/-- `strings.Split(s, "/")`: always at least one element -/
def split : Str → List Comp
  | [] => [[]]
  | c :: cs =>
    if c = '/' then [] :: split cs
    else match split cs with
      | h :: t => (c :: h) :: t
      | [] => [[c]]

/-- `strings.Join(elems, "/")` -/
def joinSlash : List Comp → Str
  | [] => []
  | [c] => c
  | c :: cs => c ++ '/' :: joinSlash cs

/-- one iteration of the loop of `filepath.Clean`; `st` is the output so far, last element first -/
def cleanStep (rooted : Bool) (st : List Comp) (c : Comp) : List Comp :=
  if c = [] then st
  else if c = dot then st
  else if c = dotdot then
    match st with
    | top :: rest => if top = dotdot then (if rooted then st else c :: st) else rest
    | [] => if rooted then st else [c]
  else c :: st

def cleanComps (rooted : Bool) (cs : List Comp) : List Comp :=
  (cs.foldl (cleanStep rooted) []).reverse

/-- `filepath.Clean` -/
def clean (p : Str) : Str :=
  match p with
  | [] => ['.']
  | c :: _ =>
    if c = '/' then '/' :: joinSlash (cleanComps true (split p))
    else
      let cs := cleanComps false (split p)
      if cs = [] then ['.'] else joinSlash cs

/-- `filepath.Join(a, b)` (two elements): the first non-empty element onwards, joined by `/`, cleaned -/
def join (a b : Str) : Str :=
  if a ≠ [] then clean (a ++ '/' :: b)
  else if b ≠ [] then clean b
  else []

/-- the path up to and including its last `/` (`path[:i+1]` in `filepath.Dir`) -/
def uptoLastSlash (p : Str) : Str := (p.reverse.dropWhile (· ≠ '/')).reverse

/-- `filepath.Dir` -/
def dirOf (p : Str) : Str := clean (uptoLastSlash p)

/-- `strings.HasPrefix(s, pre)` -/
def hasPrefix (s pre : Str) : Bool := pre.isPrefixOf s

/-- the non-empty elements of a path: the names walked from `/` (absolute path) to reach it -/
def comps (p : Str) : List Comp := (split p).filter (· ≠ [])

/-- the destination-prefix test of `extractTarGz`:
    `strings.HasPrefix(target, filepath.Clean(dest)+string(os.PathSeparator))`;
    with `acceptRoot` (the repaired guard) `target == filepath.Clean(dest)` passes as well -/
def guardOK (acceptRoot : Bool) (dest target : Str) : Bool :=
  (acceptRoot && target == clean dest) || hasPrefix target (clean dest ++ ['/'])

end LlgoVerif.Path
