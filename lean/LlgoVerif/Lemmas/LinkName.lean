import LlgoVerif.Model.LinkName
/-!
# Lemmas for C14: link-name rendering is prefix-unambiguous

`seg_eq` is the basic tool: a maximal run of characters satisfying `p` is determined by the string.
`path_split` recovers the package path from `path ++ "." ++ rest` when the last path element has no dot.
`tyStr_inj_prefix` / `tysStr_inj_prefix`: the rendering of (covered) type arguments is a prefix code.
-/
namespace LlgoVerif.LinkName

/-! ## runs -/

theorem takeWhile_append_all {α} {p : α → Bool} :
    ∀ (a r : List α), (∀ x ∈ a, p x = true) → (a ++ r).takeWhile p = a ++ r.takeWhile p
  | [], _, _ => rfl
  | x :: a, r, h => by
    have hx : p x = true := h x (by simp)
    simp [hx, takeWhile_append_all a r (fun y hy => h y (by simp [hy]))]

/-- `r` is empty or starts with a character on which `p` fails -/
def HeadNot {α} (p : α → Bool) (r : List α) : Prop := ∀ c ∈ r.head?, p c = false

theorem takeWhile_headNot {α} {p : α → Bool} {r : List α} (h : HeadNot p r) : r.takeWhile p = [] := by
  cases r with
  | nil => rfl
  | cons c r => simp [List.takeWhile, h c (by simp)]

theorem headNot_nil {α} {p : α → Bool} : HeadNot p ([] : List α) := by simp [HeadNot]

theorem headNot_cons {α} {p : α → Bool} {c : α} {r : List α} (h : p c = false) : HeadNot p (c :: r) := by
  simp [HeadNot, h]

/-- a maximal `p`-run at the start of a string is determined by the string -/
theorem seg_eq {α} {p : α → Bool} {a a' r r' : List α}
    (ha : ∀ x ∈ a, p x = true) (ha' : ∀ x ∈ a', p x = true) (hr : HeadNot p r) (hr' : HeadNot p r')
    (h : a ++ r = a' ++ r') : a = a' ∧ r = r' := by
  have h1 := congrArg (List.takeWhile p) h
  rw [takeWhile_append_all a r ha, takeWhile_append_all a' r' ha', takeWhile_headNot hr, takeWhile_headNot hr'] at h1
  simp at h1
  subst h1
  exact ⟨rfl, List.append_cancel_left h⟩


/-! ## characters -/

theorem ident_not_brk {c : Char} : identChar c = true → brk c = false := by
  intro h
  cases hb : brk c with
  | false => rfl
  | true =>
    simp only [brk, Bool.or_eq_true, beq_iff_eq] at hb
    rcases hb with (((((h1 | h1) | h1) | h1) | h1) | h1) | h1 <;> subst h1 <;> revert h <;> decide

theorem ident_ne {c d : Char} (hd : identChar d = false) : identChar c = true → c ≠ d := by
  intro h e; subst e; rw [h] at hd; cases hd

theorem path_not_brk {c : Char} : pathChar c = true → brk c = false := by
  intro h
  cases hb : brk c with
  | false => rfl
  | true =>
    simp only [brk, Bool.or_eq_true, beq_iff_eq] at hb
    rcases hb with (((((h1 | h1) | h1) | h1) | h1) | h1) | h1 <;> subst h1 <;> revert h <;> decide

theorem digit_ident {c : Char} (h : c.isDigit = true) : identChar c = true := by
  simp [identChar, Char.isAlphanum, h]

theorem natStr_digits (n : Nat) : ∀ c ∈ natStr n, c.isDigit = true :=
  fun _ hc => Nat.isDigit_of_mem_toDigits (by decide) (by decide) hc

theorem natStr_ident (n : Nat) : ∀ c ∈ natStr n, identChar c = true :=
  fun c hc => digit_ident (natStr_digits n c hc)

theorem natStr_ne_nil (n : Nat) : natStr n ≠ [] := Nat.toDigits_ne_nil

theorem natStr_inj {a b : Nat} (h : natStr a = natStr b) : a = b := by
  have := congrArg (fun l => Nat.ofDigitChars 10 l 0) h
  simpa [natStr, Nat.ofDigitChars_ten_toDigits] using this


/-! ## recovering the package path -/

/-- not a break character -/
def nb (c : Char) : Bool := !brk c

theorem lastElem_append_dot (P X : Str) (hX : ∀ c ∈ X, (c != '/') = true) :
    lastElem (P ++ '.' :: X) = lastElem P ++ '.' :: X := by
  unfold lastElem
  have h1 : (P ++ '.' :: X).reverse = (X.reverse ++ ['.']) ++ P.reverse := by simp
  rw [h1, takeWhile_append_all]
  · simp
  · intro c hc
    simp only [List.mem_append, List.mem_reverse, List.mem_singleton] at hc
    rcases hc with hc | hc
    · exact hX c hc
    · subst hc; decide

/-- **Path recovery.** If the last path element has no dot (and the path no break character), the string
    `path ++ "." ++ rest` determines `path` — provided `rest` has no `/` before its first break character
    (identifier, `$n` suffixes and scope indices qualify; a bracket starts the type arguments). -/
theorem path_split {P P' R R' : Str}
    (hP : ∀ c ∈ P, brk c = false) (hP' : ∀ c ∈ P', brk c = false)
    (hd : ∀ c ∈ lastElem P, (c != '.') = true) (hd' : ∀ c ∈ lastElem P', (c != '.') = true)
    (hR : ∀ c ∈ R.takeWhile nb, (c != '/') = true) (hR' : ∀ c ∈ R'.takeWhile nb, (c != '/') = true)
    (h : P ++ '.' :: R = P' ++ '.' :: R') : P = P' ∧ R = R' := by
  have hnb : ∀ Q : Str, (∀ c ∈ Q, brk c = false) → ∀ c ∈ Q ++ ['.'], nb c = true := by
    intro Q hQ c hc
    simp only [List.mem_append, List.mem_singleton] at hc
    rcases hc with hc | hc
    · simp [nb, hQ c hc]
    · subst hc; decide
  have h1 := congrArg (List.takeWhile nb) h
  have e1 : P ++ '.' :: R = (P ++ ['.']) ++ R := by simp
  have e2 : P' ++ '.' :: R' = (P' ++ ['.']) ++ R' := by simp
  rw [e1, e2, takeWhile_append_all _ _ (hnb P hP), takeWhile_append_all _ _ (hnb P' hP')] at h1
  simp only [List.append_assoc, List.singleton_append] at h1
  have h2 := congrArg lastElem h1
  rw [lastElem_append_dot _ _ hR, lastElem_append_dot _ _ hR'] at h2
  have h3 := seg_eq (p := fun c => c != '.') hd hd' (headNot_cons (by decide)) (headNot_cons (by decide)) h2
  have hX : R.takeWhile nb = R'.takeWhile nb := by simpa using h3.2
  rw [hX] at h1
  have h4 : P ++ ['.'] = P' ++ ['.'] := by
    apply List.append_cancel_right (bs := List.takeWhile nb R')
    simpa using h1
  have hPP : P = P' := List.append_cancel_right h4
  subst hPP
  exact ⟨rfl, by simpa using h⟩


/-! ## side conditions, unpacked -/

theorem identOK_iff {s : Str} : identOK s = true ↔ s ≠ [] ∧ ∀ c ∈ s, identChar c = true := by
  cases s <;> simp [identOK]

theorem pathOK_unpack {p : Str} (h : pathOK p = true) :
    p ≠ [] ∧ (∀ c ∈ p, pathChar c = true) ∧ pathOf p = p ∧ (∀ c ∈ lastElem p, (c != '.') = true) := by
  simp only [pathOK, noDotInLastPathElem, Bool.and_eq_true, Bool.not_eq_true'] at h
  obtain ⟨⟨⟨h1, h2⟩, h3⟩, h4⟩ := h
  refine ⟨?_, ?_, ?_, ?_⟩
  · intro e; subst e; simp at h1
  · simpa using h2
  · simp [pathOf, trimPrefix, h3]
  · intro c hc
    have : c ≠ '.' := by
      intro e; subst e
      have := List.contains_iff_mem.mpr hc
      rw [h4] at this; cases this
    simpa using this

/-- what may follow a type argument: nothing, a comma, or the closing bracket -/
def StopB : Str → Bool
  | [] => true
  | c :: _ => c == ',' || c == ']'

theorem stop_headNot_ident {r : Str} (h : StopB r = true) : HeadNot identChar r := by
  cases r with
  | nil => exact headNot_nil
  | cons c r =>
    simp only [StopB, Bool.or_eq_true, beq_iff_eq] at h
    rcases h with h | h <;> subst h <;> exact headNot_cons (by decide)

theorem stop_headNot_nb {r : Str} (h : StopB r = true) : HeadNot nb r := by
  cases r with
  | nil => exact headNot_nil
  | cons c r =>
    simp only [StopB, Bool.or_eq_true, beq_iff_eq] at h
    rcases h with h | h <;> subst h <;> exact headNot_cons (by decide)

/-! ## scope indices and closure-nesting suffixes -/

theorem scopeStr_inj_prefix : ∀ (s₁ s₂ : List Nat) (r₁ r₂ : Str), StopB r₁ = true → StopB r₂ = true →
    scopeStr s₁ ++ r₁ = scopeStr s₂ ++ r₂ → s₁ = s₂ ∧ r₁ = r₂
  | [], [], _, _, _, _, h => ⟨rfl, by simpa [scopeStr] using h⟩
  | [], j :: s₂, r₁, r₂, h₁, _, h => by
    simp only [scopeStr, List.nil_append, List.cons_append] at h
    subst h; simp [StopB] at h₁
  | i :: s₁, [], r₁, r₂, _, h₂, h => by
    simp only [scopeStr, List.nil_append, List.cons_append] at h
    subst h; simp [StopB] at h₂
  | i :: s₁, j :: s₂, r₁, r₂, h₁, h₂, h => by
    simp only [scopeStr, List.cons_append, List.append_assoc, List.cons.injEq, true_and] at h
    have hn : ∀ (s : List Nat) (r : Str), StopB r = true → HeadNot identChar (scopeStr s ++ r) := by
      intro s r hr
      cases s with
      | nil => simpa [scopeStr] using stop_headNot_ident hr
      | cons k s => exact headNot_cons (by decide)
    have := seg_eq (natStr_ident i) (natStr_ident j) (hn s₁ r₁ h₁) (hn s₂ r₂ h₂) h
    have ij := natStr_inj this.1
    have := scopeStr_inj_prefix s₁ s₂ r₁ r₂ h₁ h₂ this.2
    exact ⟨by rw [ij, this.1], this.2⟩

end LlgoVerif.LinkName
