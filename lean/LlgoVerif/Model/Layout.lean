/-!
# C08 — type size, alignment and field offsets: the three computations of llgo

Executable model (core Lean only) of the three places where llgo computes the layout of a Go type:

* (a) `goSizes`    — compile-time folding of `unsafe.Sizeof/Alignof/Offsetof`:
                     `go/types` sizes (`gcSizes` for `types.SizesFor("gc", arch)`, `StdSizes` for the wasm override
                     of `internal/build/build.go`) wrapped by `ssa/type.go` `goProgram.Sizeof/Alignof/Offsetsof`
                     (`extraSize`: one more word per function value);
* (b) `llvmLayout` — what generated code uses: LLVM's `StructLayout`/`DataLayout` rule applied to the LLVM type
                     `ssa/type.go` `toType/toLLVMStruct` builds for the *raw* type (`ssa/type_cvt.go`: a Go function
                     value is the closure struct `{$f, $data}`);
* (c) `abiTable`   — run-time type descriptors: `ssa/abi/type.go` `Builder.Size/Align/FieldAlign` on the raw type,
                     field offsets as `ssa/abitype.go` `abiStructFields` takes them (`prog.OffsetOf`), map
                     key/elem/bucket sizes as `abiExtendedFields` takes them.

The model mirrors the code including its disagreements; `Props/C08.lean` states when the three agree.
-/
namespace LlgoVerif.Layout

/-- `types.BasicKind` (typed kinds only). -/
inductive Basic
  | bool | int8 | int16 | int32 | int64 | uint8 | uint16 | uint32 | uint64
  | int | uint | uintptr | float32 | float64 | complex64 | complex128 | string | unsafePointer
  deriving DecidableEq, Repr

def Basic.all : List Basic :=
  [.bool, .int8, .int16, .int32, .int64, .uint8, .uint16, .uint32, .uint64,
   .int, .uint, .uintptr, .float32, .float64, .complex64, .complex128, .string, .unsafePointer]

mutual
/-- Go types as far as layout is concerned.  `func` is a `*types.Signature` (in a Go-background type: a function
    value; in a raw type: a C function pointer); `closure` is the raw struct `{$f Signature; $data unsafe.Pointer}`
    that `ssa/type_cvt.go` `cvtClosure` substitutes for every function value. -/
inductive GoType
  | basic (b : Basic)
  | pointer (e : GoType)
  | slice (e : GoType)
  | map (k v : GoType)
  | chan (e : GoType)
  | func
  | closure
  | iface (empty : Bool)
  | array (n : Nat) (e : GoType)
  | struct (fs : Fields)
  | named (t : GoType)
  /-- `*types.Alias` (`type F = func()`): transparent everywhere except in `goProgram.extraSize`, which has no case
      for it and answers 0 -/
  | alias (t : GoType)
inductive Fields
  | nil
  | cons (t : GoType) (fs : Fields)
end

/-- What the three computations depend on. -/
structure Target where
  /-- LLVM data layout pointer size = `Program.PointerSize()` = `abi.Builder.PtrSize` -/
  ptrSize : Nat
  /-- `true`: base sizes are `types.SizesFor("gc", arch)` (`*gcSizes`); `false`: `*types.StdSizes` (wasm override) -/
  gcStyle : Bool
  wordSize : Nat
  maxAlign : Nat
  /-- ABI alignments of the LLVM data layout -/
  llI8 : Nat
  llI16 : Nat
  llI32 : Nat
  llI64 : Nat
  llF32 : Nat
  llF64 : Nat
  llPtr : Nat
  deriving DecidableEq, Repr

/-- x86_64: `e-m:e-…-i64:64-f80:128-n8:16:32:64-S128`, gc sizes {8,8} -/
def amd64 : Target := ⟨8, true, 8, 8, 1, 2, 4, 8, 4, 8, 8⟩
/-- aarch64: `e-m:e-i8:8:32-i16:16:32-i64:64-i128:128-n32:64-S128`, gc sizes {8,8} -/
def arm64 : Target := ⟨8, true, 8, 8, 1, 2, 4, 8, 4, 8, 8⟩
/-- i386: `e-m:e-p:32:32-…-f64:32:64-f80:32-n8:16:32-S128` (i64 keeps LLVM's default 32-bit ABI alignment), gc sizes {4,4} -/
def i386 : Target := ⟨4, true, 4, 4, 1, 2, 4, 4, 4, 4, 4⟩
/-- armv7 gnueabihf: `e-m:e-p:32:32-Fi8-i64:64-v128:64:128-a:0:32-n32-S64`, gc sizes {4,4} -/
def arm : Target := ⟨4, true, 4, 4, 1, 2, 4, 8, 4, 8, 4⟩
/-- wasm32: `e-m:e-p:32:32-p10:8:8-p20:8:8-i64:64-n32:64-S128-ni:1:10:20`; build.go: `StdSizes{WordSize: 4, MaxAlign: 4}` -/
def wasm : Target := ⟨4, false, 4, 4, 1, 2, 4, 8, 4, 8, 4⟩

/-- Go's `align(x, a)` (`(x + a - 1) &^ (a - 1)`, `a` a power of two) and LLVM's `alignTo`. -/
def alignUp (x a : Nat) : Nat := (x + a - 1) / a * a

/-! ## Struct layout loops on lists of (size, alignment) pairs

`go/types` `Offsetsof` and LLVM `StructLayout` run the same loop; they differ in the sizes and alignments of the
elements, in the treatment of the tail and in the final rounding. -/

/-- field offsets: `offs = align(offs, a); offsets[i] = offs; offs += size` -/
def offsLoop : List (Nat × Nat) → Nat → List Nat
  | [], _ => []
  | (z, a) :: r, o => alignUp o a :: offsLoop r (alignUp o a + z)

/-- offset after the last element -/
def endOff : List (Nat × Nat) → Nat → Nat
  | [], o => o
  | (z, a) :: r, o => endOff r (alignUp o a + z)

/-- (offset, size) of the last element; `(o, 0)` for the empty list -/
def lastOS : List (Nat × Nat) → Nat → Nat × Nat
  | [], o => (o, 0)
  | [(z, a)], o => (alignUp o a, z)
  | (z, a) :: r, o => lastOS r (alignUp o a + z)

/-- largest alignment, at least 1 -/
def maxAlignOf : List (Nat × Nat) → Nat
  | [] => 1
  | (_, a) :: r => if a > maxAlignOf r then a else maxAlignOf r

/-! ## (a) compile-time sizes -/

/-- `basicSizes[k]`, `String` = 2 words, everything else falls to the catch-all `WordSize` -/
def basicSize (tg : Target) : Basic → Nat
  | .bool | .int8 | .uint8 => 1
  | .int16 | .uint16 => 2
  | .int32 | .uint32 | .float32 => 4
  | .int64 | .uint64 | .float64 | .complex64 => 8
  | .complex128 => 16
  | .string => tg.wordSize * 2
  | .int | .uint | .uintptr | .unsafePointer => tg.wordSize

def Basic.isComplex : Basic → Bool
  | .complex64 | .complex128 => true
  | _ => false

/-- tail of `Alignof`: `a := Sizeof(T); if a < 1 {1}; if complex {a /= 2}; if a > MaxAlign {MaxAlign}` -/
def clampAlign (tg : Target) (size : Nat) (cplx : Bool) : Nat :=
  if size < 1 then 1 else
  let a := if cplx then size / 2 else size
  if a > tg.maxAlign then tg.maxAlign else a

def basicStdAlign (tg : Target) (b : Basic) : Nat :=
  if b = .string then tg.wordSize else clampAlign tg (basicSize tg b) b.isComplex

/-- `Sizeof` of an array given element size/alignment: gc `esize * n`; StdSizes `align(esize, a)*(n-1) + esize` -/
def stdArraySize (tg : Target) (n z a : Nat) : Nat :=
  if n = 0 ∨ z = 0 then 0
  else if tg.gcStyle then z * n
  else alignUp z a * (n - 1) + z

/-- `Sizeof` of a struct given its fields' (size, align): gc pads a zero-size last field of a non-zero-size struct
    and rounds up to the alignment; StdSizes returns `offs + size` of the last field. -/
def stdStructSize (tg : Target) (l : List (Nat × Nat)) : Nat :=
  if l.isEmpty then 0 else
  let os := lastOS l 0
  if tg.gcStyle then
    alignUp (os.1 + (if os.1 > 0 ∧ os.2 = 0 then 1 else os.2)) (maxAlignOf l)
  else os.1 + os.2

mutual
/-- (`Sizeof`, `Alignof`) of the base `types.Sizes` (`*gcSizes` or `*StdSizes`) -/
def stdSA (tg : Target) : GoType → Nat × Nat
  | .basic b => (basicSize tg b, basicStdAlign tg b)
  | .pointer _ => (tg.wordSize, clampAlign tg tg.wordSize false)
  | .map _ _ => (tg.wordSize, clampAlign tg tg.wordSize false)
  | .chan _ => (tg.wordSize, clampAlign tg tg.wordSize false)
  | .func => (tg.wordSize, clampAlign tg tg.wordSize false)
  | .slice _ => (tg.wordSize * 3, tg.wordSize)
  | .iface _ => (tg.wordSize * 2, tg.wordSize)
  | .closure =>
      let l := [(tg.wordSize, clampAlign tg tg.wordSize false), (tg.wordSize, clampAlign tg tg.wordSize false)]
      (stdStructSize tg l, maxAlignOf l)
  | .array n e => (stdArraySize tg n (stdSA tg e).1 (stdSA tg e).2, (stdSA tg e).2)
  | .struct fs => (stdStructSize tg (stdSAs tg fs), maxAlignOf (stdSAs tg fs))
  | .named t => stdSA tg t
  | .alias t => stdSA tg t
def stdSAs (tg : Target) : Fields → List (Nat × Nat)
  | .nil => []
  | .cons t fs => stdSA tg t :: stdSAs tg fs
end

mutual
/-- `goProgram.extraSize`: one word per function value (not for the closure struct) -/
def extra (tg : Target) : GoType → Nat
  | .func => tg.ptrSize
  | .struct fs => extras tg fs
  | .array n e => extra tg e * n
  | .named t => extra tg t
  | _ => 0
def extras (tg : Target) : Fields → Nat
  | .nil => 0
  | .cons t fs => extra tg t + extras tg fs
end

/-- `T.Underlying()` -/
def under : GoType → GoType
  | .named t => under t
  | .alias t => under t
  | t => t

/-- `goProgram.Sizeof` -/
def goSizeof (tg : Target) (t : GoType) : Nat :=
  let base := (stdSA tg t).1 + extra tg t
  match under t with
  | .struct _ | .array _ _ | .closure => alignUp base (stdSA tg t).2
  | _ => base

/-- `goProgram.Alignof` -/
def goAlignof (tg : Target) (t : GoType) : Nat := (stdSA tg t).2

/-- running sum of `extraSize` over the preceding fields -/
def cumExtras (tg : Target) : Fields → Nat → List Nat
  | .nil, _ => []
  | .cons t fs, e => e :: cumExtras tg fs (e + extra tg t)

/-- `goProgram.Offsetsof` (`[0, ptrSize]` for the closure struct) of the struct underlying `t`; `[]` if not a struct -/
def goOffsets (tg : Target) (t : GoType) : List Nat :=
  match under t with
  | .closure => [0, tg.ptrSize]
  | .struct fs => List.zipWith (· + ·) (offsLoop (stdSAs tg fs) 0) (cumExtras tg fs 0)
  | _ => []

structure Layout where
  size : Nat
  align : Nat
  offsets : List Nat
  deriving DecidableEq, Repr

/-- (a) -/
def goSizes (tg : Target) (t : GoType) : Layout := ⟨goSizeof tg t, goAlignof tg t, goOffsets tg t⟩

/-! ## raw types (`ssa/type_cvt.go` `cvtType`) -/

mutual
def toRaw : GoType → GoType
  | .basic b => .basic b
  | .pointer e => .pointer (toRaw e)
  | .slice e => .slice (toRaw e)
  | .map k v => .map (toRaw k) (toRaw v)
  | .chan e => .chan (toRaw e)
  | .func => .closure
  | .closure => .closure
  | .iface b => .iface b
  | .array n e => .array n (toRaw e)
  | .struct fs => .struct (toRaws fs)
  | .named t => .named (toRaw t)
  | .alias t => toRaw t                   -- `cvtType(types.Unalias(t))`
def toRaws : Fields → Fields
  | .nil => .nil
  | .cons t fs => .cons (toRaw t) (toRaws fs)
end

/-! ## (b) LLVM layout of the type `toType` builds -/

/-- (alloc size, ABI alignment) of an LLVM scalar with the given store size -/
def llScalar (store a : Nat) : Nat × Nat := (alignUp store a, a)

/-- `StructLayout`: (alloc size, ABI alignment) of a literal struct with the given elements -/
def llStruct (l : List (Nat × Nat)) : Nat × Nat := (alignUp (endOff l 0) (maxAlignOf l), maxAlignOf l)

def llPtrSA (tg : Target) : Nat × Nat := llScalar tg.ptrSize tg.llPtr

/-- `tyInt`: `i32` if the pointer size is ≤ 4, else `i64` -/
def llIntSA (tg : Target) : Nat × Nat := if tg.ptrSize ≤ 4 then llScalar 4 tg.llI32 else llScalar 8 tg.llI64

def llBasic (tg : Target) : Basic → Nat × Nat
  | .bool => llScalar 1 tg.llI8          -- i1
  | .int8 | .uint8 => llScalar 1 tg.llI8
  | .int16 | .uint16 => llScalar 2 tg.llI16
  | .int32 | .uint32 => llScalar 4 tg.llI32
  | .int64 | .uint64 => llScalar 8 tg.llI64
  | .int | .uint | .uintptr => llIntSA tg
  | .float32 => llScalar 4 tg.llF32
  | .float64 => llScalar 8 tg.llF64
  | .complex64 => llStruct [llScalar 4 tg.llF32, llScalar 4 tg.llF32]
  | .complex128 => llStruct [llScalar 8 tg.llF64, llScalar 8 tg.llF64]
  | .string => llStruct [llPtrSA tg, llIntSA tg]                -- runtime.String {data, len}
  | .unsafePointer => llPtrSA tg

mutual
/-- (`TypeAllocSize`, `ABITypeAlignment`) of the LLVM type built for a raw type -/
def llSA (tg : Target) : GoType → Nat × Nat
  | .basic b => llBasic tg b
  | .pointer _ => llPtrSA tg
  | .map _ _ => llPtrSA tg
  | .chan _ => llPtrSA tg
  | .func => llPtrSA tg                                        -- C function pointer
  | .slice _ => llStruct [llPtrSA tg, llIntSA tg, llIntSA tg]  -- runtime.Slice {data, len, cap}
  | .iface _ => llStruct [llPtrSA tg, llPtrSA tg]              -- eface / iface
  | .closure => llStruct [llPtrSA tg, llPtrSA tg]
  | .array n e => (n * (llSA tg e).1, (llSA tg e).2)
  | .struct fs => llStruct (llSAs tg fs)
  | .named t => llSA tg t
  | .alias t => llSA tg t
def llSAs (tg : Target) : Fields → List (Nat × Nat)
  | .nil => []
  | .cons t fs => llSA tg t :: llSAs tg fs
end

/-- `prog.OffsetOf(typ, i)` for all fields of the struct underlying the raw type `r` -/
def llOffsets (tg : Target) (r : GoType) : List Nat :=
  match under r with
  | .closure => offsLoop [llPtrSA tg, llPtrSA tg] 0
  | .struct fs => offsLoop (llSAs tg fs) 0
  | _ => []

/-- is the Go type a struct (a function value is not, although its raw type is) -/
def isStruct (t : GoType) : Bool :=
  match under t with
  | .struct _ | .closure => true
  | _ => false

/-- (b): `prog.SizeOf/OffsetOf(prog.Type(t, InGo))` -/
def llvmLayout (tg : Target) (t : GoType) : Layout :=
  ⟨(llSA tg (toRaw t)).1, (llSA tg (toRaw t)).2, if isStruct t then llOffsets tg (toRaw t) else []⟩

/-! ## (c) descriptors (`ssa/abi/type.go` on the raw type) -/

def abiBasicSize (tg : Target) : Basic → Nat
  | .bool | .int8 | .uint8 => 1
  | .int16 | .uint16 => 2
  | .int32 | .uint32 | .float32 => 4
  | .int64 | .uint64 | .float64 | .complex64 => 8
  | .complex128 => 16
  | .int | .uint | .uintptr | .unsafePointer => tg.ptrSize
  | .string => 2 * tg.ptrSize

def abiBasicAlign (tg : Target) : Basic → Nat
  | .bool | .int8 | .uint8 => 1
  | .int16 | .uint16 => 2
  | .int32 | .uint32 | .float32 | .complex64 => 4
  | .int64 | .uint64 | .float64 | .complex128 => 8
  | .int | .uint | .uintptr | .unsafePointer | .string => tg.ptrSize

/-- `Builder.Size` (struct: `b.Sizes.Sizeof(t)` where `b.Sizes` is the `goProgram` wrapper); `fw` = the number of
    words recorded for a `*types.Signature` (1 in the code as it is, 2 with `fixes/C08-2.diff`) -/
def abiSizeG (tg : Target) (fw : Nat) : GoType → Nat
  | .basic b => abiBasicSize tg b
  | .pointer _ => tg.ptrSize
  | .map _ _ => tg.ptrSize
  | .chan _ => tg.ptrSize
  | .func => fw * tg.ptrSize
  | .slice _ => 3 * tg.ptrSize
  | .iface _ => 2 * tg.ptrSize
  | .closure => goSizeof tg .closure
  | .array n e => n * abiSizeG tg fw e
  | .struct fs => goSizeof tg (.struct fs)
  | .named t => abiSizeG tg fw t
  | .alias t => abiSizeG tg fw t

/-- the code as it is -/
def abiSize (tg : Target) (t : GoType) : Nat := abiSizeG tg 1 t

mutual
/-- `Builder.Align` = `Builder.FieldAlign`, for a given table `ba` of basic-kind alignments -/
def abiAlignG (tg : Target) (ba : Basic → Nat) : GoType → Nat
  | .basic b => ba b
  | .pointer _ => tg.ptrSize
  | .map _ _ => tg.ptrSize
  | .chan _ => tg.ptrSize
  | .func => tg.ptrSize
  | .slice _ => tg.ptrSize
  | .iface _ => tg.ptrSize
  | .closure => if tg.ptrSize > 1 then tg.ptrSize else 1   -- struct {Signature; UnsafePointer}
  | .array _ e => abiAlignG tg ba e
  | .struct fs => abiAlignsG tg ba fs
  | .named t => abiAlignG tg ba t
  | .alias t => abiAlignG tg ba t
def abiAlignsG (tg : Target) (ba : Basic → Nat) : Fields → Nat
  | .nil => 1
  | .cons t fs => if abiAlignG tg ba t > abiAlignsG tg ba fs then abiAlignG tg ba t else abiAlignsG tg ba fs
end

/-- the code as it is: the hand-written table -/
def abiAlign (tg : Target) (t : GoType) : Nat := abiAlignG tg (abiBasicAlign tg) t

def abiFieldAlign (tg : Target) (t : GoType) : Nat := abiAlign tg t

/-- the offsets a struct descriptor records: `prog.OffsetOf(prog.rawType(t), i)` (`abiStructFields`) -/
def abiOffsets (tg : Target) (t : GoType) : List Nat := if isStruct t then llOffsets tg (toRaw t) else []

/-- (c): descriptor of the raw type -/
def abiTable (tg : Target) (t : GoType) : Layout :=
  ⟨abiSize tg (toRaw t), abiAlign tg (toRaw t), abiOffsets tg t⟩

/-- the table with `fixes/C08-1.diff` applied: 8-byte kinds take the ABI alignment of `i64` / `double` from the data
    layout instead of the constant 8 -/
def abiBasicAlignFixed (tg : Target) : Basic → Nat
  | .int64 | .uint64 => tg.llI64
  | .float64 | .complex128 => tg.llF64
  | b => abiBasicAlign tg b

def abiTableFixed (tg : Target) (t : GoType) : Layout :=
  ⟨abiSize tg (toRaw t), abiAlignG tg (abiBasicAlignFixed tg) (toRaw t), abiOffsets tg t⟩

/-- `abi.PublicType`: the descriptor *referenced* for an element, key, field or parameter of closure type is the
    descriptor of the source function type -/
def publicType : GoType → GoType
  | .closure => .func
  | t => t

/-- `Size_` of the descriptor that map, slice, pointer, chan, array and struct descriptors reference for an element of
    Go type `t` (`b.abiType(abi.PublicType(elem))`): what `typedmemmove(t.Elem, …)`, `SliceClear` … copy or clear -/
def elemDescSize (tg : Target) (fw : Nat) (t : GoType) : Nat := abiSizeG tg fw (publicType (toRaw t))

/-! ### `Builder.PtrBytes` -/

def abiBasicPtrBytes (tg : Target) : Basic → Nat
  | .string | .unsafePointer => tg.ptrSize
  | _ => 0

/-- index of the last non-zero entry -/
def lastNonZero : List Nat → Option Nat
  | [] => none
  | x :: r =>
    match lastNonZero r with
    | some i => some (i + 1)
    | none => if x != 0 then some 0 else none

/-- the struct case of `PtrBytes`: `field` = last field with pointers, result `Offsetsof(fields)[field] + bytes`.
    In the code as it is, `bytes` is assigned in the loop condition (`if bytes = b.PtrBytes(f.Type()); bytes != 0`) and
    therefore holds the value of the LAST field, whatever it is; `fixed` keeps the value of `field`. -/
def structPtrBytes (fixed : Bool) (pbs offs : List Nat) : Nat :=
  match lastNonZero pbs with
  | none => 0
  | some i => offs.getD i 0 + (if fixed then pbs.getD i 0 else pbs.getLastD 0)

mutual
/-- `Builder.PtrBytes` on a raw type -/
def ptrBytesG (tg : Target) (fixed : Bool) : GoType → Nat
  | .basic b => abiBasicPtrBytes tg b
  | .pointer _ => tg.ptrSize
  | .slice _ => tg.ptrSize
  | .func => tg.ptrSize
  | .map _ _ => tg.ptrSize
  | .chan _ => tg.ptrSize
  | .iface _ => 2 * tg.ptrSize
  | .closure => structPtrBytes fixed [tg.ptrSize, tg.ptrSize] [0, tg.ptrSize]
  | .array n e =>
      if n ≠ 0 ∧ ptrBytesG tg fixed e ≠ 0 then n * abiSizeG tg 1 e - abiSizeG tg 1 e + ptrBytesG tg fixed e else 0
  | .struct fs => structPtrBytes fixed (ptrBytesFs tg fixed fs) (goOffsets tg (.struct fs))
  | .named t => ptrBytesG tg fixed t
  | .alias t => ptrBytesG tg fixed t
def ptrBytesFs (tg : Target) (fixed : Bool) : Fields → List Nat
  | .nil => []
  | .cons t fs => ptrBytesG tg fixed t :: ptrBytesFs tg fixed fs
end

/-- does a value of the (raw) type contain a pointer word -/
def hasPtrs : GoType → Bool
  | .basic b => b == .string || b == .unsafePointer
  | .pointer _ | .slice _ | .func | .map _ _ | .chan _ | .iface _ | .closure => true
  | .array n e => n != 0 && hasPtrs e
  | .struct fs => hasPtrsFs fs
  | .named t => hasPtrs t
  | .alias t => hasPtrs t
where hasPtrsFs : Fields → Bool
  | .nil => false
  | .cons t fs => hasPtrs t || hasPtrsFs fs

/-! ## map buckets (`ssa/abi/map.go` `MapBucketType`, `abiExtendedFields`) -/

/-- the bucket struct of `map[k]v` (raw `k`, `v`): `{topbits [8]uint8; keys [8]K; elems [8]V; overflow}` with keys/elems
    larger than 128 bytes stored indirectly -/
def mapBucket (tg : Target) (k v : GoType) : GoType :=
  let k' := if goSizeof tg k > 128 then .pointer k else k
  let v' := if goSizeof tg v > 128 then .pointer v else v
  -- `overflow` is `uintptr` when neither keys nor elements hold pointers (`HasPtrData`), else `unsafe.Pointer`
  let o : GoType := if hasPtrs k' || hasPtrs v' then .basic .unsafePointer else .basic .uintptr
  .struct (.cons (.array 8 (.basic .uint8)) (.cons (.array 8 k') (.cons (.array 8 v') (.cons o .nil))))

/-- a bucket slot holds the key/element itself, or a pointer when it is larger than `MAXKEYSIZE`/`MAXELEMSIZE` = 128 -/
def slotSize (tg : Target) (z : Nat) : Nat := if z > 128 then tg.ptrSize else z

/-- `KeySize`, `ValueSize`, `BucketSize` of the map descriptor (`abitype.go` `abiExtendedFields`) -/
def mapSizes (tg : Target) (k v : GoType) : Nat × Nat × Nat :=
  (slotSize tg (abiSize tg (toRaw k)), slotSize tg (abiSize tg (toRaw v)), abiSize tg (mapBucket tg (toRaw k) (toRaw v)))

/-- the two low bits of `Flags` (`MapTypeFlags`): 1 = indirect key, 2 = indirect element -/
def mapFlags (tg : Target) (k v : GoType) : Nat :=
  (if goSizeof tg (toRaw k) > 128 then 1 else 0) + (if goSizeof tg (toRaw v) > 128 then 2 else 0)

/-! ## where gc pads and LLVM does not -/

/-- gc's extra byte for a zero-size last field at a non-zero offset ("the last field of a non-zero-sized struct is
    not allowed to have size 0") changes the size exactly when that offset is a multiple of the struct's alignment -/
def tailOK (l : List (Nat × Nat)) : Bool :=
  !(decide ((lastOS l 0).1 > 0) && (lastOS l 0).2 == 0 && (lastOS l 0).1 % maxAlignOf l == 0)

mutual
/-- no struct inside `t` (as far as the layout of `t` depends on it) has a zero-size tail that gc pads -/
def padFree (tg : Target) : GoType → Bool
  | .array _ e => padFree tg e
  | .struct fs => padFrees tg fs && tailOK (stdSAs tg fs)
  | .named t => padFree tg t
  | .alias t => padFree tg t && extra tg t == 0      -- an alias must not hide a function value from `extraSize`
  | _ => true
def padFrees (tg : Target) : Fields → Bool
  | .nil => true
  | .cons t fs => padFree tg t && padFrees tg fs
end

/-! ## `unsafe.Offsetof` evaluated per instance of a generic function (`cl/instr.go` `offsetOfFieldChain`)

Inside a generic function go/types cannot fold `unsafe.Offsetof(x.a.b)`; llgo evaluates it when the instance is
compiled: it starts from the selected field's `FieldAddr`, adds the LLVM offsets of the parents that go/ssa inserted
for promotion through embedded fields, and stops at the first parent whose selector is written in the source. -/

/-- a parent `FieldAddr`: LLVM offset of that field in its struct, and whether its selector is written in the source -/
structure Step where
  off : Nat
  explicit : Bool
  deriving DecidableEq, Repr

/-- `offsetOfFieldChain`: `sel` = offset of the selected field, `ps` = its parents, innermost first -/
def chainOffset (sel : Nat) : List Step → Nat
  | [] => sel
  | p :: ps => if p.explicit then sel else chainOffset (sel + p.off) ps

/-- Go spec: `Offsetof(x.f)` is the offset of `f` relative to `x`, through the embedded fields `f` is promoted from -/
def specOffset (sel : Nat) (ps : List Step) : Nat :=
  sel + ((ps.takeWhile (fun p => !p.explicit)).map (·.off)).foldl (· + ·) 0

/-- i-th field type and its LLVM offset in the struct underlying `t` (as `offsetOfFieldAddr`: `prog.OffsetOf(prog.Type(t, InGo), i)`) -/
def fieldsNth : Fields → Nat → Option GoType
  | .nil, _ => none
  | .cons t _, 0 => some t
  | .cons _ fs, n + 1 => fieldsNth fs n

def fieldAt (tg : Target) (t : GoType) (i : Nat) : Option (GoType × Nat) :=
  match under t with
  | .struct fs =>
    match fieldsNth fs i, (llvmLayout tg t).offsets[i]? with
    | some ft, some o => some (ft, o)
    | _, _ => none
  | _ => none

/-- walk a selector path (field index, written-in-source) from the root struct; returns the steps outermost first -/
def walkPath (tg : Target) : GoType → List (Nat × Bool) → Option (List Step)
  | _, [] => some []
  | t, (i, e) :: r =>
    match fieldAt tg t i with
    | some (ft, o) => (walkPath tg ft r).map (fun l => ⟨o, e⟩ :: l)
    | none => none

/-- the per-instance value of `unsafe.Offsetof(root.path)` -/
def genericOffsetof (tg : Target) (root : GoType) (path : List (Nat × Bool)) : Option Nat :=
  match (walkPath tg root path).map List.reverse with
  | some (s :: ps) => some (chainOffset s.off ps)
  | _ => none

/-! ## decidable target conditions -/

/-- per basic kind the gc-style alignment equals the LLVM ABI alignment, the base sizes are gc's, a word is a pointer
    (4 or 8 bytes) and no alignment exceeds it (so the bulk `extraSize` correction preserves every alignment) -/
def wfTarget (tg : Target) : Bool :=
  tg.gcStyle && tg.wordSize == tg.ptrSize && (tg.ptrSize == 4 || tg.ptrSize == 8) && tg.maxAlign == tg.ptrSize
  && Basic.all.all (fun b => basicStdAlign tg b == (llBasic tg b).2)

/-- per basic kind the descriptor table's alignment equals the LLVM ABI alignment -/
def abiOK (tg : Target) : Bool := Basic.all.all (fun b => abiBasicAlign tg b == (llBasic tg b).2)

/-- the same for an arbitrary table (used for the repaired table) -/
def abiOKG (tg : Target) (ba : Basic → Nat) : Bool := Basic.all.all (fun b => ba b == (llBasic tg b).2)

/-- the only two shapes a well-formed target can have -/
def gcTarget (p : Nat) : Target := ⟨p, true, p, p, 1, 2, 4, min 8 p, 4, min 8 p, p⟩

/-! ## natural C layout for C-compatible types -/

mutual
/-- C-compatible: scalars (`bool` = `_Bool`, `int` = `intptr_t`, complex = `_Complex`), pointers, arrays of
    positive length and non-empty structs of C-compatible types -/
def isC : GoType → Bool
  | .basic b => b != .string
  | .pointer _ => true
  | .array n e => n > 0 && isC e
  | .struct fs => (match fs with | .nil => false | _ => true) && isCs fs
  | .named t => isC t
  | .alias t => isC t
  | _ => false
def isCs : Fields → Bool
  | .nil => true
  | .cons t fs => isC t && isCs fs
end

/-- `sizeof`/`_Alignof` of the C scalar: natural alignment = size of the (component) scalar, capped by the psABI's
    largest scalar alignment `cmax` (8 on x86-64, AArch64, ARM EABI, wasm32; 4 on i386 System V) -/
def cBasic (tg : Target) (cmax : Nat) : Basic → Nat × Nat
  | .bool | .int8 | .uint8 => (1, 1)
  | .int16 | .uint16 => (2, min 2 cmax)
  | .int32 | .uint32 | .float32 => (4, min 4 cmax)
  | .int64 | .uint64 | .float64 => (8, min 8 cmax)
  | .complex64 => (8, min 4 cmax)
  | .complex128 => (16, min 8 cmax)
  | .int | .uint | .uintptr | .unsafePointer | .string => (tg.ptrSize, min tg.ptrSize cmax)

/-- C member placement written with explicit padding: a member goes to the lowest offset `≥ cur` that is a multiple
    of its alignment; returns the member offsets -/
def cPlace : List (Nat × Nat) → Nat → List Nat
  | [], _ => []
  | (z, a) :: r, cur =>
    let pad := (a - cur % a) % a
    (cur + pad) :: cPlace r (cur + pad + z)

def cEnd : List (Nat × Nat) → Nat → Nat
  | [], cur => cur
  | (z, a) :: r, cur => cEnd r (cur + (a - cur % a) % a + z)

mutual
/-- (`sizeof`, `_Alignof`) in the natural C layout -/
def cSA (tg : Target) (cmax : Nat) : GoType → Nat × Nat
  | .basic b => cBasic tg cmax b
  | .pointer _ => (tg.ptrSize, min tg.ptrSize cmax)
  | .array n e => (n * (cSA tg cmax e).1, (cSA tg cmax e).2)
  | .struct fs =>
      let l := cSAs tg cmax fs
      let e := cEnd l 0
      let a := maxAlignOf l
      (e + (a - e % a) % a, a)
  | .named t => cSA tg cmax t
  | .alias t => cSA tg cmax t
  | _ => (0, 1)
def cSAs (tg : Target) (cmax : Nat) : Fields → List (Nat × Nat)
  | .nil => []
  | .cons t fs => cSA tg cmax t :: cSAs tg cmax fs
end

def cOffsets (tg : Target) (cmax : Nat) (t : GoType) : List Nat :=
  match under t with
  | .struct fs => cPlace (cSAs tg cmax fs) 0
  | _ => []

def cLayout (tg : Target) (cmax : Nat) (t : GoType) : Layout :=
  ⟨(cSA tg cmax t).1, (cSA tg cmax t).2, cOffsets tg cmax t⟩

/-- per C scalar the natural alignment and size equal LLVM's -/
def wfC (tg : Target) (cmax : Nat) : Bool :=
  decide (0 < cmax) && decide (0 < tg.ptrSize) &&
  Basic.all.all (fun b => b == .string || cBasic tg cmax b == llBasic tg b)

end LlgoVerif.Layout
