"""Random generator of well-typed, deterministic, terminating core-Go programs for C01.

One `Gen` = one program.  Discipline that keeps the programs free of behaviour the Go specification leaves open
(so that a disagreement between llgo and the reference toolchain is a violation and not a legal choice):
  * expressions are PURE: they only call functions generated in pure mode (no writes outside their locals, no output,
    no panic); every impure call (closures, setters, printing functions, recovering functions) is a statement of its own
    whose arguments are pure expressions  -> the order of evaluation inside an expression is never observable;
  * no run-time panic inside an expression: divisors are `e|1`, shift counts unsigned `% 70`, indices `% len` (arrays) or
    through clamping helper functions (strings, slices), pointers / interfaces / funcs that are dereferenced are never nil;
    deliberate panics are separate statements;
  * appends only to slices that share storage with nothing (`noappend` otherwise); capacity is only printed where the
    specification fixes it;  no maps, goroutines, floats, addresses, uintptr;
  * `defer` only as an unconditional prefix of a function body (other shapes are C04's known findings), no nil dereference
    that is recovered (C03's finding), shift counts < 2^32 (C02's finding);
  * every loop has a syntactic bound (<= 50 trips); recursion carries a decreasing depth argument; an estimated cost
    (statements executed) is tracked so that the whole program stays below ~40000 steps.
Compile-time pitfalls handled: no constant-only arithmetic (constant overflow), every local is used (`_ = x`), labels are
only printed when used, distinct switch cases, every function ends in `return`."""
import random

from goast import *

# byte strings that are not valid UTF-8: stray continuation bytes, overlong encodings, truncated sequences, surrogates, > U+10FFFF
INVALID_WORDS = [b"\x80", b"a\xbfb", b"\xc0\x80", b"x\xe2\x82", b"\xed\xa0\x80y", b"\xf4\x90\x80\x80", b"\xffz", b"\xe4\xb8", b"k\x80\x80", b"\xc3(",
                 b"\xf0\x9f\x98"]
ASCII_WORDS = [b"a", b"go", b"xyz", b"llgo", b"hello", b"Q", b"w0", b"-", b"core", b"zz top"]
UTF8_WORDS = ["hé", "世界", "aßc", "\U0001F600x", "λ"]
MAX_COST = 40000


class Ctx:
    def __init__(self, fn, results, pure=False, parent=None):
        self.fn, self.results, self.pure = fn, results, pure
        self.scopes = [[]] if parent is None else [list(v for sc in parent.scopes for v in sc), []]
        self.loops = []          # [dict(lbl, kind, used)]
        self.mult = 1 if parent is None else parent.mult
        self.depth = 0 if parent is None else parent.depth + 1
        self.cost = 0
        self.stable_str = False
        self.in_lit = parent is not None
        self.pkg = fn.pkg
        self.is_main = False

    def vars(self):
        allv = [v for sc in self.scopes for v in sc]
        last = {}
        for i, v in enumerate(allv):
            last[v.name] = i
        return [v for i, v in enumerate(allv) if last[v.name] == i]

    def push(self):
        self.scopes.append([])

    def pop(self):
        self.scopes.pop()

    def add(self, v):
        self.scopes[-1].append(v)


class IfaceMeth:
    """a method promoted from an embedded interface: looks like a Func to the code that picks call targets"""

    def __init__(self, d, mn, ps, rs):
        self.mname, self.recv, self.is_iface = mn, (d, False), True
        self.pure = bool(d.pure_methods.get(mn))
        self.params = [Var(0, 'm', ('named', d))] + [Var(0, 'a', t) for t in ps]
        self.results = [Var(0, 'r', t) for t in rs]
        self.cost = 30
        self.pkg = d.pkg


class Gen:
    def __init__(self, rng, idx, npk):
        self.rng, self.idx, self.npk = rng, idx, npk
        self.P = Program(idx)
        self.pfx = 'P%d' % idx
        self.cur_pkg = 1
        self.kinds = ['int'] + rng.sample([k for k in KINDS if k != 'int'], 3)
        self.structs, self.ifaces, self.nameds = [], [], []
        self.pure_funcs, self.impure_funcs = [], []
        self.nfield = 0
        self.nlabel = 0
        self.budget = 60         # statements still to generate
        self.feat = self.P.features

    # ------------------------------------------------------------------ small helpers
    def pkg(self, advance=0.3):
        if self.cur_pkg < self.npk and self.rng.random() < advance:
            self.cur_pkg += 1
        return self.cur_pkg

    def newvar(self, cx, ty, hint='v'):
        s = self.P.slot()
        v = Var(s, '%s%d' % (hint, s), ty)
        return v

    def kind(self):
        return self.rng.choice(self.kinds)

    def int_lit(self, ty):
        k = int_kind(ty)
        lo, hi = krange(k)
        r = self.rng.random()
        if r < 0.5:
            v = self.rng.randint(max(lo, -9), min(hi, 12))
        elif r < 0.7:
            v = self.rng.choice([lo, hi, hi - 1, lo + 1, 0, 1])
        else:
            v = self.rng.randint(lo, hi)
        return IntLit(ty, v)

    def str_lit(self):
        if self.rng.random() < 0.1:
            self.feat.add('invalid-utf8-string')
            return StrLit(self.rng.choice(INVALID_WORDS))
        if self.rng.random() < 0.3:
            return StrLit(self.rng.choice(UTF8_WORDS).encode())
        return StrLit(self.rng.choice(ASCII_WORDS))

    def charge(self, cx, n=1):
        cx.cost += cx.mult * n

    def affordable(self, cx, n):
        return cx.cost + cx.mult * n <= (MAX_COST if cx.is_main else 1500) and cx.mult * n <= 6000

    # ------------------------------------------------------------------ type universe
    def comparable(self, t):
        u = under(t)
        if u in (BOOL, STR) or is_int(u):
            return True
        if u == 'any':
            return False
        if u[0] == 'arr':
            return self.comparable(u[2])
        if u[0] == 'named':
            return u[1].kind == 'struct' and all(self.comparable(f[1]) for f in u[1].fields)
        return u[0] == 'ptr'

    def simple_type(self, d=1):
        """a type for fields / variables / parameters: values that need no allocation discipline"""
        r = self.rng.random()
        if r < 0.45:
            return tint(self.kind())
        if r < 0.55:
            return BOOL
        if r < 0.68:
            return STR
        if r < 0.8 and self.ustructs() and d > 0:
            return ('named', self.rng.choice(self.ustructs()))
        if r < 0.9 and d > 0:
            if self.ustructs() and self.rng.random() < 0.35:
                self.feat.add('array-of-structs')
                return ('arr', self.rng.randint(1, 3), ('named', self.rng.choice(self.ustructs())))
            return ('arr', self.rng.randint(1, 4), self.simple_type(0))
        if self.nameds and r < 0.95:
            return ('named', self.rng.choice(self.nameds))
        return tint(self.kind())

    def make_struct(self):
        d = TypeDecl('%sT%d' % (self.pfx, len(self.P.types)), 'struct', self.pkg())
        nf = self.rng.randint(1, 4)
        own = []
        emb = None
        r = self.rng.random()
        if self.structs and r < 0.6:
            emb = self.rng.choice(self.structs)
            d.pkg = max(d.pkg, emb.pkg)
            if self.rng.random() < 0.35:
                d.fields.append((emb.name, ('ptr', ('named', emb)), True))     # embedded *T
                self.feat.add('embedded-pointer')
            else:
                d.fields.append((emb.name, ('named', emb), True))
            self.feat.add('embedding')
        elif self.ifaces and r < 0.8:
            it = self.ifaces[0]
            d.pkg = max(d.pkg, it.pkg)
            d.fields.append((it.name, ('named', it), True))                  # embedded interface: its methods are promoted
            d.has_iface_embed = True
            self.feat.add('embedded-interface')
        self.cur_pkg = max(self.cur_pkg, d.pkg)
        for _ in range(nf):
            self.nfield += 1
            name = 'F%d' % self.nfield
            if emb and self.rng.random() < 0.3:
                cands = [f[0] for f in emb.fields if not f[2] and f[0] not in own]
                if cands:
                    name = self.rng.choice(cands)       # shadows the promoted field
                    self.feat.add('field-shadowing')
            own.append(name)
            d.fields.append((name, self.simple_type(), False))
        if self.rng.random() < 0.3:
            # a func-typed field: the lowered struct type is rebuilt (closure struct), embedding and tags must survive
            self.nfield += 1
            k = tint(self.kind())
            d.fields.append(('F%d' % self.nfield, self.P.sig([k], [k]) if self.rng.random() < 0.6 else self.P.sig([], [k]), False))
            d.has_func_field = True
            self.feat.add('func-field')
        if self.rng.random() < 0.3:
            # a blank field: it can only be set by a positional literal inside the declaring package and is ignored by ==
            d.fields.insert(self.rng.randint(1 if d.fields[0][2] else 0, len(d.fields)), ('_', tint(self.kind()), False))
            d.has_blank = True
            self.feat.add('blank-field')
        self.P.add_type(d)
        self.structs.append(d)
        return d

    def needs_init(self, t):
        """does the zero value of t contain a nil pointer / interface / func that generated code would dereference?"""
        u = under(t)
        if not isinstance(u, tuple):
            return u == 'any'
        if u[0] in ('ptr', 'func'):
            return True
        if u[0] == 'arr':
            return self.needs_init(u[2])
        if u[0] == 'named':
            if u[1].kind == 'iface':
                return True
            return u[1].kind == 'struct' and any(self.needs_init(f[1]) for f in u[1].fields)
        return False

    @staticmethod
    def emb_decl(ft):
        """declaration an embedded field of type ft promotes from"""
        return ft[1][1] if ft[0] == 'ptr' else ft[1]

    def fields_of(self, d):
        """selector table of struct d: name -> type, with Go's shallowest-depth rule through embedded T and *T
        (names are unique per depth by construction)"""
        out = {}
        level = [d]
        depth = 0
        while level and depth < 4:
            nxt = []
            names = {}
            for s in level:
                if s.kind != 'struct':
                    continue
                for fn, ft, emb in s.fields:
                    if fn != '_':              # blank fields cannot be selected
                        names.setdefault(fn, []).append(ft)
                    if emb:
                        nxt.append(self.emb_decl(ft))
            for fn, fts in names.items():
                if fn not in out:
                    out[fn] = (fts[0], depth) if len(fts) == 1 else (None, depth)
            level = nxt
            depth += 1
        return {k: v[0] for k, v in out.items() if v[0] is not None}

    def methods_of(self, d):
        """method table of struct/named type d with promotion (through embedded T, *T and interfaces): name -> Func | IfaceMeth"""
        out = {}
        level = [d]
        depth = 0
        while level and depth < 4:
            nxt = []
            names = {}
            for s in level:
                if s.kind == 'iface':
                    for mn, ps, rs in s.methods:
                        names.setdefault(mn, []).append(IfaceMeth(s, mn, ps, rs))
                    continue
                for f in s.mdecls:
                    names.setdefault(f.mname, []).append(f)
                if s.kind == 'struct':
                    for fn, ft, emb in s.fields:
                        if emb:
                            nxt.append(self.emb_decl(ft))
            for mn, fs in names.items():
                if mn not in out:
                    out[mn] = fs[0] if len(fs) == 1 else None
            level = nxt
            depth += 1
        # a field at a shallower-or-equal depth with the same name would clash: method names (M…) never equal field names
        return {k: v for k, v in out.items() if v is not None}

    # ------------------------------------------------------------------ readable / writable places
    def components(self, e, ty, depth, out):
        out.append((e, ty))
        if depth <= 0:
            return
        u = under(ty)
        if isinstance(u, tuple) and u[0] == 'named' and u[1].kind == 'struct':
            for fn, ft in self.fields_of(u[1]).items():
                self.components(Sel(e, fn, ft), ft, depth - 1, out)
        elif isinstance(u, tuple) and u[0] == 'ptr':
            tu = under(u[1])
            if isinstance(tu, tuple) and tu[0] == 'named' and tu[1].kind == 'struct':
                for fn, ft in self.fields_of(tu[1]).items():
                    self.components(Sel(e, fn, ft), ft, depth - 1, out)
            else:
                self.components(Deref(e), u[1], depth - 1, out)
        elif isinstance(u, tuple) and u[0] == 'arr':
            for k in sorted(set([0, u[1] - 1])):
                self.components(Index(e, IntLit(INT, k)), u[2], depth - 1, out)

    def readables(self, cx):
        out = []
        for v in cx.vars():
            if v.maybe_nil:
                out.append((VarRef(v), v.ty))
                continue
            self.components(VarRef(v), v.ty, 2, out)
        if not cx.pure:
            for g in self.P.globals:
                if g.pkg <= cx.pkg:
                    out.append((GlobRef(g), g.ty))
        return out

    def writables(self, cx):
        out = []
        for v in cx.vars():
            if v.maybe_nil:
                continue
            u = under(v.ty)
            isptr = isinstance(u, tuple) and u[0] == 'ptr'
            if cx.pure and isinstance(u, tuple) and u[0] in ('ptr', 'slice'):
                continue
            if v.readonly and not isptr:
                continue
            comps = []
            self.components(VarRef(v), v.ty, 2, comps)
            out += comps[1:] if v.readonly else comps
        if not cx.pure:
            for g in self.P.globals:
                if g.pkg <= cx.pkg:
                    out.append((GlobRef(g), g.ty))
        return out

    def of_type(self, cx, ty):
        return [e for e, t in self.readables(cx) if t == ty]

    # ------------------------------------------------------------------ expressions (all pure)
    def expr(self, cx, ty, d=2):
        u = under(ty)
        if is_int(u):
            return self.int_expr(cx, ty, d)
        if u == BOOL:
            return self.bool_expr(cx, d) if ty == BOOL else self.leaf(cx, ty)
        if u == STR:
            return self.str_expr(cx, d) if ty == STR else self.leaf(cx, ty)
        return self.leaf(cx, ty, d)

    def leaf(self, cx, ty, d=1):
        """a value of a composite type: an existing place or a literal"""
        c = self.of_type(cx, ty)
        u = under(ty)
        if c and (self.rng.random() < 0.6 or not self.can_build(cx, ty)):
            return self.rng.choice(c)
        fs = [f for f in self.pure_funcs if len(f.results) == 1 and f.results[0].ty == ty and f.pkg <= cx.pkg]
        if fs and d > 0 and self.rng.random() < 0.3:
            f = self.rng.choice(fs)
            if self.affordable(cx, f.cost):
                self.charge(cx, f.cost)
                return self.mk_call(cx, f, d - 1)
        if u == BOOL:
            return BoolLit(self.rng.random() < 0.5)
        if u == STR:
            return StrLit(self.rng.choice(ASCII_WORDS), ty)
        if is_int(u):
            return self.int_lit(ty)
        if u == 'any':
            return self.to_any(cx, d)
        h = u[0]
        if h == 'named' and u[1].kind == 'struct':
            dd = u[1]
            if getattr(dd, 'has_blank', False):
                pos = dd.pkg == cx.pkg and not dd.generic and self.rng.random() < 0.7
                if pos:
                    self.feat.add('blank-field-set')
                return StructLit(ty, [(self.expr(cx, ft, d - 1) if pos else Zero(ft)) if fn == '_' else self.expr(cx, ft, d - 1)
                                      for fn, ft, emb in dd.fields], positional=pos)
            return StructLit(ty, [self.expr(cx, ft, d - 1) for fn, ft, emb in dd.fields])
        if h == 'named' and u[1].kind == 'iface':
            return self.iface_value(cx, ty, d)
        if h == 'arr':
            return SeqLit(ty, [self.expr(cx, u[2], d - 1) for _ in range(u[1])])
        if h == 'slice':
            n = self.rng.randint(0, 4)
            return SeqLit(ty, [self.expr(cx, u[1], d - 1) for _ in range(n)])
        if h == 'ptr':
            tgt = [e for e, t in self.writables(cx) if t == u[1]] if not cx.pure else []
            if tgt and self.rng.random() < 0.6:
                return Addr(self.rng.choice(tgt))
            if is_int(under(u[1])) or under(u[1]) in (BOOL, STR):
                return New(Zero(u[1]))
            inner = self.leaf(cx, u[1], d - 1)
            if isinstance(inner, (StructLit, SeqLit)):
                return New(inner)                  # &T{…}
            if isinstance(inner, (VarRef, Sel, Index, Deref, GlobRef)) and not cx.pure:
                return Addr(inner)                 # the address of an existing place
            tu = under(u[1])
            if isinstance(tu, tuple) and tu[0] == 'named' and tu[1].kind == 'struct' and self.can_build(cx, u[1]):
                dd = tu[1]
                return New(StructLit(u[1], [Zero(ft) if fn == '_' else self.expr(cx, ft, 0) for fn, ft, emb in dd.fields]))
            return New(Zero(u[1]))
        if h == 'func':
            return self.closure(cx, ty, nstmts=1)
        raise ValueError(ty)

    def nonconst_int(self, cx, ty):
        c = self.of_type(cx, ty)
        if c:
            return self.rng.choice(c)
        ints = [e for e, t in self.readables(cx) if is_int(under(t))]
        return Conv(ty, self.rng.choice(ints))

    def int_expr(self, cx, ty, d, nonconst=False):
        r = self.rng
        k = int_kind(ty)
        if d <= 0 or r.random() < 0.2:
            c = self.of_type(cx, ty)
            if c and (nonconst or r.random() < 0.7):
                return r.choice(c)
            return self.nonconst_int(cx, ty) if nonconst else self.int_lit(ty)
        c = r.random()
        if c < 0.5:
            op = r.choice(['add', 'sub', 'mul', 'add', 'sub', 'and', 'or', 'xor', 'andnot', 'quo', 'rem', 'shl', 'shr'])
            a = self.int_expr(cx, ty, d - 1)
            if op in ('quo', 'rem'):
                b = Bin('or', self.int_expr(cx, ty, d - 1), IntLit(ty, 1))
            elif op in ('shl', 'shr'):
                ct = tint(r.choice([x for x in self.kinds if not SIGNED[x]] or ['uint']))
                b = Bin('rem', self.int_expr(cx, ct, d - 1), IntLit(ct, 70))
            else:
                b = self.int_expr(cx, ty, d - 1)
            if a.const and b.const:
                a = self.nonconst_int(cx, ty)
            return Bin(op, a, b)
        if c < 0.6:
            return Un(r.choice(['neg', 'compl']), self.int_expr(cx, ty, d - 1, nonconst=True))
        if c < 0.75:
            return Conv(ty, self.int_expr(cx, tint(r.choice([x for x in self.kinds if x != k] or ['i64'])), d - 1, nonconst=True))
        if c < 0.9 and ty == tint('u8') and self.rng.random() < 0.5:
            self.charge(cx, 6)
            self.feat.add('string-index')
            return Call(self.prelude('SIdx'), [self.str_expr(cx, d - 1), self.int_expr(cx, tint('uint'), d - 1)])
        if c < 0.82 and ty == INT:
            seqs = [e for e, t in self.readables(cx) if under(t) == STR or (isinstance(under(t), tuple) and under(t)[0] in ('slice', 'arr'))]
            if seqs:
                return LenCap('len', r.choice(seqs))
        if c < 0.92:
            e = self.pure_call(cx, ty, d)
            if e:
                return e
        return self.int_expr(cx, ty, 0, nonconst)

    def mk_call(self, cx, f, d=2):
        """a call of top-level function f with generated arguments (packs or spreads the variadic part)"""
        if not getattr(f, 'variadic', False):
            return Call(f, [self.expr(cx, p.ty, d) for p in f.params])
        fixed = [self.expr(cx, p.ty, d) for p in f.params[:-1]]
        vt = f.params[-1].ty
        spreadable = [e for e in self.of_type(cx, vt)]
        self.feat.add('variadic-call')
        if spreadable and self.rng.random() < 0.3:
            return Call(f, fixed + [self.rng.choice(spreadable)], spread=True)
        return Call(f, fixed + [self.expr(cx, vt[1], d) for _ in range(self.rng.randint(0, 3))])

    def pure_call(self, cx, ty, d):
        cands = []
        for f in self.pure_funcs:
            if len(f.results) == 1 and f.results[0].ty == ty and f.pkg <= cx.pkg and f is not cx.fn and self.affordable(cx, f.cost):
                cands.append(f)
        # pure methods on readable struct values
        mc = []
        for e, t in self.readables(cx):
            u = under(t)
            dd = None
            if isinstance(u, tuple) and u[0] == 'named' and u[1].kind in ('struct', 'basic'):
                dd, isptr = u[1], False
            elif isinstance(t, tuple) and t[0] == 'named' and t[1].kind == 'basic':
                dd, isptr = t[1], False
            elif isinstance(u, tuple) and u[0] == 'ptr' and isinstance(under(u[1]), tuple) and under(u[1])[0] == 'named' \
                    and under(u[1])[1].kind == 'struct' and not (isinstance(e, VarRef) and e.var.maybe_nil):
                dd, isptr = under(u[1])[1], True
            if dd is None:
                continue
            for mn, f in self.methods_of(dd).items():
                if f.pure and len(f.results) == 1 and f.results[0].ty == ty and f is not cx.fn and self.affordable(cx, f.cost):
                    mc.append((e, mn, f))
        # pure methods through interface values
        for e, t in self.readables(cx):
            if isinstance(t, tuple) and t[0] == 'named' and t[1].kind == 'iface' and not (isinstance(e, VarRef) and e.var.maybe_nil):
                for mn, ps, rs in t[1].methods:
                    if len(rs) == 1 and rs[0] == ty and t[1].pure_methods.get(mn) and self.affordable(cx, 30):
                        mc.append((e, mn, None))
        if mc and (not cands or self.rng.random() < 0.5):
            e, mn, f = self.rng.choice(mc)
            if f is None:
                self.charge(cx, 30)
                self.feat.add('iface-call')
                ps = [p for m, p, rs in e.ty[1].methods if m == mn][0]
                return ICall(e, mn, [self.expr(cx, p, d - 1) for p in ps], ty)
            self.charge(cx, f.cost)
            self.feat.add('method-call')
            return MCall(e, mn, [self.expr(cx, p.ty, d - 1) for p in f.params[1:]], ty)
        if cands:
            f = self.rng.choice(cands)
            self.charge(cx, f.cost)
            return self.mk_call(cx, f, d - 1)
        return None

    def bool_expr(self, cx, d):
        r = self.rng
        if d <= 0 or r.random() < 0.15:
            c = self.of_type(cx, BOOL)
            return r.choice(c) if c and r.random() < 0.8 else BoolLit(r.random() < 0.5)
        c = r.random()
        if c < 0.5:
            ty = tint(self.kind())
            a = self.int_expr(cx, ty, d - 1, nonconst=True)
            return Bin(r.choice(CMP), a, self.int_expr(cx, ty, d - 1))
        if c < 0.62:
            return Bin(r.choice(CMP), self.str_expr(cx, d - 1), self.str_expr(cx, d - 1))
        if c < 0.8:
            return Logic(r.choice(['land', 'lor']), self.bool_expr(cx, d - 1), self.bool_expr(cx, d - 1))
        if c < 0.88:
            return Un('not', self.bool_expr(cx, d - 1))
        if c < 0.95:
            cands = [(e, t) for e, t in self.readables(cx) if self.comparable(t) and not is_int(under(t)) and under(t) not in (BOOL, STR)
                     and under(t)[0] != 'ptr']
            if cands:
                e, t = r.choice(cands)
                self.feat.add('struct-or-array-compare')
                return Bin(r.choice(['eq', 'ne']), e, self.leaf(cx, t, 1))
        e = self.pure_call(cx, BOOL, d)
        return e or self.bool_expr(cx, 0)

    def str_expr(self, cx, d):
        r = self.rng
        if d <= 0 or r.random() < 0.3:
            c = [e for e in self.of_type(cx, STR) if not cx.stable_str or (isinstance(e, VarRef) and e.var.readonly)]
            return r.choice(c) if c and r.random() < 0.6 else self.str_lit()
        c = r.random()
        if c < 0.5:
            return Bin('add', self.str_expr(cx, d - 1), self.str_expr(cx, d - 1))
        if c < 0.65:
            self.feat.add('string-of-rune')
            return StrConv('strofrune', Conv(tint('i32'), Bin('rem', self.int_expr(cx, tint('uint'), d - 1, nonconst=True),
                                                              IntLit(tint('uint'), r.choice([128, 0x800, 0x3000, 0x11000])))))
        if c < 0.8:
            self.charge(cx, 8)
            return Call(self.prelude('Sub'), [self.str_expr(cx, d - 1), self.int_expr(cx, tint('uint'), d - 1),
                                              self.int_expr(cx, tint('uint'), d - 1)])
        e = self.pure_call(cx, STR, d)
        return e or self.str_expr(cx, 0)

    def printable(self, cx, d=2):
        r = self.rng.random()
        if r < 0.6:
            return self.int_expr(cx, tint(self.kind()), d, nonconst=True)
        if r < 0.75:
            return self.bool_expr(cx, d)
        if r < 0.9:
            return self.str_expr(cx, d)
        c = [e for e, t in self.readables(cx) if is_int(under(t)) or under(t) in (BOOL, STR)]
        return self.rng.choice(c) if c else self.str_lit()

    def to_any(self, cx, d=1):
        r = self.rng.random()
        if r < 0.4:
            e = self.int_expr(cx, tint(self.kind()), d, nonconst=True)
        elif r < 0.6:
            e = self.str_expr(cx, d)
        elif r < 0.7:
            e = self.bool_expr(cx, d)
        elif [s for s in self.ustructs() if s.pkg <= cx.pkg] and r < 0.9:
            e = self.leaf(cx, ('named', self.rng.choice([s for s in self.ustructs() if s.pkg <= cx.pkg])), d)
        else:
            e = self.int_expr(cx, INT, d, nonconst=True)
        return ToIface('any', e)

    def iface_value(self, cx, ity, d=1):
        """a non-nil value of declared interface type ity"""
        t = self.rng.choice(self.flat_impls(cx, ity))
        self.feat.add('iface-conversion')
        return ToIface(ity, self.leaf(cx, t, d))

    def has_iface(self, t):
        """does a value of type t contain an interface value somewhere (directly, in a field, behind a pointer)?"""
        u = under(t)
        if not isinstance(u, tuple):
            return u == 'any'
        if u[0] == 'named':
            if u[1].kind == 'iface':
                return True
            return u[1].kind == 'struct' and any(self.has_iface(f[1]) for f in u[1].fields)
        if u[0] in ('ptr', 'slice'):
            return self.has_iface(u[1])
        if u[0] == 'arr':
            return self.has_iface(u[2])
        return False

    def buildable(self, t, pkg=None):
        """can values of type t be written down wherever t is visible (every interface part has an implementation, built
        without a further interface value, in a package no later than the type's)?"""
        u = under(t)
        if not isinstance(u, tuple):
            return True
        if u[0] == 'named':
            d = u[1]
            p = d.pkg if pkg is None else max(pkg, d.pkg)
            if d.kind == 'iface':
                return any(self.type_pkg(x) <= p and not self.has_iface(x) for x in getattr(d, 'impls', []))
            if d.kind == 'struct':
                return all(self.buildable(f[1], p) for f in d.fields)
            return True
        if u[0] in ('ptr', 'slice'):
            return self.buildable(u[1], pkg)
        if u[0] == 'arr':
            return self.buildable(u[2], pkg)
        return True

    def ustructs(self):
        return [s for s in self.structs if self.buildable(('named', s))]

    def flat_impls(self, cx, ity):
        """implementations visible from cx that can be built without another interface value"""
        return [t for t in getattr(ity[1], 'impls', []) if self.type_pkg(t) <= cx.pkg and not self.has_iface(t)]

    def can_build(self, cx, t):
        """can a fresh value of type t be written down here? (interface-typed parts need a visible implementation)"""
        u = under(t)
        if not isinstance(u, tuple):
            return True
        if u[0] == 'named':
            if u[1].pkg > cx.pkg:
                return False
            if u[1].kind == 'iface':
                return bool(self.flat_impls(cx, u))
            if u[1].kind == 'struct':
                return all(self.can_build(cx, f[1]) for f in u[1].fields)
            return True
        if u[0] in ('ptr', 'slice'):
            return self.can_build(cx, u[1])
        if u[0] == 'arr':
            return self.can_build(cx, u[2])
        return True

    def type_pkg(self, t):
        if isinstance(t, tuple):
            if t[0] == 'named':
                return t[1].pkg
            if t[0] in ('ptr', 'slice'):
                return self.type_pkg(t[1])
            if t[0] == 'arr':
                return self.type_pkg(t[2])
        return 0

    # ------------------------------------------------------------------ prelude (ordinary generated functions)
    def prelude(self, name):
        key = '_prelude_' + name
        if hasattr(self, key):
            return getattr(self, key)
        f = Func('%s%s' % (self.pfx, name), 1)
        f.pure = True
        f.cost = 8
        U = tint('uint')
        if name == 'Sub':
            # func Sub(s string, a, b uint) string: a clamped, never failing substring (non-empty input stays non-empty)
            s, a, b = Var(self.P.slot(), 's', STR), Var(self.P.slot(), 'a', U), Var(self.P.slot(), 'b', U)
            n = Var(self.P.slot(), 'n', U)
            f.params = [s, a, b]
            f.results = [Var(self.P.slot(), 'r', STR)]
            f.body = [
                Decl([n], [Conv(U, LenCap('len', VarRef(s)))]),
                If([], Bin('eq', VarRef(n), IntLit(U, 0)), [Return([VarRef(s)])], []),
                Assign([VarRef(a)], [Bin('rem', VarRef(a), VarRef(n))]),
                Assign([VarRef(b)], [Bin('add', VarRef(a), Bin('add', IntLit(U, 1), Bin('rem', VarRef(b), Bin('sub', VarRef(n), VarRef(a)))))]),
                Return([SliceOf(VarRef(s), VarRef(a), VarRef(b))]),
            ]
        elif name == 'SIdx':
            s, a = Var(self.P.slot(), 's', STR), Var(self.P.slot(), 'a', U)
            f.params = [s, a]
            f.results = [Var(self.P.slot(), 'r', tint('u8'))]
            f.body = [
                If([], Bin('eq', LenCap('len', VarRef(s)), IntLit(INT, 0)), [Return([IntLit(tint('u8'), 0)])], []),
                Return([Index(VarRef(s), Bin('rem', VarRef(a), Conv(U, LenCap('len', VarRef(s)))))]),
            ]
        self.P.add_func(f)
        setattr(self, key, f)
        return f

    # ------------------------------------------------------------------ statements
    def block(self, cx, n, allow_jump=True):
        cx.push()
        cx.depth += 1
        out = []
        for _ in range(n):
            if self.budget <= 0:
                break
            s = self.stmt(cx)
            out += s
            if s and isinstance(s[-1], (Break, Continue, Return)):
                break
        cx.depth -= 1
        cx.pop()
        return out

    def stmt(self, cx):
        """-> list of statements (usually one)"""
        self.budget -= 1
        self.charge(cx)
        r = self.rng
        choices = [('decl', 14), ('assign', 16), ('print', 10 if not cx.pure else 0), ('opassign', 8), ('swap', 4)]
        if cx.depth < 4:
            choices += [('if', 10), ('for', 9), ('switch', 5), ('range', 7), ('shadow', 3)]
        if not cx.pure:
            choices += [('call', 10), ('closure', 5), ('slice', 7), ('strops', 4), ('methodval', 4), ('pointer', 5), ('iface', 5), ('tswitch', 4), ('rangefunc', 3)]
        if cx.loops and cx.depth >= 1:
            choices += [('jump', 6)]
        if cx.results is not None and cx.depth >= 1 and not cx.is_main:
            choices += [('return', 3)]
        kinds, ws = zip(*choices)
        for _ in range(6):
            k = r.choices(kinds, ws)[0]
            s = getattr(self, 's_' + k)(cx)
            if s:
                return s
        return self.s_decl(cx)

    def s_decl(self, cx):
        ty = self.simple_type()
        if self.type_pkg(ty) > cx.pkg:
            ty = tint(self.kind())
        v = self.newvar(cx, ty)
        if self.rng.random() < 0.12 and not self.needs_init(ty):
            st = Decl([v], [], zero=True)
        else:
            st = Decl([v], [self.expr(cx, ty, 2)])
        cx.add(v)
        return [st]

    def rhs_for(self, cx, lv, ty):
        if under(ty) == STR and cx.mult > 1:
            cx.stable_str = True
            e = self.str_expr(cx, 1)
            cx.stable_str = False
            return Bin('add', lv, e) if self.rng.random() < 0.6 and ty == STR else e
        return self.expr(cx, ty, 2)

    def s_assign(self, cx):
        w = self.writables(cx)
        if not w:
            return None
        lv, ty = self.rng.choice(w)
        u = under(ty)
        if isinstance(u, tuple) and u[0] in ('slice', 'func', 'ptr') or u == 'any' or (isinstance(u, tuple) and u[0] == 'named' and u[1].kind == 'iface'):
            return None      # reference-like variables are managed by their own statement kinds
        return [Assign([lv], [self.rhs_for(cx, lv, ty)])]

    def s_opassign(self, cx):
        w = [(e, t) for e, t in self.writables(cx) if is_int(under(t))]
        if not w:
            return None
        lv, ty = self.rng.choice(w)
        r = self.rng.random()
        if r < 0.3:
            return [OpAssign(self.rng.choice(['add', 'sub']), lv, IntLit(ty, 1), incdec=True)]
        op = self.rng.choice(['add', 'sub', 'mul', 'xor', 'or', 'and', 'quo', 'rem', 'shl', 'shr', 'andnot'])
        if op in ('quo', 'rem'):
            e = Bin('or', self.int_expr(cx, ty, 1), IntLit(ty, 1))
        elif op in ('shl', 'shr'):
            ct = tint(self.rng.choice([x for x in self.kinds if not SIGNED[x]] or ['uint']))
            e = Bin('rem', self.int_expr(cx, ct, 1), IntLit(ct, 70))
        else:
            e = self.int_expr(cx, ty, 2)
        return [OpAssign(op, lv, e)]

    def s_swap(self, cx):
        w = self.writables(cx)
        self.rng.shuffle(w)
        for i, (a, ta) in enumerate(w):
            u = under(ta)
            if not (is_int(u) or u in (BOOL, STR)):
                continue
            for b, tb in w[i + 1:]:
                if tb == ta and b.go(None if False else NOCX) != a.go(NOCX):
                    self.feat.add('multi-assign')
                    if self.rng.random() < 0.5:
                        return [Assign([a, b], [b, a])]
                    if under(ta) == STR and cx.mult > 1:
                        return [Assign([a, b], [b, a])]
                    return [Assign([a, b], [self.expr(cx, ta, 1), self.expr(cx, ta, 1)])]
        return None

    def s_print(self, cx):
        n = self.rng.randint(1, 4)
        return [Print(self.rng.random() < 0.85, [self.printable(cx) for _ in range(n)])]

    def s_if(self, cx):
        init = []
        cx.push()
        if self.rng.random() < 0.2:
            v = self.newvar(cx, tint(self.kind()))
            init = [Decl([v], [self.int_expr(cx, v.ty, 2, nonconst=True)])]
            cx.add(v)
        c = self.bool_expr(cx, 2)
        t = self.block(cx, self.rng.randint(1, 3))
        e = self.block(cx, self.rng.randint(1, 2)) if self.rng.random() < 0.5 else []
        cx.pop()
        return [If(init, c, t, e)]

    def label(self):
        self.nlabel += 1
        return 'L%d' % self.nlabel

    def loop_body(self, cx, trips, kind='for'):
        if any(l['kind'] == 'switch' for l in cx.loops):
            self.feat.add('loop-inside-switch')
        rec = {'lbl': self.label(), 'kind': kind, 'used': False}
        cx.loops.append(rec)
        old = cx.mult
        cx.mult *= max(1, trips)
        body = self.block(cx, self.rng.randint(1, 4))
        cx.mult = old
        cx.loops.pop()
        return body, (rec['lbl'] if rec['used'] else '')

    def trips(self, cx):
        lim = max(1, min(50, 400 // cx.mult))
        return self.rng.randint(0, min(lim, self.rng.choice([3, 5, 8, 50])))

    def s_for(self, cx):
        r = self.rng
        n = self.trips(cx)
        if not self.affordable(cx, n * 3):
            return None
        k = r.choice([x for x in self.kinds if WIDTH[x] >= 16] or ['int'])
        ty = tint(k)
        form = r.random()
        cx.push()
        i = self.newvar(cx, ty, 'i')
        i.readonly = True
        if form < 0.55:        # three-clause counting loop, up or down
            step = r.randint(1, 3)
            if r.random() < 0.7:
                init = Decl([i], [IntLit(ty, 0)])
                cond = Bin('lt', VarRef(i), IntLit(ty, n * step))
                post = OpAssign('add', VarRef(i), IntLit(ty, step), incdec=(step == 1))
            else:
                init = Decl([i], [IntLit(ty, n * step)])
                cond = Bin('gt', VarRef(i), IntLit(ty, 0))
                post = OpAssign('sub', VarRef(i), IntLit(ty, step), incdec=(step == 1))
            cx.add(i)
            body, lbl = self.loop_body(cx, n)
            cx.pop()
            self.feat.add('for-3clause')
            return [For(lbl, [init], cond, [post], body, [i])]
        cx.pop()
        # condition-only / infinite loop on a dedicated counter that is bumped FIRST in the body
        cx.add(i)
        d = Decl([i], [IntLit(ty, 0)])
        bump = OpAssign('add', VarRef(i), IntLit(ty, 1), incdec=True)
        if form < 0.8:
            body, lbl = self.loop_body(cx, n)
            self.feat.add('for-cond')
            return [d, For(lbl, [], Bin('lt', VarRef(i), IntLit(ty, n)), [], [bump] + body, [])]
        body, lbl = self.loop_body(cx, n)
        self.feat.add('for-infinite')
        return [d, For(lbl, [], None, [], [bump, If([], Bin('gt', VarRef(i), IntLit(ty, n)), [Break()], [])] + body, [])]

    def s_jump(self, cx):
        r = self.rng
        loops = [l for l in cx.loops if l['kind'] == 'for']
        inner_is_switch = cx.loops[-1]['kind'] == 'switch'
        if not loops:
            return [Break()] if inner_is_switch and r.random() < 0.5 else None
        c = self.bool_expr(cx, 1)
        if len(loops) > 1 and r.random() < 0.5 or inner_is_switch:
            l = r.choice(loops)
            l['used'] = True
            self.feat.add('labelled-jump')
            j = Break(l['lbl']) if r.random() < 0.5 else Continue(l['lbl'])
        else:
            j = Break() if r.random() < 0.5 else Continue()
        return [If([], c, [j], [])]

    def s_return(self, cx):
        return [If([], self.bool_expr(cx, 1), [Return([self.expr(cx, t, 1) for t in cx.results])], [])]

    def s_switch(self, cx):
        r = self.rng
        rec = {'lbl': self.label(), 'kind': 'switch', 'used': False}
        form = r.random()
        ncase = r.randint(1, 4)
        cases = []
        if form < 0.55:
            ty = tint(self.kind())
            tag = Bin('rem', self.int_expr(cx, ty, 2, nonconst=True), IntLit(ty, r.randint(2, 6)))
            lo, hi = krange(int_kind(ty))
            vals = r.sample(range(max(lo, -3), min(hi, 12)), 2 * ncase + 1)
            mk = lambda: [IntLit(ty, vals.pop())]
        elif form < 0.75:
            tag = self.str_expr(cx, 1)
            vals = r.sample(ASCII_WORDS, 2 * ncase + 1)
            mk = lambda: [StrLit(vals.pop())]
        else:
            tag = None
            mk = lambda: [self.bool_expr(cx, 2)]
        init = []
        cx.push()
        if tag is not None and is_int(under(tag.ty)) and r.random() < 0.3:
            iv = self.newvar(cx, tag.ty)
            init = [Decl([iv], [tag])]
            cx.add(iv)
            tag = Bin('add', VarRef(iv), IntLit(tag.ty, 0)) if r.random() < 0.5 else VarRef(iv)
        cx.loops.append(rec)
        for ci in range(ncase):
            es = mk()
            if tag is not None and vals and r.random() < 0.3:
                es += mk()
            body = self.block(cx, r.randint(1, 2))
            fall = ci < ncase - 1 and r.random() < 0.2 and not (body and isinstance(body[-1], (Break, Continue, Return)))
            cases.append(Case(es, body, fall))
        if r.random() < 0.6:
            cases.insert(r.randint(0, len(cases)), Case([], self.block(cx, r.randint(1, 2)), False, default=True))
            # a default clause in the middle must not be the target of a fallthrough chain that changes meaning: allowed by Go
        cx.loops.pop()
        # the last clause cannot fall through
        cases[-1].fall = False
        for a, b in zip(cases, cases[1:]):
            if a.fall and a.body and isinstance(a.body[-1], (Break, Continue, Return)):
                a.fall = False
        self.feat.add('switch')
        if any(c.fall for c in cases):
            self.feat.add('fallthrough')
        cx.pop()
        return [Switch(rec['lbl'] if rec['used'] else '', init, tag, cases)]

    def s_range(self, cx):
        r = self.rng
        form = r.random()
        if form < 0.3:
            n = self.trips(cx)
            ty = tint(r.choice(self.kinds))
            if n > krange(int_kind(ty))[1]:
                ty = INT
            cx.push()
            x = self.newvar(cx, ty, 'i') if r.random() < 0.8 else None
            if x:
                x.readonly = True
                cx.add(x)
            body, lbl = self.loop_body(cx, n)
            cx.pop()
            self.feat.add('range-int')
            bound = IntLit(ty, n) if r.random() < 0.5 else Bin('rem', self.int_expr(cx, ty, 1, nonconst=True), IntLit(ty, max(1, n)))
            return [RangeInt(lbl, x, bound, body)]
        seqs = []
        for e, t in self.readables(cx):
            u = under(t)
            if u == STR or (isinstance(u, tuple) and (u[0] in ('slice', 'arr') or (u[0] == 'ptr' and isinstance(under(u[1]), tuple) and under(u[1])[0] == 'arr'
                                                                                  and not (isinstance(e, VarRef) and e.var.maybe_nil)))):
                seqs.append((e, t))
        if not seqs or r.random() < 0.25:
            # a fresh sequence
            c = r.random()
            if c < 0.4:
                e = self.str_lit() if r.random() < 0.7 else self.str_expr(cx, 1)
                if r.random() < 0.3:
                    e = StrLit(r.choice(INVALID_WORDS) + r.choice([b"", b"a", "é".encode()]))
                    self.feat.add('range-invalid-utf8')
                t = STR
            elif c < 0.7:
                t = ('slice', tint(self.kind()))
                e = SeqLit(t, [self.int_expr(cx, t[1], 1) for _ in range(r.randint(0, 4))])
            else:
                t = ('arr', r.randint(1, 4), tint(self.kind()))
                e = SeqLit(t, [self.int_expr(cx, t[2], 1) for _ in range(t[1])])
        else:
            e, t = r.choice(seqs)
        u = under(t)
        trips = 4 if u == STR else (u[1] if u[0] == 'arr' else 6)
        if not self.affordable(cx, trips * 3):
            return None
        cx.push()
        kx = self.newvar(cx, INT, 'k') if r.random() < 0.7 else None
        vty = tint('i32') if u == STR else elem_type(t)
        vx = self.newvar(cx, vty, 'e') if r.random() < 0.7 else None
        if vx and not kx and r.random() < 0.5:
            pass
        for v in (kx, vx):
            if v:
                v.readonly = True
                cx.add(v)
        if vx and isinstance(under(vty), tuple) and under(vty)[0] == 'named':
            vx.readonly = False          # assigning to the iteration variable must not touch the sequence
            self.feat.add('range-value-is-a-copy')
        body, lbl = self.loop_body(cx, trips)
        if u == STR and kx and vx and not cx.pure and r.random() < 0.6:
            body = [Print(False, [VarRef(kx), StrLit(b":"), VarRef(vx), StrLit(b" ")])] + body
        cx.pop()
        self.feat.add('range-' + seqkind(t))
        if seqkind(t) == 'arr' and vx is not None and not isinstance(e, SeqLit):
            # llgo indexes the ORIGINAL array when the body mutates it (finding range:array-value-aliased-by-value-loop, replayed
            # from the corpus): random programs range over a copy the body cannot reach
            tmp = self.newvar(cx, t, 'rc')
            return [Decl([tmp], [e]), RangeSeq(lbl, kx, vx, VarRef(tmp), body)]
        return [RangeSeq(lbl, kx, vx, e, body)]

    # ------------------------------------------------------------------ calls, closures, functions
    def call_targets(self, cx):
        out = []
        for f in self.impure_funcs:
            if f.pkg <= cx.pkg and f is not cx.fn and self.affordable(cx, f.cost):
                out.append(('fn', f, None))
        for v in cx.vars():
            u = under(v.ty)
            if isinstance(u, tuple) and u[0] == 'func' and not v.maybe_nil and self.affordable(cx, getattr(v, 'cost', 30)):
                out.append(('clo', v, None))
        for e, t in self.readables(cx):
            u = under(t)
            if isinstance(u, tuple) and u[0] == 'func' and not isinstance(e, VarRef) and self.affordable(cx, 30):
                out.append(('cloe', e, None))
        for e, t in self.writables(cx) + [(VarRef(v), v.ty) for v in cx.vars() if v.readonly]:
            u = under(t)
            dd = None
            if isinstance(u, tuple) and u[0] == 'named' and u[1].kind == 'struct':
                dd = u[1]
            elif isinstance(u, tuple) and u[0] == 'ptr' and isinstance(under(u[1]), tuple) and under(u[1])[0] == 'named' and under(u[1])[1].kind == 'struct':
                dd = under(u[1])[1]
            if dd:
                for mn, f in self.methods_of(dd).items():
                    if not f.pure and f is not cx.fn and self.affordable(cx, f.cost):
                        out.append(('meth', f, (e, mn)))
            if isinstance(t, tuple) and t[0] == 'named' and t[1].kind == 'iface' and not (isinstance(e, VarRef) and e.var.maybe_nil):
                for mn, ps, rs in t[1].methods:
                    if not t[1].pure_methods.get(mn) and self.affordable(cx, 40):
                        out.append(('imeth', (ps, rs), (e, mn)))
        return out

    def s_call(self, cx):
        ts = self.call_targets(cx)
        if not ts:
            return None
        kind, f, extra = self.rng.choice(ts)
        if kind == 'fn':
            call = self.mk_call(cx, f, 2)
            rtys, cost = [r.ty for r in f.results], f.cost
        elif kind == 'cloe':
            sig = under(f.ty)[1]
            call = CallV(f, [self.expr(cx, p, 2) for p in sig.params])
            rtys, cost = sig.results, 30
            self.feat.add('func-field-call')
        elif kind == 'clo':
            sig = under(f.ty)[1]
            call = CallV(VarRef(f), [self.expr(cx, p, 2) for p in sig.params])
            rtys, cost = sig.results, getattr(f, 'cost', 30)
            self.feat.add('closure-call')
        elif kind == 'meth':
            e, mn = extra
            call = MCall(e, mn, [self.expr(cx, p.ty, 2) for p in f.params[1:]], f.results[0].ty if len(f.results) == 1 else None)
            rtys, cost = [r.ty for r in f.results], f.cost
            self.feat.add('method-call-ptr' if f.recv[1] else 'method-call-value')
        else:
            e, mn = extra
            ps, rs = f
            call = ICall(e, mn, [self.expr(cx, p, 2) for p in ps], rs[0] if len(rs) == 1 else None)
            rtys, cost = rs, 40
            self.feat.add('iface-call')
        self.charge(cx, cost)
        return self.bind_results(cx, call, rtys)

    def bind_results(self, cx, call, rtys):
        if not rtys or self.rng.random() < 0.15:
            return [ExprS(call)]
        vs = []
        for t in rtys:
            v = self.newvar(cx, t)
            u = under(t)
            if isinstance(u, tuple) and u[0] in ('func', 'ptr') or u == 'any' or (isinstance(u, tuple) and u[0] == 'named' and u[1].kind == 'iface'):
                v.readonly = True
            if isinstance(u, tuple) and u[0] == 'slice':
                v.noappend = True
            vs.append(v)
        if len(rtys) > 1:
            self.feat.add('multi-result')
        st = Decl(vs, [call])
        for v in vs:
            cx.add(v)
        return [st]

    def closure(self, cx, fty=None, nstmts=None):
        """a function literal capturing the current scope"""
        r = self.rng
        if fty is None:
            ps = [tint(self.kind()) if r.random() < 0.7 else self.simple_type(0) for _ in range(r.randint(0, 2))]
            rs = [tint(self.kind())] if r.random() < 0.7 else ([] if r.random() < 0.6 else [STR])
            fty = self.P.sig(ps, rs)
        sig = fty[1]
        f = Func('lit', cx.pkg)
        f.is_lit = True
        f.params = [self.newvar(cx, t, 'a') for t in sig.params]
        for p in f.params:
            if under(p.ty) == STR:
                p.readonly = True
        f.results = [self.newvar(cx, t, 'r') for t in sig.results]
        sub = Ctx(f, sig.results, pure=cx.pure, parent=cx)
        sub.mult = 1
        sub.is_main = False
        for p in f.params:
            sub.add(p)
        save = self.budget
        self.budget = min(self.budget, nstmts or r.randint(1, 3))
        used = self.budget
        body = self.block(sub, self.budget)
        self.budget = save - (used - self.budget)
        if sig.results and not (body and isinstance(body[-1], Return)):
            body.append(Return([self.expr(sub, t, 2) for t in sig.results]))
        f.body = body
        f.cost = sub.cost + 3
        self.P.add_func(f, printed=False)
        self.feat.add('closure')
        lit = FuncLit(f, fty)
        lit.cost = f.cost
        return lit

    def s_closure(self, cx):
        r = self.rng
        if r.random() < 0.3 and cx.mult == 1 and self.affordable(cx, 200):
            return self.closure_list(cx)
        lit = self.closure(cx)
        v = self.newvar(cx, lit.ty, 'f')
        v.readonly = True
        v.cost = lit.cost
        cx.add(v)
        return [Decl([v], [lit])]

    def closure_list(self, cx):
        """closures created in a loop, each capturing that iteration's variable and a shared accumulator; called afterwards"""
        r = self.rng
        k = tint(self.kind())
        fty = self.P.sig([], [k])
        fs = self.newvar(cx, ('slice', fty), 'fs')
        fs.noappend = True
        acc = self.newvar(cx, k, 'acc')
        n = r.randint(1, 4)
        i = self.newvar(cx, k, 'i')
        i.readonly = True
        acc_init = self.int_expr(cx, k, 1)
        cx.add(acc)
        cx.push()
        cx.add(i)
        f = Func('lit', cx.pkg)
        f.is_lit = True
        f.results = [self.newvar(cx, k, 'r')]
        modi = r.random() < 0.5
        body = [OpAssign('add', VarRef(acc), Bin('add', VarRef(i), IntLit(k, 1)))]
        if modi:
            body.append(OpAssign('add', VarRef(i), IntLit(k, 10)))
        body.append(Return([Bin('add', Bin('mul', VarRef(acc), IntLit(k, 3)), VarRef(i))]))
        f.body = body
        f.cost = 5
        self.P.add_func(f, printed=False)
        cx.pop()
        app = [Assign([VarRef(fs)], [Append(VarRef(fs), [FuncLit(f, fty)])])]
        form = r.random()
        if form < 0.5:
            loop = For('', [Decl([i], [IntLit(k, 0)])], Bin('lt', VarRef(i), IntLit(k, n)), [OpAssign('add', VarRef(i), IntLit(k, 1), incdec=True)], app, [i])
        elif form < 0.75:
            loop = RangeInt('', i, IntLit(k, n), app)
            self.feat.add('closure-per-iteration-range')
        else:
            loop = RangeSeq('', None, i, SeqLit(('slice', k), [self.int_lit(k) for _ in range(n)]), app)
            self.feat.add('closure-per-iteration-range')
        g = self.newvar(cx, fty, 'g')
        x = self.newvar(cx, k, 'x')
        call = RangeSeq('', None, g, VarRef(fs), [Decl([x], [CallV(VarRef(g), [])]), Print(True, [VarRef(x), VarRef(acc)])])
        cx.add(fs)
        self.charge(cx, 12 * n)
        self.feat.add('closure-per-iteration')
        return [Decl([fs], [], zero=True), Decl([acc], [acc_init]), loop, call, call] if r.random() < 0.4 else \
               [Decl([fs], [], zero=True), Decl([acc], [acc_init]), loop, call]

    def s_slice(self, cx):
        r = self.rng
        svars = [v for v in cx.vars() if isinstance(under(v.ty), tuple) and under(v.ty)[0] == 'slice' and is_simple(elem_type(v.ty))
                 and not v.readonly]
        c = r.random()
        if not svars or c < 0.2:
            et = tint(self.kind()) if r.random() < 0.7 else self.simple_type(0)
            if self.type_pkg(et) > cx.pkg:
                et = INT
            t = ('slice', et)
            v = self.newvar(cx, t, 's')
            if r.random() < 0.6:
                init = SeqLit(t, [self.expr(cx, et, 1) for _ in range(r.randint(0, 4))])
            elif self.needs_init(et):
                init = SeqLit(t, [self.expr(cx, et, 1) for _ in range(r.randint(0, 2))])
            elif r.random() < 0.5:
                init = Make(t, IntLit(INT, r.randint(0, 4)))
            else:
                n = r.randint(0, 3)
                init = Make(t, IntLit(INT, n), IntLit(INT, n + r.randint(0, 3)))
            cx.add(v)
            self.feat.add('slice')
            return [Decl([v], [init])]
        v = r.choice(svars)
        s = VarRef(v)
        et = elem_type(v.ty)
        U = tint('uint')
        if c < 0.45 and not v.noappend and (cx.mult <= 60):
            self.feat.add('append')
            return [Assign([s], [Append(s, [self.expr(cx, et, 1) for _ in range(r.randint(1, 3))])])]
        if c < 0.65:
            idx = Bin('rem', self.int_expr(cx, U, 1, nonconst=True), Conv(U, LenCap('len', s)))
            return [If([], Bin('gt', LenCap('len', s), IntLit(INT, 0)), [Assign([Index(s, idx)], [self.expr(cx, et, 2)])], [])]
        if c < 0.78:
            t = self.newvar(cx, v.ty, 's')
            t.noappend = True
            v.noappend = True
            form = r.random()
            n = LenCap('len', s)
            two = IntLit(INT, 2)
            if form < 0.35:
                e = SliceOf(s, Bin('quo', n, two), None)
            elif form < 0.7:
                e = SliceOf(s, None, Bin('quo', n, two))
            else:
                e = SliceOf(s, Bin('quo', n, IntLit(INT, 3)), Bin('sub', n, Bin('quo', n, IntLit(INT, 3))))
            cx.add(t)
            self.feat.add('slice-alias')
            return [Decl([t], [e])]
        if c < 0.86:
            # three-index slice: cap == len, so the append below MUST reallocate and the original stays untouched
            t = self.newvar(cx, v.ty, 's')
            h = Bin('quo', LenCap('len', s), IntLit(INT, 2))
            cx.add(t)
            self.feat.add('slice-3index')
            return [Decl([t], [SliceOf(s, IntLit(INT, 0), h, h)]),
                    Assign([VarRef(t)], [Append(VarRef(t), [self.expr(cx, et, 1)])]),
                    Print(True, [LenCap('len', VarRef(t)), LenCap('len', s)])]
        if c < 0.93 and len(svars) > 1:
            o = r.choice([w for w in svars if w is not v and w.ty == v.ty] or [v])
            n = self.newvar(cx, INT, 'n')
            cx.add(n)
            self.feat.add('copy')
            return [Decl([n], [Copy(s, VarRef(o))])]
        if is_int(under(et)) or under(et) in (BOOL, STR):
            x = self.newvar(cx, et, 'e')
            k = self.newvar(cx, INT, 'k')
            return [RangeSeq('', k, x, s, [Print(False, [VarRef(k), StrLit(b":"), VarRef(x), StrLit(b" ")])]), Print(True, [LenCap('len', s)])]
        return None

    def s_strops(self, cx):
        r = self.rng
        U8 = ('slice', tint('u8'))
        bvars = [v for v in cx.vars() if v.ty == U8]
        c = r.random()
        if c < 0.35 or (c < 0.7 and not bvars):
            b = self.newvar(cx, U8, 's')
            st = Decl([b], [StrConv('bytesofstr', self.str_expr(cx, 1))])
            cx.add(b)
            self.feat.add('bytes-of-string')
            return [st]
        if c < 0.7:
            v = self.newvar(cx, STR)
            st = Decl([v], [StrConv('strofbytes', VarRef(r.choice(bvars)))])
            cx.add(v)
            self.feat.add('string-of-bytes')
            return [st]
        strs = [e for e in self.of_type(cx, STR)]
        if not strs:
            return None
        s = r.choice(strs)
        U = tint('uint')
        ch = self.newvar(cx, tint('u8'), 'c')
        idx = Bin('rem', self.int_expr(cx, U, 1, nonconst=True), Conv(U, LenCap('len', s)))
        self.feat.add('string-index')
        return [If([], Bin('gt', LenCap('len', s), IntLit(INT, 0)), [Decl([ch], [Index(s, idx)]), Print(True, [VarRef(ch), LenCap('len', s)])], [])]

    def s_shadow(self, cx):
        """an inner block declaring a variable with the NAME of an outer one (initialised from the outer one)"""
        r = self.rng
        outer = [v for v in cx.vars() if is_int(under(v.ty)) or v.ty == STR]
        if not outer:
            return None
        v = r.choice(outer)
        inner = Var(self.P.slot(), v.name, v.ty)
        if is_int(under(v.ty)):
            init = Bin(r.choice(['add', 'sub', 'xor', 'mul']), VarRef(v), self.int_expr(cx, v.ty, 1))
        else:
            init = Bin('add', VarRef(v), self.str_lit())
        cx.push()
        cx.add(inner)
        body = self.block(cx, r.randint(1, 3))
        tail = [] if (body and isinstance(body[-1], (Break, Continue, Return))) or cx.pure else [Print(True, [StrLit(b"inner"), VarRef(inner)])]
        cx.pop()
        self.feat.add('shadowing')
        out = [Block([Decl([inner], [init])] + body + tail)]
        if not cx.pure:
            out.append(Print(True, [StrLit(b"outer"), VarRef(v)]))
        return out

    def s_methodval(self, cx):
        """f := x.M (method value, receiver bound now) / f := T.M, (*T).M (method expression)"""
        r = self.rng
        cands = []
        for e, t in self.readables(cx):
            if isinstance(e, VarRef) and e.var.maybe_nil:
                continue
            u = under(t)
            dd = None
            if isinstance(u, tuple) and u[0] == 'named' and u[1].kind in ('struct', 'basic') and not u[1].generic:
                dd = u[1]
            elif isinstance(t, tuple) and t[0] == 'named' and t[1].kind == 'basic':
                dd = t[1]
            elif isinstance(u, tuple) and u[0] == 'ptr' and isinstance(under(u[1]), tuple) and under(u[1])[0] == 'named' \
                    and under(u[1])[1].kind == 'struct' and not under(u[1])[1].generic:
                dd = under(u[1])[1]
            if dd is not None:
                for mn, f in self.methods_of(dd).items():
                    if f is not cx.fn and f.pkg <= cx.pkg:
                        cands.append((e, mn, f, dd))
            elif isinstance(t, tuple) and t[0] == 'named' and t[1].kind == 'iface':
                for mn, ps, rs in t[1].methods:
                    cands.append((e, mn, IfaceMeth(t[1], mn, ps, rs), None))
        if not cands:
            return None
        e, mn, f, dd = r.choice(cands)
        if not self.affordable(cx, f.cost):
            return None
        own = dd is not None and not getattr(f, 'is_iface', False) and f.recv[0] is dd and dd.pkg <= cx.pkg
        if own and r.random() < 0.35:
            rt = ('ptr', ('named', dd)) if f.recv[1] else ('named', dd)
            fty = self.P.sig([rt] + [p.ty for p in f.params[1:]], [x.ty for x in f.results])
            init = MethodExpr(f, fty)
            self.feat.add('method-expression')
        else:
            fty = self.P.sig([p.ty for p in f.params[1:]], [x.ty for x in f.results])
            init = MVal(e, mn, fty)
            self.feat.add('method-value')
        v = self.newvar(cx, fty, 'f')
        v.readonly = True
        v.cost = f.cost + 2
        cx.add(v)
        return [Decl([v], [init])]

    def s_pointer(self, cx):
        w = [(e, t) for e, t in self.writables(cx) if is_simple(t) and self.type_pkg(t) <= cx.pkg]
        r = self.rng
        if w and r.random() < 0.7:
            e, t = r.choice(w)
            init = Addr(e)
        else:
            us = [s for s in self.ustructs() if s.pkg <= cx.pkg]
            t = ('named', r.choice(us)) if us and r.random() < 0.7 else tint(self.kind())
            if t[0] == 'named' and t[1].pkg > cx.pkg:
                t = INT
            init = New(self.leaf(cx, t, 1) if t[0] == 'named' else Zero(t))
        p = self.newvar(cx, ('ptr', t), 'p')
        p.readonly = True
        cx.add(p)
        self.feat.add('pointer')
        return [Decl([p], [init])]

    def s_iface(self, cx):
        r = self.rng
        ifs = [d for d in self.ifaces if d.pkg <= cx.pkg and self.flat_impls(cx, ('named', d))]
        if ifs and r.random() < 0.6:
            d = r.choice(ifs)
            ity = ('named', d)
            v = self.newvar(cx, ity, 'x')
            v.readonly = True
            init = self.iface_value(cx, ity)
            cx.add(v)
            return [Decl([v], [init])]
        anys = [v for v in cx.vars() if v.ty == 'any']
        if not anys or r.random() < 0.4:
            v = self.newvar(cx, 'any', 'y')
            v.readonly = True
            init = self.to_any(cx)
            cx.add(v)
            self.feat.add('any')
            return [Decl([v], [init])]
        a = r.choice(anys)
        t = r.choice([tint(self.kind()), STR, BOOL] + [('named', s) for s in self.structs if s.pkg <= cx.pkg and not self.needs_init(('named', s))])
        x, ok = self.newvar(cx, t), self.newvar(cx, BOOL, 'ok')
        cx.add(x)
        cx.add(ok)
        self.feat.add('assert-commaok')
        return [Decl([x, ok], [Assert(VarRef(a), t, True)])]

    def s_tswitch(self, cx):
        r = self.rng
        cands = [(e, t) for e, t in self.readables(cx) if t == 'any' or (isinstance(t, tuple) and t[0] == 'named' and t[1].kind == 'iface')]
        if cands and r.random() < 0.7:
            e, t = r.choice(cands)
        else:
            e, t = self.to_any(cx), 'any'
        if t == 'any':
            pool = [tint(k) for k in self.kinds] + [STR, BOOL] + [('named', s) for s in self.structs if s.pkg <= cx.pkg] + ['nil'] + \
                   [('named', d) for d in self.ifaces if d.pkg <= cx.pkg]
        else:
            pool = [x for x in t[1].impls if self.type_pkg(x) <= cx.pkg] + ['nil']
        r.shuffle(pool)
        rec = {'lbl': self.label(), 'kind': 'switch', 'used': False}
        cx.loops.append(rec)
        slot = self.P.slot()
        cases, xs = [], []
        bind = r.random() < 0.7
        n = r.randint(1, min(4, len(pool)))
        while n > 0 and pool:
            pats = [pool.pop()]
            if pool and r.random() < 0.2:
                pats.append(pool.pop())
            single = len(pats) == 1 and pats[0] != 'nil'
            vt = pats[0] if single else t
            x = Var(slot, 'b%d_%d' % (slot, len(cases)), vt)
            x.readonly = True
            x.maybe_nil = not single
            cx.push()
            if bind:
                cx.add(x)
            body = self.block(cx, r.randint(1, 2))
            cx.pop()
            cases.append(TCase(pats, body))
            xs.append(x)
            n -= 1
        if r.random() < 0.6:
            x = Var(slot, 'b%d_d' % slot, t)
            x.readonly = True
            x.maybe_nil = True
            cases.append(TCase([], self.block(cx, r.randint(1, 2)), default=True))
            xs.append(x)
        cx.loops.pop()
        self.feat.add('type-switch')
        return [TypeSwitch(rec['lbl'] if rec['used'] else '', xs if bind else None, e, cases)]

    def s_rangefunc(self, cx):
        r = self.rng
        k = tint(self.kind())
        two = r.random() < 0.4
        it = self.iterator(k, two)
        if not two and r.random() < 0.4:
            it = self.iterator_both(k)
        if it.pkg > cx.pkg:
            return None
        n = self.trips(cx)
        n = min(n, 8)
        if not self.affordable(cx, n * 8):
            return None
        cx.push()
        xs = [self.newvar(cx, INT if two else k, 'i')] + ([self.newvar(cx, k, 'e')] if two else [])
        for x in xs:
            x.readonly = True
            cx.add(x)
        body, lbl = self.loop_body(cx, n)
        cx.pop()
        self.feat.add('range-func')
        self.charge(cx, n * 5)
        return [RangeFunc(lbl, xs, Call(it, [IntLit(k, n)]), body, self.P)]

    def iterator(self, k, two):
        key = '_iter_%s_%d' % (k[1], two)
        if hasattr(self, key):
            return getattr(self, key)
        P = self.P
        yty = P.sig([INT, k] if two else [k], [BOOL])
        ity = P.sig([yty], [])
        f = Func('%sSeq%s%d' % (self.pfx, k[1], two), self.cur_pkg)
        n = Var(P.slot(), 'n', k)
        f.params = [n]
        f.results = [Var(P.slot(), 'r', ity)]
        lit = Func('lit', f.pkg)
        lit.is_lit = True
        y = Var(P.slot(), 'yield', yty)
        i = Var(P.slot(), 'i', k)
        c = Var(P.slot(), 'c', INT)
        lit.params = [y]
        args = [VarRef(c), Bin('mul', VarRef(i), IntLit(k, 3))] if two else [VarRef(i)]
        lit.body = [Decl([c], [IntLit(INT, 0)]),
                    For('', [Decl([i], [IntLit(k, 0)])], Bin('lt', VarRef(i), VarRef(n)), [OpAssign('add', VarRef(i), IntLit(k, 1), incdec=True)],
                        [If([], Un('not', CallV(VarRef(y), args)), [Return([])], []), OpAssign('add', VarRef(c), IntLit(INT, 1), incdec=True)], [i])]
        P.add_func(lit, printed=False)
        f.body = [Return([FuncLit(lit, ity)])]
        f.cost = 3
        f.pure = False
        P.add_func(f)
        setattr(self, key, f)
        return f


def _both(self, k):
    """func Both(n K) func(func(K) bool): an iterator built from two range-over-func loops over Seq (nested yields)"""
    key = '_both_%s' % k[1]
    if hasattr(self, key):
        return getattr(self, key)
    P = self.P
    seq = self.iterator(k, False)
    yty = P.sig([k], [BOOL])
    ity = P.sig([yty], [])
    f = Func('%sBoth%s' % (self.pfx, k[1]), max(self.cur_pkg, seq.pkg))
    n = Var(P.slot(), 'n', k)
    f.params, f.results = [n], [Var(P.slot(), 'r', ity)]
    lit = Func('lit', f.pkg)
    lit.is_lit = True
    y = Var(P.slot(), 'yield', yty)
    lit.params = [y]
    x1, x2 = Var(P.slot(), 'x', k), Var(P.slot(), 'x', k)
    l1 = RangeFunc('', [x1], Call(seq, [VarRef(n)]), [If([], Un('not', CallV(VarRef(y), [VarRef(x1)])), [Return([])], [])], P)
    l2 = RangeFunc('', [x2], Call(seq, [VarRef(n)]),
                   [If([], Bin('eq', Bin('rem', VarRef(x2), IntLit(k, 2)), IntLit(k, 1)), [Continue()], []),
                    If([], Un('not', CallV(VarRef(y), [Bin('add', VarRef(x2), IntLit(k, 100))])), [Return([])], [])], P)
    lit.body = [l1, l2]
    P.add_func(lit, printed=False)
    f.body = [Return([FuncLit(lit, ity)])]
    f.cost, f.pure = 3, False
    P.add_func(f)
    setattr(self, key, f)
    self.feat.add('range-func-nested-yield')
    return f


Gen.iterator_both = _both


def is_simple(t):
    u = under(t)
    if is_int(u) or u in (BOOL, STR):
        return True
    if isinstance(u, tuple) and u[0] == 'named':
        return u[1].kind == 'struct'
    if isinstance(u, tuple) and u[0] == 'arr':
        return is_simple(u[2])
    return False


NOCX = Cx(None, 0, 0)
