import LlgoVerif.Spec.PyShape
/-! REGENERATED on every run of ./check C19 from the -O0 IR llgo emits for the generated Python-using packages
    (harness/c19/gen.py, harness/c19/irfacts.py). Do not edit. -/
namespace LlgoVerif.Gen.C19
open LlgoVerif.PyGuard

def progs : List GenProg := [
  -- program c19s0p29086
  { main := 14,
    entry := [.pyInitialize, .rtInit, .runtimeInit, .mainInit, .mainMain],
    calls := [(11, .call (2, 0)), (11, .var (2, 2)), (11, .var (2, 3)), (11, .var (2, 4)), (11, .var (2, 5)), (11, .call (2, 1)), (11, .call (3, 0)), (11, .var (3, 2)), (11, .var (3, 3)), (11, .var (3, 4)), (11, .var (3, 5)), (11, .call (3, 1)), (11, .explicitImport 0), (11, .explicitImport 1), (12, .call (1, 0)), (12, .var (1, 2)), (12, .var (1, 3)), (12, .var (1, 4)), (12, .var (1, 5)), (12, .call (1, 1)), (12, .call (3, 0)), (12, .var (3, 2)), (12, .var (3, 3)), (12, .var (3, 4)), (12, .var (3, 5)), (12, .call (3, 1)), (12, .explicitImport 0), (12, .explicitImport 1), (13, .call (3, 0)), (13, .var (3, 2)), (13, .var (3, 3)), (13, .var (3, 4)), (13, .var (3, 5)), (13, .call (3, 1)), (13, .explicitImport 0), (13, .explicitImport 1), (14, .call (0, 0)), (14, .var (0, 2)), (14, .var (0, 3)), (14, .var (0, 4)), (14, .var (0, 5)), (14, .call (0, 1)), (14, .call (1, 0)), (14, .var (1, 2)), (14, .var (1, 3)), (14, .var (1, 4)), (14, .var (1, 5)), (14, .call (1, 1)), (14, .call (2, 0)), (14, .var (2, 2)), (14, .var (2, 3)), (14, .var (2, 4)), (14, .var (2, 5)), (14, .call (2, 1)), (14, .call (3, 0)), (14, .var (3, 2)), (14, .var (3, 3)), (14, .var (3, 4)), (14, .var (3, 5)), (14, .call (3, 1)), (14, .call (3, 0)), (14, .var (3, 2)), (14, .var (3, 3)), (14, .var (3, 4)), (14, .var (3, 5)), (14, .call (3, 1)), (14, .explicitImport 0), (14, .explicitImport 1)],
    facts := [
      -- c19s0p29086/vio
      { id := 0,
        toks := [.guardTest, .guardStore, .ret],
        inits := [], loadGroups := [],
        initUses := [],
        imp := none, fnUses := [], intrinsics := false },
      -- c19s0p29086/bh
      { id := 1,
        toks := [.guardTest, .guardStore, .guardedImport 4, .ret],
        inits := [], loadGroups := [],
        initUses := [],
        imp := some 4, fnUses := [], intrinsics := false },
      -- c19s0p29086/bops
      { id := 2,
        toks := [.guardTest, .guardStore, .guardedImport 5, .ret],
        inits := [], loadGroups := [],
        initUses := [],
        imp := some 5, fnUses := [], intrinsics := false },
      -- c19s0p29086/bblt
      { id := 3,
        toks := [.guardTest, .guardStore, .guardedImport 6, .ret],
        inits := [], loadGroups := [],
        initUses := [],
        imp := some 6, fnUses := [], intrinsics := false },
      -- c19s0p29086/bmath
      { id := 4,
        toks := [.guardTest, .guardStore, .guardedImport 7, .ret],
        inits := [], loadGroups := [],
        initUses := [],
        imp := some 7, fnUses := [], intrinsics := false },
      -- c19s0p29086/b0
      { id := 5,
        toks := [.guardTest, .guardStore, .guardedImport 0, .ret],
        inits := [], loadGroups := [],
        initUses := [],
        imp := some 0, fnUses := [], intrinsics := false },
      -- c19s0p29086/b1
      { id := 6,
        toks := [.guardTest, .guardStore, .guardedImport 1, .ret],
        inits := [], loadGroups := [],
        initUses := [],
        imp := some 1, fnUses := [], intrinsics := false },
      -- c19s0p29086/b2
      { id := 7,
        toks := [.guardTest, .guardStore, .guardedImport 2, .ret],
        inits := [], loadGroups := [],
        initUses := [],
        imp := some 2, fnUses := [], intrinsics := false },
      -- c19s0p29086/b3
      { id := 8,
        toks := [.guardTest, .guardStore, .guardedImport 3, .ret],
        inits := [], loadGroups := [],
        initUses := [],
        imp := some 3, fnUses := [], intrinsics := false },
      -- c19s0p29086/b3x
      { id := 9,
        toks := [.guardTest, .guardStore, .guardedImport 3, .ret],
        inits := [], loadGroups := [],
        initUses := [],
        imp := some 3, fnUses := [], intrinsics := false },
      -- c19s0p29086/vdump
      { id := 10,
        toks := [.guardTest, .guardStore, .callInit 0, .ret],
        inits := [0], loadGroups := [],
        initUses := [],
        imp := none, fnUses := [], intrinsics := false },
      -- c19s0p29086/u1
      { id := 11,
        toks := [.guardTest, .guardStore, .callInit 7, .callInit 8, .callInit 1, .callInit 10, .use (.call (2, 0)), .use (.call (3, 0)), .use (.explicitImport 1), .use (.call (4, 0)), .loadSyms 4 [1, 0], .loadSyms 2 [1, 0], .loadSyms 3 [1, 0], .ret],
        inits := [7, 8, 1, 10], loadGroups := [(4, [1, 0]), (2, [1, 0]), (3, [1, 0])],
        initUses := [.call (2, 0), .call (3, 0), .explicitImport 1, .call (4, 0)],
        imp := none, fnUses := [.call (2, 0), .var (2, 2), .call (4, 1), .var (2, 3), .var (2, 4), .var (2, 5), .call (2, 1), .call (3, 0), .var (3, 2), .var (3, 3), .var (3, 4), .var (3, 5), .call (3, 1), .explicitImport 0, .call (4, 0), .explicitImport 1], intrinsics := false },
      -- c19s0p29086/u2
      { id := 12,
        toks := [.guardTest, .guardStore, .callInit 6, .callInit 9, .callInit 1, .callInit 10, .use (.call (1, 0)), .use (.call (3, 0)), .loadSyms 4 [1, 0], .loadSyms 1 [1, 0], .loadSyms 3 [1, 0], .ret],
        inits := [6, 9, 1, 10], loadGroups := [(4, [1, 0]), (1, [1, 0]), (3, [1, 0])],
        initUses := [.call (1, 0), .call (3, 0)],
        imp := none, fnUses := [.call (1, 0), .var (1, 2), .call (4, 1), .var (1, 3), .var (1, 4), .var (1, 5), .call (1, 1), .call (3, 0), .var (3, 2), .var (3, 3), .var (3, 4), .var (3, 5), .call (3, 1), .explicitImport 0, .call (4, 0), .explicitImport 1], intrinsics := false },
      -- c19s0p29086/u3
      { id := 13,
        toks := [.guardTest, .guardStore, .callInit 8, .callInit 1, .callInit 10, .use (.call (3, 0)), .loadSyms 4 [1, 0], .loadSyms 3 [1, 0], .ret],
        inits := [8, 1, 10], loadGroups := [(4, [1, 0]), (3, [1, 0])],
        initUses := [.call (3, 0)],
        imp := none, fnUses := [.call (3, 0), .var (3, 2), .call (4, 1), .var (3, 3), .var (3, 4), .var (3, 5), .call (3, 1), .explicitImport 0, .call (4, 0), .explicitImport 1], intrinsics := false },
      -- c19s0p29086
      { id := 14,
        toks := [.guardTest, .guardStore, .callInit 1, .callInit 10, .callInit 0, .callInit 3, .callInit 4, .callInit 2, .callInit 11, .callInit 12, .callInit 13, .callInit 5, .callInit 6, .callInit 7, .callInit 8, .callInit 9, .use (.call (0, 0)), .loadSyms 6 [0, 1, 2, 3, 4, 5, 6, 7, 8], .loadSyms 7 [0, 1, 2, 3, 4, 5, 6, 7], .loadSyms 5 [0, 1, 2, 3, 4, 5, 6, 7, 8], .loadSyms 4 [2, 3, 4, 5, 6, 7, 8, 9, 10, 11, 12, 1, 0, 13], .loadSyms 0 [1, 0], .loadSyms 1 [1, 0], .loadSyms 2 [1, 0], .loadSyms 3 [1, 0], .ret],
        inits := [1, 10, 0, 3, 4, 2, 11, 12, 13, 5, 6, 7, 8, 9], loadGroups := [(6, [0, 1, 2, 3, 4, 5, 6, 7, 8]), (7, [0, 1, 2, 3, 4, 5, 6, 7]), (5, [0, 1, 2, 3, 4, 5, 6, 7, 8]), (4, [2, 3, 4, 5, 6, 7, 8, 9, 10, 11, 12, 1, 0, 13]), (0, [1, 0]), (1, [1, 0]), (2, [1, 0]), (3, [1, 0])],
        initUses := [.call (0, 0)],
        imp := none, fnUses := [.call (0, 0), .var (0, 2), .call (4, 1), .var (0, 3), .var (0, 4), .var (0, 5), .call (0, 1), .call (1, 0), .var (1, 2), .var (1, 3), .var (1, 4), .var (1, 5), .call (1, 1), .call (2, 0), .var (2, 2), .var (2, 3), .var (2, 4), .var (2, 5), .call (2, 1), .call (3, 0), .var (3, 2), .var (3, 3), .var (3, 4), .var (3, 5), .call (3, 1), .explicitImport 0, .call (4, 0), .explicitImport 1, .call (4, 5), .call (4, 6), .call (4, 7), .call (4, 8), .call (4, 9), .call (4, 10), .call (4, 11), .call (5, 7), .call (4, 12), .call (5, 8), .call (5, 0), .call (5, 2), .call (5, 4), .call (5, 1), .call (5, 6), .call (5, 5), .call (5, 3), .call (6, 5), .call (6, 1), .call (6, 2), .call (6, 0), .call (6, 6), .call (6, 3), .call (6, 7), .call (6, 4), .call (6, 8), .call (7, 3), .call (7, 0), .call (7, 1), .call (7, 7), .call (7, 2), .call (7, 4), .call (7, 5), .call (7, 6), .call (4, 2), .call (4, 13), .call (4, 3), .call (4, 4)], intrinsics := false }] }]

end LlgoVerif.Gen.C19
