"""Python side of the C19 batch program (also imported by the python3 oracle)."""
import struct
import sys


def cdump(x):
    """canonical dump; must agree with harness/c19/gosrc/vdump.go.txt and Driver/C19.lean `dump`"""
    if x is None:
        return "N"
    if x is True:
        return "T"
    if x is False:
        return "F"
    t = type(x)
    if t is int:
        return "i%d" % x
    if t is float:
        return "f%d" % struct.unpack("<Q", struct.pack("<d", x))[0]
    if t is str:
        try:
            b = x.encode("utf-8")
        except UnicodeEncodeError:
            return "s!"
        return "s" + (b.hex() or "-")
    if t is bytes:
        return "b" + (x.hex() or "-")
    if t is bytearray:
        return "a" + (x.hex() or "-")
    if t is list:
        return "l[" + ",".join(cdump(y) for y in x) + "]"
    if t is tuple:
        return "t(" + ",".join(cdump(y) for y in x) + ")"
    return "?" + t.__name__


def ident(x):
    return x


def pydump(x):
    return cdump(x)


def rep(*args):
    """what the callee received: the positional arguments, in order"""
    return cdump(args)


rep0 = rep1 = rep2 = rep3 = rep4 = rep5 = rep6 = repv = dup = rept = helper_rep = rep


globals().update({"sig%d" % _i: rep for _i in range(256)})      # one alias per two-signature case (gen.sig_cases)


def same(modname, attr, obj):
    """is obj the very object CPython resolves modname.attr to?"""
    m = sys.modules.get(modname)
    if m is None:
        return "nomod"
    try:
        want = getattr(m, attr)
    except AttributeError:
        return "noattr"
    return want is obj


def samemod(modname, obj):
    import importlib
    return importlib.import_module(modname) is obj and sys.modules.get(modname) is obj


def version():
    return "%d.%d.%d" % sys.version_info[:3]
