"""Generator of multi-package Go module trees for C12 (package initialisation order).

A tree has 2..8 packages numbered topologically (every import of p is < p):
  0        the tracer package (leaf):  func T(s string, v int) int { println(s, v); n++; return v }
  1..n-2   library packages with scrambled names (import-path order != topological order)
  n-1      package main (module root)
Every package has package-level variables declared OUT of dependency order, spread over several files whose
names scramble the file order, initialisers that reference other variables of the package (directly and hidden
behind functions), variables of imported packages, several `init` functions per file, blank imports, and
optionally one package that imports the patched std package sync/atomic.

Each trace line is `<pkg>.<entity> <value>`; the value is the constant of the entity plus the values of
everything it references, so a line also shows that its dependencies were initialised before it ran.

The generator also computes
  * `imports_order[p]`: go/types' Package.Imports() order = first occurrence scanning the files sorted by name
    (that is the order in which go/ssa emits the calls of the imports' initialisers) - input of the Lean model;
  * `spec_body[p]`: the lines of p's body according to the Go spec (repeatedly the earliest variable in declaration
    order that is ready; then init functions in file/declaration order) - cross-checked against the reference
    toolchain on every run (validation of this file, not part of the verdict).
"""

# observable uses of std packages whose initialisation matters (math/bits: the deBruijn tables are package-level
# variables filled in by math/bits.init; unicode/utf8: the `first` / `acceptRanges` tables): (import path, Go expression, value)
STD = [("math/bits", "bits.TrailingZeros32(8)", 3), ("math/bits", "bits.TrailingZeros64(1<<40)", 40),
       ("math/bits", "bits.TrailingZeros16(32)", 5), ("math/bits", "bits.TrailingZeros(64)", 6),
       ("math/bits", "bits.Len(255)", 8), ("math/bits", "bits.OnesCount(0xff)", 8),
       ("unicode/utf8", "utf8.RuneLen('\u00e9')", 2), ("unicode/utf8", "utf8.RuneCountInString(\"h\u00e9llo\")", 5)]

B_, U_ = "math/bits", "unicode/utf8"
# Fixed import structures (packages 1 … n-1; 0 is the tracer, the last one is main; "wf" = work-free).
LAYOUTS = {
    # main -> w1 -> w2 -> w3 -> base: base, math/bits and unicode/utf8 are reachable ONLY through three consecutive work-free packages
    "chain3": [{"deps": [], "std": [B_, U_]}, {"deps": [1], "wf": 1}, {"deps": [2], "wf": 1}, {"deps": [3], "wf": 1}, {"deps": [4]}],
    # one work-free level above b1 (math/bits only through it), two above b2 (unicode/utf8 only through them)
    "chain12": [{"deps": [], "std": [B_]}, {"deps": [1], "wf": 1}, {"deps": [], "std": [U_]}, {"deps": [3], "wf": 1}, {"deps": [4], "wf": 1},
                {"deps": [2, 5]}],
    # base only through a diamond made of work-free packages (two consecutive levels)
    "wfdiamond": [{"deps": []}, {"deps": [1], "wf": 1}, {"deps": [1], "wf": 1}, {"deps": [2, 3], "wf": 1}, {"deps": []}, {"deps": [4, 5]}],
    # work-free packages inside a diamond of ordinary ones; a work-free leaf without any import below another work-free package
    "mixed": [{"deps": [], "std": [B_]}, {"deps": [1], "wf": 1}, {"deps": [2]}, {"deps": [], "wf": 1}, {"deps": [4], "wf": 1, "std": [U_]},
              {"deps": [5, 2]}, {"deps": [3, 6], "std": [B_, U_]}],
    # std packages imported by main directly AND below one / two generated packages
    "stddirect": [{"deps": [], "std": [B_, U_]}, {"deps": [1], "wf": 1, "std": [B_]}, {"deps": [2], "std": [U_]}, {"deps": [3, 1], "std": [B_, U_]}],
}

NAMES = ["zeta", "alpha", "mid", "beta", "omega", "kilo", "delta", "echo", "yank", "bravo", "sierra", "able"]
FILES = ["a_first.go", "k_mid.go", "z_last.go", "b2.go", "y_9.go"]


class Ent:
    """a package-level variable or function"""

    def __init__(self, kind, idx, pkg):
        self.kind = kind        # 'var' | 'func'
        self.idx = idx
        self.pkg = pkg
        self.const = 0
        self.refs = []          # ('var'|'func', Ent) | ('xvar', Ent) | ('xw', Pkg) | ('std', index into STD) | ('atomic', Ent)
        self.traced = True      # variables may have a constant initialiser without a trace line
        self.file = 0

    @property
    def label(self):
        return "%s.%s%d" % (self.pkg.name, "V" if self.kind == "var" else "f", self.idx)

    @property
    def goname(self):
        return ("V%d" if self.kind == "var" else "F%d") % self.idx


class SVar:
    """a package-level STATE variable: constant-ish non-zero initialiser, no trace line of its own; the package's declared
    init functions assign constants to it (zero constants mostly: `S0 = 0`, `S1 = ""`, `S2 = false`, `S3 = nil`) and add
    its current value to the value they trace - so a trace line of an init function also shows that the assignments made
    by the init functions before it (and by itself) took effect after the variable initialisers.
    The value is kept as an int `level` (what `read()` evaluates to)."""
    KINDS = ["int", "str", "bool", "float", "ptr"]

    def __init__(self, pkg, k, kind, level, file):
        self.pkg, self.k, self.kind, self.v0, self.file = pkg, k, kind, level, file

    @property
    def goname(self):
        return "S%d" % self.k

    def lit(self, level):
        if self.kind == "int":
            return str(level)
        if self.kind == "str":
            return '"%s"' % ("x" * level)
        if self.kind == "bool":
            return "true" if level else "false"
        if self.kind == "float":
            return ("%d.%d" % (level // 2, 5 * (level % 2))) if level else "0"
        return "new(int)" if level else "nil"

    def rand_level(self, rng):
        return {"int": rng.randint(1, 9) * (10 ** rng.randint(0, 2)), "str": rng.randint(1, 5), "bool": 1, "float": rng.randint(1, 9), "ptr": 1}[self.kind]

    def read(self):
        return {"int": "%s", "str": "len(%s)", "bool": "tr.B(%s)", "float": "int(%s * 2)", "ptr": "tr.P(%s)"}[self.kind] % self.goname

    def decl(self):
        return "var %s = %s\n" % (self.goname, self.lit(self.v0))


class Init:
    def __init__(self, pkg, file, k):
        self.pkg, self.file, self.k = pkg, file, k
        self.const = 0
        self.refs = []
        self.pre, self.reads, self.post = [], [], []     # [(SVar, level)] assigned before the trace call, [SVar] read by it, assigned after it

    @property
    def label(self):
        return "%s.init.%s.%d" % (self.pkg.name, self.pkg.files[self.file][:-3], self.k)


class Pkg:
    def __init__(self, pid, name):
        self.id = pid
        self.name = name           # Go package name (and last path element)
        self.path = ""             # import path
        self.dir = ""              # directory relative to the module root
        self.deps = []             # ids of imported tree packages
        self.atomic = False        # imports sync/atomic
        self.workfree = False      # no package-level variable with an initialiser, no init function: only consts, types, funcs
        self.std = []              # std packages (of STD) this package uses
        self.w = None              # work-free package: its exported `func W() int`
        self.files = []            # file names
        self.vars, self.funcs, self.inits = [], [], []
        self.decl_order = {}       # file index -> list of Ent/Init in source order
        self.file_imports = {}     # file index -> list of (path, blank) in source order


class Tree:
    pass


def gen_tree(rng, mod, npk=None, atomic=None, layout=None, std=(), p_wf=0.3):
    """layout: optional list (packages 1 … n-1) of {"deps": [ids without the tracer], "wf": bool, "std": [paths]};
    otherwise random imports, every library package work-free with probability p_wf, and each path of `std` used
    by a package with probability 0.35."""
    n = (len(layout) + 1) if layout else (npk or rng.randint(2, 8))
    t = Tree()
    t.mod = mod
    names = rng.sample(NAMES, n - 2) if n > 2 else []
    pk = [Pkg(0, "tr")] + [Pkg(i + 1, nm) for i, nm in enumerate(names)] + [Pkg(n - 1, "main")]
    t.pkgs = pk
    for p in pk[1:-1]:
        p.dir = p.name if rng.random() < 0.7 else "deep/" + p.name
        p.path = mod + "/" + p.dir
    pk[0].dir, pk[0].path = "tr", mod + "/tr"
    pk[-1].dir, pk[-1].path = "", mod
    for p in pk[1:]:
        if layout:
            L = layout[p.id - 1]
            p.workfree = bool(L.get("wf")) and p.id != n - 1
            p.deps = ([] if p.workfree else [0]) + list(L.get("deps", []))
            p.std = list(L.get("std", []))
            continue
        cand = list(range(1, p.id))
        p.workfree = p.id != n - 1 and rng.random() < p_wf
        p.deps = ([] if p.workfree else [0]) + [q for q in cand if rng.random() < 0.55]
        if p.id == n - 1 and n > 2 and len(p.deps) == 1:
            p.deps.append(rng.choice(cand))
        p.std = [x for x in std if rng.random() < 0.35]
    if atomic is None:
        atomic = rng.random() < 0.5
    if atomic:
        rng.choice([p for p in pk[1:] if not p.workfree]).atomic = True
    # tracer
    tr = pk[0]
    tr.files = ["tr.go"]
    # entities
    def dep_ref(q):
        return ("xw", pk[q]) if pk[q].workfree else ("xvar", rng.choice(pk[q].vars))

    def std_refs(p, state, force=False):
        """references to the std packages of p; every path of p.std is used at least once in the package"""
        out = []
        for path in p.std:
            if path not in state or force or rng.random() < 0.3:
                state.add(path)
                out.append(("std", rng.choice([i for i, x in enumerate(STD) if x[0] == path])))
        return out

    for p in pk[1:]:
        nfile = rng.randint(1, 3)
        p.files = sorted(rng.sample(FILES, nfile))
        if p.workfree:
            w = Ent("wfunc", 0, p)
            w.const = rng.randint(1, 9) * (10 ** rng.randint(0, 2))
            w.file = rng.randrange(nfile)
            for q in p.deps:
                if rng.random() < 0.8:
                    w.refs.append(dep_ref(q))          # otherwise: blank import
            w.refs += std_refs(p, set(), force=True)
            rng.shuffle(w.refs)
            p.w = w
            p.svars = []
            fill = ["const K%d = %d\n" % (p.id, w.const), "type Box%d struct{ N int }\n\nfunc (b Box%d) Get() int { return b.N + K%d }\n" % (p.id, p.id, p.id),
                    "func Twice%d(x int) int { return 2 * x }\n" % p.id]
            for f in range(nfile):
                p.decl_order[f] = [w] if w.file == f else []
            for x in fill:
                lst = p.decl_order[rng.randrange(nfile)]
                lst.insert(rng.randint(0, len(lst)), x)
            ents = []
        nv, nf = (0, 0) if p.workfree else (rng.randint(1, 4), rng.randint(0, 2))
        p.vars = [Ent("var", k, p) for k in range(nv)]
        p.funcs = [Ent("func", k, p) for k in range(nf)]
        ents = p.vars + p.funcs
        rank = ents[:]
        rng.shuffle(rank)               # an entity may reference entities earlier in `rank` only (acyclic)
        used_atomic = False
        std_state = set()
        for r, e in enumerate(rank):
            e.const = rng.randint(1, 9) * (10 ** rng.randint(0, 2))
            e.file = rng.randrange(nfile)
            if e.kind == "var" and rng.random() < 0.12:
                e.traced = False        # `var V = 7`: no trace line, no references
                continue
            for o in rank[:r]:
                if rng.random() < 0.45:
                    e.refs.append((o.kind, o))
            for q in p.deps[1:]:
                if rng.random() < 0.5:
                    e.refs.append(dep_ref(q))
            e.refs += std_refs(p, std_state)
            if p.atomic and not used_atomic and e.kind == "var":
                cnt = Ent("var", 100 + p.id, p)      # `var cnt<N> int32`: declared, no initialiser; &cnt is a dependency
                cnt.traced, cnt.is_cnt, cnt.file = False, True, e.file
                p.cnt = cnt
                e.refs.append(("atomic", cnt))
                used_atomic = True
            rng.shuffle(e.refs)
        if p.atomic and not used_atomic:
            p.atomic = False
        if not p.workfree and any(x not in std_state for x in p.std):
            p.std = [x for x in p.std if x in std_state]      # every variable was a constant one: nothing uses it
        for f in range(nfile):
            for k in range(0 if p.workfree else rng.choice([0, 1, 1, 2, 3])):
                it = Init(p, f, k)
                it.const = rng.randint(1, 9)
                for o in ents:
                    if rng.random() < 0.3:
                        it.refs.append((o.kind, o))
                for q in p.deps[1:]:
                    if rng.random() < 0.3:
                        it.refs.append(dep_ref(q))
                p.inits.append(it)
        # state variables: reset / set by the declared init functions, read by them (see SVar)
        p.svars = []
        if p.inits and rng.random() < 0.9:
            for k in range(rng.randint(1, 4)):
                sv = SVar(p, k, rng.choice(SVar.KINDS), 0, rng.randrange(nfile))
                sv.v0 = sv.rand_level(rng)
                p.svars.append(sv)
            for it in p.inits:
                for sv in p.svars:
                    if rng.random() < 0.45:
                        it.pre.append((sv, 0 if rng.random() < 0.7 else sv.rand_level(rng)))
                    if rng.random() < 0.65:
                        it.reads.append(sv)
                    if rng.random() < 0.25:
                        it.post.append((sv, 0 if rng.random() < 0.6 else sv.rand_level(rng)))
        # source order inside each file: random interleaving of that file's declarations
        for f in range(nfile):
            if p.workfree:
                break
            decls = [e for e in ents if e.file == f] + [i for i in p.inits if i.file == f]
            if p.atomic and p.cnt.file == f:
                decls.append(p.cnt)
            inits_f = [d for d in decls if isinstance(d, Init)]
            rng.shuffle(decls)
            # init functions keep their relative numbering: re-insert them in k order at the shuffled positions
            pos = [i for i, d in enumerate(decls) if isinstance(d, Init)]
            for i, it in zip(pos, sorted(inits_f, key=lambda x: x.k)):
                decls[i] = it
            for sv in p.svars:
                if sv.file == f:
                    decls.insert(rng.randint(0, len(decls)), sv.decl())
            p.decl_order[f] = decls
        # imports per file (Go wants every import of a file used in that file)
        used_pk = set()
        for f in range(nfile):
            need, atomic_here = [], False
            for d in p.decl_order[f]:
                if isinstance(d, str):
                    continue
                if isinstance(d, Init) or (d.traced and d.kind != "wfunc"):
                    if pk[0].path not in need:
                        need.append(pk[0].path)
                for r in d.refs:
                    path = {"xvar": lambda: r[1].pkg.path, "xw": lambda: r[1].path, "std": lambda: STD[r[1]][0]}.get(r[0], lambda: None)()
                    if path and path not in need:
                        need.append(path)
                    if r[0] == "atomic":
                        atomic_here = True
            if p.id == n - 1 and f == 0 and pk[0].path not in need:
                need.append(pk[0].path)     # func main lives in the first file and traces
            if atomic_here:
                need.append("sync/atomic")
            rng.shuffle(need)
            p.file_imports[f] = [(x, False) for x in need]
            used_pk.update(need)
        for q in p.deps:
            if pk[q].path not in used_pk:
                f = rng.randrange(nfile)
                lst = p.file_imports[f]
                lst.insert(rng.randint(0, len(lst)), (pk[q].path, True))   # blank import: initialisation only
        # drop files that ended up empty (no declarations): their blank imports move to the first non-empty file
        keep = [f for f in range(nfile) if p.decl_order[f] or (p.id == n - 1 and f == 0)]
        if not keep:
            keep = [0]
        for f in range(nfile):
            if f not in keep:
                for imp in p.file_imports[f]:
                    if imp[0] not in [x[0] for x in p.file_imports[keep[0]]]:
                        p.file_imports[keep[0]].append((imp[0], True))
                p.file_imports[f] = []
        p.live_files = keep
    t.atomic = any(p.atomic for p in pk)
    t.stdpkgs = sorted(set(path for p in pk[1:] for f in p.file_imports for path, _ in p.file_imports[f]) - set(q.path for q in pk))
    t.files = render(t)
    t.imports_order = {p.id: imports_order(t, p) for p in pk}
    t.reachable = reach(t)
    t.spec_body = {p.id: spec_body(t, p) for p in pk}
    t.reset_observable = any(spec_body(t, p, lost_zero_stores=True) != t.spec_body[p.id] for p in pk if p.id in t.reachable)
    return t


def expr(p, const, refs):
    terms = [str(const)]
    for r in refs:
        if r[0] == "var":
            terms.append(r[1].goname)
        elif r[0] == "func":
            terms.append(r[1].goname + "()")
        elif r[0] == "xvar":
            terms.append(r[1].pkg.name + "." + r[1].goname)
        elif r[0] == "xw":
            terms.append(r[1].name + ".W()")
        elif r[0] == "std":
            terms.append(STD[r[1]][1])
        else:
            terms.append("int(atomic.AddInt32(&%s, 1))" % r[1].goname)
    return " + ".join(terms)


def render(t):
    files = {}      # relative to the tree's root directory; the batch writes go.mod (t.mod is the import path of the root)
    files["tr/tr.go"] = ("package tr\n\nvar n int\n\n// T traces one initialisation step.\n"
                         "func T(s string, v int) int { println(s, v); n++; return v }\n\n"
                         "func N() int { return n }\n\n// B, P: a bool / a pointer as a number.\nfunc B(b bool) int {\n\tif b {\n\t\treturn 1\n\t}\n\treturn 0\n}\n\n"
                         "func P(p *int) int {\n\tif p != nil {\n\t\treturn 1\n\t}\n\treturn 0\n}\n\nvar Ready = T(\"tr.Ready\", 1)\n\nfunc init() { T(\"tr.init\", 2) }\n")
    n = len(t.pkgs)
    for p in t.pkgs[1:]:
        for f in p.live_files:
            out = ["package %s\n" % p.name]
            imps = p.file_imports[f]
            if imps:
                out.append("import (")
                for path, blank in imps:
                    out.append('\t%s"%s"' % ("_ " if blank else "", path))
                out.append(")\n")
            for d in p.decl_order[f]:
                if isinstance(d, str):
                    out.append(d)
                elif d.kind == "wfunc" if isinstance(d, Ent) else False:
                    out.append("// W: this package has no package-level variable initialiser and no init function.\n"
                               "func W() int { return %s }\n" % expr(p, "K%d" % p.id, d.refs))
                elif isinstance(d, Init):
                    body = ["%s = %s" % (sv.goname, sv.lit(lv)) for sv, lv in d.pre]
                    body.append('tr.T("%s", %s)' % (d.label, " + ".join([expr(p, d.const, d.refs)] + [sv.read() for sv in d.reads])))
                    body += ["%s = %s" % (sv.goname, sv.lit(lv)) for sv, lv in d.post]
                    if len(body) == 1:
                        out.append("func init() { %s }\n" % body[0])
                    else:
                        out.append("func init() {\n\t%s\n}\n" % "\n\t".join(body))
                elif getattr(d, "is_cnt", False):
                    out.append("var %s int32\n" % d.goname)
                elif d.kind == "var":
                    if d.traced:
                        out.append('var %s = tr.T("%s", %s)\n' % (d.goname, d.label, expr(p, d.const, d.refs)))
                    else:
                        out.append("var %s = %d\n" % (d.goname, d.const))
                else:
                    out.append('func %s() int { return tr.T("%s", %s) }\n' % (d.goname, d.label, expr(p, d.const, d.refs)))
            if p.id == n - 1 and f == p.live_files[0]:
                out.append('func main() {\n\ttr.T("main.main", 0)\n\tprintln("count", tr.N())\n}\n')
            files[(p.dir + "/" if p.dir else "") + p.files[f]] = "\n".join(out)
    return files


def imports_order(t, p):
    """go/types Package.Imports(): first occurrence, files in name order, import decl order. -> list of import paths"""
    if p.id == 0:
        return []
    seen = []
    for f in sorted(p.live_files, key=lambda f: p.files[f]):
        for path, _ in p.file_imports[f]:
            if path not in seen:
                seen.append(path)
    return seen


def reach(t):
    byp = {p.path: p.id for p in t.pkgs}
    seen, todo = set(), [len(t.pkgs) - 1]
    while todo:
        x = todo.pop()
        if x in seen:
            continue
        seen.add(x)
        todo += [byp[q] for q in t.imports_order[x] if q in byp]
    return seen


# ------------------------------------------------------------------ the Go specification, per package
def value(e, memo):
    if e in memo:
        return memo[e]
    if isinstance(e, Ent) and not e.traced:
        memo[e] = e.const
        return e.const
    v = e.const
    for r in e.refs:
        if r[0] == "atomic":
            v += 1
        elif r[0] == "std":
            v += STD[r[1]][2]
        elif r[0] == "xw":
            v += value(r[1].w, memo)
        else:
            v += value(r[1], memo)
    memo[e] = v
    return v


def emit(e, memo, out, extra=0):
    """lines printed while evaluating e's expression (function calls in left-to-right order), then e's own line"""
    for r in e.refs:
        if r[0] == "func":
            emit(r[1], memo, out)
    out.append("%s %d" % (e.label, value(e, memo) + extra))


def var_deps(e, seen=None):
    """package-level variables of the same package that e's initialiser depends on (through functions too)"""
    seen = seen if seen is not None else set()
    out = set()
    for r in e.refs:
        if r[0] in ("var", "atomic"):
            out.add(r[1])
        elif r[0] == "func" and r[1] not in seen:
            seen.add(r[1])
            out |= var_deps(r[1], seen)
    return out


def spec_body(t, p, lost_zero_stores=False):
    """lost_zero_stores: what the body would print if assignments of zero constants made by init functions had no effect
    (used only to count the trees on which such a loss is observable)"""
    if p.id == 0:
        return ["tr.Ready 1", "tr.init 2"]
    memo = {}
    decl = []
    for f in sorted(p.live_files, key=lambda f: p.files[f]):
        decl += [d for d in p.decl_order[f] if isinstance(d, Ent) and d.kind == "var"]
    done, out = set(), []
    while len(done) < len(decl):
        for v in decl:
            if v not in done and all(d in done for d in var_deps(v)):
                done.add(v)
                if v.traced:
                    emit(v, memo, out)
                break
        else:
            raise RuntimeError("generator produced a cyclic initialisation")
    state = {sv: sv.v0 for sv in p.svars}
    for f in sorted(p.live_files, key=lambda f: p.files[f]):
        for d in p.decl_order[f]:
            if isinstance(d, Init):
                for sv, lv in d.pre:
                    if lv or not lost_zero_stores:
                        state[sv] = lv
                emit(d, memo, out, sum(state[sv] for sv in d.reads))
                for sv, lv in d.post:
                    if lv or not lost_zero_stores:
                        state[sv] = lv
    return out


def pkg_of_label(t, label):
    nm = label.split(".")[0]
    for p in t.pkgs:
        if p.name == nm:
            return p.id
    return None


def describe(t):
    return {"module": t.mod, "packages": [{"id": p.id, "path": p.path, "work_free": p.workfree, "imports_in_go_types_order": t.imports_order[p.id],
                                           "files": [p.files[f] for f in getattr(p, "live_files", [0])] if p.id else ["tr.go"]} for p in t.pkgs],
            "files": t.files}
