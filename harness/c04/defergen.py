"""Generator of defer LAYOUTS for C04.

A *case* is a small program: a list of functions, fns[0] is the root.  Function = {"kind": "plain"|"clo",
"nparams": n, "body": [stmt...]}.  Statements (JSON lists):

  ["defer", f, [args]]         defer Ff(args) / defer func(p0..){body of fns[f]}(args) when fns[f] is a closure
  ["call", f, [args]]          t := Ff(args); println("T", f, t)
  ["mark", m]                  println("M", m)
  ["panic", arg]               panic(arg)
  ["fault", "idx"|"map"|"div"] index out of range / nil map write / integer division by zero
  ["recover"]                  prt(recover())
  ["ret"]                      return
  ["set"|"add", up, var, arg]  var = arg / var += arg; up=1: the variable of the function that created this closure
  ["show", up, var]            println("V", code(var), var)
  ["if", cond, [then], [else]] if <cond> { } else { }      (cond: 0/1, read from a package-level variable; inside loops also
                               ["ieq", k] / ["oeq", k]: innermost / next enclosing loop variable == k)
  ["break", d] ["continue", d] d = 0: innermost loop, d = 1: labelled, the next enclosing loop
  ["for", n, [body]]           for i := 0; i < n; i++ { }  (n read through a package-level variable)
  ["rfor", n, [body]]          for v := range seq(n) { }   range-over-func: the body becomes a synthetic yield closure; its
                               defers go to the enclosing function's defer stack (Builder.DeferTo)

In the flattened events an extra `e` marks the end of the function's entry block (first if/for reached).

args: ["lit", n] | ["x"] | ["r"] | ["p", i] | ["i"] (innermost loop variable).

One Go program holds many cases; `main` reads a case index from stdin and runs that case only (fresh
process per case).  The same source is compiled by llgo (-O0, -O2) and by the reference toolchain.
`flatten` produces the executed path of every function (what the Lean interpreters run)."""
import json

TERMINATORS = ("panic", "ret", "break", "continue")


def cond_go(c, loopvars):
    if c in (0, 1):
        return "%s == 1" % ("one" if c else "zero")
    v = loopvars[-1] if c[0] == "ieq" else loopvars[-2]
    return "%s == zero+%d" % (v, c[1])


def cond_val(c, loopvals):
    if c in (0, 1):
        return bool(c)
    v = loopvals[-1] if c[0] == "ieq" else loopvals[-2]
    return v == c[1]


def uses_label(body, depth=0):
    """does the body of a loop contain a break/continue that targets this loop through a label (d == nesting depth)"""
    for s in body:
        if s[0] in ("break", "continue") and s[1] == depth and depth > 0:
            return True
        if s[0] == "if" and (uses_label(s[2], depth) or uses_label(s[3], depth)):
            return True
        if s[0] == "for" and uses_label(s[2], depth + 1):
            return True
    return False


# ----------------------------------------------------------------------------------------------- rendering
class Render:
    def __init__(self):
        self.lines = []
        self.defer_line = {}    # (case, fn index, stmt path) -> line
        self.gid = 0

    def emit(self, s):
        self.lines.append(s)

    def line_no(self):
        return len(self.lines) + 1


def arg_go(a, g, loopvars):
    k = a[0]
    if k == "lit":
        return str(a[1])
    if k == "x":
        return "x%d" % g
    if k == "r":
        return "r%d" % g
    if k == "p":
        return "p%d" % a[1]
    if k == "i":
        return loopvars[-1] if loopvars else "0"
    raise ValueError(a)


def render_case(R, ci, case):
    """emit all plain functions of the case; closures are emitted inline. Returns name of root."""
    fns = case["fns"]
    base = R.gid
    R.gid += len(fns)
    gids = [base + i for i in range(len(fns))]
    case["_gids"] = gids
    case["_dline"] = {}     # id(stmt) is not stable through json; use path tuples
    case["_fline"] = {}     # fn index -> source line of the function (declaration / func literal)
    loopctr = [0]

    def params(f):
        n = fns[f]["nparams"]
        return ", ".join("p%d int" % i for i in range(n))

    labels = []

    def fname(c):
        return "F%d%s" % (gids[c], "[int]" if fns[c].get("generic") else "")

    def body(f, stmts, ind, loopvars, path, parent):
        g = gids[f]
        pg = gids[parent] if parent is not None else g
        t = "\t" * ind
        for si, s in enumerate(stmts):
            p = path + (si,)
            k = s[0]
            if k == "defer":
                callee = s[1]
                args = ", ".join(arg_go(a, g, loopvars) for a in s[2])
                case["_dline"][(f,) + p] = R.line_no()
                if fns[callee]["kind"] == "clo":
                    cg = gids[callee]
                    case["_fline"][callee] = R.line_no()
                    R.emit("%sdefer func(%s) (r%d int) {" % (t, params(callee), cg))
                    prologue(callee, ind + 1)
                    body(callee, fns[callee]["body"], ind + 1, [], (), f)
                    R.emit("%s\treturn" % t)
                    R.emit("%s}(%s)" % (t, args))
                else:
                    R.emit("%sdefer %s(%s)" % (t, fname(callee), args))
            elif k == "call":
                args = ", ".join(arg_go(a, g, loopvars) for a in s[2])
                R.emit("%s{" % t)
                R.emit("%s\tt := %s(%s)" % (t, fname(s[1]), args))
                R.emit('%s\tprintln("T", %d, t)' % (t, s[1]))
                R.emit("%s}" % t)
            elif k == "mark":
                R.emit('%sprintln("M", %d)' % (t, s[1]))
            elif k == "panic":
                R.emit("%spanic(%s)" % (t, arg_go(s[1], g, loopvars)))
            elif k == "fault":
                if s[1] == "idx":
                    R.emit("%ssink = arr[one+4]" % t)
                elif s[1] == "map":
                    R.emit("%snilmap[one] = 2" % t)
                else:
                    R.emit("%ssink = one / zero" % t)
            elif k == "recover":
                R.emit("%sprt(recover())" % t)
            elif k == "ret":
                R.emit("%sreturn" % t)
            elif k in ("set", "add"):
                tg = pg if s[1] else g
                R.emit("%s%s%d %s %s" % (t, s[2], tg, "=" if k == "set" else "+=", arg_go(s[3], g, loopvars)))
            elif k == "show":
                tg = pg if s[1] else g
                R.emit('%sprintln("V", %d, %s%d)' % (t, 0 if s[2] == "x" else 1, s[2], tg))
            elif k == "if":
                R.emit("%sif %s {" % (t, cond_go(s[1], loopvars)))
                body(f, s[2], ind + 1, loopvars, p + (0,), parent)
                if s[3]:
                    R.emit("%s} else {" % t)
                    body(f, s[3], ind + 1, loopvars, p + (1,), parent)
                R.emit("%s}" % t)
            elif k == "for":
                loopctr[0] += 1
                lv = "i%d_%d" % (g, loopctr[0])
                lab = "L%d_%d" % (g, loopctr[0])
                if uses_label(s[2]):
                    R.emit("%s%s:" % (t[:-1], lab))
                labels.append(lab)
                R.emit("%sfor %s := 0; %s < zero+%d; %s++ {" % (t, lv, lv, s[1], lv))
                body(f, s[2], ind + 1, loopvars + [lv], p + (0,), parent)
                labels.pop()
                R.emit("%s}" % t)
            elif k in ("break", "continue"):
                R.emit("%s%s%s" % (t, k, "" if s[1] == 0 else " " + labels[-1 - s[1]]))
            elif k == "rfor":
                loopctr[0] += 1
                lv = "v%d_%d" % (g, loopctr[0])
                R.emit("%sfor %s := range seq(zero + %d) {" % (t, lv, s[1]))
                R.emit("%s\t_ = %s" % (t, lv))
                body(f, s[2], ind + 1, loopvars + [lv], p + (0,), parent)
                R.emit("%s}" % t)
            else:
                raise ValueError(s)

    def prologue(f, ind):
        g = gids[f]
        t = "\t" * ind
        R.emit("%svar x%d int" % (t, g))
        R.emit("%s_ = x%d" % (t, g))
        n = fns[f]["nparams"]
        R.emit('%sprintln("F", %d%s)' % (t, f, "".join(", p%d" % i for i in range(n))))

    for f, fn in enumerate(fns):
        if fn["kind"] != "plain":
            continue
        case["_fline"][f] = R.line_no()
        R.emit("func F%d%s(%s) (r%d int) {" % (gids[f], "[T any]" if fn.get("generic") else "", params(f), gids[f]))
        prologue(f, 1)
        body(f, fn["body"], 1, [], (), None)
        R.emit("\treturn")
        R.emit("}")
        R.emit("")
    return "F%d" % gids[0]


READER_LLGO = """//go:build llgo

package main

import _ "unsafe"

//go:linkname getchar C.getchar
func getchar() int32

func readIdx() int {
	c := getchar()
	for c == ' ' || c == '\\n' {
		c = getchar()
	}
	v := 0
	for c >= '0' && c <= '9' {
		v = v*10 + int(c-'0')
		c = getchar()
	}
	return v
}
"""

READER_GO = """//go:build !llgo

package main

import "os"

func readIdx() int {
	var b [32]byte
	n, _ := os.Stdin.Read(b[:])
	v := 0
	for _, c := range b[:n] {
		if c >= '0' && c <= '9' {
			v = v*10 + int(c-'0')
		}
	}
	return v
}
"""


def render_program(cases):
    """-> (files dict, cases annotated with _gids/_dline)"""
    R = Render()
    R.emit("// Code generated by /verif/harness/c04/defergen.py. DO NOT EDIT.")
    R.emit("package main")
    R.emit("")
    R.emit("var zero, one = 0, 1")
    R.emit("var arr = []int{1, 2}")
    R.emit("var nilmap map[int]int")
    R.emit("var sink int")
    R.emit("")
    R.emit("func seq(n int) func(func(int) bool) {")
    R.emit("\treturn func(yield func(int) bool) {")
    R.emit("\t\tfor i := 0; i < n; i++ {")
    R.emit("\t\t\tif !yield(i) {")
    R.emit("\t\t\t\treturn")
    R.emit("\t\t\t}")
    R.emit("\t\t}")
    R.emit("\t}")
    R.emit("}")
    R.emit("")
    R.emit("func prt(r any) {")
    R.emit("\tif v, ok := r.(int); ok {")
    R.emit('\t\tprintln("R", v)')
    R.emit("\t} else if r != nil {")
    R.emit('\t\tprintln("R", "rt")')
    R.emit("\t} else {")
    R.emit('\t\tprintln("R", "nil")')
    R.emit("\t}")
    R.emit("}")
    R.emit("")
    roots = []
    for ci, case in enumerate(cases):
        R.emit("// ---- case %d: %s" % (ci, case.get("name", "")))
        roots.append(render_case(R, ci, case))
    R.emit("func main() {")
    R.emit("\t_ = sink")
    R.emit("\tswitch readIdx() {")
    for ci, root in enumerate(roots):
        R.emit("\tcase %d:" % ci)
        R.emit("\t\tt := %s()" % root)
        R.emit('\t\tprintln("T", 0, t)')
    R.emit("\tdefault:")
    R.emit('\t\tprintln("bad index")')
    R.emit("\t}")
    R.emit("}")
    return {"main.go": "\n".join(R.lines) + "\n", "read_llgo.go": READER_LLGO, "read_go.go": READER_GO}


# ----------------------------------------------------------------------------------------------- facts -> layout
def defer_paths(fns, f):
    """all defer statements of function f in source order: [(path, stmt)]"""
    out = []

    def walk(stmts, path):
        for si, s in enumerate(stmts):
            p = path + (si,)
            if s[0] == "defer":
                out.append((p, s))
            elif s[0] == "if":
                walk(s[2], p + (0,))
                walk(s[3], p + (1,))
            elif s[0] in ("for", "rfor"):
                walk(s[2], p + (0,))
    walk(fns[f]["body"], ())
    return out


def parse_facts(text):
    """output of the kinds harness (see harness/c04/main.go) ->
    {"D": {line: (order, kind, clo, nargs, dom, cyc)}, "X": {line: (ownerline, clo, nargs)}, "L": {line: (order, clo, nargs)},
     "Z": {line}, "S": {fnline: {order...}}, "K": {fnline}, "I": {fnline}, "N": {fnline}, "Q": {fnline}}"""
    facts = {"D": {}, "X": {}, "L": {}, "Z": set(), "S": {}, "K": set(), "I": set(), "N": set(), "Q": set()}
    for ln in text.split("\n"):
        f = ln.split()
        if not f:
            continue
        if f[0] == "D" and len(f) == 9:
            facts["D"][int(f[3])] = (int(f[2]), f[4], int(f[5]), int(f[6]), int(f[7]), int(f[8]))
        elif f[0] == "X" and len(f) == 5:
            facts["X"][int(f[2])] = (int(f[1]), int(f[3]), int(f[4]))
        elif f[0] == "L" and len(f) == 6:
            facts["L"][int(f[3])] = (int(f[2]), int(f[4]), int(f[5]))
        elif f[0] == "Z" and len(f) == 3:
            facts["Z"].add(int(f[2]))
        elif f[0] == "S" and len(f) == 3:
            facts["S"].setdefault(int(f[1]), set()).add(int(f[2]))
        elif f[0] in ("K", "I", "N", "Q") and len(f) == 2:
            facts[f[0]].add(int(f[1]))
    return facts


def layouts(case, facts):
    """facts from the kinds harness (real cl/blocks + go/ssa), see parse_facts.
    -> (lay {fn: [stmt dict in layout order]}, index {(fn,)+path: k}, info {fn: {...}}, problems, kind_mismatches)
    info[fn] = {"entry": frame set up at entry, "implicit": implicit RunDefers, "dropped": [k...], "nodom": in-place frame
    set-up does not dominate, "inverted": compile order of the defer statements differs from their source order}

    A function that still evaluates ssa:deferstack() (K) is the OWNER of range-over-func defers: go/ssa gives every defer
    of it an explicit defer stack, llgo compiles all of them with DeferTo (loop cases of the owner, `x` entries) and the
    only replay statements are the drain points after the range-over-func calls (S; in the layout: loop statements that
    never execute). In an INSTANCE of a generic function the owner lookup fails: the function's own explicit-stack defers
    become ordinary loop statements (L) and those of its range-over-func bodies are dropped (Z). Otherwise the layout is
    the list of defer statements in compile order."""
    fns = case["fns"]
    lay, index, info, problems, mism = {}, {}, {}, [], []
    for f in range(len(fns)):
        ds = defer_paths(fns, f)
        fl = case["_fline"].get(f)
        inf = {"entry": 1 if fl in facts["K"] else 0, "implicit": 1 if fl in facts["I"] else 0, "dropped": [],
               "nodom": 1 if fl in facts["N"] else 0, "inverted": 0, "norun": 1 if fl in facts["Q"] else 0}
        info[f] = inf
        if inf["entry"]:
            slots = [(o, None) for o in facts["S"].get(fl, ())]
            ext = []
            for (p, s) in ds:
                line = case["_dline"].get((f,) + p)
                if line in facts["X"]:
                    ownerline, clo, nargs = facts["X"][line]
                    if ownerline != fl:
                        problems.append("defer at line %s: owner line %s != %s" % (line, ownerline, fl))
                    ext.append((p, s, clo, nargs, False))
                elif line in facts["L"]:
                    order, clo, nargs = facts["L"][line]
                    slots.append((order, (p, s, clo, nargs)))
                    continue
                elif line in facts["Z"]:
                    ext.append((p, s, 1 if fns[s[1]]["kind"] == "clo" else 0, len(s[2]), True))
                else:
                    problems.append("defer at line %s of an owner function not reported by the kinds harness" % line)
                    continue
                if ext[-1][3] != len(s[2]):
                    problems.append("nargs mismatch at line %s" % line)
            slots.sort(key=lambda x: x[0])
            if [o for o, _ in slots] != list(range(len(slots))):
                problems.append("replay statements of fn %d are not 0..n-1: %s" % (f, [o for o, _ in slots]))
            lay[f] = []
            for o, site in slots:
                if site is None:
                    lay[f].append({"kind": "loop", "clo": 0, "nargs": 0, "fn": 0})
                else:
                    p, s, clo, nargs = site
                    index[(f,) + p] = len(lay[f])
                    lay[f].append({"kind": "loop", "clo": clo, "nargs": nargs, "fn": s[1]})
            for (p, s, clo, nargs, dropped) in ext:
                index[(f,) + p] = len(lay[f])
                if dropped:
                    inf["dropped"].append(len(lay[f]))
                lay[f].append({"kind": "x", "clo": clo, "nargs": nargs, "fn": s[1]})
            continue
        rows = []
        for si, (p, s) in enumerate(ds):
            line = case["_dline"].get((f,) + p)
            fact = facts["D"].get(line)
            if fact is None:
                problems.append("defer at line %s not reported by the kinds harness (unreachable?)" % line)
                continue
            order, kind, clo, nargs, dom, cyc = fact
            if nargs != len(s[2]):
                problems.append("nargs mismatch at line %s" % line)
            # the classification against its definition: `loop` <=> the block lies on a cycle; `always` only for a block
            # that is passed on every path to every function end (return or explicit panic)
            if (kind == "loop") != (cyc == 1):
                mism.append({"line": line, "kind": kind, "on_cycle": cyc, "why": "loop-kind-iff-block-on-cycle"})
            elif kind == "always" and dom != 1:
                mism.append({"line": line, "kind": kind, "dominates_all_ends": dom, "why": "always-kind-block-does-not-dominate-every-function-end"})
            rows.append((order, kind, clo, nargs, s[1], (f,) + p, si))
        rows.sort()
        if [r[0] for r in rows] != list(range(len(rows))):
            problems.append("defer order of fn %d is not 0..n-1: %s" % (f, [r[0] for r in rows]))
        if [r[6] for r in rows] != sorted(r[6] for r in rows):
            inf["inverted"] = 1
        lay[f] = [{"kind": r[1], "clo": r[2], "nargs": r[3], "fn": r[4]} for r in rows]
        for k, r in enumerate(rows):
            index[r[5]] = k
    return lay, index, info, problems, mism


def has_up_r(fns, c):
    """does closure c reference the named result of its creator"""
    def walk(stmts):
        for s in stmts:
            if s[0] in ("set", "add") and s[1] and s[2] == "r":
                return True
            if s[0] == "show" and s[1] and s[2] == "r":
                return True
            if s[0] == "if" and (walk(s[2]) or walk(s[3])):
                return True
            if s[0] in ("for", "rfor") and walk(s[2]):
                return True
        return False
    return walk(fns[c]["body"])


def own_r_in_yield(fns, f):
    """does a range-over-func body of f mention f's named result (then the yield closure captures it)"""
    def mentions(stmts):
        for s in stmts:
            if s[0] in ("set", "add", "show") and not s[1] and s[2] == "r":
                return True
            if s[0] in ("set", "add") and not s[1] and s[3] == ["r"]:
                return True
            if s[0] in ("defer", "call") and ["r"] in s[2]:
                return True
            if s[0] == "panic" and s[1] == ["r"]:
                return True
            if s[0] == "if" and (mentions(s[2]) or mentions(s[3])):
                return True
            if s[0] in ("for", "rfor") and mentions(s[2]):
                return True
        return False

    def walk(stmts):
        for s in stmts:
            if s[0] == "rfor" and mentions(s[2]):
                return True
            if s[0] == "if" and (walk(s[2]) or walk(s[3])):
                return True
            if s[0] == "for" and walk(s[2]):
                return True
        return False
    return walk(fns[f]["body"])


def cap_r(fns, f):
    return own_r_in_yield(fns, f) or any(fns[s[1]]["kind"] == "clo" and has_up_r(fns, s[1]) for (_, s) in defer_paths(fns, f))


# ----------------------------------------------------------------------------------------------- flatten + encode
class _Stop(Exception):
    pass


class _Jump(Exception):
    def __init__(self, kind, d):
        self.kind, self.d = kind, d


def enc_arg(a, loopvals):
    k = a[0]
    if k == "lit":
        return "l%d" % a[1]
    if k == "x":
        return "x"
    if k == "r":
        return "r"
    if k == "p":
        return "p%d" % a[1]
    if k == "i":
        return "l%d" % (loopvals[-1] if loopvals else 0)
    raise ValueError(a)


def flatten(case, f, index):
    """executed path of function f as encoded events (conditions and loop counts are fixed by the case)"""
    fns = case["fns"]
    ev = []

    entry_end = [False]

    def walk(stmts, path, loopvals, in_yield=False):
        for si, s in enumerate(stmts):
            p = path + (si,)
            k = s[0]
            if k in ("if", "for") and not entry_end[0] and not in_yield:
                # the first branching statement ends the entry block: `getDefer` places `initDeferState` here
                # (deferInitBuilder appends to the END of block 0) unless the first compiled defer is DeferAlways
                entry_end[0] = True
                ev.append("e")
            if k == "defer":
                kk = index.get((f,) + p)
                if kk is None:
                    raise _Stop()
                ev.append(".".join(["d", str(kk)] + [enc_arg(a, loopvals) for a in s[2]]))
            elif k == "call":
                ev.append(".".join(["c", str(s[1])] + [enc_arg(a, loopvals) for a in s[2]]))
            elif k == "mark":
                ev.append("m.%d" % s[1])
            elif k == "panic":
                ev.append("p." + enc_arg(s[1], loopvals))
                raise _Stop()
            elif k == "fault":
                ev.append("f")
                raise _Stop()
            elif k == "recover":
                ev.append("R")
            elif k == "ret":
                ev.append("t")
                raise _Stop()
            elif k in ("set", "add"):
                ev.append("%s.%d.%s.%s" % ("s" if k == "set" else "a", 1 if s[1] else 0, s[2], enc_arg(s[3], loopvals)))
            elif k == "show":
                ev.append("w.%d.%s" % (1 if s[1] else 0, s[2]))
            elif k == "if":
                cv = cond_val(s[1], loopvals)
                walk(s[2] if cv else s[3], p + (0 if cv else 1,), loopvals, in_yield)
            elif k in ("break", "continue"):
                raise _Jump(k, s[1])
            elif k == "for":
                for i in range(s[1]):
                    try:
                        walk(s[2], p + (0,), loopvals + [i], in_yield)
                    except _Jump as j:
                        if j.d > 0:
                            raise _Jump(j.kind, j.d - 1)
                        if j.kind == "break":
                            break
            elif k == "rfor":
                # the body runs inside the call of the iterator (still in the caller's block); the checks of the exit
                # state that follow the call end the block
                for i in range(s[1]):
                    walk(s[2], p + (0,), loopvals + [i], True)
                if not entry_end[0] and not in_yield:
                    entry_end[0] = True
                    ev.append("e")
            else:
                raise ValueError(s)
    try:
        walk(fns[f]["body"], (), [])
    except _Stop:
        pass
    return ev


def history_not_wf(case, lay, index):
    """Is the executed order of the defer statements of some function NOT well formed w.r.t. its layout (Lemmas/Defer.lean
    `WF`: an earlier-executed statement comes earlier in the layout unless both lie in one run of loop statements)?
    Happens when cl/blocks orders a block that leaves a loop before the loop's own blocks."""
    fns = case["fns"]
    for f in range(len(fns)):
        ks = [int(e.split(".")[1]) for e in flatten(case, f, index) if e.startswith("d.")]
        kinds = [s["kind"] for s in lay[f]]
        if "x" in kinds:
            continue
        for a in range(len(ks)):
            for b in range(a + 1, len(ks)):
                k1, k2 = ks[a], ks[b]
                if k1 < k2:
                    continue
                if not all(kinds[j] == "loop" for j in range(k2, k1 + 1)):
                    return True
    return False


def encode(case, lay, index, info=None):
    fns = case["fns"]
    out = []
    for f in range(len(fns)):
        ss = ",".join("%s.%d.%d.%d" % (s["kind"][0], s["clo"], s["nargs"], s["fn"]) for s in lay[f])
        inf = (info or {}).get(f, {"entry": 0, "implicit": 0, "dropped": []})
        hdr = "%d%d%d%d" % (1 if cap_r(fns, f) else 0, inf["entry"], inf["implicit"], inf.get("norun", 0)) + "".join(".%d" % k for k in inf["dropped"])
        out.append("%s;%s;%s" % (hdr, ss, ",".join(flatten(case, f, index))))
    return "|".join(out)


# ----------------------------------------------------------------------------------------------- random layouts
def gen_case(rng, name=""):
    """one random case. Budget: ≤ 6 defer statements per function, call/defer nesting ≤ 3 below the root."""
    fns = []

    def new_fn(kind, nparams):
        fns.append({"kind": kind, "nparams": nparams, "body": []})
        return len(fns) - 1

    def rarg(f, in_loop, allow_r=True):
        c = rng.random()
        if in_loop and c < 0.5:
            return ["i"]
        if c < 0.55:
            return ["lit", rng.randint(0, 9)]
        if c < 0.75:
            return ["x"]
        if c < 0.9 and allow_r:
            return ["r"]
        if fns[f]["nparams"] > 0:
            return ["p", rng.randrange(fns[f]["nparams"])]
        return ["lit", rng.randint(10, 19)]

    def gen_deferred(parent, depth, in_loop):
        """-> (callee index, args)"""
        shape = rng.choice(["plain0", "plain0", "plain1", "plain2", "clo0", "clo0", "clo1"])
        nparams = int(shape[-1])
        kind = "clo" if shape.startswith("clo") else "plain"
        c = new_fn(kind, nparams)
        b = []
        if kind == "clo":
            # a closure must capture something, else it is an ordinary function
            b.append(rng.choice([["show", 1, "x"], ["add", 1, "r", ["lit", rng.randint(1, 5)]], ["show", 1, "r"], ["add", 1, "x", ["lit", 1]]]))
            if rng.random() < 0.35:
                b.append(rng.choice([["add", 1, "r", ["lit", 10]], ["set", 1, "r", ["lit", 40 + rng.randint(0, 9)]], ["show", 1, "r"]]))
        n_extra = rng.choice([0, 0, 1, 1, 2])
        for _ in range(n_extra):
            c2 = rng.random()
            if c2 < 0.30:
                b.append(["recover"])
            elif c2 < 0.42:
                b.append(["panic", ["lit", rng.randint(20, 29)]])
                break
            elif c2 < 0.50:
                b.append(["fault", rng.choice(["idx", "map", "div"])])
            elif c2 < 0.65 and depth < 3:
                g = gen_plain(depth + 1, called=True)
                b.append(["call", g, [["lit", rng.randint(0, 9)] for _ in range(fns[g]["nparams"])]])
            elif c2 < 0.75 and depth < 3:
                # its own deferred call (frames nest)
                d, a = gen_deferred(c, depth + 1, False)
                b.append(["defer", d, a])
            elif c2 < 0.85:
                b.append(["mark", rng.randint(50, 59)])
            else:
                b.append(["if", rng.randint(0, 1), [["recover"]], [["mark", 60]]])
        fns[c]["body"] = b
        args = [rarg(parent, in_loop) for _ in range(nparams)]
        return c, args

    def gen_plain(depth, called):
        f = new_fn("plain", rng.choice([0, 0, 1]) if called else 0)
        if depth > 0 and rng.random() < 0.12:
            fns[f]["generic"] = True
        ndef = rng.choice([0, 1, 1, 2, 2, 3, 3, 4, 5, 6]) if depth == 0 else rng.choice([0, 0, 1, 1, 2, 3])
        left = [ndef]

        def action(in_loop, top):
            c = rng.random()
            if c < 0.16:
                return ["mark", rng.randint(1, 9)]
            if c < 0.30:
                return [rng.choice(["set", "add"]), 0, rng.choice(["x", "r", "r"]), ["lit", rng.randint(1, 9)]]
            if c < 0.36:
                return ["show", 0, rng.choice(["x", "r"])]
            if c < 0.52 and depth < 3:
                g = gen_plain(depth + 1, called=True)
                return ["call", g, [["lit", rng.randint(0, 9)] for _ in range(fns[g]["nparams"])]]
            if c < 0.62:
                return ["panic", ["lit", rng.randint(1, 9)]]
            if c < 0.72:
                return ["fault", rng.choice(["idx", "map", "div"])]
            if c < 0.78:
                return ["recover"]
            if c < 0.84:
                return ["ret"]
            if c < 0.92:
                return ["if", rng.randint(0, 1), [rng.choice([["ret"], ["panic", ["lit", rng.randint(1, 9)]], ["mark", 30]])], []]
            return ["mark", rng.randint(10, 19)]

        def block(n_items, in_loop, top):
            out = []
            for _ in range(n_items):
                c = rng.random()
                if left[0] > 0 and c < 0.5:
                    left[0] -= 1
                    d, a = gen_deferred(f, depth + 1, in_loop)
                    out.append(["defer", d, a])
                elif left[0] > 0 and c < 0.62 and not in_loop:
                    out.append(["if", rng.randint(0, 1) if rng.random() < 0.8 else 1, block(rng.randint(1, 2), False, False), block(rng.randint(0, 1), False, False) if rng.random() < 0.3 else []])
                elif left[0] > 0 and c < 0.74 and not in_loop:
                    lb = block(rng.randint(1, 2), True, False)
                    r2 = rng.random()
                    if r2 < 0.25 and left[0] > 0:
                        # a defer in a block that leaves the loop, before the loop's other statements
                        left[0] -= 1
                        d, a = gen_deferred(f, depth + 1, True)
                        lb = [["if", ["ieq", rng.randint(0, 2)], [["defer", d, a], [rng.choice(["break", "continue"]), 0]], []]] + lb
                    elif r2 < 0.4 and left[0] > 0:
                        # a defer in the else branch inside the loop
                        left[0] -= 1
                        d, a = gen_deferred(f, depth + 1, True)
                        lb = [["if", ["ieq", 1], [["mark", 33]], [["defer", d, a]]]] + lb
                    out.append(["for", rng.randint(0, 3), lb])
                elif left[0] > 0 and c < 0.82 and not in_loop:
                    # range-over-func body: its defers go to this function's defer stack
                    rb = []
                    for _ in range(rng.randint(1, 2)):
                        if left[0] > 0:
                            left[0] -= 1
                            d, a = gen_deferred(f, depth + 1, True)
                            rb.append(["defer", d, a])
                        if rng.random() < 0.4:
                            rb.append(rng.choice([["mark", rng.randint(70, 79)], ["add", 0, "x", ["lit", 1]], ["add", 0, "r", ["lit", 1]]]))
                    if rng.random() < 0.2:
                        rb.append(["if", rng.randint(0, 1), [rng.choice([["fault", "idx"], ["panic", ["lit", rng.randint(1, 9)]]])], []])
                    out.append(["rfor", rng.randint(0, 3), rb])
                else:
                    s = action(in_loop, top)
                    out.append(s)
                    if s[0] in TERMINATORS:
                        break
            return out

        fns[f]["body"] = block(rng.randint(2, 7) if depth == 0 else rng.randint(1, 4), False, True)
        return f

    gen_plain(0, called=False)
    case = {"name": name, "fns": fns}
    if not toolchain_safe(case):
        return gen_case(rng, name)
    return case


def toolchain_safe(case):
    """Shapes the sandbox's toolchains cannot handle are not generated (both concern owners of range-over-func defers):
    * LLVM 14's code generator (the only LLVM here; llgo targets LLVM 19) crashes at -O2 on some owners whose drain loop
      dispatches over a closure-typed loop case and other cases (observed: `for v := range seq(2) { defer func(p int){..r..}(v) };
      defer func(){..x..}()`, and `for {defer F()}; for v := range seq(3) { defer func(){..x..}() }`): (also
      `for v := range seq(1) { defer F() }; defer func(){..r..}()`): an owner gets a closure callee only as its only defer site;
    * the reference toolchain go1.24.0 crashes ("fatal error: panic while printing panic value", SIGSEGV in the runtime)
      when a deferred call of such an owner recovers a panic and further deferred calls of the owner follow: the owner's
      deferred callees do not call recover() (a caller's deferred function may)."""
    fns = case["fns"]
    # * LLVM 14 with -opaque-pointers (what the sandbox has to use) mis-sinks stores: two defer statements in sibling
    #   branches whose LAST stored node field has the same index but a different offset - a closure callee with m >= 1
    #   arguments `{prev,id,{fn,ctx},a1..am}` and a plain callee with m+1 arguments `{prev,id,a1..am+1}` - get their last
    #   `store` merged into one `getelementptr` of ONE node type: the closure's context pointer is overwritten by the
    #   argument (nil dereference in the deferred closure at -O2; SimplifyCFG sinking compares GEPs without their source
    #   element type). A function never gets both shapes.
    for f in range(len(fns)):
        shapes = set((fns[s[1]]["kind"], len(s[2])) for (_, s) in defer_paths(fns, f))
        for (k, m) in shapes:
            if k == "clo" and m >= 1 and ("plain", m + 1) in shapes:
                return False

    def rfor_defer_sites(stmts, inside=False):
        n = 0
        for s in stmts:
            if s[0] == "defer" and inside and fns[s[1]]["kind"] == "clo":
                n += 1
            elif s[0] == "if":
                n += rfor_defer_sites(s[2], inside) + rfor_defer_sites(s[3], inside)
            elif s[0] == "for":
                n += rfor_defer_sites(s[2], inside)
            elif s[0] == "rfor":
                n += rfor_defer_sites(s[2], True)
        return n

    def recovers(stmts):
        for s in stmts:
            if s[0] == "recover":
                return True
            if s[0] == "if" and (recovers(s[2]) or recovers(s[3])):
                return True
            if s[0] in ("for", "rfor") and recovers(s[2]):
                return True
        return False

    def has_rfor_defer(stmts):
        for s in stmts:
            if s[0] == "rfor" and any(p for p in [1] if _contains_defer(s[2])):
                return True
            if s[0] == "if" and (has_rfor_defer(s[2]) or has_rfor_defer(s[3])):
                return True
            if s[0] == "for" and has_rfor_defer(s[2]):
                return True
        return False
    for f in range(len(fns)):
        if has_rfor_defer(fns[f]["body"]):
            sites = defer_paths(fns, f)
            nclo = sum(1 for (_, s) in sites if fns[s[1]]["kind"] == "clo")
            if nclo >= 1 and len(sites) > 1:
                return False
            if any(recovers(fns[s[1]]["body"]) for (_, s) in sites):
                return False
    return True


def _contains_defer(stmts):
    for s in stmts:
        if s[0] == "defer":
            return True
        if s[0] == "if" and (_contains_defer(s[2]) or _contains_defer(s[3])):
            return True
        if s[0] in ("for", "rfor") and _contains_defer(s[2]):
            return True
    return False


def enum_cases(max_stmts=3):
    """Systematic single-function layouts (thorough tier): every sequence of up to `max_stmts` defer statements, each at
    top level / inside a taken if / inside a skipped if / inside a for of 0 or 2 iterations, callee with or without an
    argument node, with a run-time fault before any statement, after the last one, or nowhere; called by a recovering root."""
    import itertools
    places = ["top", "ift", "iff", "for0", "for2"]
    out = []
    for n in range(1, max_stmts + 1):
        for combo in itertools.product(places, [0, 1], repeat=n):
            st = [(combo[2 * i], combo[2 * i + 1]) for i in range(n)]
            for fault_at in [None] + list(range(n + 1)):
                fns = [{"kind": "plain", "nparams": 0, "body": [["defer", 1, []], ["call", 2, []], ["mark", 1]]},
                       {"kind": "plain", "nparams": 0, "body": [["recover"]]},
                       {"kind": "plain", "nparams": 0, "body": []}]
                body = []
                for i, (place, na) in enumerate(st):
                    if fault_at == i:
                        body.append(["fault", "idx"])
                    fns.append({"kind": "plain", "nparams": na, "body": []})
                    c = len(fns) - 1
                    if place.startswith("for"):
                        d = ["defer", c, [["i"]] if na else []]
                        body.append(["for", int(place[3:]), [d]])
                    else:
                        d = ["defer", c, [["lit", 7 + i]] if na else []]
                        if place == "top":
                            body.append(d)
                        else:
                            body.append(["if", 1 if place == "ift" else 0, [d], []])
                if fault_at == n:
                    body.append(["fault", "idx"])
                fns[2]["body"] = body
                out.append({"name": "enum-%s-%s" % ("".join("%s%d." % x for x in st), fault_at), "fns": fns})
    return out


def _root3(body_fn, extra):
    """recovering root + the function under test (index 2) + its callees"""
    return [{"kind": "plain", "nparams": 0, "body": [["defer", 1, []], ["call", 2, []], ["mark", 1]]},
            {"kind": "plain", "nparams": 0, "body": [["recover"]]},
            {"kind": "plain", "nparams": 0, "body": body_fn}] + extra


def enum_rangefunc(max_items=3):
    """Owner functions of range-over-func defers: sequences of own defers, ordinary loop defers and range-over-func loops
    that defer (one or two sites, plain or closure callee), every defer site with its OWN callee so that a mis-dispatched
    loop case is visible; with and without a run-time fault at the end."""
    import itertools
    items = ["own0", "own1", "loop", "rf1", "rf2", "rf0"]      # closure callees: see toolchain_safe
    out = []
    for n in range(2, max_items + 1):
        for combo in itertools.product(items, repeat=n):
            if not any(c.startswith("rf") for c in combo):
                continue
            for fault in (0, 1):
                extra, body = [], []

                def callee(kind, nparams, b=None):
                    extra.append({"kind": kind, "nparams": nparams, "body": b or []})
                    return 2 + len(extra)
                for j, it in enumerate(combo):
                    if it == "own0":
                        body.append(["defer", callee("plain", 0), []])
                    elif it == "own1":
                        body.append(["defer", callee("plain", 1), [["lit", 40 + j]]])
                    elif it == "loop":
                        body.append(["for", 2, [["defer", callee("plain", 1), [["i"]]]]])
                    elif it == "rf1":
                        body.append(["rfor", 2, [["defer", callee("plain", 1), [["i"]]]]])
                    elif it == "rf2":
                        body.append(["rfor", 2, [["defer", callee("plain", 1), [["i"]]], ["mark", 70 + j], ["defer", callee("plain", 2), [["i"], ["lit", 5]]]]])
                    elif it == "rfc":
                        body.append(["rfor", 2, [["add", 0, "x", ["lit", 1]], ["defer", callee("clo", 1, [["show", 1, "x"]]), [["i"]]]]])
                    elif it == "rf0":
                        body.append(["rfor", 0, [["defer", callee("plain", 1), [["i"]]]]])
                if fault:
                    body.append(["fault", "idx"])
                out.append({"name": "rf-%s-%d" % (".".join(combo), fault), "fns": _root3(body, extra)})
    return out


def enum_panic_branch():
    """Straight-line code with a conditional explicit panic / run-time fault / early return between defer statements:
    `defer D1(..); if bad { panic(..) }; mark; defer D2(..); return` — with an explicit panic (or return) in the branch the
    last block is NOT the function's only end, so D2 must not be of kind `always`; branch taken and not taken."""
    out = []
    shapes = {"p0": ("plain", 0, []), "p1": ("plain", 1, []), "clo": ("clo", 0, [["show", 1, "x"]])}
    for d1 in shapes:
        for d2 in shapes:
            for br in ("panic", "fault", "ret"):
                for taken in (0, 1):
                    extra = []

                    def mk(sh):
                        k, n, b = shapes[sh]
                        extra.append({"kind": k, "nparams": n, "body": list(b)})
                        return 2 + len(extra), [["lit", 7 + len(extra)]] * n
                    c1, a1 = mk(d1)
                    c2, a2 = mk(d2)
                    inner = {"panic": ["panic", ["lit", 5]], "fault": ["fault", "map"], "ret": ["ret"]}[br]
                    body = [["set", 0, "x", ["lit", 3]], ["defer", c1, a1], ["if", taken, [inner], []], ["mark", 2], ["defer", c2, a2], ["mark", 3]]
                    out.append({"name": "pb-%s-%s-%s-%d" % (d1, d2, br, taken), "fns": _root3(body, extra)})
    return out


def enum_loop_exit():
    """Defers in blocks that LEAVE a loop (break / labelled break / labelled continue), next to defers that stay in the loop,
    at every nesting level: cl/blocks orders a loop-exit block before the loop's own blocks, so the compile order of the
    defer statements differs from their source order."""
    out = []
    for jump in (["break", 0], ["break", 1], ["continue", 1], ["continue", 0]):
        for bd in ("none", "p0", "p1"):
            for outer_defer in (0, 1):
                for hit in (1, 5):        # 5: the condition never holds
                    for post in (0, 1):
                        extra = []

                        def callee(n):
                            extra.append({"kind": "plain", "nparams": n, "body": []})
                            return 2 + len(extra)
                        exit_blk = []
                        if bd == "p0":
                            exit_blk.append(["defer", callee(0), []])
                        elif bd == "p1":
                            exit_blk.append(["defer", callee(1), [["i"]]])
                        exit_blk.append(list(jump))
                        if jump[1] == 1:
                            inner = [["if", ["ieq", hit], [["if", ["oeq", 1], exit_blk, []]], []],
                                     ["if", ["ieq", 1], [["defer", callee(1), [["i"]]]], []]]
                            loop = [["for", 3, inner]]
                            if outer_defer:
                                loop.append(["defer", callee(1), [["i"]]])
                            body = [["for", 3, loop]]
                        else:
                            inner = [["if", ["ieq", hit], exit_blk, []], ["defer", callee(1), [["i"]]]]
                            body = [["for", 3, inner]]
                            if outer_defer:
                                body = [["defer", callee(0), []]] + body
                        if post:
                            body.append(["defer", callee(1), [["lit", 77]]])
                        out.append({"name": "lx-%s%d-%s-%d-%d-%d" % (jump[0], jump[1], bd, outer_defer, hit, post), "fns": _root3(body, extra)})
    return out


def enum_else_loop():
    """A loop whose else-branch (or then-branch) defers, followed by post-loop defers: when the post-loop block is the
    function's only end its defer is `always` and may be compiled BEFORE the off-cycle loop block."""
    out = []
    for branch in ("else", "then"):
        for post in ("none", "p0", "p1", "clo"):
            for other in ("mark", "defer"):
                for pre in (0, 1):
                    extra = []

                    def callee(kind, n, b=None):
                        extra.append({"kind": kind, "nparams": n, "body": b or []})
                        return 2 + len(extra)
                    d = [["defer", callee("plain", 1), [["i"]]]]
                    o = [["mark", 4]] if other == "mark" else [["defer", callee("plain", 1), [["lit", 50]]]]
                    body = []
                    if pre:
                        body.append(["defer", callee("plain", 0), []])
                    body.append(["for", 4, [["if", ["ieq", 1], o, d] if branch == "else" else ["if", ["ieq", 1], d, o]]])
                    if post == "p0":
                        body.append(["defer", callee("plain", 0), []])
                    elif post == "p1":
                        body.append(["defer", callee("plain", 1), [["lit", 0]]])
                    elif post == "clo":
                        body.append(["defer", callee("clo", 0, [["show", 1, "x"]]), []])
                    out.append({"name": "el-%s-%s-%s-%d" % (branch, post, other, pre), "fns": _root3(body, extra)})
    return out


def enum_generic(max_items=2):
    """Instances of GENERIC functions containing every defer shape (own, conditional, loop, range-over-func with one and two
    sites), deferred callees generic too; with and without a final fault."""
    import itertools
    items = ["own0", "own1", "cond", "loop", "rf1", "rf2"]
    out = []
    for n in range(1, max_items + 1):
        for combo in itertools.product(items, repeat=n):
            for fault in (0, 1):
                extra, body = [], []

                def callee(nparams):
                    extra.append({"kind": "plain", "nparams": nparams, "body": [], "generic": len(extra) % 2 == 0})
                    return 2 + len(extra)
                for j, it in enumerate(combo):
                    if it == "own0":
                        body.append(["defer", callee(0), []])
                    elif it == "own1":
                        body.append(["defer", callee(1), [["lit", 40 + j]]])
                    elif it == "cond":
                        body.append(["if", 1, [["defer", callee(1), [["lit", 60 + j]]]], []])
                    elif it == "loop":
                        body.append(["for", 2, [["defer", callee(1), [["i"]]]]])
                    elif it == "rf1":
                        body.append(["rfor", 2, [["defer", callee(1), [["i"]]]]])
                    elif it == "rf2":
                        body.append(["rfor", 2, [["defer", callee(1), [["i"]]], ["mark", 70 + j], ["defer", callee(2), [["i"], ["lit", 5]]]]])
                if fault:
                    body.append(["fault", "idx"])
                fns = _root3(body, extra)
                fns[2]["generic"] = True
                out.append({"name": "gn-%s-%d" % (".".join(combo), fault), "fns": fns})
    return out


def enum_cond64(sizes=(62, 63, 64), patterns=("all", "last", "first", "alt"), faults=(0, 1)):
    """The limit of the conditional-defer bit set: functions with 62, 63 and 64 (the maximum) conditional defers
    `if c_i { defer F_i(..) }`, every one with its own id (argument = i; every 7th without arguments, every 11th a closure),
    with all / only the last / only the first / every other condition true, with and without a final fault."""
    out = []
    for n in sizes:
        for pat in patterns:
            for fault in faults:
                extra, body = [], []
                extra.append({"kind": "plain", "nparams": 1, "body": []})      # shared callee with the id as argument
                shared = 3
                for i in range(n):
                    on = {"all": 1, "last": int(i == n - 1), "first": int(i == 0), "alt": i % 2}[pat]
                    if i % 11 == 5:
                        extra.append({"kind": "clo", "nparams": 0, "body": [["show", 1, "x"]]})
                        d = ["defer", 2 + len(extra), []]
                    elif i % 7 == 3:
                        extra.append({"kind": "plain", "nparams": 0, "body": []})
                        d = ["defer", 2 + len(extra), []]
                    else:
                        d = ["defer", shared, [["lit", 100 + i]]]
                    body.append(["if", on, [d], []])
                body.append(["set", 0, "x", ["lit", 9]])
                if fault:
                    body.append(["fault", "div"])
                out.append({"name": "c64-%d-%s-%d" % (n, pat, fault), "fns": _root3(body, extra)})
    return out


def count_defers(case):
    return sum(len(defer_paths(case["fns"], f)) for f in range(len(case["fns"])))


def dumps(case):
    return json.dumps({"name": case.get("name", ""), "fns": case["fns"]}, separators=(",", ":"))
