"""C04 — defer, panic, recover (and Goexit) follow Go's ordering rules.

Lean: LlgoVerif/Model/Defer.lean (transcription of ssa/eh.go + runtime Defer frames), Spec/DeferSem.lean (Go's
rule as a stack machine), Lemmas/Defer.lean, Props/C04.lean.

Tie (B-E + B-I): generated defer LAYOUTS (harness/c04/defergen.py) are printed as ONE Go program;
  * the kinds harness (harness/c04/main.go, built against the working tree with -tags llvm14) runs go/ssa and the
    REAL cl/blocks.Infos on the generated source and reports kind / closure / nargs / compile order of every defer
    statement — this is the static layout the model gets;
  * llgo built from the working tree compiles the program at -O0 and -O2; every layout runs in a fresh process;
  * `modeld_c04` runs the Lean model (must reproduce llgo's output exactly, defects included) and the Lean spec;
  * the reference toolchain (`go build` of the same source) validates the spec.
Verdict per layout: llgo != go-reference  =>  the property fails on the real code  =>  ctx.report(class key) when the
model reproduces llgo's output and names a known defect class, otherwise VIOLATION with the layout as replay."""
import importlib.util
import json
import os
import re
import time

from vlib.common import *
from vlib.common import run as sh
from vlib import e2e

_spec = importlib.util.spec_from_file_location("defergen", os.path.join(VERIF, "harness", "c04", "defergen.py"))
dg = importlib.util.module_from_spec(_spec)
_spec.loader.exec_module(dg)

FUEL = 24
# defect classes, by priority of the flag raised while the Lean interpreters run the layout
CLASS = [
    ("frameInitSkipped", "defer:frame-setup-in-place-does-not-dominate-earlier-defers"),
    ("droppedDefer", "defer:rangefunc-defers-dropped-in-generic-instance"),
    ("wrongNode", "defer:unexecuted-defer-pops-wrong-node"),
    ("unexecAlways", "defer:unexecuted-always-defer-runs"),
    ("drainOrder", "defer:nodeless-defer-between-loop-defers"),
    ("staleFrame", "defer:stale-frame-after-panic-in-last-replayed-call"),
    ("regResult", "defer:named-result-in-register-reverts-after-longjmp-O2"),
    ("resultBeforeRun", "defer:rangefunc-owner-returns-results-read-before-implicit-rundefers"),
    ("nestedRecover", "defer:recovered-nested-panic-clears-outer-panic"),
    ("recoverIndirect", "defer:recover-not-called-directly-recovers"),
]


def canon_real(stderr, rc):
    """(status, trace) of a compiled program's run. Only what the property fixes: the printed lines, whether the
    process ended with an uncaught panic and its value (ints only; every run-time error is `-1`)."""
    trace = []
    lines = stderr.split("\n")
    pv = None
    for i, ln in enumerate(lines):
        if ln.startswith("panic: ") or ln.startswith("fatal error") or ln.startswith("goroutine ") or ln.startswith("[signal"):
            rest = "\n".join(lines[i:])
            vals = re.findall(r"panic: ([^\n]*)", rest)
            pv = -1
            if vals:
                v = re.sub(r"\s*\[recovered.*$", "", vals[-1].strip())
                m = re.fullmatch(r"-?\d+", v)
                if m:
                    pv = int(v)
            break
        ln = ln.strip()
        if not ln:
            continue
        if ln == "R nil":
            trace.append("Rnil")
        elif ln == "R rt":
            trace.append("R.-1")
        else:
            trace.append(".".join(ln.split()))
    if rc == 0 and pv is None:
        status = "ok"
    elif rc == 2 and pv is not None:
        status = "U:%d" % pv
    else:
        status = "crash:%s" % rc
    return status, "|".join(trace) if trace else "-"


def parse_answer(ans):
    p = ans.split(" ")
    if len(p) != 3:
        return ("bad:" + ans, [], "-")
    return (p[0], [] if p[1] == "-" else p[1].split(","), p[2])


def agrees(model, real):
    """model answer (status, flags, trace) vs real (status, trace); `ub` = the model cannot predict beyond this point"""
    ms, _, mt = model
    rs, rt = real
    if ms == "ub":
        if mt == "-":
            return True
        return rt == mt or rt.startswith(mt + "|") or (rt + "|").startswith(mt + "|")
    return ms == rs and mt == rt


def _cpu_seconds(pid):
    try:
        f = open("/proc/%d/stat" % pid).read().rsplit(")", 1)[1].split()
        return (int(f[11]) + int(f[12])) / float(os.sysconf("SC_CLK_TCK"))
    except Exception:
        return 0.0


def run_case(binary, idx, cpu_limit=1.5, wall_limit=300):
    """Run one layout in a fresh process. A layout needs milliseconds; undefined behaviour can loop forever, so the run is
    cut when the process has BURNT `cpu_limit` seconds of CPU (not wall time: the machine may be busy) and what it printed
    so far is kept. (llgo binaries are single-threaded; the reference binary gets a far higher limit because the idle
    threads of Go's scheduler accumulate CPU time on a busy machine.)"""
    import subprocess
    import tempfile
    with tempfile.TemporaryFile() as ef:
        p = subprocess.Popen([binary], stdin=subprocess.PIPE, stdout=subprocess.DEVNULL, stderr=ef)
        try:
            p.stdin.write(("%d\n" % idx).encode())
            p.stdin.close()
        except OSError:
            pass
        t0 = time.time()
        while True:
            try:
                rc = p.wait(timeout=0.05)
                break
            except subprocess.TimeoutExpired:
                if _cpu_seconds(p.pid) >= cpu_limit or time.time() - t0 > wall_limit:
                    p.kill()
                    p.wait()
                    rc = "timeout"
                    break
        ef.seek(0)
        se = ef.read(200000).decode("utf-8", "replace")
    return canon_real(se, rc)


def load_corpus():
    d = os.path.join(VERIF, "corpus", "C04")
    out = []
    if os.path.isdir(d):
        for fn in sorted(os.listdir(d)):
            if fn.endswith(".json"):
                c = json.load(open(os.path.join(d, fn)))
                c["name"] = "corpus/" + fn[:-5]
                out.append(c)
    return out


def kinds_facts(ctx, kinds_bin, d):
    """run the kinds harness on a rendered program; `ctx.inst_fix`: the working tree treats instances of generic functions
    as owners of their range-over-func defers (fixes/C04-2.diff), the harness mirrors that variant of the owner lookup"""
    env = dict(os.environ)
    env["VP04_INSTANCE_OWNER"] = "1" if getattr(ctx, "inst_fix", 0) else "0"
    p = sh([kinds_bin, os.path.join(d, "main.go"), os.path.join(d, "read_llgo.go")], env=env)
    if p.returncode != 0:
        raise HarnessBuildError("kinds harness failed on the generated program:\n" + (p.stdout + p.stderr)[-3000:])
    return dg.parse_facts(p.stdout)


class BackendCrash(Exception):
    pass


class NoDom(Exception):
    """layouts with a function whose in-place frame set-up does not dominate its other defer statements (kinds harness: N)"""


def _is_backend_crash(text):
    """llgo died inside LLVM 14's code generator (cgo call), not in its own Go code"""
    return "signal arrived during cgo execution" in text and "_Cfunc_LLVM" in text


def isolate_backend_crash(ctx, cases, opt):
    """bisect the layouts whose code crashes LLVM 14 (the sandbox's LLVM; llgo targets LLVM 19) -> list of cases"""
    bad, work = [], [list(cases)]
    n = 0
    while work and n < 40:
        cur = work.pop()
        n += 1
        d = os.path.join(ctx.scratch, "bisect")
        shutil.rmtree(d, ignore_errors=True)
        e2e.write_module(d, dg.render_program([{"name": c["name"], "fns": c["fns"]} for c in cur]), modname="verifdefer")
        b = e2e.llgo_build(ctx, d, os.path.join(d, "x"), opt)
        if b.returncode == 0:
            continue
        if len(cur) == 1:
            bad.append(cur[0])
            continue
        h = len(cur) // 2
        work += [cur[:h], cur[h:]]
    return bad


def build_batch(ctx, tag, cases, kinds_bin, want_ref=True, opts=("-O0", "-O2"), allow_nodom=False):
    """render, classify with the real cl/blocks, compile with llgo -O0/-O2 and the reference toolchain.
    Layouts on which LLVM 14's code generator crashes are dropped from `cases` (in place) and listed in the evidence."""
    for attempt in range(4):
        try:
            return _build_batch(ctx, tag, cases, kinds_bin, want_ref, opts, allow_nodom)
        except NoDom as e:
            for c in e.args[0]:
                cases.remove(c)
                ctx.nodom_cases.append({"name": c["name"], "fns": c["fns"]})
        except BackendCrash as e:
            opt = e.args[0]
            bad = isolate_backend_crash(ctx, cases, opt)
            if not bad:
                raise HarnessBuildError("llgo build %s crashed in the LLVM backend and no single layout reproduces it" % opt)
            for c in bad:
                ctx.log("LLVM 14 backend crash at %s on layout %s: dropped (sandbox toolchain, not judged)" % (opt, c["name"]))
                ctx.coverage.setdefault("llvm14_backend_crashes", []).append({"opt": opt, "layout": dg.dumps(c)})
                cases.remove(c)
    raise HarnessBuildError("llgo build keeps crashing in the LLVM backend")


def _build_batch(ctx, tag, cases, kinds_bin, want_ref=True, opts=("-O0", "-O2"), allow_nodom=False):
    d = os.path.join(ctx.scratch, "prog-" + tag)
    shutil.rmtree(d, ignore_errors=True)
    files = dg.render_program(cases)
    e2e.write_module(d, files, modname="verifdefer")
    facts = kinds_facts(ctx, kinds_bin, d)
    if facts["N"] and not allow_nodom:
        # such functions use the frame pointer before it exists: llgo emits IR in which a definition does not dominate its
        # use; LLVM 14 dies on it at -O2. They are compiled apart (class defer:frame-setup-in-place-does-not-dominate).
        bad = [c for c in cases if any(l in facts["N"] for l in c["_fline"].values())]
        if bad:
            raise NoDom(bad)
    bins = {}
    for opt in opts:
        t = time.time()
        out = os.path.join(d, "prog" + opt)
        b = e2e.llgo_build(ctx, d, out, opt)
        if b.returncode != 0 and allow_nodom and opt != "-O0":
            ctx.log("llgo %s cannot compile the layouts whose frame set-up does not dominate (%s): judged at -O0 only" %
                    (opt, "LLVM backend crash" if _is_backend_crash(b.stdout + b.stderr) else "build error"))
            ctx.coverage["nodom_O2_build"] = "fails"
            continue
        if b.returncode != 0 and _is_backend_crash(b.stdout + b.stderr):
            raise BackendCrash(opt)
        if b.returncode != 0 or not os.path.exists(out):
            raise HarnessBuildError("llgo build %s of the generated defer program failed:\n%s" % (opt, (b.stdout + b.stderr)[-4000:]))
        ctx.log("llgo build %s of %d layouts: %.1fs" % (opt, len(cases), time.time() - t))
        bins[opt] = out
    if want_ref:
        out = os.path.join(d, "prog-ref")
        # reference toolchain WITHOUT inlining: gc inlines a deferred function into its compiler-made defer wrapper,
        # which makes `recover()` succeed one call level too deep (observed with go1.24: `defer F3()`, F3 calls F4,
        # F4 calls recover -> non-nil with inlining, nil with -l as the language demands)
        b = sh(["go", "build", "-gcflags=all=-N -l", "-o", out, "."], cwd=d, env=go_env(), timeout=600)
        if b.returncode != 0:
            raise RuntimeError("reference go build failed:\n" + (b.stdout + b.stderr)[-3000:])
        bins["ref"] = out
    return d, facts, bins


def run_all(bins, n, workers=8):
    """run every layout with every binary, each in a fresh process -> {name: [result per layout]}"""
    from concurrent.futures import ThreadPoolExecutor
    jobs = [(name, ci) for name in bins for ci in range(n)]
    with ThreadPoolExecutor(max_workers=workers) as ex:
        res = list(ex.map(lambda j: run_case(bins[j[0]], j[1], cpu_limit=(60.0 if j[0] == "ref" else 1.5)), jobs))
    out = {name: [None] * n for name in bins}
    for (name, ci), r in zip(jobs, res):
        if r[0] == "crash:timeout":
            # cut by the CPU limit: a genuine endless loop reproduces; a run disturbed by a busy machine does not
            r = run_case(bins[name], ci, cpu_limit=(120.0 if name == "ref" else 3.0))
        out[name][ci] = r
    return out


def run(ctx, args):
    quick = ctx.tier == "quick"
    n_gen = int(os.environ.get("VERIF_C04_N", "120" if quick else "1500"))
    rng = ctx.rng
    st = lean_check(ctx, ["LlgoVerif.Props.C04"], ["LlgoVerif/Props/C04.lean"],
                    extra_files=["LlgoVerif/Model/Defer.lean", "LlgoVerif/Spec/DeferSem.lean", "LlgoVerif/Lemmas/Defer.lean"],
                    leanchecker=(ctx.tier == "thorough"))
    ctx.log("lean: %d/%d theorems check" % (sum(1 for v in st.values() if v == "ok"), len(st)))
    modeld = build_driver(ctx, "modeld_c04")
    e2e.build_llgo(ctx)
    ctx.log("llgo built from", REPO)
    kinds_bin = build_go_harness(ctx, "c04", tags="llvm14,verif")
    ctx.log("kinds harness built")

    tls_fix = None   # which variant of the rethrow block the working tree has: probed on the first batch (corpus witness d)

    corpus = load_corpus()
    batches = []
    per = 460 if quick else 500
    gen = [dg.gen_case(rng, "gen-%d" % i) for i in range(n_gen)]
    # systematic single-function layouts: every sequence of <= 1 (quick) / <= 3 (thorough) defer statements over
    # {top level, taken if, skipped if, for of 0 / 2 iterations} x {with, without argument node} x fault position
    enum = dg.enum_cases(1 if quick else int(os.environ.get("VERIF_C04_ENUM", "3")))
    if quick:
        enum += rng.sample(dg.enum_cases(3), 30)
    # conditional explicit panic / fault / return between defer statements (branch taken and not taken), and owner
    # functions of range-over-func defers (>= 1 range-over-func loop that defers, mixed with own and ordinary loop defers)
    enum += dg.enum_panic_branch()
    # defers in blocks that leave a loop (break / labelled break / continue), else-branch defers inside loops followed by
    # post-loop defers, instances of generic functions with every defer shape, and the limit of the conditional-defer bit set
    lx, el, gn = dg.enum_loop_exit(), dg.enum_else_loop(), dg.enum_generic(2)
    enum += (rng.sample(lx, 40) + rng.sample(el, 16) + rng.sample(gn, 30)) if quick else (lx + el + gn)
    enum += dg.enum_cond64(sizes=(64,)) + dg.enum_cond64(sizes=(62, 63), patterns=("all", "last"), faults=(0,)) if quick else dg.enum_cond64()
    rf3 = dg.enum_rangefunc(3)
    enum += dg.enum_rangefunc(2) + (rng.sample(rf3, 20) if quick else rf3)
    allc = corpus + enum + gen
    if getattr(args, "replay", None):
        # ./check C04 --replay replay/C04/<key>.json : run only the recorded layout (plus the corpus witnesses)
        rp = json.load(open(args.replay))
        lay = rp.get("replay", {}).get("layout")
        if lay:
            lay["name"] = "replay"
            allc = corpus + [lay]
    for i in range(0, len(allc), per):
        batches.append(allc[i:i + per])

    stats = {"layouts": 0, "defer_statements": 0, "kinds": {"always": 0, "cond": 0, "loop": 0}, "with_node": 0,
             "model_status": {}, "spec_status": {}, "flags": {}, "llgo_differs_from_go": 0, "spec_vs_go_mismatch": 0,
             "model_vs_llgo_mismatch": 0, "unclassifiable": 0}
    nontrivial = set()
    samples = []
    evaluations = 0
    spec_bugs, corr_bugs = [], []
    ctx.nodom_cases = []

    def process(bi, cases, allow_nodom=False):
        nonlocal tls_fix, evaluations
        d, facts, bins = build_batch(ctx, "b%s" % bi, cases, kinds_bin, allow_nodom=allow_nodom)
        t0 = time.time()
        outs = run_all(bins, len(cases))
        ctx.log("batch %s: %d layouts x %d binaries run in %.1fs" % (bi, len(cases), len(bins), time.time() - t0))
        if tls_fix is None:
            # the stale-frame witness behaves as Go demands  <=>  the rethrow block resets the thread's defer head
            # (fixes/C04-1.diff applied); the model is run in the matching configuration
            w = [ci for ci, c in enumerate(cases) if c["name"].endswith("d-stale-frame")]
            tls_fix = 1 if (w and outs["-O0"][w[0]] == outs["ref"][w[0]]) else 0
            ctx.log("working tree: rethrow block %s" % ("resets the thread defer head (repaired)" if tls_fix else "keeps a stale thread defer head (defect d)"))
            # same for fixes/C04-2.diff: the witness of the dropped range-over-func defers in a generic instance
            w = [ci for ci, c in enumerate(cases) if c["name"].endswith("k-generic-rangefunc-defer")]
            ctx.inst_fix = 1 if (w and outs["-O0"][w[0]] == outs["ref"][w[0]]) else 0
            ctx.log("working tree: an instance of a generic function %s" % ("owns its range-over-func defers (repaired)" if ctx.inst_fix else "is treated as synthetic: its range-over-func defers are dropped (defects k, l)"))
            if ctx.inst_fix:
                facts = kinds_facts(ctx, kinds_bin, d)
        progs = []
        lines = []
        for ci, case in enumerate(cases):
            lay, index, info, problems, mism = dg.layouts(case, facts)
            if problems:
                ctx.log("layout problems in", case["name"], problems[:3])
                stats["layout_problems"] = stats.get("layout_problems", 0) + 1
            prog = dg.encode(case, lay, index, info)
            inverted = dg.history_not_wf(case, lay, index)
            progs.append((prog, lay, mism, inverted))
            if mism:
                # cl/blocks classified a block against its definition (checked with go/ssa's own dominator tree / CFG)
                stats["kind_mismatches"] = stats.get("kind_mismatches", 0) + len(mism)
                ctx.report("defer:kinds:" + mism[0]["why"],
                           "cl/blocks.Infos gives a defer statement a kind its block does not have (%s)" % mism[0]["why"],
                           {"case": case["name"], "layout": json.loads(dg.dumps(case)), "mismatches": mism,
                            "how": "render with harness/c04/defergen.py render_program([layout]); run the kinds harness (harness/c04/main.go) on main.go"})
            lines.append("model 0 %d %d %s" % (tls_fix, FUEL, prog))
            lines.append("model 1 %d %d %s" % (tls_fix, FUEL, prog))
            lines.append("spec %d %s" % (FUEL, prog))
        ans, rc, err = run_lines([modeld], lines)
        if len(ans) != len(lines):
            raise RuntimeError("modeld_c04 died: %d/%d answers\n%s" % (len(ans), len(lines), err[-2000:]))
        for ci, case in enumerate(cases):
            prog, lay, mism, inverted = progs[ci]
            m0, m2, sp = parse_answer(ans[3 * ci]), parse_answer(ans[3 * ci + 1]), parse_answer(ans[3 * ci + 2])
            real = {o: outs[o][ci] for o in ("-O0", "-O2") if o in outs}
            ref = outs["ref"][ci]
            evaluations += len(real) + 1
            stats["layouts"] += 1
            nd = 0
            for f, ss in lay.items():
                for s in ss:
                    nd += 1
                    stats["kinds"][s["kind"]] = stats["kinds"].get(s["kind"], 0) + 1
                    stats["with_node"] += 1 if (s["kind"] in ("loop", "x") or s["clo"] or s["nargs"]) else 0
            stats["defer_statements"] += nd
            stats["model_status"][m0[0].split(":")[0]] = stats["model_status"].get(m0[0].split(":")[0], 0) + 1
            stats["spec_status"][sp[0].split(":")[0]] = stats["spec_status"].get(sp[0].split(":")[0], 0) + 1
            if nd >= 1 and ("R" in sp[2] or "U" in sp[0] or nd >= 2):
                nontrivial.add(prog)
            if len(samples) < 3 and nd >= 3:
                samples.append({"layout": dg.dumps(case), "encoded": prog, "llgo-O0": real["-O0"], "go": ref, "model": m0, "spec": sp})
            # (0) the reference toolchain itself crashed (Go runtime `fatal error`, never a legitimate outcome of these
            #     programs; go1.24.0 does so after a recovery among range-over-func defers): the layout cannot be judged
            if ref[0].startswith("crash"):
                stats["reference_unusable"] = stats.get("reference_unusable", 0) + 1
                ctx.log("reference toolchain crashed on", case["name"], "- layout not judged")
                continue
            # (1) spec validation against the reference toolchain
            if (sp[0], sp[2]) != ref:
                stats["spec_vs_go_mismatch"] += 1
                spec_bugs.append({"case": case["name"], "layout": dg.dumps(case), "spec": sp, "go": ref})
                continue
            for opt, m in (("-O0", m0), ("-O2", m2)):
                if opt not in real:
                    continue
                if opt == "-O2" and not dg.toolchain_safe(case):
                    # a replayed / hand-written layout with a shape the sandbox's LLVM 14 (-opaque-pointers) is known to
                    # miscompile or crash on at -O2 (see defergen.toolchain_safe): judged at -O0 only
                    stats["O2_not_judged_llvm14"] = stats.get("O2_not_judged_llvm14", 0) + 1
                    continue
                r = real[opt]
                flags = m[1] + sp[1]
                for fl in flags:
                    stats["flags"][fl] = stats["flags"].get(fl, 0) + 1
                model_ok = agrees(m, r)
                if r == ref:
                    # (2) property holds here; the model must not predict otherwise
                    if not model_ok:
                        stats["model_vs_llgo_mismatch"] += 1
                        corr_bugs.append({"case": case["name"], "opt": opt, "layout": dg.dumps(case), "encoded": prog, "model": m, "llgo": r, "go": ref})
                    continue
                # (3) the real code violates the property on this layout
                stats["llgo_differs_from_go"] += 1
                key = None
                # a known class explains a failure only when the model reproduces it AND the static classification of the
                # layout is the one the definition gives (an `always` defer skipped by a panicking call or fault in
                # straight-line code - not a defer that cl/blocks wrongly made `always`)
                if model_ok and not mism:
                    if inverted and "frameInitSkipped" not in flags and "droppedDefer" not in flags:
                        # root cause: cl/blocks ordered a block that leaves a loop before the loop's blocks, the replay
                        # order of the statements is not their execution order (whatever the symptom: nodes left behind,
                        # calls out of order, a neighbour's node popped)
                        if any(fl in flags for fl in ("nodesLeft", "drainOrder", "wrongNode", "unexecAlways")):
                            key = "defer:loop-exit-block-defer-ordered-before-loop-defers"
                    if key is None and "frameNeverPopped" in flags and "staleFrame" in flags:
                        # the frame a generic instance left on the thread's chain was hit by a later panic
                        key = "defer:generic-instance-rangefunc-frame-never-popped"
                    if key is None:
                        for fl, k in CLASS:
                            if fl in flags:
                                key = k
                                break
                if key is None:
                    stats["unclassifiable"] += 1
                    key = "defer:layout:" + hashlib.sha1((opt + prog).encode()).hexdigest()[:16]
                    if not model_ok:
                        stats["model_vs_llgo_mismatch"] += 1
                ctx.report(key, "llgo %s output differs from Go's rule on a generated defer layout" % opt,
                           {"case": case["name"], "opt": opt, "layout": json.loads(dg.dumps(case)), "encoded": prog,
                            "llgo": r, "go": ref, "spec": sp, "model": m, "model_reproduces_llgo": model_ok,
                            "how": "render with harness/c04/defergen.py render_program([layout]); llgo build %s; echo 0 | ./prog" % opt})

    for bi, cases in enumerate(batches):
        process(bi, cases)
    if ctx.nodom_cases:
        stats["frame_setup_not_dominating_layouts"] = len(ctx.nodom_cases)
        process("nodom", ctx.nodom_cases, allow_nodom=True)

    if spec_bugs:
        ctx.log("SPEC BUG: Lean spec disagrees with the reference toolchain on %d layouts; first: %s" % (len(spec_bugs), json.dumps(spec_bugs[0])[:1500]))
        ctx.broken.append("spec validation: Spec.run != go reference on %d layouts" % len(spec_bugs))
        ctx.report_broken("spec-validation C04 (Lean spec vs go build)", {"first": spec_bugs[:3]})
    if corr_bugs and not ctx.violations:
        ctx.log("correspondence: model disagrees with llgo on %d layouts where llgo agrees with Go; first: %s" % (len(corr_bugs), json.dumps(corr_bugs[0])[:1500]))
        ctx.broken.append("correspondence llgo vs Lean model (%d layouts)" % len(corr_bugs))
        ctx.report_broken("correspondence C04 llgo-vs-model", {"first": corr_bugs[:3]})
    for name, s in st.items():
        if s != "ok":
            ctx.log("theorem", name, s)
    if any(s != "ok" for s in st.values()) and not ctx.violations:
        ctx.report_broken("Props/C04: " + ", ".join(n for n, s in st.items() if s != "ok"), st)

    ctx.coverage["samples"] = samples
    ctx.coverage["trusted_base"] += [
        "hand-written Lean model of ssa/eh.go + runtime Defer/Panic/Recover/Rethrow, tied by differential run: llgo-compiled generated layouts (-O0, -O2) vs compiled Lean model, %d layouts" % stats["layouts"],
        "static layout (kind/closure/nargs/compile order of every defer statement) read from the REAL cl/blocks.Infos + go/ssa by harness/c04/main.go",
        "Lean spec of Go's defer/panic/recover rule validated against the reference toolchain (go1.24 `go build` of the same program) on every layout",
        "Python generator/printer harness/c04/defergen.py (Go text and executed-path events of a layout are produced by the same walk)",
        "runtime.Goexit is NOT executed (no `runtime` import possible in llgo-compiled programs here)",
        "block kinds of cl/blocks.Infos are compared with go/ssa's dominator tree / CFG by the kinds harness (always => dominates every function end, loop <=> on a cycle)",
    ]
    ctx.assumptions += ["conditions and loop counts of a layout are fixed per case (read from package-level variables), so the executed path is known to the generator",
                        "model `ub` (node decoded with another statement's layout, longjmp into a dead frame) matches any continuation of the real output"]
    return ctx.finish("proof", {"evaluations": evaluations, "distinct_nontrivial": len(nontrivial),
                               "rule": "one evaluation = one layout run in a fresh process by one compiled binary (llgo -O0, llgo -O2, go reference); non-trivial = layout with >= 2 defer statements or a recover / uncaught panic in its Go trace; distinct by encoded layout",
                               "input_distribution": stats, "tree_configuration": {"rethrow_block_resets_thread_defer": bool(tls_fix),
                                                                                   "generic_instance_owns_rangefunc_defers": bool(getattr(ctx, "inst_fix", 0))}})
