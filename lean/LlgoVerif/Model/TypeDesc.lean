import LlgoVerif.Model.TypeStr
/-!
# Model of WHERE descriptor parts sit and how the run-time library finds them — C15 (second half of the tie)

Three two-site agreements between the compiler (which writes a descriptor) and the run-time library
(which reads it); each side is modelled branch by branch:

* **uncommon part** — `ssa/abitype.go abiType` emits `struct{ <rt header>; uncommonType; [n]Method }` where the
  header is `prog.rtNamed(abi.RuntimeName(t))` (`ssa/abi/type.go RuntimeName`: `runtimeNameC`, `emitHeader`);
  `runtime/abi/type.go (*Type).Uncommon()` re-derives the header from `Kind()` by a `switch` with one local layout
  `struct{ <XType>; u UncommonType }` per case (`readHeader`).  `Header.words` is the size of the header in
  machine words in llgo's layout (a func value = 2 words).
* **direct interface data** — `ssa/abitype.go directIfaceType` decides which types are stored IN the interface data
  word and sets `KindDirectIface` in `Kind_` (`directIfaceTypeC`); `runtime/internal/runtime/z_face.go
  DirectIfaceData` decides from a hand-written kind list whether the receiver word of an interface method call must
  be the ADDRESS of a copy of that word (`directIfaceData`).
* **struct `PkgPath_`** — `ssa/abitype.go abiExtendedFields` (`*types.Struct` case) takes the package of the first
  field whose name is not exported (`structPkgPath`); `runtime/internal/lib/reflect/type.go (*structType).Field`
  derives `StructField.PkgPath` from it with `abi.IsExported(name)` (`reflectFieldPkgPaths`).
-/
namespace LlgoVerif.Types

/-! ## the kind-specific header in front of the uncommon part -/

/-- the run-time descriptor types of `runtime/abi` (`_type`, `ptrtype`, … in `RuntimeName`'s spelling) -/
inductive Header
  | type | ptr | slice | chan | array | map | func | struct | iface
  deriving DecidableEq, Repr, Inhabited

/-- the Go / LLVM type name (`runtime/abi.<name>`) -/
def Header.name : Header → String
  | .type => "Type" | .ptr => "PtrType" | .slice => "SliceType" | .chan => "ChanType" | .array => "ArrayType"
  | .map => "MapType" | .func => "FuncType" | .struct => "StructType" | .iface => "InterfaceType"

/-- size in 8-byte words, llgo layout: `Type` = Size_, PtrBytes, {Hash,TFlag,Align_,FieldAlign_,Kind_}, Equal (2: a
    func value is a closure), GCData, Str_ (2), PtrToThis_ = 9;  `PtrType`/`SliceType` + Elem;  `ChanType` + Elem, Dir;
    `ArrayType` + Elem, Slice, Len;  `MapType` + Key, Elem, Bucket, Hasher (2), {KeySize,ValueSize,BucketSize,Flags};
    `FuncType` + In, Out (slices, 3 each);  `StructType`/`InterfaceType` + PkgPath_ (2), Fields/Methods (3). -/
def Header.words : Header → Nat
  | .type => 9 | .ptr => 10 | .slice => 10 | .chan => 11 | .array => 12
  | .map => 15 | .func => 15 | .struct => 14 | .iface => 14

/-- `RuntimeName` decided by the kind of the (underlying) type: every `*types.Basic` is a plain `_type` -/
def emitHeader : Kind → Header
  | .pointer => .ptr | .slice => .slice | .func => .func | .interface => .iface | .struct => .struct
  | .map => .map | .array => .array | .chan => .chan
  | _ => .type

/-- `(*Builder).RuntimeName`, structurally; `uh d` = `RuntimeName` of the underlying type of declaration `d` -/
def runtimeNameC (uh : Nat → Header) : GoType → Header
  | .alias _ a => runtimeNameC uh a
  | .basic _ => .type
  | .pointer _ => .ptr
  | .slice _ => .slice
  | .func _ _ _ => .func
  | .iface _ => .iface
  | .struct _ => .struct
  | .map _ _ => .map
  | .array _ _ => .array
  | .chan _ _ => .chan
  | .named d _ _ _ _ => uh d

/-- `(*abi.Type).Uncommon()`: the layout `struct{ <header>; u UncommonType }` chosen by the `switch t.Kind()` -/
def readHeader : Kind → Header
  | .struct => .struct
  | .pointer => .ptr
  | .func => .func
  | .slice => .slice
  | .array => .array
  | .chan => .chan
  | .map => .map
  | .interface => .iface
  | _ => .type

/-- byte offset at which the compiler puts the uncommon part / at which `Uncommon()` looks for it -/
def emitUncommonOffset (uh : Nat → Header) (t : GoType) : Nat := 8 * (runtimeNameC uh t).words
def readUncommonOffset (k : Kind) : Nat := 8 * (readHeader k).words

/-! ## values stored directly in the interface data word -/

mutual
/-- `directIfaceType` (`ssa/abitype.go`); `ud d` = the answer for the underlying type of declaration `d` -/
def directIfaceTypeC (ud : Nat → Bool) : GoType → Bool
  | .alias _ a => directIfaceTypeC ud a
  | .named d _ _ _ _ => ud d
  | .pointer _ => true
  | .chan _ _ => true
  | .map _ _ => true
  | .func _ _ _ => true
  | .basic k => k == .unsafePointer
  | .array n e => n == 1 && directIfaceTypeC ud e
  | .struct fs => directFieldsC ud fs
  | _ => false
/-- `t.NumFields() == 1 && directIfaceType(t.Field(0).Type())` -/
def directFieldsC (ud : Nat → Bool) : FList → Bool
  | .cons _ _ _ _ t .nil => directIfaceTypeC ud t
  | _ => false
end

/-- the kinds a direct-iface type can have -/
def directKind : Kind → Bool
  | .pointer | .chan | .map | .func | .unsafePointer | .array | .struct => true
  | _ => false

/-- `DirectIfaceData(typ)`: the kind is in the case list AND the descriptor carries `KindDirectIface` -/
def directIfaceData (k : Kind) (direct : Bool) : Bool :=
  (match k with
   | .bool | .int | .int8 | .int16 | .int32 | .int64 | .uint | .uint8 | .uint16 | .uint32 | .uint64 | .uintptr
   | .float32 | .float64 | .array | .struct | .chan | .func | .map | .unsafePointer => true
   | _ => false) && direct

/-- what an interface method call needs (`IfacePtrData`): the value lives IN the data word and the method's one-word
    receiver is a pointer TO the value — unless the value is itself the pointer receiver (kind `Pointer`) -/
def needsBoxedReceiver (k : Kind) (direct : Bool) : Bool := direct && k != .pointer

/-! ## struct `PkgPath_` and what reflect derives from it -/

/-- `abiExtendedFields`, `*types.Struct`: the package path of the first field with a non-exported name
    (`FList`'s `pkg` is `some path` exactly for those, embedded or not) -/
def structPkgPath : FList → Str
  | .nil => []
  | .cons _ (some p) _ _ _ _ => p
  | .cons _ none _ _ _ r => structPkgPath r

/-- `(*structType).Field(i).PkgPath` for every field: `if !abi.IsExported(p.Name_) { f.PkgPath = t.PkgPath_ }` -/
def derivePkgPaths (exported : Str → Bool) (pp : Str) : FList → List Str
  | .nil => []
  | .cons name _ _ _ _ r => (if exported name then [] else pp) :: derivePkgPaths exported pp r

def reflectFieldPkgPaths (exported : Str → Bool) (fs : FList) : List Str :=
  derivePkgPaths exported (structPkgPath fs) fs

/-- Go: `StructField.PkgPath` is the package path of a non-exported field name, empty for an exported one -/
def goFieldPkgPaths : FList → List Str
  | .nil => []
  | .cons _ pkg _ _ _ r => pkg.getD [] :: goFieldPkgPaths r

/-- go/types' invariant for a struct type written in package `P`: every field with a non-exported name belongs to `P` -/
def fieldsOfPkg (exported : Str → Bool) (P : Str) : FList → Bool
  | .nil => true
  | .cons name pkg _ _ _ r => (pkg == (if exported name then none else some P)) && fieldsOfPkg exported P r

/-- `abi.IsExported`: the first BYTE is an ASCII upper-case letter -/
def asciiExported : Str → Bool
  | c :: _ => 'A' ≤ c && c ≤ 'Z'
  | [] => false

end LlgoVerif.Types
