import LlgoVerif.Lemmas.Defer
/-!
# C04 — defer, panic, recover and Goexit follow Go's ordering rules

Property theorems only. Model: `LlgoVerif/Model/Defer.lean` (transcription of `ssa/eh.go` + the runtime's
`Defer` frames), specification: `LlgoVerif/Spec/DeferSem.lean`, lemmas: `LlgoVerif/Lemmas/Defer.lean`.

* frame level — the replay code `endDefer` emits for ONE function, for every layout `ss`, every history
  `hist` of executed defer statements and **every behaviour `exec` of the deferred calls** (return, panic,
  never come back) against Go's rule "pop and run until the stack is empty";
* program level — the executable whole-program model against the whole-program rule (this is what the
  check runs against llgo-compiled programs); here only concrete witnesses and the runtime's small laws.
-/
namespace LlgoVerif.Defer

/-! ## Frame level -/

/-- **Full statement** (false on the current tree): for every layout, every well-formed history and every
    behaviour of the deferred calls, the replay performs the calls Go's rule demands, in the same order, with
    the same effects. -/
def DeferRefines : Prop :=
  ∀ (α σ ε : Type) (ss : List Stmt) (hist : List (Nat × α)) (exec : Call α → σ → Out ε × σ) (st : σ),
    WF ss hist → unwindView ss exec hist st = Spec.unwindView ss exec hist st

/-- deferred calls that only record which statement ran -/
def logExec : Call Nat → List Nat → Out Unit × List Nat := fun c l => (.ok, l ++ [c.stmt])

/-- (a) DESIGN §8 row 3: `for {defer L1(i)}; defer B(); for {defer L2(i)}` — the drain loop of the upper run
    also consumes the nodes of the lower run because the node-less `B` leaves nothing between them:
    calls `2 2 0 0 1`, Go: `2 2 1 0 0`. -/
theorem defer_refines_counterexample_a : ¬ DeferRefines := by
  intro h
  have := h Nat (List Nat) Unit [⟨.loop, false, 1, 1⟩, ⟨.cond, false, 0, 2⟩, ⟨.loop, false, 1, 3⟩]
    [(0, 0), (0, 1), (1, 0), (2, 0), (2, 1)] logExec [] (by decide)
  revert this
  decide

/-- (b) row 3b: `defer A(); g(); defer B()` with `g` panicking — `B` is of kind *always*, has no "was executed"
    record and is replayed although it never ran: calls `1 0`, Go: `0`. -/
theorem defer_refines_counterexample_b : ¬ DeferRefines := by
  intro h
  have := h Nat (List Nat) Unit [⟨.always, false, 0, 1⟩, ⟨.always, false, 0, 2⟩] [(0, 0)] logExec [] (by decide)
  revert this
  decide

/-- (c) row 3c: `defer A1(7); g(); defer B1(8)` — the replay of the unexecuted `B1` pops `A1`'s node:
    one call, of statement 1 with the node of statement 0; `A1` never runs. -/
theorem defer_refines_counterexample_c : ¬ DeferRefines := by
  intro h
  have := h Nat (List Nat) Unit [⟨.always, false, 1, 1⟩, ⟨.always, false, 1, 2⟩] [(0, 7)] logExec [] (by decide)
  revert this
  decide

/-- **Partial statement** (proved): when no node-less defer lies between two loop defers and every *always*
    defer statement was reached, the replay is exactly Go's LIFO unwinding — same calls, same order, same
    final state, same abnormal exit — for every layout, history and behaviour of the deferred calls
    (including calls that panic and calls that never come back). -/
theorem defer_refines_partial {α σ ε : Type} (ss : List Stmt) (hist : List (Nat × α))
    (exec : Call α → σ → Out ε × σ) (st : σ)
    (hwf : WF ss hist) (h1 : NoNodelessBetweenLoops ss) (h2 : AllAlwaysExecuted ss hist) :
    unwindView ss exec hist st = Spec.unwindView ss exec hist st := by
  unfold unwindView Spec.unwindView unwind
  rw [slots_full, frameOf_args]
  have hD : Desc ss hist.reverse := by
    unfold Desc
    rw [List.pairwise_reverse]
    have := hwf.1
    rw [List.pairwise_map] at this
    exact this
  have hB : ∀ e ∈ hist.reverse, e.1 < ss.length := by
    intro e he
    exact (hwf.2 e.1 (List.mem_map.mpr ⟨e, List.mem_reverse.mp he, rfl⟩)).1
  have hX : ∀ e ∈ hist.reverse, isExtAt ss e.1 = false := by
    intro e he
    exact (hwf.2 e.1 (List.mem_map.mpr ⟨e, List.mem_reverse.mp he, rfl⟩)).2
  have hmem : ∀ k, k ∈ hist.reverse.map (·.1) ↔ k ∈ hist.map (·.1) := by
    intro k; simp
  have := replay_spec ss exec (frameOf ss hist).bits h1 ss.length (Nat.le_refl _) hist.reverse false st [] false
    hD hB hX (by intro h; cases h)
    (fun k _ ha => (hmem k).mpr (allAlways_spec h2 ha))
    (fun k _ hc => by rw [hmem k]; exact frameOf_bit_iff ss hist hc)
  exact this

/-- the hypotheses are satisfiable by a layout that mixes all three kinds, nodes and node-less statements -/
example : WF [⟨.always, false, 1, 1⟩, ⟨.cond, false, 0, 2⟩, ⟨.loop, false, 1, 3⟩, ⟨.loop, true, 0, 4⟩, ⟨.cond, true, 0, 5⟩, ⟨.always, false, 0, 6⟩]
      [(0, 1), (2, 0), (3, 0), (2, 1), (3, 1), (4, 0), (5, 0)] ∧
    NoNodelessBetweenLoops [⟨.always, false, 1, 1⟩, ⟨.cond, false, 0, 2⟩, ⟨.loop, false, 1, 3⟩, ⟨.loop, true, 0, 4⟩, ⟨.cond, true, 0, 5⟩, ⟨.always, false, 0, 6⟩] ∧
    AllAlwaysExecuted [⟨.always, false, 1, 1⟩, ⟨.cond, false, 0, 2⟩, ⟨.loop, false, 1, 3⟩, ⟨.loop, true, 0, 4⟩, ⟨.cond, true, 0, 5⟩, ⟨.always, false, 0, 6⟩]
      [(0, 1), (2, 0), (3, 0), (2, 1), (3, 1), (4, 0), (5, 0)] := by decide

/-- **Exactly once, in LIFO order** (under the same hypotheses): when control stays in the frame, the calls
    made are precisely the executed defer statements, most recent first, each with its own node. -/
theorem run_exactly_once_partial {α σ ε : Type} (ss : List Stmt) (hist : List (Nat × α))
    (exec : Call α → σ → Out ε × σ) (st : σ)
    (hwf : WF ss hist) (h1 : NoNodelessBetweenLoops ss) (h2 : AllAlwaysExecuted ss hist)
    (hstay : (unwindView ss exec hist st).2.2 = none) :
    (unwindView ss exec hist st).2.1 = hist.reverse.map (Spec.callOf ss) := by
  rw [defer_refines_partial ss hist exec st hwf h1 h2] at hstay ⊢
  unfold Spec.unwindView at hstay ⊢
  rw [Spec.unwind_calls ss exec _ _ _ hstay]
  simp

example : (unwindView [⟨.always, false, 1, 1⟩, ⟨.cond, false, 0, 2⟩, ⟨.loop, false, 1, 3⟩] logExec
    [(0, 1), (1, 0), (2, 0), (2, 1)] []).2.2 = none := by decide

/-- **At most once, never reordered — unconditionally.** For every layout, every frame state (reachable or
    not), every behaviour of the deferred calls and every way the replay is entered: the nodes handed to
    deferred calls so far, followed by the nodes still on the list, are exactly the original list. So no
    pushed defer is run twice, none is invented, and those that run do so in LIFO order of the pushes. -/
theorem run_once {α σ ε : Type} (ss : List Stmt) (exec : Call α → σ → Out ε × σ) (fr : Frame α) (st : σ) (re : Bool) :
    popped (unwind ss exec fr st re).1.log ++ (unwind ss exec fr st re).1.args = fr.args := by
  unfold unwind
  rw [replay_popped]
  simp [popped]

/-- **At most once — node-less statements**: every statement that pushes no node is called at most once
    per frame, whatever the deferred calls do. -/
theorem run_once_nodeless {α σ ε : Type} (ss : List Stmt) (exec : Call α → σ → Out ε × σ) (fr : Frame α) (st : σ)
    (re : Bool) (k : Nat) : nodelessCalls k (unwind ss exec fr st re).1.log ≤ 1 := by
  unfold unwind
  have h1 := replay_nodeless ss exec fr.bits k (slots ss) false ⟨fr.args, st, [], re⟩
  have h2 := slots_filter_le ss k
  simp [nodelessCalls] at h1 ⊢
  omega

/-- **Conditional defers never run when their bit is clear**: a `DeferInCond` statement that was not executed
    is not called by the replay — for every layout, history and behaviour of the calls. -/
theorem cond_clear_never_runs {α σ ε : Type} (ss : List Stmt) (hist : List (Nat × α))
    (exec : Call α → σ → Out ε × σ) (st : σ) (re : Bool) (k : Nat)
    (hk : isCondAt ss k = true) (hn : k ∉ hist.map (·.1)) :
    ∀ c ∈ (unwind ss exec (frameOf ss hist) st re).1.log, c.stmt ≠ k := by
  have hb : (frameOf ss hist).bits.testBit (bitOf ss k) = false := by
    cases hq : (frameOf ss hist).bits.testBit (bitOf ss k) with
    | false => rfl
    | true => exact absurd ((frameOf_bit_iff ss hist hk).mp hq) hn
  intro c hc
  unfold unwind at hc
  rcases replay_cond_clear ss exec (frameOf ss hist).bits hk hb (slots ss) false _ (fun p hp => mem_slots hp) c hc with h | h
  · simp at h
  · exact h

example : isCondAt [⟨.cond, false, 0, 1⟩, ⟨.cond, true, 1, 2⟩] 1 = true ∧ (1 : Nat) ∉ ([(0, 5)] : List (Nat × Nat)).map (·.1) := by decide

/-- **A panic inside a deferred call skips nothing**: the replay makes the same further calls, with the same
    nodes, and leaves the same state, whether a deferred call returns or panics into this frame (`landed`).
    (`calm exec` = the same calls with every such panic reported as a normal return.) -/
theorem panic_in_deferred_call_skips_nothing {α σ ε : Type} (ss : List Stmt) (exec : Call α → σ → Out ε × σ)
    (fr : Frame α) (st : σ) (re re' : Bool) :
    Sim (unwind ss exec fr st re) (unwind ss (calm exec) fr st re') := by
  unfold unwind
  exact replay_calm ss exec fr.bits (slots ss) false _ _ rfl rfl rfl

/-! ## Runtime laws (program level) -/

/-- `recover` yields the latest panic value (a newer panic replaces the pending one) … -/
theorem recover_returns_latest (v1 v2 : Int) (st : Model.MSt) :
    (Model.recover (Model.setPanic v2 (Model.setPanic v1 st))).1 = some v2 := rfl

/-- … clears it, so that a second `recover` yields nil … -/
theorem recover_clears (st : Model.MSt) :
    (Model.recover st).2.pending = none ∧ (Model.recover (Model.recover st).2).1 = none := ⟨rfl, rfl⟩

/-- … and normal return follows: with nothing pending, `Rethrow` returns and the function leaves through its
    `recover` block (returning the named results) instead of jumping to the caller's frame. -/
theorem normal_return_after_recover (link : Option Nat) (st : Model.MSt) :
    Model.rethrow link (Model.recover st).2 = none := rfl

/-- **Frames unwind innermost-first**: setting up a frame links it to the previous head of the thread's chain
    and makes it the head; a panic raised now targets exactly this frame, and when this frame is done
    (`SetThreadDefer(link)`) a still-pending panic is rethrown to the frame it was linked to. -/
theorem frames_unwind_innermost_first (a : Model.Act) (st : Model.MSt) (v : Int) :
    (Model.setupFrame a st).1.link = st.tls ∧
    (Model.setupFrame a st).2.tls = some a.id ∧
    Model.rethrow (Model.setupFrame a st).2.tls (Model.setPanic v (Model.setupFrame a st).2) = some (.jump a.id) ∧
    Model.raise (Model.setupFrame a st).1 (Model.setPanic v (Model.setupFrame a st).2) = .landed ∧
    ∀ st' : Model.MSt, Model.rethrow (Model.setupFrame a st).1.link (Model.setPanic v st') =
      some (match st.tls with | none => .exit v | some l => .jump l) := by
  refine ⟨rfl, rfl, rfl, ?_, ?_⟩
  · simp [Model.raise, Model.rethrow, Model.setPanic, Model.setupFrame]
  · intro st'
    simp only [Model.rethrow, Model.setPanic, Model.setupFrame]
    cases st.tls <;> rfl

/-! ## Program level: witnesses -/

/-- **Full statement, whole programs** (false on the current tree): the compiled program prints what Go's
    rule prints and ends the same way. -/
def ProgramRefines : Prop :=
  ∀ (cfg : Model.Cfg) (p : Prog) (fuel : Nat), Model.observe (Model.run cfg p fuel) = Spec.observe (Spec.run p fuel)

/-- (d) the last replayed call of `inner` panics: `rethrowBlk` is entered without `SetThreadDefer(link)`; the next
    panic in a deferred call of `outer` longjmps into the dead frame of `inner`. -/
def progD : Prog := ⟨[
  ⟨[⟨.always, false, 0, 1⟩], [.defer 0 [], .call 2 [], .mark 1], false, false, false, [], false⟩,
  ⟨[], [.recover], false, false, false, [], false⟩,
  ⟨[⟨.always, false, 0, 3⟩, ⟨.always, false, 0, 4⟩], [.defer 0 [], .defer 1 [], .call 5 []], false, false, false, [], false⟩,
  ⟨[], [.mark 2], false, false, false, [], false⟩,
  ⟨[], [.panic (.lit 23)], false, false, false, [], false⟩,
  ⟨[⟨.always, false, 0, 6⟩], [.defer 0 [], .panic (.lit 21)], false, false, false, [], false⟩,
  ⟨[], [.panic (.lit 22)], false, false, false, [], false⟩]⟩

theorem program_refines_counterexample_d : ¬ ProgramRefines := by
  intro h
  have := h ⟨false, false⟩ progD 24
  revert this
  decide

/-- with the proposed repair (`tlsFix`) the same program behaves as Go demands -/
theorem program_d_repaired : Model.observe (Model.run ⟨false, true⟩ progD 24) = Spec.observe (Spec.run progD 24) := by
  decide

/-- (e) `recover()` in a helper called by the deferred function stops the panic (Go: returns nil). -/
def progE : Prog := ⟨[
  ⟨[⟨.always, false, 0, 1⟩], [.defer 0 [], .call 2 [], .mark 1], false, false, false, [], false⟩,
  ⟨[], [.recover], false, false, false, [], false⟩,
  ⟨[⟨.always, false, 0, 3⟩], [.defer 0 [], .panic (.lit 5)], false, false, false, [], false⟩,
  ⟨[], [.call 4 []], false, false, false, [], false⟩,
  ⟨[], [.recover], false, false, false, [], false⟩]⟩

theorem program_refines_counterexample_e : ¬ ProgramRefines := by
  intro h
  have := h ⟨false, true⟩ progE 24
  revert this
  decide

/-- (f) `-O2`: `r = 3; defer …; r += 4; <fault>` recovered — the function returns 3 (Go: 7). -/
def progF : Prog := ⟨[
  ⟨[], [.call 1 []], false, false, false, [], false⟩,
  ⟨[⟨.always, false, 0, 2⟩], [.set false .r (.lit 3), .defer 0 [], .add false .r (.lit 4), .fault], false, false, false, [], false⟩,
  ⟨[], [.recover], false, false, false, [], false⟩]⟩

theorem program_refines_counterexample_f : ¬ ProgramRefines := by
  intro h
  have := h ⟨true, true⟩ progF 24
  revert this
  decide

/-- (g) a panic raised and recovered inside a deferred call clears the outer panic (Go: the outer panic
    continues and is recovered by the caller with value 1). -/
def progG : Prog := ⟨[
  ⟨[⟨.always, false, 0, 1⟩], [.defer 0 [], .call 2 [], .mark 1], false, false, false, [], false⟩,
  ⟨[], [.recover], false, false, false, [], false⟩,
  ⟨[⟨.always, false, 0, 3⟩], [.defer 0 [], .panic (.lit 1)], false, false, false, [], false⟩,
  ⟨[], [.call 4 [], .mark 2], false, false, false, [], false⟩,
  ⟨[⟨.always, false, 0, 5⟩], [.defer 0 [], .panic (.lit 2)], false, false, false, [], false⟩,
  ⟨[], [.recover], false, false, false, [], false⟩]⟩

theorem program_refines_counterexample_g : ¬ ProgramRefines := by
  intro h
  have := h ⟨false, true⟩ progG 24
  revert this
  decide

/-- a program on which model and rule agree although it re-panics in a deferred call, recovers twice and
    writes a named result from a deferred closure (`F0` returns 42) -/
theorem program_agrees_repanic_recover :
    Model.observe (Model.run ⟨false, false⟩ ⟨[
      ⟨[⟨.always, true, 0, 1⟩, ⟨.always, false, 0, 2⟩, ⟨.always, false, 0, 3⟩], [.defer 0 [], .defer 1 [], .defer 2 [], .panic (.lit 1)], true, false, false, [], false⟩,
      ⟨[], [.recover, .set true .r (.lit 42)], false, false, false, [], false⟩,
      ⟨[], [.mark 5], false, false, false, [], false⟩,
      ⟨[], [.recover, .panic (.lit 2)], false, false, false, [], false⟩]⟩ 24) =
    Spec.observe (Spec.run ⟨[
      ⟨[⟨.always, true, 0, 1⟩, ⟨.always, false, 0, 2⟩, ⟨.always, false, 0, 3⟩], [.defer 0 [], .defer 1 [], .defer 2 [], .panic (.lit 1)], true, false, false, [], false⟩,
      ⟨[], [.recover, .set true .r (.lit 42)], false, false, false, [], false⟩,
      ⟨[], [.mark 5], false, false, false, [], false⟩,
      ⟨[], [.recover, .panic (.lit 2)], false, false, false, [], false⟩]⟩ 24) := by
  decide

end LlgoVerif.Defer
