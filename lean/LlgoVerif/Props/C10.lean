import LlgoVerif.Lemmas.Chan
import LlgoVerif.Lemmas.ChanThreads
import LlgoVerif.Lemmas.ChanLive
import LlgoVerif.Lemmas.ChanResults
/-!
# C10 — channels and select obey Go's channel semantics under every schedule

Theorems about the transition system of `Model/Chan.lean` (= `z_chan.go` at lock/wait granularity).
`Reachable (init caps progs) s` quantifies over every number of channels and threads, every program,
every interleaving of steps, and every spurious wake-up.
-/
namespace LlgoVerif.Chan

/-! ## safety, for all interleavings -/

/-- a buffered channel never holds more than its capacity (and an unbuffered one holds nothing) -/
theorem cap_bound {cfg : Cfg} {caps : List Nat} {progs : List (List Op)} {s : State}
    (h : Reachable (init cfg caps progs) s) (c : Cid) : (s.chan c).len ≤ (s.chan c).cap :=
  (reachable_ginv h c).lenle

/-- FIFO, no duplication, no loss inside a buffered channel: the values committed by senders are, in order,
    the values already handed to receivers followed by the present ring contents -/
theorem fifo_buffered {cfg : Cfg} {caps : List Nat} {progs : List (List Op)} {s : State}
    (h : Reachable (init cfg caps progs) s) (c : Cid) (hc : 0 < (s.chan c).cap) :
    (s.chan c).sent = (s.chan c).recvd ++ (s.chan c).contents :=
  (reachable_ginv h c).fifo hc

/-- non-vacuity: a reachable state of a buffered channel with history `sent = [5, 6]`, `recvd = [5]`, ring `[6]` -/
example : ∃ s, Reachable (init .current [2] [[.send 0 5, .send 0 6], [.recv 0]]) s ∧ 0 < (s.chan 0).cap ∧
    (s.chan 0).sent = [5, 6] ∧ (s.chan 0).recvd = [5] ∧ (s.chan 0).contents = [6] := by
  refine ⟨(runSched (init .current [2] [[.send 0 5, .send 0 6], [.recv 0]])
      [.step 0, .step 0, .step 0, .step 1, .step 1]).getD (init .current [] []), ?_, by decide, by decide, by decide, by decide⟩
  exact reachable_runSched Reachable.init [.step 0, .step 0, .step 0, .step 1, .step 1] (by decide)

/-- … hence what receivers got from a buffered channel is a prefix of what was sent, in send order -/
theorem no_dup_no_loss_buffered {cfg : Cfg} {caps : List Nat} {progs : List (List Op)} {s : State}
    (h : Reachable (init cfg caps progs) s) (c : Cid) (hc : 0 < (s.chan c).cap) :
    (s.chan c).recvd <+: (s.chan c).sent :=
  ⟨_, (fifo_buffered h c hc).symm⟩

/-- the ring always holds exactly `len` values -/
theorem contents_length {cfg : Cfg} {caps : List Nat} {progs : List (List Op)} {s : State}
    (_h : Reachable (init cfg caps progs) s) (c : Cid) : (s.chan c).contents.length = (s.chan c).len := by
  have : ∀ (d : List Val) (cap n g : Nat), (ringFrom d cap g n).length = n := by
    intro d cap n; induction n with
    | zero => intro g; rfl
    | succ n ih => intro g; simp [ringFrom, ih]
  exact this _ _ _ _

/-- unbuffered hand-off: every value a sender committed was copied into exactly one armed receiver's variable
    (whether that receiver then REPORTS it is another matter: see `no_loss_counterexample`) -/
theorem unbuffered_handoff_exact {cfg : Cfg} {caps : List Nat} {progs : List (List Op)} {s : State}
    (h : Reachable (init cfg caps progs) s) (c : Cid) (hc : (s.chan c).cap = 0) :
    (s.chan c).sent = (s.chan c).recvd ∧ (s.chan c).len = 0 :=
  ⟨(reachable_ginv h c).unb_hist hc, (reachable_ginv h c).unb_len hc⟩

/-- no critical section re-opens a channel -/
theorem closed_stable (p : Point) (t : Tid) (ch : Chan) (h : ch.closed = true) : (body p t ch).ch.closed = true := by
  cases p <;> simp only [body]
  case sendLock c v => unfold sendLoop; split <;> (try split) <;> (try split) <;> simp_all [Chan.push, Chan.handOff] <;> (split <;> simp_all)
  case sendWaitU c v => unfold sendLoop; split <;> (try split) <;> (try split) <;> simp_all [Chan.push, Chan.handOff] <;> (split <;> simp_all)
  case sendWaitB c v => unfold sendLoop; split <;> (try split) <;> (try split) <;> simp_all [Chan.push, Chan.handOff] <;> (split <;> simp_all)
  case recvLock c sl => unfold recvLoop; split <;> (try split) <;> (try split) <;> simp_all [Chan.pop]
  case recvWaitU c sl => unfold recvLoop; split <;> (try split) <;> (try split) <;> simp_all [Chan.pop]
  case recvWaitB c sl => unfold recvLoop; split <;> (try split) <;> (try split) <;> simp_all [Chan.pop]
  case recv2Lock c b sq => unfold recv2Loop; split <;> (split <;> simp_all)
  case recv2Wait c b sq => unfold recv2Loop; split <;> (split <;> simp_all)
  case closeLock c => unfold closeBody; split <;> simp_all
  case trySendLock c v => unfold trySendBody; split <;> (try split) <;> simp_all [Chan.push, Chan.handOff]
  case tryRecvLock c sl a => unfold tryRecvBody; split <;> (try split) <;> (try split) <;> simp_all [Chan.pop]
  case prepLock c b => unfold prepBody; split <;> simp_all <;> (split <;> simp_all)
  case endLock c b => unfold endBody; simp_all; split <;> simp_all

/-- the second phase of a receive exists only for unbuffered channels -/
def Point.secondPhase : Point → Bool
  | .recv2Lock .. | .recv2Wait .. => true
  | _ => false

/-- … indeed a critical section asks for the second phase only on an unbuffered channel -/
theorem second_phase_only_unbuffered (p : Point) (t : Tid) (ch : Chan) (bc try_ : Bool) (seq : Nat)
    (h : (body p t ch).out = .notify (.finish bc (.recv2 try_ seq))) : ch.cap = 0 := by
  cases p <;> simp only [body] at h
  case sendLock c v => unfold sendLoop at h; split at h <;> (try split at h) <;> (try split at h) <;> simp_all <;> (split at h <;> simp_all)
  case sendWaitU c v => unfold sendLoop at h; split at h <;> (try split at h) <;> (try split at h) <;> simp_all <;> (split at h <;> simp_all)
  case sendWaitB c v => unfold sendLoop at h; split at h <;> (try split at h) <;> (try split at h) <;> simp_all <;> (split at h <;> simp_all)
  case recvLock c sl => unfold recvLoop at h; split at h <;> (try split at h) <;> (try split at h) <;> simp_all
  case recvWaitU c sl => unfold recvLoop at h; split at h <;> (try split at h) <;> (try split at h) <;> simp_all
  case recvWaitB c sl => unfold recvLoop at h; split at h <;> (try split at h) <;> (try split at h) <;> simp_all
  case recv2Lock c b' sq => unfold recv2Loop at h; split at h <;> (split at h <;> simp_all)
  case recv2Wait c b' sq => unfold recv2Loop at h; split at h <;> (split at h <;> simp_all)
  case closeLock c => unfold closeBody at h; split at h <;> simp_all
  case trySendLock c v => unfold trySendBody at h; split at h <;> (try split at h) <;> simp_all
  case tryRecvLock c sl a => unfold tryRecvBody at h; split at h <;> (try split at h) <;> (try split at h) <;> simp_all
  case prepLock c b' => unfold prepBody at h; split at h <;> simp_all
  case endLock c b' => unfold endBody at h; simp_all

/-- a receive reports `ok = false` only in a state in which the channel is closed and its buffer is drained:
    the only critical sections that return `recvOK = false` (ChanRecv both phases, chanTryRecv) run with the
    close flag set and `len = 0` -/
theorem recv_after_close (p : Point) (t : Tid) (ch : Chan) (hinv : ChanInv ch) (b : Bool) (c' : Cid)
    (hp2 : p.secondPhase = true → ch.cap = 0)
    (h : (body p t ch).out = .unlock (.recv c' false) ∨ (body p t ch).out = .unlock (.tryRecv false b) ∧ b = true) :
    ch.closed = true ∧ ch.len = 0 := by
  have hu := hinv.unb_len
  cases p <;> simp only [body] at h
  case sendLock c v => unfold sendLoop at h; split at h <;> (try split at h) <;> (try split at h) <;> simp_all <;> (split at h <;> simp_all)
  case sendWaitU c v => unfold sendLoop at h; split at h <;> (try split at h) <;> (try split at h) <;> simp_all <;> (split at h <;> simp_all)
  case sendWaitB c v => unfold sendLoop at h; split at h <;> (try split at h) <;> (try split at h) <;> simp_all <;> (split at h <;> simp_all)
  case recvLock c sl => unfold recvLoop at h; split at h <;> (try split at h) <;> (try split at h) <;> simp_all
  case recvWaitU c sl => unfold recvLoop at h; split at h <;> (try split at h) <;> (try split at h) <;> simp_all
  case recvWaitB c sl => unfold recvLoop at h; split at h <;> (try split at h) <;> (try split at h) <;> simp_all
  case recv2Lock c b' sq =>
    have hc := hu (hp2 rfl)
    unfold recv2Loop at h; split at h <;> (try split at h) <;> (try split at h) <;> simp_all
  case recv2Wait c b' sq =>
    have hc := hu (hp2 rfl)
    unfold recv2Loop at h; split at h <;> (try split at h) <;> (try split at h) <;> simp_all
  case closeLock c => unfold closeBody at h; split at h <;> simp_all
  case trySendLock c v => unfold trySendBody at h; split at h <;> (try split at h) <;> simp_all
  case tryRecvLock c sl a => unfold tryRecvBody at h; split at h <;> (try split at h) <;> (try split at h) <;> simp_all
  case prepLock c b' => unfold prepBody at h; split at h <;> simp_all
  case endLock c b' => unfold endBody at h; simp_all

/-! ## the channel mutex -/

/-- mutual exclusion: under every schedule at most one thread is inside the critical section of a channel
    (`notifyOps` is the only place where a thread reaches a scheduling point while holding `p.mutex`), and
    that thread is the recorded owner of the mutex -/
theorem mutex_exclusive {cfg : Cfg} {caps : List Nat} {progs : List (List Op)} {s : State}
    (h : Reachable (init cfg caps progs) s) (t1 t2 : Tid) (c : Cid) (hc : c < s.owner.length)
    (h1 : (s.thread t1).pc.inCS c = true) (h2 : (s.thread t2).pc.inCS c = true) : t1 = t2 := by
  have a := reachable_mutexInv h t1 c h1 hc
  have b := reachable_mutexInv h t2 c h2 hc
  rw [a] at b
  exact Option.some.inj b

/-- a thread waiting at `p.mutex.Lock()` of a channel whose critical section is occupied is not runnable -/
theorem mutex_blocks {cfg : Cfg} {caps : List Nat} {progs : List (List Op)} {s : State}
    (h : Reachable (init cfg caps progs) s) (t1 t2 : Tid) (p : Point) (hc : p.chan < s.owner.length)
    (h1 : (s.thread t1).pc.inCS p.chan = true) (h2 : (s.thread t2).pc = .at p) : runnable s t2 = false := by
  have a := reachable_mutexInv h t1 p.chan h1 hc
  simp [runnable, h2, wantedChan, a]

/-- the hypotheses are satisfiable: a sender that found no receiver is inside `notifyOps` (waking a registered
    select) while it holds the mutex of channel 0 -/
example : ∃ s, Reachable (init .current [0] [[.select [⟨0, false, 0, false⟩] true], [.send 0 1]]) s ∧
    (s.thread 1).pc.inCS 0 = true ∧ 0 < s.owner.length := by
  refine ⟨(runSched (init .current [0] [[.select [⟨0, false, 0, false⟩] true], [.send 0 1]])
      [.step 0, .step 0, .step 1, .step 1]).getD (init .current [] []), ?_, by decide, by decide⟩
  exact reachable_runSched Reachable.init [.step 0, .step 0, .step 1, .step 1] (by decide)

/-! ## select -/

/-- readiness of a select case at the instant its poll runs (mutex held): what Go calls "the case can proceed" -/
def sendReady (ch : Chan) : Prop :=
  ch.closed = false ∧ (if ch.cap = 0 then ch.getp = hasRecv else ch.len < ch.cap)

def recvReady (ch : Chan) : Prop :=
  if ch.cap = 0 then ch.closed = true ∨ (0 < ch.sends ∧ ch.getp ≠ hasRecv) else (0 < ch.len ∨ ch.closed = true)

/-- a select (blocking or not) commits a SEND case only if, at that instant, the channel is open and has room
    (buffered) / an armed receiver (unbuffered): `ChanTrySend` reports success only then -/
theorem select_commits_enabled_send (ch : Chan) (t : Tid) (v : Val) (hinv : ChanInv ch) (bc : Bool)
    (h : (trySendBody ch t v).out = .notify (.finish bc (.ret (.trySend true)))) : sendReady ch := by
  have hl := hinv.lenle
  unfold trySendBody at h
  unfold sendReady
  split at h <;> (try split at h) <;> simp_all
  omega

/-- a select commits a RECEIVE case (`tryOK = true`, directly or after the unbuffered second phase was entered)
    only if the channel was ready for receiving at that instant -/
theorem select_commits_enabled_recv (ch : Chan) (tg : Target) (acc : Bool) (hinv : ChanInv ch)
    (h : (∃ ok, (tryRecvBody ch tg acc).out = .unlock (.tryRecv ok true)) ∨
         (∃ bc n, (tryRecvBody ch tg acc).out = .notify (.finish bc n))) : recvReady ch := by
  unfold recvReady
  unfold tryRecvBody at h
  split at h <;> (try split at h) <;> (try split at h) <;> simp_all
  all_goals omega

/-- exactly one: when a poll succeeds, a blocking select records `(index of the polled case, recvOK)` and leaves
    the polling loop for the `endSelect` loop (from where `onRet` only ever goes to the next `endSelect` or returns) -/
theorem select_commit_records_polled_case (th : Thread) (sl : Sel) (ok : Bool) (cs : Case) (rest : List Case)
    (hb : sl.blocking = true) (hc : sl.cases = cs :: rest) (hl : cs.isNil = false) :
    (commitSel th sl ok).sel = some { sl with result := some (sl.idx, ok), idx := 0 } ∧
    (commitSel th sl ok).pc = .at (.endLock cs.c cs.send) := by
  simp [commitSel, hb, hc, nextCase, Case.live, hl]

example : ∃ sl : Sel, sl.blocking = true ∧ sl.cases = [⟨0, true, 5, false⟩] :=
  ⟨{ cases := [⟨0, true, 5, false⟩], blocking := true, sendFirst := true, pass := 0, idx := 0, result := none }, rfl, rfl⟩

example : ChanInv (newChan .current 0) ∧ (Point.recvLock 0 0).secondPhase = false ∧
    (body (.recvLock 0 0) 0 { newChan .current 0 with closed := true }).out = .unlock (.recv 0 false) := by
  refine ⟨newChan_inv .current 0, rfl, ?_⟩; decide

example : (trySendBody { newChan .current 1 with } 0 7).out = .notify (.finish true (.ret (.trySend true))) := by decide
example : ∃ ok, (tryRecvBody ((newChan .current 1).push 0 7) ⟨0, 0⟩ true).out = .notify (.finish true (.ret (.tryRecv ok true))) :=
  ⟨true, by decide⟩

/-! ## wake-ups -/

/-- no lost wake-up at the source: a critical section that changes anything a `Cond.Wait` loop tests
    (`len`, `close`, `getp`, `recvseq`) is followed — after `notifyOps`, before anything else — by
    `p.mutex.Unlock(); p.cond.Broadcast()` -/
theorem wakeup_follows_change (p : Point) (t : Tid) (ch : Chan)
    (h : (body p t ch).ch.len ≠ ch.len ∨ (body p t ch).ch.closed ≠ ch.closed ∨ (body p t ch).ch.getp ≠ ch.getp ∨
      (body p t ch).ch.recvseq ≠ ch.recvseq) :
    ∃ n, (body p t ch).out = .notify (.finish true n) :=
  body_change_broadcasts p t ch h

example : (body (.closeLock 0) 0 (newChan .current 1)).ch.closed ≠ (newChan .current 1).closed := by decide

/-- PARTIAL liveness (what holds of `NoStuckPair`): on a BUFFERED channel whose mutex is free, a sender asleep in
    `ChanSend`'s `for p.len == n { Wait }` and a receiver asleep in `ChanRecv`'s `for p.len == 0 { Wait }` never
    coexist — under every schedule, with spurious wake-ups, for any number of threads.  (Invariant `WaitInv`,
    `Lemmas/ChanLive.lean`: a thread asleep in one of these loops still has its wait condition true unless a
    `Broadcast` on the channel is pending.)  The decidable hypotheses: the channel exists and its mutex is free. -/
theorem no_stuck_pair_partial {cfg : Cfg} {caps : List Nat} {progs : List (List Op)} {s : State}
    (h : Reachable (init cfg caps progs) s) (c : Cid) (hc : c < s.owner.length) (hfree : s.own c = none)
    (t1 t2 : Tid) (v : Val) (sl : Nat)
    (h1 : (s.thread t1).pc = .at (.sendWaitB c v)) (w1 : (s.thread t1).waiting = true)
    (h2 : (s.thread t2).pc = .at (.recvWaitB c sl)) (w2 : (s.thread t2).waiting = true) : False := by
  obtain ⟨hw, hm⟩ := reachable_waitInv h
  have hnb : ¬ Busy s c := not_busy_of_free hm hc hfree
  have a := (hw.cond t1 _ h1 w1 hc).resolve_right hnb
  have b := (hw.cond t2 _ h2 w2 hc).resolve_right hnb
  simp only [waitCond, Point.chan] at a b
  omega

/-- … in particular the second disjunct of `parkedPair` (buffered pair) is unreachable with a free mutex, and a
    parked buffered sender means the buffer is full, a parked buffered receiver means it is empty -/
theorem parked_sender_sees_full {cfg : Cfg} {caps : List Nat} {progs : List (List Op)} {s : State}
    (h : Reachable (init cfg caps progs) s) (c : Cid) (hc : c < s.owner.length) (hfree : s.own c = none)
    (t : Tid) (v : Val) (h1 : (s.thread t).pc = .at (.sendWaitB c v)) (w1 : (s.thread t).waiting = true) :
    (s.chan c).len = (s.chan c).cap ∧ (s.chan c).cap ≠ 0 := by
  obtain ⟨hw, hm⟩ := reachable_waitInv h
  exact (hw.cond t _ h1 w1 hc).resolve_right (not_busy_of_free hm hc hfree)

theorem parked_receiver_sees_empty {cfg : Cfg} {caps : List Nat} {progs : List (List Op)} {s : State}
    (h : Reachable (init cfg caps progs) s) (c : Cid) (hc : c < s.owner.length) (hfree : s.own c = none)
    (t : Tid) (sl : Nat) (h1 : (s.thread t).pc = .at (.recvWaitB c sl)) (w1 : (s.thread t).waiting = true) :
    (s.chan c).len = 0 ∧ (s.chan c).cap ≠ 0 := by
  obtain ⟨hw, hm⟩ := reachable_waitInv h
  exact (hw.cond t _ h1 w1 hc).resolve_right (not_busy_of_free hm hc hfree)

/-- the hypotheses are satisfiable: a sender parked on a full buffer of capacity 1 with the mutex free -/
example : ∃ s, Reachable (init .current [1] [[.send 0 5, .send 0 6]]) s ∧ 0 < s.owner.length ∧ s.own 0 = none ∧
    (s.thread 0).pc = .at (.sendWaitB 0 6) ∧ (s.thread 0).waiting = true := by
  refine ⟨(runSched (init .current [1] [[.send 0 5, .send 0 6]]) [.step 0, .step 0, .step 0]).getD (init .current [] []), ?_,
    by decide, by decide, by decide, by decide⟩
  exact reachable_runSched Reachable.init [.step 0, .step 0, .step 0] (by decide)

/-! ## liveness and completeness of delivery: FALSE on the current code -/

/-- thread `t` is parked in the second phase of an unbuffered receive although its hand-off has been served:
    the channel has since been armed AGAIN, for another thread's variable -/
def servedButParked (s : State) (t : Tid) : Bool :=
  match (s.thread t).pc with
  | .at (.recv2Wait c _ _) =>
    (s.thread t).waiting && (s.chan c).getp == hasRecv &&
      (match (s.chan c).slot with | some tg => tg.tid != t | none => false)
  | _ => false

/-- a sender parked in `ChanSend` and a receiver parked in the first loop of `ChanRecv` on the same channel -/
def parkedPair (s : State) : Bool :=
  let ids := List.range s.threads.length
  ids.any fun t1 => ids.any fun t2 =>
    match (s.thread t1).pc, (s.thread t2).pc with
    | .at (.sendWaitU c1 _), .at (.recvWaitU c2 _) => (s.thread t1).waiting && (s.thread t2).waiting && c1 == c2
    | .at (.sendWaitB c1 _), .at (.recvWaitB c2 _) => (s.thread t1).waiting && (s.thread t2).waiting && c1 == c2
    | _, _ => false

/-- nothing can run, yet a receive whose value has been delivered has not returned, or a sender and a receiver
    sleep on the same channel -/
def stuck (s : State) : Bool :=
  noneRunnable s && ((List.range s.threads.length).any (servedButParked s) || parkedPair s)

/-- FULL STATEMENT (false, see below): no group of threads remains blocked while two of their pending
    operations could complete together -/
def NoStuckPair (cfg : Cfg) : Prop :=
  ∀ (caps : List Nat) (progs : List (List Op)) (s : State), Reachable (init cfg caps progs) s → stuck s = false

def stallProgs : List (List Op) := [[.recv 0], [.recv 0], [.send 0 42]]
/-- R1,R1,R1, S,S, R2,R2,R2, R1 -/
def stallSched : List Choice :=
  [.step 0, .step 0, .step 0, .step 2, .step 2, .step 1, .step 1, .step 1, .step 0]
def stallState : State := (runSched (init .current [0] stallProgs) stallSched).getD (init .current [] [])

theorem stall_run : runSched (init .current [0] stallProgs) stallSched = some stallState := by decide

/-- two receivers on one unbuffered channel and one sender: the sender has returned, 42 sits in the first
    receiver's variable, both receivers sleep in `Cond.Wait`, no thread is runnable -/
theorem stall_facts :
    noneRunnable stallState = true ∧ (stallState.thread 2).res = [.sent 0 42] ∧ (stallState.thread 0).rv = [42] ∧
    (stallState.thread 0).res = [] ∧ (stallState.thread 0).waiting = true ∧ (stallState.thread 1).waiting = true := by
  decide

theorem no_stuck_pair_counterexample : ¬ NoStuckPair .current := by
  intro h
  have hr := reachable_runSched (Reachable.init (s0 := init .current [0] stallProgs)) stallSched stall_run
  have := h [0] stallProgs stallState hr
  revert this
  decide

/-- FULL STATEMENT (false): when every thread has finished, every value a sender committed has been reported by
    some receive with `ok = true` or still sits in a buffer -/
def okValues (s : State) : List Val :=
  s.threads.flatMap fun th => th.res.filterMap fun
    | .recv _ v true => some v
    | .sel _ v true _ => some v
    | _ => none

def NoLoss (cfg : Cfg) : Prop :=
  ∀ (caps : List Nat) (progs : List (List Op)) (s : State), Reachable (init cfg caps progs) s → allDone s = true →
    ∀ ch ∈ s.chans, ∀ v ∈ ch.sent, v ∈ okValues s ∨ v ∈ ch.contents

def lossProgs : List (List Op) := [[.recv 0], [.send 0 42, .close 0]]
/-- R,R,R (armed, parked), S,S (hand-off), S (close), R (wakes: `recvOK = !p.close = false`) -/
def lossSched : List Choice := [.step 0, .step 0, .step 0, .step 1, .step 1, .step 1, .step 0]
def lossState : State := (runSched (init .current [0] lossProgs) lossSched).getD (init .current [] [])

theorem loss_run : runSched (init .current [0] lossProgs) lossSched = some lossState := by decide

/-- send then close on an unbuffered channel: the send completed, the receiver returns `(42, ok = false)` -/
theorem loss_facts :
    allDone lossState = true ∧ (lossState.thread 1).res = [.sent 0 42, .closed] ∧ (lossState.thread 0).res = [.recv 0 42 false] := by
  decide

theorem no_loss_counterexample : ¬ NoLoss .current := by
  intro h
  have hr := reachable_runSched (Reachable.init (s0 := init .current [0] lossProgs)) lossSched loss_run
  have := h [0] lossProgs lossState hr (by decide)
  revert this
  decide

/-! ## the `fixed` variant (`fixes/C10-1.diff`: hand-off counter `recvseq`)

All theorems above are generic in `cfg`; the two counterexamples are about `Cfg.current`.  With the counter: -/

def stallStateFixed : State := (runSched (init .fixed [0] stallProgs) stallSched).getD (init .fixed [] [])
theorem stall_fixed_run : runSched (init .fixed [0] stallProgs) stallSched = some stallStateFixed := by decide

/-- the schedule of `no_stuck_pair_counterexample` no longer stalls: the first receiver returns `(42, true)` and is
    done; the state is not `stuck` (the second receiver waits legitimately: there is no second send) -/
theorem stall_fixed_facts :
    stuck stallStateFixed = false ∧ (stallStateFixed.thread 0).pc = .done ∧
    (stallStateFixed.thread 0).res = [.recv 0 42 true] ∧ (stallStateFixed.thread 2).res = [.sent 0 42] ∧
    (stallStateFixed.thread 1).res = [] := by
  decide

def lossStateFixed : State := (runSched (init .fixed [0] lossProgs) lossSched).getD (init .fixed [] [])
theorem loss_fixed_run : runSched (init .fixed [0] lossProgs) lossSched = some lossStateFixed := by decide

/-- the schedule of `no_loss_counterexample` no longer loses the value: `(42, ok = true)` although the channel was
    closed between the hand-off and the receiver's wake-up -/
theorem loss_fixed_facts :
    allDone lossStateFixed = true ∧ (lossStateFixed.thread 0).res = [.recv 0 42 true] ∧
    (lossStateFixed.thread 1).res = [.sent 0 42, .closed] ∧
    (∀ ch ∈ lossStateFixed.chans, ∀ v ∈ ch.sent, v ∈ okValues lossStateFixed ∨ v ∈ ch.contents) := by
  decide

/-- fixed variant, second phase of a receive: the result is `ok = (recvseq ≠ seq)` — whether a hand-off happened since
    the receiver armed the channel — and no longer depends on the close flag; `ok = false` only if NO hand-off
    happened and the channel is closed -/
theorem recv_ok_iff_served_fixed (ch : Chan) (c : Cid) (seq : Nat) (hf : ch.fixed = true) :
    (ch.recvseq ≠ seq → (recv2Loop ch c false seq).out = .unlock (.recv c true)) ∧
    ((recv2Loop ch c false seq).out = .unlock (.recv c false) → ch.recvseq = seq ∧ ch.closed = true) ∧
    (ch.recvseq ≠ seq → (recv2Loop ch c true seq).out = .unlock (.tryRecv true true)) := by
  unfold recv2Loop
  simp only [hf, if_true]
  refine ⟨fun h => ?_, fun h => ?_, fun h => ?_⟩
  · simp [h]
  · split at h <;> simp_all
  · simp [h]

example : ({ newChan .fixed 0 with recvseq := 1 } : Chan).fixed = true ∧ ({ newChan .fixed 0 with recvseq := 1 } : Chan).recvseq ≠ 0 := by
  decide

/-- a hand-off increments the counter of a fixed channel (and `recvseq_mono`: nothing ever decreases it), so a receiver
    that armed at `seq` and was served sees `recvseq > seq` for ever after -/
theorem handoff_bumps_fixed (ch : Chan) (t : Tid) (v : Val) (hf : ch.fixed = true) : (ch.handOff t v).1.recvseq = ch.recvseq + 1 := by
  unfold Chan.handOff Chan.bump
  split <;> simp [hf]

/-- the hand-off part of `NoStuckPair`, as a theorem for the fixed variant: under every schedule, with spurious
    wake-ups, for any number of threads — a receiver asleep in the second phase on a channel whose mutex is free has NOT
    been served (`recvseq = seq`) and the channel is open.  A receiver whose value was delivered, or whose channel was
    closed, is never left asleep (the state of `stall_facts` is unreachable). -/
theorem served_receiver_not_parked_fixed {caps : List Nat} {progs : List (List Op)} {s : State}
    (h : Reachable (init .fixed caps progs) s) (c : Cid) (hc : c < s.owner.length) (hc' : c < s.chans.length)
    (hfree : s.own c = none) (t : Tid) (b : Bool) (seq : Nat)
    (h1 : (s.thread t).pc = .at (.recv2Wait c b seq)) (w1 : (s.thread t).waiting = true) :
    (s.chan c).recvseq = seq ∧ (s.chan c).closed = false := by
  obtain ⟨hw, hm⟩ := reachable_waitInv h
  have hfix : (s.chan c).fixed = true := reachable_fixInv h c hc'
  exact (hw.cond t _ h1 w1 hc).resolve_right (not_busy_of_free hm hc hfree) hfix

/-- the hypotheses are satisfiable: an armed, unserved receiver asleep in the second phase -/
example : ∃ s, Reachable (init .fixed [0] [[.recv 0]]) s ∧ 0 < s.owner.length ∧ 0 < s.chans.length ∧ s.own 0 = none ∧
    (s.thread 0).pc = .at (.recv2Wait 0 false 0) ∧ (s.thread 0).waiting = true := by
  refine ⟨(runSched (init .fixed [0] [[.recv 0]]) [.step 0, .step 0, .step 0]).getD (init .fixed [] []), ?_,
    by decide, by decide, by decide, by decide, by decide⟩
  exact reachable_runSched Reachable.init [.step 0, .step 0, .step 0] (by decide)

/-! ## the fixed variant, programs without select (`noSelect progs`, decidable): results-level theorems

`sentVals th c` / `okVals th c` are read off the thread's RESULTS (completed `c <- v` / `v, true := <-c`);
`sentFrom ch t` / `handedTo ch t` are read off the channel HISTORY (`sentBy`, `recvBy`: who committed / whose variable
received each value, in commit order; `sent = sentBy.map snd`, `recvd = recvBy.map snd` by `ChanInv`). -/

/-- (1) NO LOSS, NO DUPLICATION, at the level of what the goroutines observe — every reachable state, any number of
    threads, every schedule with spurious wake-ups:
    * every value whose send completed is in the history (`sentFrom = sentVals`, per sender, in order) and the
      history of sends is exactly: the values handed to receivers, then the buffer (`sent = recvd ++ contents`);
    * every value handed to receiver `t` has been returned by `t` with `ok = true`, once, in order — except at most
      one value that already sits in the variable of `t`'s running receive (served, second phase, not yet returned);
      each history entry names one receiver, so no value is reported by two receives. -/
theorem no_loss_fixed {caps : List Nat} {progs : List (List Op)} {s : State} (hns : noSelect progs = true)
    (h : Reachable (init .fixed caps progs) s) (c : Cid) (hc : c < s.chans.length) :
    (s.chan c).sent = (s.chan c).recvd ++ (s.chan c).contents ∧
    (s.chan c).sentBy.map (·.2) = (s.chan c).sent ∧ (s.chan c).recvBy.map (·.2) = (s.chan c).recvd ∧
    (∀ t, sentFrom (s.chan c) t = sentVals (s.thread t) c) ∧
    (∀ t, handedTo (s.chan c) t =
      okVals (s.thread t) c ++ inflightOf (s.thread t).pc (s.thread t).rv c (s.chan c).recvseq) := by
  obtain ⟨_, _, hi, _⟩ := reachable_plain_fixed hns h
  have hg := reachable_ginv h c
  refine ⟨?_, hg.sent_by, hg.recv_by, fun t => hi.sentL t c hc, fun t => hi.recvL t c hc⟩
  by_cases hcap : (s.chan c).cap = 0
  · have hl := hg.unb_len hcap
    have : (s.chan c).contents = [] := by simp [Chan.contents, hl, ringFrom]
    rw [this, List.append_nil]; exact hg.unb_hist hcap
  · exact hg.fifo (by omega)

/-- … in particular, when every thread is done nothing is in flight: what was sent on `c` by `t` is what `t` reported,
    and what the receivers reported with `ok = true`, receiver by receiver, is what the history handed out -/
theorem no_loss_fixed_done {caps : List Nat} {progs : List (List Op)} {s : State} (hns : noSelect progs = true)
    (h : Reachable (init .fixed caps progs) s) (c : Cid) (hc : c < s.chans.length) (t : Tid)
    (hd : (s.thread t).pc = .done) : handedTo (s.chan c) t = okVals (s.thread t) c := by
  have := (no_loss_fixed hns h c hc).2.2.2.2 t
  rw [hd] at this
  simpa [inflightOf] using this

example : noSelect [[.send 0 42, .close 0], [.recv 0]] = true := by decide

/-- a receive that returns `ok = false` (fixed variant, this critical section): the channel is closed, a buffered
    channel is drained, and for the second phase of an unbuffered receive NO hand-off happened since it armed -/
theorem recv_false_fixed (p : Point) (t : Tid) (ch : Chan) (hinv : ChanInv ch) (hf : ch.fixed = true)
    (hpl : p.plain = true) (hp2 : p.secondPhase = true → ch.cap = 0)
    (h : (body p t ch).out = .unlock (.recv p.chan false)) :
    ch.closed = true ∧ ch.len = 0 ∧ (∀ seq, p.secondPhase2 = some seq → ch.recvseq = seq) := by
  obtain ⟨h1, h2⟩ := recv_after_close p t ch hinv false p.chan hp2 (Or.inl h)
  refine ⟨h1, h2, fun seq hs => ?_⟩
  have := (body_unlock_ret p t ch _ hpl h).2.2.2
  rw [hs] at this
  have h3 := this hf
  injection h3 with _ h4
  simpa using h4.symm

/-- (2) THE STALL CLASS IS GONE, all schedules, any number of threads: a sender asleep in `ChanSend` and a receiver
    asleep in `ChanRecv` (first loop or second phase) never coexist on an unbuffered channel.  (`waiting = true` =
    asleep in `Cond.Wait`, not signalled, no spurious wake-up pending.) -/
theorem no_stuck_pair_fixed_unbuffered {caps : List Nat} {progs : List (List Op)} {s : State}
    (hns : noSelect progs = true) (h : Reachable (init .fixed caps progs) s) (c : Cid)
    (hc : c < s.chans.length) (hco : c < s.owner.length) (t1 t2 : Tid) (v : Val)
    (h1 : (s.thread t1).pc = .at (.sendWaitU c v)) (w1 : (s.thread t1).waiting = true)
    (h2 : (∃ sl, (s.thread t2).pc = .at (.recvWaitU c sl)) ∨ (∃ b seq, (s.thread t2).pc = .at (.recv2Wait c b seq)))
    (w2 : (s.thread t2).waiting = true) : False := by
  obtain ⟨hp, ha, _, hsu⟩ := reachable_plain_fixed hns h
  have c1 := hsu t1 _ h1 w1
  simp only [waitCondU, Point.chan] at c1
  rcases h2 with ⟨sl, h2⟩ | ⟨b, seq, h2⟩
  · have c2 := hsu t2 _ h2 w2
    simp only [waitCondU, Point.chan] at c2
    exact c1.2.1 c2.2.1
  · obtain ⟨hw, hm⟩ := reachable_waitInv h
    have hfix : (s.chan c).fixed = true := reachable_fixInv h c hc
    have c2 := (hw.cond t2 _ h2 w2 hco).resolve_right (not_busy_of_free hm hco (hp.free c)) hfix
    have := (ha.arm t2 c b seq hc (Or.inr h2)).2.2 c2.1.symm
    exact c1.2.1 this.1

/-- (2') with the buffered case (`no_stuck_pair_partial`): under `noSelect`, in the fixed variant, NO pair of a
    sleeping sender and a sleeping receiver exists on any channel, whatever the loops they sleep in -/
theorem no_stuck_pair_fixed {caps : List Nat} {progs : List (List Op)} {s : State}
    (hns : noSelect progs = true) (h : Reachable (init .fixed caps progs) s) (c : Cid)
    (hc : c < s.chans.length) (hco : c < s.owner.length) (t1 t2 : Tid) (v : Val)
    (h1 : (s.thread t1).pc = .at (.sendWaitU c v) ∨ (s.thread t1).pc = .at (.sendWaitB c v))
    (w1 : (s.thread t1).waiting = true)
    (h2 : (∃ sl, (s.thread t2).pc = .at (.recvWaitU c sl)) ∨ (∃ sl, (s.thread t2).pc = .at (.recvWaitB c sl)) ∨
      (∃ b seq, (s.thread t2).pc = .at (.recv2Wait c b seq)))
    (w2 : (s.thread t2).waiting = true) : False := by
  obtain ⟨hp, ha, _, hsu⟩ := reachable_plain_fixed hns h
  obtain ⟨hw, hm⟩ := reachable_waitInv h
  have hnb := not_busy_of_free hm hco (hp.free c)
  rcases h1 with h1 | h1
  · rcases h2 with h2 | ⟨sl, h2⟩ | h2
    · exact no_stuck_pair_fixed_unbuffered hns h c hc hco t1 t2 v h1 w1 (Or.inl h2) w2
    · have c1 := hsu t1 _ h1 w1
      have c2 := (hw.cond t2 _ h2 w2 hco).resolve_right hnb
      simp only [waitCondU, waitCond, Point.chan] at c1 c2
      exact c2.2 c1.1
    · exact no_stuck_pair_fixed_unbuffered hns h c hc hco t1 t2 v h1 w1 (Or.inr h2) w2
  · have c1 := (hw.cond t1 _ h1 w1 hco).resolve_right hnb
    simp only [waitCond, Point.chan] at c1
    rcases h2 with ⟨sl, h2⟩ | ⟨sl, h2⟩ | ⟨b, seq, h2⟩
    · have c2 := hsu t2 _ h2 w2
      simp only [waitCondU, Point.chan] at c2
      exact c1.2 c2.1
    · exact no_stuck_pair_partial h c hco (hp.free c) t1 t2 v sl h1 w1 h2 w2
    · exact c1.2 (ha.arm t2 c b seq hc (Or.inr h2)).1

/-- (3) ORDER PER (SENDER, RECEIVER) on an unbuffered channel: the values that went from `S` to `R`, in hand-off
    order, form a subsequence of `S`'s completed sends in program order AND of what `R` returned with `ok = true` in
    program order (plus possibly the one value `R` holds in flight) — deliveries respect the send order. -/
theorem fifo_unbuffered_fixed {caps : List Nat} {progs : List (List Op)} {s : State}
    (hns : noSelect progs = true) (h : Reachable (init .fixed caps progs) s) (c : Cid)
    (hc : c < s.chans.length) (hcap : (s.chan c).cap = 0) (S R : Tid) :
    (pairVals (s.chan c) S R).Sublist (sentVals (s.thread S) c) ∧
    (pairVals (s.chan c) S R).Sublist
      (okVals (s.thread R) c ++ inflightOf (s.thread R).pc (s.thread R).rv c (s.chan c).recvseq) ∧
    (s.chan c).sentBy.map (·.2) = (s.chan c).recvBy.map (·.2) := by
  obtain ⟨_, hsb, hrb, hS, hR⟩ := no_loss_fixed hns h c hc
  have hg := reachable_ginv h c
  have hv : (s.chan c).sentBy.map (·.2) = (s.chan c).recvBy.map (·.2) := by
    rw [hsb, hrb]; exact hg.unb_hist hcap
  obtain ⟨a, b⟩ := pairVals_sublist (s.chan c) S R hv
  rw [hS S] at a
  rw [hR R] at b
  exact ⟨a, b, hv⟩

/-- the witness: two senders, one receiver, values arrive as `S0`'s 1,2 in order -/
example : ∃ s, Reachable (init .fixed [0] [[.send 0 1, .send 0 2], [.recv 0, .recv 0]]) s ∧
    pairVals (s.chan 0) 0 1 = [1, 2] ∧ okVals (s.thread 1) 0 = [1, 2] ∧ sentVals (s.thread 0) 0 = [1, 2] := by
  refine ⟨(runSched (init .fixed [0] [[.send 0 1, .send 0 2], [.recv 0, .recv 0]])
      [.step 1, .step 1, .step 0, .step 0, .step 1, .step 1, .step 0, .step 1]).getD (init .fixed [] []), ?_,
    by decide, by decide, by decide⟩
  exact reachable_runSched Reachable.init
    [.step 1, .step 1, .step 0, .step 0, .step 1, .step 1, .step 0, .step 1] (by decide)

/-- the hypotheses are satisfiable (a sender asleep on an unbuffered channel) -/
example : ∃ s, Reachable (init .fixed [0] [[.send 0 5]]) s ∧ 0 < s.chans.length ∧ 0 < s.owner.length ∧
    (s.thread 0).pc = .at (.sendWaitU 0 5) ∧ (s.thread 0).waiting = true := by
  refine ⟨(runSched (init .fixed [0] [[.send 0 5]]) [.step 0, .step 0]).getD (init .fixed [] []), ?_,
    by decide, by decide, by decide, by decide⟩
  exact reachable_runSched Reachable.init [.step 0, .step 0] (by decide)

end LlgoVerif.Chan
